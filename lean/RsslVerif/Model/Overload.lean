import RsslVerif.Model.Conv
/-!
# Model of `find_function_type` (typer/src/typer/expressions.rs:309-416)

`find_function_type(overloads, template_args, param_types, ..)`:

1. for every overload whose arity admits the call (`param_types.len() <= signature.param_types.len()` and
   `>= signature.non_default_params`) run `find_overload_casts`: `ImplicitConversion::find` per argument, in
   order, giving up at the first argument that has no conversion;  (`Cand.casts`)
2. *numeric tournament*: keep the candidates that are, compared with **every other** viable candidate
   (`candidate == against` is skipped), not `Worse` on **any** argument's `NumericRank`;  (`winners`)
3. for each winner the vector `VectorRank::worst_to_best().map(|r| count of casts with vector rank r)`;
   take the lexicographic minimum (`Vec<usize>` order) and keep the winners that attain it;  (`finals`)
4. exactly one left ⇒ selected; several ⇒ `FunctionArgumentTypeMismatch(.., ambiguous = true)`;
   none (no viable candidate, or the tournament has no winner) ⇒ `.. ambiguous = false`.

Templates are outside the model (`template_args = []`, no template parameters).

## Panics
`get_rank` has a `panic!` arm (reachable for scalar → matrix before /repo 368a51b, unreachable since:
`Thm.C16.resolve_no_panic`).  The model keeps the panic path, so that this stays a theorem.  In the Rust code `get_rank` is evaluated lazily inside the
loops; nevertheless *the call panics iff some viable candidate has a conversion whose `get_rank` panics*:
with ≥ 2 viable candidates every candidate is compared against at least one other one and the inner `zip`
loop over the arguments has no early exit, so every cast of every viable candidate is ranked; with exactly one
viable candidate it wins the (empty) tournament and all its casts are ranked by `count_by_rank`.
The model therefore ranks all casts of all viable candidates first (`rankCand`) and reports `Outcome.panic`
if any of them panics.  The panic *message* (which names one offending cast) is not part of the outcome.

The `assert_eq!(candidate_casts.len(), against_casts.len())` of the tournament cannot fire: every cast list
has the length of the argument list (`rankCand_length`).
-/
namespace RsslVerif.Model.Overload
open RsslVerif.Gen.RankTable RsslVerif.Model.Conv

/-- `ir::ParamType` -/
structure Param where
  ty : Ty
  io : InputModifier
  deriving DecidableEq, Repr

/-- the `ExpressionType(required_type.type_id, required_type.input_modifier.into())` of `find_overload_casts` -/
def Param.ety (p : Param) : ETy := ⟨p.ty, if p.io.needsLvalue then .lvalue else .rvalue⟩

/-- one overload: its `FunctionId` and the part of its signature that resolution reads -/
structure Cand where
  id : Nat
  params : List Param
  nonDefault : Nat
  deriving DecidableEq, Repr

/-- result of steps 1 + ranking for one candidate -/
inductive CandResult where
  /-- arity mismatch or some argument has no implicit conversion -/
  | notViable
  /-- a modelled panic site was reached -/
  | panic (site : String)
  /-- viable: id and the `ConversionRank` of every argument -/
  | ranked (id : Nat) (ranks : List Rank)
  deriving DecidableEq, Repr

/-- the `zip` loop of `find_overload_casts` followed by `get_rank` of every cast.
    (`find` is evaluated for the arguments in order and stops at the first failure; ranking happens afterwards.) -/
def zipRanks : List Param → List ETy → Except String (Option (List Rank))
  | p :: ps, a :: as =>
    match find a p.ety with
    | .error e => .error e
    | .ok none => .ok none
    | .ok (some c) =>
      match zipRanks ps as with
      | .error e => .error e
      | .ok none => .ok none
      | .ok (some rs) =>
        match getRank c with
        | .error e => .error e
        | .ok r => .ok (some (r :: rs))
  | _, _ => .ok (some [])

/-- arity guard of `find_function_type`, then `find_overload_casts` and `get_rank` -/
def rankCand (args : List ETy) (c : Cand) : CandResult :=
  if args.length ≤ c.params.length ∧ c.nonDefault ≤ args.length then
    match zipRanks c.params args with
    | .error e => .panic e
    | .ok none => .notViable
    | .ok (some rs) => .ranked c.id rs
  else .notViable

def CandResult.isPanic : CandResult → Bool
  | .panic _ => true
  | _ => false

def CandResult.ranked? : CandResult → Option (Nat × List Rank)
  | .ranked id rs => some (id, rs)
  | _ => none

/-- `candidate_rank.compare(&against_rank) == Worse` (the `unreachable!()` arm of `compare` cannot be
    taken: `Thm.C16.compare_total`) -/
def isWorse (c a : NumRank) : Bool :=
  match c.compare a with
  | some .worse => true
  | _ => false

/-- the inner `zip` loop of the tournament: `not_worse_than` -/
def notWorse : List Rank → List Rank → Bool
  | c :: cs, a :: as => !isWorse c.num a.num && notWorse cs as
  | _, _ => true

/-- step 2: numeric tournament -/
def winners (l : List (Nat × List Rank)) : List (Nat × List Rank) :=
  l.filter fun c => l.all fun a => a.1 == c.1 || notWorse c.2 a.2

/-- `count_by_rank` -/
def countByRank (rs : List Rank) (v : VecRank) : Nat := (rs.filter fun r => r.vec == v).length

/-- `map_order`: occurrences of each vector rank, worst first -/
def order (rs : List Rank) : List Nat := VecRank.worstToBest.map (countByRank rs)

/-- `<` of `Vec<usize>` (lexicographic, a proper prefix is smaller) -/
def lexLt : List Nat → List Nat → Bool
  | [], [] => false
  | [], _ :: _ => true
  | _ :: _, [] => false
  | a :: as, b :: bs => a < b || (a == b && lexLt as bs)

/-- the `best_order` loop -/
def bestOrder (first : List Nat) (os : List (List Nat)) : List Nat :=
  os.foldl (fun best o => if lexLt o best then o else best) first

/-- step 3: winners attaining the minimal order vector -/
def finals (w : List (Nat × List Rank)) : List (Nat × List Rank) :=
  match w with
  | [] => []
  | c :: _ =>
    let best := bestOrder (order c.2) (w.map fun x => order x.2)
    w.filter fun x => order x.2 == best

/-- verdict of `find_function_type` -/
inductive Outcome where
  | selected (id : Nat)
  /-- `FunctionArgumentTypeMismatch(ids, .., true)`; ids in declaration order -/
  | ambiguous (ids : List Nat)
  /-- `FunctionArgumentTypeMismatch(all overloads, .., false)` -/
  | unmatched
  | panic
  deriving DecidableEq, Repr

/-- steps 2–4 on the ranked viable candidates -/
def resolveRanked (l : List (Nat × List Rank)) : Outcome :=
  match finals (winners l) with
  | [] => .unmatched
  | [c] => .selected c.1
  | cs => .ambiguous (cs.map (·.1))

/-- `find_function_type` -/
def resolve (cands : List Cand) (args : List ETy) : Outcome :=
  let rs := cands.map (rankCand args)
  if rs.any CandResult.isPanic then .panic
  else resolveRanked (rs.filterMap CandResult.ranked?)

/-! ## Literal transcription with lazy `get_rank` (`resolveLazy`)

`resolve` above ranks every cast of every viable candidate up front.  The Rust code calls `get_rank` lazily,
inside the tournament loops and again in `count_by_rank`.  `resolveLazy` transcribes that evaluation order
(including the `break` of the `against` loop); `Thm.C16.resolveLazy_eq_resolve` proves that both give the same
outcome for pairwise distinct candidate ids, so every theorem about `resolve` is a theorem about the literal
transcription. -/

/-- the `zip` loop of `find_overload_casts`: conversions only -/
def zipFind : List Param → List ETy → Except String (Option (List Conversion))
  | p :: ps, a :: as =>
    match find a p.ety with
    | .error e => .error e
    | .ok none => .ok none
    | .ok (some c) =>
      match zipFind ps as with
      | .error e => .error e
      | .ok none => .ok none
      | .ok (some cs) => .ok (some (c :: cs))
  | _, _ => .ok (some [])

/-- first loop of `find_function_type`: the viable candidates with their casts; `.error` = panic in `find` -/
def viableCasts (args : List ETy) : List Cand → Except String (List (Nat × List Conversion))
  | [] => .ok []
  | c :: cs =>
    if args.length ≤ c.params.length ∧ c.nonDefault ≤ args.length then
      match zipFind c.params args with
      | .error e => .error e
      | .ok r =>
        match viableCasts args cs with
        | .error e => .error e
        | .ok rest => .ok (match r with | some x => (c.id, x) :: rest | none => rest)
    else viableCasts args cs

/-- the inner `zip` loop of the tournament with `get_rank` evaluated per pair; no early exit -/
def notWorseL : List Conversion → List Conversion → Except String Bool
  | c :: cs, a :: as =>
    match getRank c with
    | .error e => .error e
    | .ok cr =>
      match getRank a with
      | .error e => .error e
      | .ok ar =>
        match notWorseL cs as with
        | .error e => .error e
        | .ok rest => .ok (!isWorse cr.num ar.num && rest)
  | _, _ => .ok true

/-- the `against` loop: `continue` on the candidate itself, `break` at the first candidate it is worse than -/
def winningL (c : Nat × List Conversion) : List (Nat × List Conversion) → Except String Bool
  | [] => .ok true
  | a :: as =>
    if a.1 == c.1 then winningL c as else
    match notWorseL c.2 a.2 with
    | .error e => .error e
    | .ok false => .ok false
    | .ok true => winningL c as

/-- the `candidate` loop -/
def winnersL (all : List (Nat × List Conversion)) :
    List (Nat × List Conversion) → Except String (List (Nat × List Conversion))
  | [] => .ok []
  | c :: cs =>
    match winningL c all with
    | .error e => .error e
    | .ok w =>
      match winnersL all cs with
      | .error e => .error e
      | .ok rest => .ok (if w then c :: rest else rest)

/-- `get_rank` of every cast of one winner (`count_by_rank`) -/
def ranksOf : List Conversion → Except String (List Rank)
  | [] => .ok []
  | c :: cs =>
    match ranksOf cs with
    | .error e => .error e
    | .ok rs =>
      match getRank c with
      | .error e => .error e
      | .ok r => .ok (r :: rs)

def rankWinners : List (Nat × List Conversion) → Except String (List (Nat × List Rank))
  | [] => .ok []
  | c :: cs =>
    match ranksOf c.2 with
    | .error e => .error e
    | .ok rs =>
      match rankWinners cs with
      | .error e => .error e
      | .ok rest => .ok ((c.1, rs) :: rest)

/-- `find_function_type`, evaluation order as in the source -/
def resolveLazy (cands : List Cand) (args : List ETy) : Outcome :=
  match viableCasts args cands with
  | .error _ => .panic
  | .ok casts =>
    match winnersL casts casts with
    | .error _ => .panic
    | .ok w =>
      match rankWinners w with
      | .error _ => .panic
      | .ok wr =>
        match finals wr with
        | [] => .unmatched
        | [c] => .selected c.1
        | cs => .ambiguous (cs.map (·.1))

/-- ascending insertion sort, used to print an ambiguity independently of the declaration order -/
def insertSorted (x : Nat) : List Nat → List Nat
  | [] => [x]
  | y :: ys => if x ≤ y then x :: y :: ys else y :: insertSorted x ys

def sortIds (l : List Nat) : List Nat := l.foldr insertSorted []

/-- the verdict as the harness observes it: the ambiguous candidates as a sorted list -/
def Outcome.normalize : Outcome → Outcome
  | .ambiguous ids => .ambiguous (sortIds ids)
  | o => o

end RsslVerif.Model.Overload

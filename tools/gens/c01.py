"""Gen.HlslGenTables: tables re-extracted from hlsl/src/ast_generate.rs (generate_intrinsic_op,
generate_literal, generate_expression's Sequence/Cast arms, generate_scalar_type), ir/src/intrinsics.rs
(IntrinsicOp) and ast/src/ast_expressions.rs (UnaryOp, BinOp, Literal)."""
import re


LEAN_SAFE = {"String": "Str"}   # Rust variant names that clash with Lean types


def register(gen, T):

    @gen("HlslGenTables")
    def hlsl_gen_tables():
        from rustsrc import ExtractError, fn_body, first_match, match_arms, enum_variants, normws, lean_str
        gen_rs = T.src("hlsl/src/ast_generate.rs")
        intr_rs = T.src("ir/src/intrinsics.rs")
        ast_rs = T.src("ast/src/ast_expressions.rs")
        irt_rs = T.src("ir/src/ir_types.rs")
        out = [T.header("HlslGenTables", ["hlsl/src/ast_generate.rs", "ir/src/intrinsics.rs",
                                          "ir/src/ir_types.rs", "ir/src/ir_statements.rs", "ast/src/ast_expressions.rs",
                                          "typer/src/typer/statements.rs"])]

        def enum(name, lean_name, src):
            raw = [v for v, _ in enum_variants(src, name)]
            vs = [LEAN_SAFE.get(v, v) for v in raw]
            out.append(f"inductive {lean_name} where\n" + "".join(f"  | {v}\n" for v in vs) +
                       "  deriving DecidableEq, Repr, Inhabited\n\n")
            out.append(f"def {lean_name}.all : List {lean_name} := " + T.lean_list("." + v for v in vs) + "\n\n")
            out.append(f"def {lean_name}.name : {lean_name} → String\n" +
                       "".join(f"  | .{v} => {lean_str(r)}\n" for v, r in zip(vs, raw)) + "\n")
            out.append(f"def {lean_name}.ofName? (s : String) : Option {lean_name} :=\n"
                       f"  {lean_name}.all.find? (fun k => k.name == s)\n\n")
            return vs

        iops = enum("IntrinsicOp", "IntrinsicOp", intr_rs)
        uops = enum("UnaryOp", "UnaryOp", ast_rs)
        bops = enum("BinOp", "BinOp", ast_rs)
        lits = enum("Literal", "LitKind", ast_rs)
        consts = enum("Constant", "ConstKind", irt_rs)

        # ---------------------------------------------------------------- generate_intrinsic_op
        body = fn_body(gen_rs, "generate_intrinsic_op")
        scrut, arms_text, end = first_match(body, r'^&?\s*intrinsic$')
        out.append("/-- `Form` of generate_intrinsic_op; `unexpected` = the arm panics -/\n"
                   "inductive Form where\n  | unary (op : UnaryOp)\n  | binary (op : BinOp)\n  | unexpected\n"
                   "  deriving DecidableEq, Repr, Inhabited\n\n")
        seen = {}
        for pats, guard, result in match_arms(arms_text):
            if guard is not None:
                raise ExtractError("generate_intrinsic_op: guard unsupported")
            m = re.fullmatch(r'Form::(Unary|Binary)\(\s*ast::(UnaryOp|BinOp)::([A-Za-z0-9_]+)\s*\)', result)
            if m:
                kind, en, v = m.groups()
                if (kind, en) not in (("Unary", "UnaryOp"), ("Binary", "BinOp")):
                    raise ExtractError(f"generate_intrinsic_op: {result!r} mixes form and operator enum")
                if v not in (uops if kind == "Unary" else bops):
                    raise ExtractError(f"generate_intrinsic_op: unknown operator {v}")
                val = f".{kind.lower()} .{v}"
            elif result.startswith("panic!"):
                val = ".unexpected"
            else:
                raise ExtractError(f"generate_intrinsic_op: arm result {result!r} unsupported")
            for p in pats:
                if p not in iops:
                    raise ExtractError(f"generate_intrinsic_op: pattern {p!r} is not an IntrinsicOp")
                if p not in seen:
                    seen[p] = val
        missing = [o for o in iops if o not in seen]
        if missing:
            raise ExtractError(f"generate_intrinsic_op: no arm for {missing}")
        out.append("def opForm : IntrinsicOp → Form\n" + "".join(f"  | .{o} => {seen[o]}\n" for o in iops) + "\n")
        # the second match: how a Form is expanded
        scrut2, arms2, _ = first_match(body, r'^form$', end)
        shape = {}
        for pats, guard, result in match_arms(arms2):
            r = normws(result)
            if pats == ["Form::Unary(op)"]:
                shape["unary"] = bool(re.search(
                    r'assert_eq!\(exprs\.len\(\), 1\); let inner = generate_expression\(&exprs\[0\], context\)\?; '
                    r'ast::Expression::UnaryOperation\(op, Box::new\(Located::none\(inner\)\)\)', r))
            elif pats == ["Form::Binary(op)"]:
                shape["binary"] = bool(re.search(
                    r'assert_eq!\(exprs\.len\(\), 2\); let left = generate_expression\(&exprs\[0\], context\)\?; '
                    r'let right = generate_expression\(&exprs\[1\], context\)\?; '
                    r'ast::Expression::BinaryOperation\( op, Box::new\(Located::none\(left\)\), Box::new\(Located::none\(right\)\), \)', r))
        out.append("/-- Form::Unary(op) builds UnaryOperation(op, gen exprs[0]) after asserting one operand -/\n"
                   f"def unaryFormAsModelled : Bool := {'true' if shape.get('unary') else 'false'}\n"
                   "/-- Form::Binary(op) builds BinaryOperation(op, gen exprs[0], gen exprs[1]) (operands in order) after asserting two -/\n"
                   f"def binaryFormAsModelled : Bool := {'true' if shape.get('binary') else 'false'}\n\n")

        # ---------------------------------------------------------------- generate_literal
        lbody = fn_body(gen_rs, "generate_literal")
        _, larms, _ = first_match(lbody, r'^\*literal$')
        out.append("/-- one arm of generate_literal -/\n"
                   "inductive LitArm where\n"
                   "  | plain (k : LitKind)          -- Literal::k(v) with the same value\n"
                   "  | widen (k : LitKind)          -- Literal::k(v as u64 / u64::from(v))\n"
                   "  | negMinus (k : LitKind)       -- Minus(Literal::k(-v as u64)), `-v` computed in the constant's own width\n"
                   "  | negMinusAbs (k : LitKind)    -- Minus(Literal::k(u64::from(v.unsigned_abs()))): total\n"
                   "  | panics\n"
                   "  | errs (e : String)            -- `return Err(GenerateError::e)`: the export is refused with a diagnostic, no panic\n"
                   "  | enumLookup\n"
                   "  deriving DecidableEq, Repr, Inhabited\n\n")
        rows = []
        for pats, guard, result in match_arms(larms):
            if len(pats) != 1:
                raise ExtractError("generate_literal: alternative patterns unsupported")
            pm = re.fullmatch(r'ir::Constant::([A-Za-z0-9]+)\((.*)\)', pats[0])
            if not pm or LEAN_SAFE.get(pm.group(1), pm.group(1)) not in consts:
                raise ExtractError(f"generate_literal: pattern {pats[0]!r}")
            ck = LEAN_SAFE.get(pm.group(1), pm.group(1))
            r = normws(result)
            bm = re.fullmatch(r'\{ (ast::Literal::[A-Za-z0-9]+\(.*\)) \}', r)
            if bm:
                r = bm.group(1)
            g = normws(guard) if guard else None
            if ck == "Enum":
                arm, gk = ".enumLookup", "always"
            elif r.startswith("panic!"):
                arm, gk = ".panics", "always" if g is None else None
            elif re.fullmatch(r'return Err\(GenerateError::([A-Za-z0-9]+)\)', r):
                # since fix 6017bad: an IntLiteral beyond +-u64::MAX is `Err(GenerateError::IntLiteralOutOfRange)`
                em = re.fullmatch(r'return Err\(GenerateError::([A-Za-z0-9]+)\)', r)
                arm, gk = f".errs {lean_str(em.group(1))}", "always" if g is None else None
            else:
                m = re.fullmatch(r'ast::Literal::([A-Za-z0-9]+)\((.*)\)', r)
                mneg = re.search(r'return Ok\(ast::Expression::UnaryOperation\( ast::UnaryOp::Minus, Box::new\(Located::none\('
                                 r'ast::Expression::Literal\( ast::Literal::([A-Za-z0-9]+)\((-v as u64|u64::from\(v\.unsigned_abs\(\)\))\), \)\)\), \)\);', r)
                if m and m.group(1) in lits:
                    inner = m.group(2)
                    if inner == "v":
                        arm = f".plain .{m.group(1)}"
                    elif inner in ("v as u64", "u64::from(v)"):
                        arm = f".widen .{m.group(1)}"
                    else:
                        raise ExtractError(f"generate_literal: literal payload {inner!r}")
                elif mneg and mneg.group(1) in lits:
                    arm = (".negMinus" if mneg.group(2) == "-v as u64" else ".negMinusAbs") + f" .{mneg.group(1)}"
                else:
                    raise ExtractError(f"generate_literal: result {r[:80]!r} unsupported")
                gk = None
            if gk is None:
                if g is None:
                    gk = "always"
                elif g == "v < 0":
                    gk = "neg"
                elif g == "v < 0 && -v <= u64::MAX as i128":
                    gk = "negFitsU64"
                elif g == "v >= 0 && v <= u64::MAX as i128":
                    gk = "nonnegFitsU64"
                else:
                    raise ExtractError(f"generate_literal: guard {g!r} unsupported")
            rows.append((ck, gk, arm))
        out.append("inductive LitGuard where | always | neg | negFitsU64 | nonnegFitsU64\n"
                   "  deriving DecidableEq, Repr, Inhabited\n\n")
        out.append("/-- arms of `match *literal` in generate_literal, in source order (first match wins) -/\n"
                   "def literalArms : List (ConstKind × LitGuard × LitArm) :=\n  " +
                   T.lean_list(f"(.{c}, .{g}, {a})" for c, g, a in rows) + "\n\n")

        # ---------------------------------------------------------------- generate_expression: Sequence / Cast arms
        ebody = fn_body(gen_rs, "generate_expression")
        _, earms, _ = first_match(ebody, r'^expr$')
        facts = {"sequenceRightNested": False, "sequenceAssertsTwo": False, "castDropsOnlyLiteralTargets": False,
                 "ternaryInOrder": False}
        for pats, guard, result in match_arms(earms):
            r = normws(result)
            if pats == ["ir::Expression::Sequence(exprs)"]:
                facts["sequenceAssertsTwo"] = "assert!(exprs.len() >= 2);" in r
                facts["sequenceRightNested"] = bool(re.search(
                    r'let \(last, front\) = exprs\.split_last\(\)\.unwrap\(\); let mut end = generate_expression\(last, context\)\?; '
                    r'for expr in front\.iter\(\)\.rev\(\) \{ let expr = generate_expression\(expr, context\)\?; '
                    r'end = ast::Expression::BinaryOperation\( ast::BinOp::Sequence, Box::new\(Located::none\(expr\)\), '
                    r'Box::new\(Located::none\(end\)\), \) \} end', r))
            elif pats == ["ir::Expression::Cast(type_id, expr)"]:
                facts["castDropsOnlyLiteralTargets"] = bool(re.search(
                    r'let to_literal = matches!\( context\.module\.type_registry\.get_type_layer\(unmod_id\), '
                    r'ir::TypeLayer::Scalar\(ir::ScalarType::IntLiteral\) \| ir::TypeLayer::Scalar\(ir::ScalarType::FloatLiteral\) \); '
                    r'let inner = generate_expression\(expr, context\)\?; if !to_literal \{ let ty = generate_type_id\(\*type_id, context\)\?; '
                    r'ast::Expression::Cast\(Box::new\(ty\), Box::new\(Located::none\(inner\)\)\) \} else \{ inner \}', r))
            elif pats == ["ir::Expression::TernaryConditional(expr_cond, expr_true, expr_false)"]:
                facts["ternaryInOrder"] = bool(re.search(
                    r'ast::Expression::TernaryConditional\(expr_cond, expr_true, expr_false\)\s*\}?$', r)) and \
                    r.index("generate_expression(expr_cond") < r.index("generate_expression(expr_true") < r.index("generate_expression(expr_false")
        for k, v in facts.items():
            out.append(f"def {k} : Bool := {'true' if v else 'false'}\n")
        out.append("\n")
        # every arm of `match expr`: one per ir::Expression variant, none guarded (a guarded arm in front of a modelled one
        # would special-case some operand shapes: `c ? a : b` with c = `a < b` written as `min(a, b)`, `x == x` as `true`, ...);
        # the leaf / operator / call / ternary arms textually as modelled
        evariants = [v for v, _ in enum_variants(T.src("ir/src/ir_expressions.rs"), "Expression")]
        eexpected = {
            "ir::Expression::Literal(lit)": "generate_literal(lit, context)?",
            "ir::Expression::Variable(v)": "ast::Expression::Identifier(ast::ScopedIdentifier::trivial( context.get_variable_name(*v)?, ))",
            "ir::Expression::Global(v)": "ast::Expression::Identifier(scoped_name_to_identifier( context.get_global_name_full(*v)?, ))",
            "ir::Expression::TernaryConditional(expr_cond, expr_true, expr_false)": (
                "{ let expr_cond = generate_expression(expr_cond, context)?; let expr_true = generate_expression(expr_true, context)?; "
                "let expr_false = generate_expression(expr_false, context)?; let expr_cond = Box::new(Located::none(expr_cond)); "
                "let expr_true = Box::new(Located::none(expr_true)); let expr_false = Box::new(Located::none(expr_false)); "
                "ast::Expression::TernaryConditional(expr_cond, expr_true, expr_false) }"),
            "ir::Expression::Call(id, ct, exprs)": (
                "{ let tys = if let Some(template_instantiation_data) = context .module .function_registry "
                ".get_template_instantiation_data(*id) { template_instantiation_data.template_args.as_slice() } else { &[] }; "
                "if let Some(intrinsic) = context.module.function_registry.get_intrinsic_data(*id) { "
                "generate_intrinsic_function(intrinsic, tys, exprs, context)? } else { generate_user_call(*id, ct, tys, exprs, context)? } }"),
            "ir::Expression::IntrinsicOp(intrinsic, exprs)": "{ generate_intrinsic_op(intrinsic, exprs, context)? }",
        }
        erows = []
        for pats, guard, result in match_arms(earms):
            pat = " | ".join(pats)
            km = re.fullmatch(r'ir::Expression::([A-Za-z0-9]+)(\(.*\))?', pat)
            kind = km.group(1) if km else pat
            erows.append((kind, guard is not None, pat not in eexpected or eexpected[pat] == normws(result)))
        out.append("/-- `ir::Expression` -/\ndef expressionKinds : List String := " + T.lean_list(lean_str(k) for k in evariants) + "\n\n")
        out.append("/-- the arms of `match expr` in generate_expression, in source order: (variant matched, the arm has a guard, the arm's\n"
                   "body is textually the modelled one — checked for Literal / Variable / Global / TernaryConditional / Call / IntrinsicOp;\n"
                   "the Sequence / Cast arms have their own facts above, the vector arms theirs in `Gen.HlslVecTables`) -/\n"
                   "def expressionArms : List (String × Bool × Bool) :=\n  " +
                   T.lean_list(f"({lean_str(k)}, {'true' if g else 'false'}, {'true' if ok else 'false'})" for k, g, ok in erows) + "\n\n")
        ewrap = normws(ebody[:ebody.index("match expr")]) == "let expr =" and normws(ebody[ebody.index("match expr"):]).endswith("}; Ok(expr)")
        out.append("/-- every expression variant has exactly one arm, no arm has a guard, the checked arms are the modelled ones, and\n"
                   "the function is nothing but that match -/\n"
                   "def expressionArmsAsModelled : Bool :=\n"
                   "  expressionArms.length == expressionKinds.length &&\n"
                   "  expressionKinds.all (fun k => (expressionArms.filter (fun a => a.1 == k)).length == 1) &&\n"
                   f"  expressionArms.all (fun a => !a.2.1 && a.2.2) && {'true' if ewrap else 'false'}\n\n")

        # ---------------------------------------------------------------- generate_scope_block (label handling)
        sb = normws(fn_body(gen_rs, "generate_scope_block"))
        scope_ok = sb == (
            "let mut statements = Vec::new(); for statement in &block.0 { let statement = generate_statement(statement, context)?; "
            "if let Some(ast::Statement { kind: ast::StatementKind::CaseLabel(_, current) | ast::StatementKind::DefaultLabel(current), .. }) "
            "= statements.last_mut() && let ast::Statement { kind: ast::StatementKind::Empty, .. } = **current "
            "{ **current = statement; continue; } statements.push(statement); } Ok(statements)")
        out.append("/-- generate_scope_block: a statement fills the still-empty slot of a label that is the last statement so far\n"
                   "(and nothing else happens), otherwise it is pushed — the loop `Model.GenHlsl.genStmtsAcc` / `pushStmt` mirrors -/\n"
                   f"def scopeBlockAsModelled : Bool := {'true' if scope_ok else 'false'}\n")
        gs = normws(fn_body(gen_rs, "generate_statement"))
        labels_ok = bool(re.search(
            r"ir::StatementKind::CaseLabel\(value\) => \{ let expr = generate_literal\(value, context\)\?; let empty_statement = Box::new\(ast::Statement \{ "
            r"kind: ast::StatementKind::Empty, location: SourceLocation::UNKNOWN, attributes: Vec::new\(\), \}\); "
            r"ast::StatementKind::CaseLabel\(Located::none\(expr\), empty_statement\) \}", gs)) and bool(re.search(
            r"ir::StatementKind::DefaultLabel => \{ let empty_statement = Box::new\(ast::Statement \{ kind: ast::StatementKind::Empty, "
            r"location: SourceLocation::UNKNOWN, attributes: Vec::new\(\), \}\); ast::StatementKind::DefaultLabel\(empty_statement\) \}", gs))
        out.append("/-- generate_statement: a label is emitted with an empty statement in its slot; the constant goes through generate_literal -/\n"
                   f"def labelsEmittedEmpty : Bool := {'true' if labels_ok else 'false'}\n\n")

        # ---------------------------------------------------------------- generate_statement: every arm of `match &statement.kind`
        # (seeded mutant C01-3 added a *guarded* IfElse arm in front of the modelled one that rewrites the condition)
        stmt_rs = T.src("ir/src/ir_statements.rs")
        kinds = [v for v, _ in enum_variants(stmt_rs, "StatementKind")]
        gbody = fn_body(gen_rs, "generate_statement")
        _, garms, gend = first_match(gbody, r'^&statement\.kind$')
        BOX = ("let %s = Box::new(ast::Statement { kind: ast::StatementKind::Block(%s), location: SourceLocation::UNKNOWN, "
               "attributes: Vec::new(), });")
        EMPTY = ("let empty_statement = Box::new(ast::Statement { kind: ast::StatementKind::Empty, location: SourceLocation::UNKNOWN, "
                 "attributes: Vec::new(), });")
        cond_block = lambda k: ("{ let cond = generate_expression(cond, context)?; let block = generate_scope_block(block, context)?; "
                                "let cond = Located::none(cond); " + BOX % ("block", "block") + " ast::StatementKind::" + k + "(cond, block) }")
        expected = {
            "ir::StatementKind::Expression(expr)": "{ let expr = generate_expression(expr, context)?; ast::StatementKind::Expression(expr) }",
            "ir::StatementKind::Var(def)": "{ let def = generate_variable_definition(def, context)?; ast::StatementKind::Var(def) }",
            "ir::StatementKind::Block(block)": "{ let statements = generate_scope_block(block, context)?; ast::StatementKind::Block(statements) }",
            "ir::StatementKind::If(cond, block)": cond_block("If"),
            "ir::StatementKind::IfElse(cond, block_true, block_false)": (
                "{ let cond = generate_expression(cond, context)?; let block_true = generate_scope_block(block_true, context)?; "
                "let block_false = generate_scope_block(block_false, context)?; let cond = Located::none(cond); "
                + BOX % ("block_true", "block_true") + " " + BOX % ("block_false", "block_false") +
                " ast::StatementKind::IfElse(cond, block_true, block_false) }"),
            "ir::StatementKind::For(init, cond, inc, block)": (
                "{ let init = generate_for_init(init, context)?; "
                "let cond = match cond { Some(cond) => Some(Located::none(generate_expression(cond, context)?)), None => None, }; "
                "let inc = match inc { Some(inc) => Some(Located::none(generate_expression(inc, context)?)), None => None, }; "
                "let block = generate_scope_block(block, context)?; " + BOX % ("block", "block") +
                " ast::StatementKind::For(init, cond, inc, block) }"),
            "ir::StatementKind::While(cond, block)": cond_block("While"),
            "ir::StatementKind::DoWhile(block, cond)": (
                "{ let block = generate_scope_block(block, context)?; let cond = generate_expression(cond, context)?; "
                "let cond = Located::none(cond); " + BOX % ("block", "block") + " ast::StatementKind::DoWhile(block, cond) }"),
            "ir::StatementKind::Switch(cond, block)": cond_block("Switch"),
            "ir::StatementKind::Break": "ast::StatementKind::Break",
            "ir::StatementKind::Continue": "ast::StatementKind::Continue",
            "ir::StatementKind::Discard": "ast::StatementKind::Discard",
            "ir::StatementKind::Return(expr_opt)": (
                "{ if let Some(expr) = expr_opt { let expr = generate_expression(expr, context)?; "
                "ast::StatementKind::Return(Some(Located::none(expr))) } else { ast::StatementKind::Return(None) } }"),
            "ir::StatementKind::CaseLabel(value)": (
                "{ let expr = generate_literal(value, context)?; " + EMPTY +
                " ast::StatementKind::CaseLabel(Located::none(expr), empty_statement) }"),
            "ir::StatementKind::DefaultLabel": "{ " + EMPTY + " ast::StatementKind::DefaultLabel(empty_statement) }",
        }
        srows = []
        for pats, guard, result in match_arms(garms):
            pat = " | ".join(pats)
            km = re.fullmatch(r'ir::StatementKind::([A-Za-z0-9]+)(\(.*\))?', pat)
            kind = km.group(1) if km else pat
            srows.append((kind, guard is not None, expected.get(pat) == normws(result)))
        out.append("/-- `ir::StatementKind` -/\ndef statementKinds : List String := " + T.lean_list(lean_str(k) for k in kinds) + "\n\n")
        out.append("/-- the arms of `match &statement.kind` in generate_statement, in source order: (kind matched, the arm has a guard,\n"
                   "the arm's body is textually the one `Model.GenHlsl.genStmt` mirrors: the condition goes through generate_expression\n"
                   "unmodified, the blocks through generate_scope_block in source order, wrapped in attribute-free Block statements) -/\n"
                   "def statementArms : List (String × Bool × Bool) :=\n  " +
                   T.lean_list(f"({lean_str(k)}, {'true' if g else 'false'}, {'true' if ok else 'false'})" for k, g, ok in srows) + "\n\n")
        out.append("/-- every statement kind has exactly one arm, no arm has a guard, every arm is the modelled one -/\n"
                   "def statementArmsAsModelled : Bool :=\n"
                   "  statementArms.length == statementKinds.length &&\n"
                   "  statementKinds.all (fun k => (statementArms.filter (fun a => a.1 == k)).length == 1) &&\n"
                   "  statementArms.all (fun a => !a.2.1 && a.2.2)\n\n"
                   "/-- the IfElse arm: one arm, unguarded (it applies to empty and non-empty blocks alike), emits\n"
                   "`IfElse(gen cond, Block(gen block_true), Block(gen block_false))` — both blocks, in order, the condition unmodified -/\n"
                   "def ifElseArmAsModelled : Bool :=\n"
                   "  (statementArms.filter (fun a => a.1 == \"IfElse\")) == [(\"IfElse\", false, true)]\n\n")
        wrap_ok = normws(gbody[:gbody.index("let kind = match")]) == (
            "let mut attributes = Vec::new(); for attribute in &statement.attributes { "
            "attributes.push(generate_statement_attribute(attribute, context)?); }") and \
            normws(gbody[gend:]) == "; Ok(ast::Statement { kind, location: SourceLocation::UNKNOWN, attributes, })"
        out.append("/-- around the match: the attributes are translated one by one in order, the result is the matched kind with them -/\n"
                   f"def statementWrapperAsModelled : Bool := {'true' if wrap_ok else 'false'}\n")
        fi = normws(fn_body(gen_rs, "generate_for_init"))
        fi_ok = fi == (
            "let ast = match init { ir::ForInit::Empty => ast::InitStatement::Empty, ir::ForInit::Expression(expr) => { "
            "ast::InitStatement::Expression(Located::none(generate_expression(expr, context)?)) } ir::ForInit::Definitions(defs) => { "
            "let (head, tail) = defs.split_first().unwrap(); let mut ast = generate_variable_definition(head, context)?; "
            "assert_eq!(ast.defs.len(), 1); for def in tail { let mut tail_ast = generate_variable_definition(def, context)?; "
            "assert_eq!(ast.local_type, tail_ast.local_type); assert_eq!(tail_ast.defs.len(), 1); ast.defs.append(&mut tail_ast.defs); } "
            "ast::InitStatement::Declaration(ast) } }; Ok(ast)")
        out.append("/-- generate_for_init: empty / one expression / the definitions in order under the first one's base type -/\n"
                   f"def forInitAsModelled : Bool := {'true' if fi_ok else 'false'}\n\n")

        # ---------------------------------------------------------------- statement attributes: exporter's names, type checker's names
        abody = fn_body(gen_rs, "generate_statement_attribute")
        _, aarms, _ = first_match(abody, r'^attribute$')
        arows = []
        for pats, guard, result in match_arms(aarms):
            if guard is not None or len(pats) != 1:
                raise ExtractError("generate_statement_attribute: guard / alternative patterns unsupported")
            pm = re.fullmatch(r'ir::StatementAttribute::([A-Za-z0-9]+)(\((.*)\))?', pats[0])
            r = normws(result)
            rm = re.fullmatch(r'ast::Attribute \{ name: Vec::from\(\[Located::none\("([a-z_]+)"\.to_string\(\)\)\]\), arguments: (.*), two_square_brackets: false, \}', r)
            if not pm or not rm:
                raise ExtractError(f"generate_statement_attribute: arm {pats[0]!r} => {r[:80]!r}")
            payload = pm.group(3) or ""
            if rm.group(2) == "Vec::new()":
                args = "none"
            elif rm.group(2) == "Vec::from([Located::none(ast::Expression::Literal( ast::Literal::IntUntyped(*v), ))])" and payload == "Some(v)":
                args = "count"
            else:
                raise ExtractError(f"generate_statement_attribute: arguments {rm.group(2)[:80]!r}")
            arows.append((pm.group(1), payload, rm.group(1), args))
        avariants = [v for v, _ in enum_variants(stmt_rs, "StatementAttribute")]
        tbody = fn_body(T.src("typer/src/typer/statements.rs"), "parse_statement_attribute")
        _, tarms, tend = first_match(tbody, r'^lower_name\.as_str\(\)$')
        trows = []
        for pats, guard, result in match_arms(tarms):
            if pats == ["_"]:
                continue
            tm = re.fullmatch(r'Some\(ir::StatementAttribute::([A-Za-z0-9]+)\)', normws(result))
            if guard is not None or len(pats) != 1 or not re.fullmatch(r'"[a-z_]+"', pats[0]) or not tm:
                raise ExtractError(f"parse_statement_attribute: arm {pats!r}")
            trows.append((pats[0].strip('"'), tm.group(1)))
        _, tarms2, _ = first_match(tbody, r'^lower_name\.as_str\(\)$', tend)
        for pats, guard, result in match_arms(tarms2):
            if pats == ['"unroll"']:
                r = normws(result)
                if "Ok(ir::StatementAttribute::Unroll(None))" in r and "Ok(ir::StatementAttribute::Unroll(Some(value)))" in r:
                    trows.append(("unroll", "Unroll"))
        out.append("/-- `ir::StatementAttribute` -/\ndef statementAttributeKinds : List String := " + T.lean_list(lean_str(k) for k in avariants) + "\n")
        out.append("/-- generate_statement_attribute: (variant, payload pattern, emitted attribute name, arguments: `none` or the unroll count\n"
                   "as an unsuffixed integer literal) -/\n"
                   "def statementAttributeEmitted : List (String × String × String × String) :=\n  " +
                   T.lean_list(f"({lean_str(a)}, {lean_str(b)}, {lean_str(c)}, {lean_str(d)})" for a, b, c, d in arows) + "\n")
        out.append("/-- parse_statement_attribute (type checker): (lower-cased source name, variant) -/\n"
                   "def statementAttributeParsed : List (String × String) :=\n  " +
                   T.lean_list(f"({lean_str(a)}, {lean_str(b)})" for a, b in trows) + "\n\n")

        # ---------------------------------------------------------------- the small helpers Model.GenHlsl mirrors, pinned whole
        pins = {
            "generate_user_call": (
                "let (object, arguments) = match ct { ir::CallType::FreeFunction => { let scoped_name = context.get_function_name_full(id)?; "
                "let object = ast::Expression::Identifier(scoped_name_to_identifier(scoped_name)); (object, exprs.as_slice()) } "
                "ir::CallType::MethodExternal => { let leaf_name = ast::ScopedIdentifier::trivial(context.get_function_name(id)?); "
                "let object = generate_expression(&exprs[0], context)?; let method = ast::Expression::Member(Box::new(Located::none(object)), leaf_name); "
                "(method, &exprs[1..]) } ir::CallType::MethodInternal => { let leaf_name = context.get_function_name(id)?; "
                "let object = ast::Expression::Identifier(ast::ScopedIdentifier::trivial(leaf_name)); (object, exprs.as_slice()) } }; "
                "let type_args = generate_template_type_args(tys, context)?; let args = generate_invocation_args(arguments, context)?; "
                "let expr = ast::Expression::Call(Box::new(Located::none(object)), type_args, args); Ok(expr)"),
            "generate_invocation_args": (
                "let mut ast = Vec::new(); for expr in exprs { ast.push(Located::none(generate_expression(expr, context)?)); } Ok(ast)"),
            "generate_variable_definition": (
                "let var_def = context.module.variable_registry.get_local_variable(def.id); let storage_modifier = match var_def.storage_class { "
                "ir::LocalStorage::Local => None, ir::LocalStorage::Static => Some(ast::TypeModifier::Static), }; "
                "let precise_modifier = if var_def.precise { Some(ast::TypeModifier::Precise) } else { None }; "
                "let name = context.get_variable_name(def.id)?.to_string(); "
                "let (base, declarator) = generate_type_and_declarator(var_def.type_id, &name, false, context)?; "
                "let local_type = prepend_modifiers(base, &[storage_modifier, precise_modifier]); "
                "let init = generate_initializer(&def.init, context)?; "
                "let init_declarator = ast::InitDeclarator { declarator, location_annotations: Vec::new(), init, }; "
                "let def = ast::VarDef { local_type, defs: Vec::from([init_declarator]), }; Ok(def)"),
            "generate_initializer": (
                "if let Some(init) = init_opt { Ok(Some(generate_initializer_inner(init, context)?)) } else { Ok(None) }"),
        }
        out.append("/-- helper functions of the exporter whose whole body is textually the one `Model.GenHlsl` mirrors (call: callee name\n"
                   "+ the arguments in order; variable definition: modifiers, type, name, initialiser) -/\n"
                   "def helperBodies : List (String × Bool) :=\n  " +
                   T.lean_list(f"({lean_str(k)}, {'true' if normws(fn_body(gen_rs, k)) == v else 'false'})" for k, v in pins.items()) + "\n"
                   "def helperBodiesAsModelled : Bool := helperBodies.all (fun p => p.2)\n\n")

        # ---------------------------------------------------------------- prototypes: FunctionDeclaration arm, only_declare
        rd = normws(fn_body(gen_rs, "generate_root_definition"))
        fi = normws(fn_body(gen_rs, "generate_function_inner"))
        gf = normws(fn_body(gen_rs, "generate_function"))
        decl_arm = ("ir::RootDefinition::FunctionDeclaration(id) => generate_function(*id, true, context)? .into_iter() "
                    ".map(ast::RootDefinition::Function) .collect::<Vec<_>>(),")
        def_arm = ("ir::RootDefinition::Function(id) => generate_function(*id, false, context)? .into_iter() "
                   ".map(ast::RootDefinition::Function) .collect::<Vec<_>>(),")
        body_sel = ("let body = if only_declare { None } else { let mut statements = Vec::new(); for statement in &decl.scope_block.0 { "
                    "statements.push(generate_statement(statement, context)?); } Some(statements) };")
        no_impl = "{ Some(decl) => decl, None => return Err(GenerateError::FunctionNotDefined), };"
        params_loop = "let mut params = Vec::new(); for param in &decl.params { params.push(generate_function_param(param, context, for_pixel_entry)?); }"
        decl_ok = (rd.count(decl_arm) == 1 and rd.count(def_arm) == 1 and rd.count("generate_function(") == 2
                   # only_declare selects the body and nothing else; a prototype is printed from the implementation as well
                   and fi.count(body_sel) == 1 and fi.count("only_declare") == 1 and fi.count(no_impl) == 1 and fi.count(params_loop) == 1
                   # generate_function hands the flag through unchanged (plain function and every template instantiation)
                   and gf.count("generate_function_inner(id, only_declare, context)?") == 1
                   and gf.count("generate_function_inner(child_id, only_declare, context)?") == 1 and gf.count("only_declare") == 2)
        out.append("/-- generate_root_definition: a `FunctionDeclaration(id)` is `generate_function(id, only_declare = true)`, a `Function(id)` the\n"
                   "same with `false`; in generate_function_inner the flag only selects `body = None` (name, return type and parameters\n"
                   "are those of the implementation in both cases; no implementation = `Err(FunctionNotDefined)`) -/\n"
                   f"def declarationArmsAsModelled : Bool := {'true' if decl_ok else 'false'}\n\n")

        # ---------------------------------------------------------------- generate_scalar_type
        sbody = fn_body(gen_rs, "generate_scalar_type")
        _, sarms, _ = first_match(sbody, r'^ty$')
        names = []
        for pats, guard, result in match_arms(sarms):
            pm = re.fullmatch(r'ir::ScalarType::([A-Za-z0-9]+)', pats[0])
            if not pm:
                raise ExtractError(f"generate_scalar_type: pattern {pats[0]!r}")
            sm = re.fullmatch(r'"([a-z0-9_]+)"', result)
            names.append((pm.group(1), sm.group(1) if sm else None))
        out.append("/-- generate_scalar_type: scalar ↦ HLSL type name; `none` = the arm panics -/\n"
                   "def scalarTypeName : List (String × Option String) :=\n  " +
                   T.lean_list(f"({lean_str(a)}, {'some ' + lean_str(b) if b else 'none'})" for a, b in names) + "\n")
        out.append(T.footer("HlslGenTables"))
        return "".join(out)

    @gen("HlslIntrinsicTables")
    def hlsl_intrinsic_tables():
        from rustsrc import ExtractError, fn_body, first_match, match_arms, enum_variants, lean_str
        gen_rs = T.src("hlsl/src/ast_generate.rs")
        intr_rs = T.src("ir/src/intrinsics.rs")
        out = [T.header("HlslIntrinsicTables", ["hlsl/src/ast_generate.rs", "ir/src/intrinsics.rs"])]
        vs = enum_variants(intr_rs, "Intrinsic")
        if any(payload for _, payload in vs):
            raise ExtractError("Intrinsic has a variant with a payload")
        names = [v for v, _ in vs]
        out.append("inductive Intrinsic where\n" + "".join(f"  | {v}\n" for v in names) + "  deriving DecidableEq, Repr, Inhabited\n\n")
        out.append("def Intrinsic.all : List Intrinsic := " + T.lean_list("." + v for v in names) + "\n\n")
        out.append("def Intrinsic.name : Intrinsic → String\n" + "".join(f"  | .{v} => {lean_str(v)}\n" for v in names) + "\n")
        out.append("def Intrinsic.ofName? (s : String) : Option Intrinsic :=\n  Intrinsic.all.find? (fun k => k.name == s)\n\n")
        out.append("/-- `Form` of generate_intrinsic_function -/\ninductive IForm where\n  | invoke (name : String)\n  | method (name : String)\n"
                   "  | addressMethod (method name : String)\n  | unexpected\n  deriving DecidableEq, Repr, Inhabited\n\n")
        body = fn_body(gen_rs, "generate_intrinsic_function")
        _, arms_text, end = first_match(body, r'^&?\s*intrinsic$')
        seen = {}
        for pats, guard, result in match_arms(arms_text):
            if guard is not None:
                raise ExtractError("generate_intrinsic_function: guard unsupported")
            r = result.strip()
            if r.startswith("{") and r.endswith("}"):
                r = r[1:-1].strip()
            m = re.fullmatch(r'Form::Invoke\("([A-Za-z0-9_]+)"\)', r)
            m2 = re.fullmatch(r'Form::Method\("([A-Za-z0-9_]+)"\)', r)
            m3 = re.fullmatch(r'Form::AddressMethod\("([A-Za-z0-9_]+)", "([A-Za-z0-9_:]+)"\)', r)
            if m:
                val = f".invoke {lean_str(m.group(1))}"
            elif m2:
                val = f".method {lean_str(m2.group(1))}"
            elif m3:
                val = f".addressMethod {lean_str(m3.group(1))} {lean_str(m3.group(2))}"
            elif r == "Form::Unexpected":
                val = ".unexpected"
            else:
                raise ExtractError(f"generate_intrinsic_function: arm result {r!r} unsupported")
            for p in pats:
                if p not in names:
                    raise ExtractError(f"generate_intrinsic_function: pattern {p!r} is not an Intrinsic")
                seen.setdefault(p, val)
        missing = [n for n in names if n not in seen]
        if missing:
            raise ExtractError(f"generate_intrinsic_function: no arm for {missing[:5]}")
        out.append("def intrinsicForm : Intrinsic → IForm\n" + "".join(f"  | .{n} => {seen[n]}\n" for n in names) + "\n")
        # Form::Invoke(s) => Call(Identifier(s), [], generate_invocation_args(exprs))
        from rustsrc import normws
        _, arms2, _ = first_match(body, r'^form$', end)
        inv_ok = False
        for pats, guard, result in match_arms(arms2):
            if pats == ["Form::Invoke(s)"]:
                r = normws(result)
                inv_ok = bool(re.search(r'let object = Box::new\(Located::none\(ast::Expression::Identifier\( ast::ScopedIdentifier::trivial\(s\), \)\)\);', r)) and \
                    bool(re.search(r'let type_args = Vec::new\(\); let args = generate_invocation_args\(exprs, context\)\?; ast::Expression::Call\(object, type_args, args\)', r))
        out.append("/-- Form::Invoke(s) builds Call(Identifier(s), no type arguments, the arguments in order) -/\n"
                   f"def invokeFormAsModelled : Bool := {'true' if inv_ok else 'false'}\n")
        out.append(T.footer("HlslIntrinsicTables"))
        return "".join(out)


    @gen("HlslVecTables")
    def hlsl_vec_tables():
        """shape-changing forms: the Swizzle / Constructor / Cast arms of generate_expression and the Vector arm of
        generate_type_impl (what Model/GenHlslVec.lean mirrors)"""
        from rustsrc import ExtractError, fn_body, first_match, match_arms, enum_variants, normws
        gen_rs = T.src("hlsl/src/ast_generate.rs")
        expr_rs = T.src("ir/src/ir_expressions.rs")
        out = [T.header("HlslVecTables", ["hlsl/src/ast_generate.rs", "ir/src/ir_expressions.rs"])]
        slots = [v for v, payload in enum_variants(expr_rs, "SwizzleSlot")]
        out.append("/-- `ir::SwizzleSlot` -/\ninductive SwizzleSlot where\n" + "".join(f"  | {v}\n" for v in slots) +
                   "  deriving DecidableEq, Repr, Inhabited\n\n")
        out.append("def SwizzleSlot.all : List SwizzleSlot := " + T.lean_list("." + v for v in slots) + "\n\n")
        ebody = fn_body(gen_rs, "generate_expression")
        _, earms, _ = first_match(ebody, r'^expr$')
        facts = {"swizzleArmAsModelled": False, "constructorArmAsModelled": False, "castArmGeneratesItsOperand": False}
        chars = {}
        for pats, guard, result in match_arms(earms):
            r = normws(result)
            if pats == ["ir::Expression::Swizzle(expr_object, swizzle)"]:
                # let object = generate_expression(expr_object); let member = { for channel in swizzle { match channel {…} } trivial(&member) }; Member(object, member)
                m = re.fullmatch(
                    r'\{ let object = generate_expression\(expr_object, context\)\?; let member = \{ let mut member = String::new\(\); '
                    r'for channel in swizzle \{ match channel \{ (.*?),? \} \} ast::ScopedIdentifier::trivial\(&member\) \}; '
                    r'ast::Expression::Member\(Box::new\(Located::none\(object\)\), member\) \}', r)
                if m:
                    ok = True
                    for arm in [x.strip() for x in m.group(1).split(",") if x.strip()]:
                        am = re.fullmatch(r"ir::SwizzleSlot::([A-Za-z]+) => member\.push\('([a-z])'\)", arm)
                        if not am or am.group(1) not in slots or am.group(1) in chars:
                            ok = False
                            break
                        chars[am.group(1)] = am.group(2)
                    facts["swizzleArmAsModelled"] = ok and sorted(chars) == sorted(slots)
            elif pats == ["ir::Expression::Constructor(type_id, args)"]:
                facts["constructorArmAsModelled"] = bool(re.fullmatch(
                    r'\{ let unmodified_id = context\.module\.type_registry\.remove_modifier\(\*type_id\); '
                    r'let ty = generate_type\(unmodified_id, context\)\?; assert!\(ty\.modifiers\.modifiers\.is_empty\(\)\); '
                    r'let name = ast::Expression::Identifier\(ty\.layout\.0\); let name = Box::new\(Located::none\(name\)\); '
                    r'let mut ast_args = Vec::new\(\); for slot in args \{ ast_args\.push\(Located::none\(generate_expression\(&slot\.expr, context\)\?\)\); \} '
                    r'ast::Expression::Call\(name, ty\.layout\.1\.to_vec\(\), ast_args\) \}', r))
            elif pats == ["ir::Expression::Cast(type_id, expr)"]:
                # the operand handed to generate_expression is the arm's own `expr` (never rebound, never looked through):
                # exactly one generate_expression call, on `expr`, and no other binding of `expr` in the arm
                facts["castArmGeneratesItsOperand"] = (
                    r.count("generate_expression(") == 1 and "let inner = generate_expression(expr, context)?;" in r
                    and not re.search(r'\blet (mut )?expr\b', r) and "while let" not in r and "inner_expr" not in r
                    and bool(re.search(r'if !to_literal \{ let ty = generate_type_id\(\*type_id, context\)\?; '
                                       r'ast::Expression::Cast\(Box::new\(ty\), Box::new\(Located::none\(inner\)\)\) \} else \{ inner \} \}$', r)))
        if sorted(chars) != sorted(slots):
            raise ExtractError(f"generate_expression: Swizzle arm does not give one letter per SwizzleSlot ({chars})")
        out.append("/-- letter pushed for each channel by the Swizzle arm -/\ndef swizzleChar : SwizzleSlot → Char\n" +
                   "".join(f"  | .{s} => '{chars[s]}'\n" for s in slots) + "\n")
        # generate_type_impl: Vector arm appends the dimension to the scalar's type name
        tbody = fn_body(gen_rs, "generate_type_impl")
        _, tarms, _ = first_match(tbody, r'^tyl$')
        vec_ok = False
        for pats, guard, result in match_arms(tarms):
            if pats == ["ir::TypeLayer::Vector(st, x)"]:
                vec_ok = normws(result) == (
                    '{ let (mut base, inner_declarator) = generate_type_impl(st, declarator, false, context)?; '
                    'declarator = inner_declarator; assert!(base.layout.0.identifiers.len() == 1); '
                    'base.layout.0.identifiers[0].node += &format!("{x}"); base }')
        facts["vectorTypeNameAppendsDim"] = vec_ok
        for k, v in facts.items():
            out.append(f"def {k} : Bool := {'true' if v else 'false'}\n")
        out.append(T.footer("HlslVecTables"))
        return "".join(out)

import RsslVerif.Lemmas.GenMslVecBase
/-! Vector layer of C02: the emitted Metal expression simulates the typed one (`VSimM`), constructor by constructor. -/
namespace RsslVerif.Lemmas.GenMslVec
open RsslVerif.Gen.HlslGenTables RsslVerif.Gen.HlslVecTables RsslVerif.Gen.MslGenTables RsslVerif.Gen.MslVecTables
open RsslVerif.Model RsslVerif.Model.IrVec RsslVerif.Model.GenMsl RsslVerif.Model.GenMslVec
open RsslVerif.Spec.Sem RsslVerif.Spec.SemVec RsslVerif.Spec.SemMslVec RsslVerif.Lemmas.GenMsl
open RsslVerif.Model.Ir (Ty Var Const Dir)

set_option linter.unusedSimpArgs false

theorem tyOKM_withScalar_bool {t : VTy} (h : VOk.tyOKM t = true) : VOk.tyOKM (t.withScalar .bool) = true := by
  cases t <;> simp_all [VOk.tyOKM, VTy.withScalar, VOk.basicK]

theorem tyOKM_swzTy {k : Ty} {n : Nat} (hk : VOk.basicK k = true) (h1 : n ≠ 0) (h4 : n ≤ 4) : VOk.tyOKM (Spec.SemVec.swzTy k n) = true := by
  by_cases h : n = 1
  · simp [Spec.SemVec.swzTy, h, VOk.tyOKM, hk]
  · simp [Spec.SemVec.swzTy, h, VOk.tyOKM, hk]; omega

theorem tyOKM_scalar {t : VTy} (h : VOk.tyOKM t = true) : VOk.basicK t.scalar = true := by
  cases t <;> simp_all [VOk.tyOKM, VTy.scalar]

/-- an accepted expression that satisfies the side conditions has a type Metal can name -/
theorem okMV_tyOK {S : Ir.Side} {vvty : Var → VTy} :
    ∀ (e : VExpr) (t : VTy), VIr.typeOf S.sig S.vty vvty e = some t → VOk.okMV S vvty e = true → VOk.tyOKM t = true
  | .sc e, t, ht, hok => by
    simp only [VOk.okMV, Bool.and_eq_true] at hok
    cases hte : Ir.typeOf S.sig S.vty e with
    | none => simp [VIr.typeOf, hte] at ht
    | some k =>
      simp [VIr.typeOf, hte] at ht; subst ht
      simpa [hte, VOk.tyOKM] using hok.2
  | .vvar id, t, ht, hok => by
    simp [VIr.typeOf] at ht; subst ht
    simp only [VOk.okMV, Bool.and_eq_true] at hok; exact hok.2
  | .vglobal id, t, ht, hok => by
    simp [VIr.typeOf] at ht; subst ht
    simp only [VOk.okMV, Bool.and_eq_true] at hok; exact hok.2
  | .cast ty x, t, ht, hok => by
    simp only [VOk.okMV, Bool.and_eq_true] at hok
    simp only [VIr.typeOf] at ht
    cases htx : VIr.typeOf S.sig S.vty vvty x with
    | none => simp [htx] at ht
    | some tx =>
      simp only [htx] at ht
      split at ht
      · simp at ht
      · simp at ht; subst ht; exact hok.1
  | .swz x sl, t, ht, hok => by
    simp only [VOk.okMV, Bool.and_eq_true, decide_eq_true_eq] at hok
    simp only [VIr.typeOf] at ht
    cases htx : VIr.typeOf S.sig S.vty vvty x with
    | none => simp [htx] at ht
    | some tx =>
      have hox : VOk.tyOKM tx = true := by simpa [htx, VOk.optTyOKM] using hok.1.2
      have hk := tyOKM_scalar hox
      cases tx with
      | sc k =>
        simp only [htx] at ht; split at ht <;> simp at ht
        rename_i hc; subst ht
        exact tyOKM_swzTy hk (by simpa using hc.1) hok.2
      | vec k n =>
        simp only [htx] at ht; split at ht <;> simp at ht
        rename_i hc; subst ht
        exact tyOKM_swzTy hk (by simpa using hc.1) hok.2
  | .ctor ty slots, t, ht, hok => by
    simp only [VOk.okMV, Bool.and_eq_true] at hok
    simp only [VIr.typeOf] at ht
    cases hso : VIr.slotsOK S.sig S.vty vvty ty.scalar slots with
    | none => simp [hso] at ht
    | some total =>
      simp only [hso] at ht
      split at ht
      · simp at ht; subst ht; exact hok.1
      · simp at ht
  | .tern c f g, t, ht, hok => by
    simp only [VOk.okMV, Bool.and_eq_true] at hok
    simp only [VIr.typeOf] at ht
    cases htc : VIr.typeOf S.sig S.vty vvty c with
    | none => simp [htc] at ht
    | some tc =>
      cases htf : VIr.typeOf S.sig S.vty vvty f with
      | none => simp [htc, htf] at ht
      | some tf =>
        cases htg : VIr.typeOf S.sig S.vty vvty g with
        | none => simp [htc, htf, htg] at ht
        | some tg =>
          simp only [htc, htf, htg] at ht
          have : tf = t := by
            cases tc with
            | vec k n => simp at ht
            | sc k =>
              cases k <;> simp at ht
              obtain ⟨⟨h1, _⟩, h3⟩ := ht
              subst h1; exact h3
          subst this
          exact okMV_tyOK f tf htf hok.1.2
  | .op o .nil, t, ht, hok => by simp [VIr.typeOf] at ht
  | .op o (.cons x .nil), t, ht, hok => by
    simp only [VOk.okMV, VOk.okMVs, Bool.and_eq_true, Bool.and_true] at hok
    simp only [VIr.typeOf] at ht
    cases htx : VIr.typeOf S.sig S.vty vvty x with
    | none => simp only [htx] at ht; split at ht <;> simp_all
    | some tx =>
      simp only [htx] at ht
      cases hm : irOpSem o with
      | un m =>
        rw [hm] at ht
        have htt : t = tx := by
          cases m <;> simp at ht <;> exact ht.2.symm
        subst htt
        exact okMV_tyOK x t htx hok.1
      | _ => rw [hm] at ht; simp at ht
  | .op o (.cons x (.cons y .nil)), t, ht, hok => by
    simp only [VOk.okMV, VOk.okMVs, Bool.and_eq_true, Bool.and_true] at hok
    simp only [VIr.typeOf] at ht
    cases htx : VIr.typeOf S.sig S.vty vvty x with
    | none => simp only [htx] at ht; split at ht <;> simp_all
    | some tx =>
      have hox := okMV_tyOK x tx htx hok.1.1
      cases hty : VIr.typeOf S.sig S.vty vvty y with
      | none => simp only [htx, hty] at ht; split at ht <;> simp_all
      | some ty =>
        simp only [htx, hty] at ht
        cases hm : irOpSem o with
        | bin m =>
          rw [hm] at ht
          simp only [] at ht
          split at ht
          · cases hcmp : m.isCmp <;> simp [hcmp] at ht <;> subst ht
            · exact hox
            · exact tyOKM_withScalar_bool hox
          · simp at ht
        | land =>
          rw [hm] at ht
          have : t = .sc .bool := by
            cases tx with
            | vec k n => simp at ht
            | sc k =>
              cases ty with
              | vec k2 n2 => cases k <;> simp at ht
              | sc k2 => cases k <;> cases k2 <;> simp at ht <;> exact ht.symm
          subst this; rfl
        | lor =>
          rw [hm] at ht
          have : t = .sc .bool := by
            cases tx with
            | vec k n => simp at ht
            | sc k =>
              cases ty with
              | vec k2 n2 => cases k <;> simp at ht
              | sc k2 => cases k <;> cases k2 <;> simp at ht <;> exact ht.symm
          subst this; rfl
        | _ => rw [hm] at ht; simp at ht
  | .op o (.cons x (.cons y (.cons z r))), t, ht, hok => by simp [VIr.typeOf] at ht

variable {W : World} {M : Msl.MWorld} {env : VAst.VEnv} {ρ : VStore} {cx : Ctx} {vvty : Var → VTy}

/-- a scalar leaf: the scalar theorem -/
theorem sim_msc {e : Ir.Expr} {a : HlslAst.Expr} {t : Ty}
    (hs : Msl.typeOf M.msig env.base a = some t ∧ ∀ σ, Msl.eval M env.base a σ = Ir.eval W e σ) :
    VSimM W M env ρ (.sc e) (.sc a) (.sc t) := by
  constructor
  · simp [VMsl.typeOf, hs.1]
  · intro σ
    simp only [VMsl.eval, hs.2 σ, VIr.eval]
    cases Ir.eval W e σ <;> rfl


/-! ### casts: `try_implicit_truncate`, then the Metal conversion -/

/-- static type of the operand after `try_implicit_truncate` -/
def truncTy (tx ty : VTy) : VTy :=
  match tx, ty with
  | .vec k m, .sc _ => if 1 < m then .sc k else tx
  | .vec k m, .vec _ 1 => if 1 < m then .sc k else tx
  | .vec k m, .vec _ 2 => if 2 < m then .vec k 2 else tx
  | .vec k m, .vec _ 3 => if 3 < m then .vec k 3 else tx
  | _, _ => tx

/-- components `try_implicit_truncate` selects (`none`: the operand itself) -/
def truncIdx (tx ty : VTy) : Option (List Nat) :=
  match tx, ty with
  | .vec _ m, .sc _ => if 1 < m then some [0] else none
  | .vec _ m, .vec _ 1 => if 1 < m then some [0] else none
  | .vec _ m, .vec _ 2 => if 2 < m then some [0, 1] else none
  | .vec _ m, .vec _ 3 => if 3 < m then some [0, 1, 2] else none
  | _, _ => none

theorem len2 {xs : List Val} (h : xs.length = 2) : ∃ a b, xs = [a, b] := by
  match xs, h with
  | [a, b], _ => exact ⟨a, b, rfl⟩
theorem len3 {xs : List Val} (h : xs.length = 3) : ∃ a b c, xs = [a, b, c] := by
  match xs, h with
  | [a, b, c], _ => exact ⟨a, b, c, rfl⟩
theorem len4 {xs : List Val} (h : xs.length = 4) : ∃ a b c d, xs = [a, b, c, d] := by
  match xs, h with
  | [a, b, c, d], _ => exact ⟨a, b, c, d, rfl⟩

theorem dims {n : Nat} (h2 : 2 ≤ n) (h4 : n ≤ 4) : n = 2 ∨ n = 3 ∨ n = 4 := by omega

/-- the value the emitted cast computes from the operand's value is the typed cast of that value -/
theorem trunc_cast_val {P : Prim} {tx ty : VTy} {v : VVal} (hox : VOk.tyOKM tx = true) (hoy : VOk.tyOKM ty = true)
    (hf : VOk.castFits tx ty = true) (hs : VOk.shaped tx v = true) :
    VMsl.castOK (truncTy tx ty) ty = true ∧
    ((match truncIdx tx ty with
      | none => some v
      | some idx => select idx v).bind (VMsl.castMV P (truncTy tx ty) ty)) = castShape P ty v := by
  have hkx := tyOKM_scalar hox
  have hky := tyOKM_scalar hoy
  cases tx with
  | sc k =>
    obtain ⟨x, rfl⟩ := shaped_sc hs
    cases ty with
    | sc t => simp [truncTy, truncIdx, VMsl.castOK, VMsl.castMV, castShape, VTy.scalar, castM_eq (by simpa [VTy.scalar] using hkx) (by simpa [VTy.scalar] using hky)]
    | vec t n => simp [truncTy, truncIdx, VMsl.castOK, VMsl.castMV, castShape, VTy.scalar, castM_eq (by simpa [VTy.scalar] using hkx) (by simpa [VTy.scalar] using hky)]
  | vec k m =>
    obtain ⟨xs, rfl, hlen⟩ := shaped_vec hs
    simp only [VOk.tyOKM, Bool.and_eq_true, decide_eq_true_eq] at hox
    have hm := dims hox.1.2 hox.2
    have hcm : ∀ v, Msl.castM P k ty.scalar v = castVal P ty.scalar v := castM_eq (by simpa [VTy.scalar] using hkx) hky
    cases ty with
    | sc t =>
      simp only [VTy.scalar] at hcm
      rcases hm with rfl | rfl | rfl
      · obtain ⟨a, b, rfl⟩ := len2 hlen
        simp [truncTy, truncIdx, VMsl.castOK, VMsl.castMV, castShape, VTy.scalar, select, mapOpt, VVal.comps, hcm]
      · obtain ⟨a, b, c, rfl⟩ := len3 hlen
        simp [truncTy, truncIdx, VMsl.castOK, VMsl.castMV, castShape, VTy.scalar, select, mapOpt, VVal.comps, hcm]
      · obtain ⟨a, b, c, d, rfl⟩ := len4 hlen
        simp [truncTy, truncIdx, VMsl.castOK, VMsl.castMV, castShape, VTy.scalar, select, mapOpt, VVal.comps, hcm]
    | vec t n =>
      simp only [VTy.scalar] at hcm
      simp only [VOk.tyOKM, Bool.and_eq_true, decide_eq_true_eq] at hoy
      have hn := dims hoy.1.2 hoy.2
      simp only [VOk.castFits, decide_eq_true_eq] at hf
      rcases hm with rfl | rfl | rfl <;> rcases hn with rfl | rfl | rfl <;> try omega
      · obtain ⟨a, b, rfl⟩ := len2 hlen
        simp [truncTy, truncIdx, VMsl.castOK, VMsl.castMV, castShape, VTy.scalar, select, mapOpt, VVal.comps, hcm]
      · obtain ⟨a, b, c, rfl⟩ := len3 hlen
        simp [truncTy, truncIdx, VMsl.castOK, VMsl.castMV, castShape, VTy.scalar, select, mapOpt, VVal.comps, hcm]
      · obtain ⟨a, b, c, rfl⟩ := len3 hlen
        simp [truncTy, truncIdx, VMsl.castOK, VMsl.castMV, castShape, VTy.scalar, select, mapOpt, VVal.comps, hcm]
      · obtain ⟨a, b, c, d, rfl⟩ := len4 hlen
        simp [truncTy, truncIdx, VMsl.castOK, VMsl.castMV, castShape, VTy.scalar, select, mapOpt, VVal.comps, hcm]
      · obtain ⟨a, b, c, d, rfl⟩ := len4 hlen
        simp [truncTy, truncIdx, VMsl.castOK, VMsl.castMV, castShape, VTy.scalar, select, mapOpt, VVal.comps, hcm]
      · obtain ⟨a, b, c, d, rfl⟩ := len4 hlen
        simp [truncTy, truncIdx, VMsl.castOK, VMsl.castMV, castShape, VTy.scalar, select, mapOpt, VVal.comps, hcm]


theorem parse_trunc1 : VAst.parseSwizzle truncateToScalar = some [0] := by decide
theorem parse_trunc2 : VAst.parseSwizzle truncateToVec2 = some [0, 1] := by decide
theorem parse_trunc3 : VAst.parseSwizzle truncateToVec3 = some [0, 1, 2] := by decide

theorem trunc_typeOf {x' : VAExpr} {tx : VTy} (ty : VTy) (hx : VMsl.typeOf M.msig env x' = some tx) (hox : VOk.tyOKM tx = true) :
    VMsl.typeOf M.msig env (implicitTruncate tx ty x') = some (truncTy tx ty) := by
  cases tx with
  | sc k => simpa [implicitTruncate, truncTy] using hx
  | vec k m =>
    simp only [VOk.tyOKM, Bool.and_eq_true, decide_eq_true_eq] at hox
    have h2 : 2 ≤ m := hox.1.2
    cases ty with
    | sc t =>
      have h1 : 1 < m := by omega
      simp [implicitTruncate, truncTy, h1, VMsl.typeOf, hx, VMsl.memberTy, parse_trunc1, Spec.SemVec.swzTy]
      omega
    | vec t n =>
      match n with
      | 1 =>
        have h1 : 1 < m := by omega
        simp [implicitTruncate, truncTy, h1, VMsl.typeOf, hx, VMsl.memberTy, parse_trunc1, Spec.SemVec.swzTy]
        omega
      | 2 =>
        by_cases h : 2 < m
        · simp [implicitTruncate, truncTy, h, VMsl.typeOf, hx, VMsl.memberTy, parse_trunc2, Spec.SemVec.swzTy]; omega
        · simp [implicitTruncate, truncTy, h, hx]
      | 3 =>
        by_cases h : 3 < m
        · simp [implicitTruncate, truncTy, h, VMsl.typeOf, hx, VMsl.memberTy, parse_trunc3, Spec.SemVec.swzTy]; omega
        · simp [implicitTruncate, truncTy, h, hx]
      | 0 | n + 4 => simp [implicitTruncate, truncTy, hx]

theorem trunc_eval {x' : VAExpr} {tx : VTy} (ty : VTy) (hx : VMsl.typeOf M.msig env x' = some tx) (hox : VOk.tyOKM tx = true) (σ : Store) :
    VMsl.eval M env ρ (implicitTruncate tx ty x') σ =
      match truncIdx tx ty with
      | none => VMsl.eval M env ρ x' σ
      | some idx =>
        match VMsl.eval M env ρ x' σ with
        | none => none
        | some (v, σ1) =>
          match select idx v with
          | none => none
          | some r => some (r, σ1) := by
  cases tx with
  | sc k => simp [implicitTruncate, truncIdx]
  | vec k m =>
    simp only [VOk.tyOKM, Bool.and_eq_true, decide_eq_true_eq] at hox
    have h2 : 2 ≤ m := hox.1.2
    cases ty with
    | sc t =>
      have : 0 < m := by omega
      have h1 : 1 < m := by omega
      simp [implicitTruncate, truncIdx, h1, VMsl.eval, hx, VMsl.memberTy, parse_trunc1, this]
      cases VMsl.eval M env ρ x' σ with
      | none => rfl
      | some p => obtain ⟨v, σ1⟩ := p; simp only []; cases select _ v <;> rfl
    | vec t n =>
      match n with
      | 2 =>
        by_cases h : 2 < m
        · have h0 : 0 < m := by omega
          have h1 : 1 < m := by omega
          simp [implicitTruncate, truncIdx, h, VMsl.eval, hx, VMsl.memberTy, parse_trunc2, h0, h1]
          cases VMsl.eval M env ρ x' σ with
          | none => rfl
          | some p => obtain ⟨v, σ1⟩ := p; simp only []; cases select _ v <;> rfl
        · simp [implicitTruncate, truncIdx, h]
      | 3 =>
        by_cases h : 3 < m
        · have h0 : 0 < m := by omega
          have h1 : 1 < m := by omega
          have h2' : 2 < m := by omega
          simp [implicitTruncate, truncIdx, h, VMsl.eval, hx, VMsl.memberTy, parse_trunc3, h0, h1, h2']
          cases VMsl.eval M env ρ x' σ with
          | none => rfl
          | some p => obtain ⟨v, σ1⟩ := p; simp only []; cases select _ v <;> rfl
        · simp [implicitTruncate, truncIdx, h]
      | 1 =>
        have : 0 < m := by omega
        have h1 : 1 < m := by omega
        simp [implicitTruncate, truncIdx, h1, VMsl.eval, hx, VMsl.memberTy, parse_trunc1, this]
        cases VMsl.eval M env ρ x' σ with
        | none => rfl
        | some p => obtain ⟨v, σ1⟩ := p; simp only []; cases select _ v <;> rfl
      | 0 | n + 4 => simp [implicitTruncate, truncIdx]

theorem trunc_castOK {tx ty : VTy} (hox : VOk.tyOKM tx = true) (hoy : VOk.tyOKM ty = true) (hf : VOk.castFits tx ty = true) :
    VMsl.castOK (truncTy tx ty) ty = true := by
  cases tx with
  | sc k => cases ty <;> simp [truncTy, VMsl.castOK]
  | vec k m =>
    simp only [VOk.tyOKM, Bool.and_eq_true, decide_eq_true_eq] at hox
    have hm := dims hox.1.2 hox.2
    cases ty with
    | sc t => rcases hm with rfl | rfl | rfl <;> simp [truncTy, VMsl.castOK]
    | vec t n =>
      simp only [VOk.tyOKM, Bool.and_eq_true, decide_eq_true_eq] at hoy
      have hn := dims hoy.1.2 hoy.2
      simp only [VOk.castFits, decide_eq_true_eq] at hf
      rcases hm with rfl | rfl | rfl <;> rcases hn with rfl | rfl | rfl <;> first | omega | simp [truncTy, VMsl.castOK]

theorem sim_mcast {vty : Var → Ty} {ty : VTy} {x : VExpr} {x' a : VAExpr} {tx : VTy}
    (hP : M.P = W.P) (hρ : ∀ y, VOk.shaped (vvty y) (ρ y) = true)
    (hgt : getTy cx vvty x = some tx) (hgx : genMV cx vvty x = .ok x') (hg : genMV cx vvty (.cast ty x) = .ok a)
    (hx : VSimM W M env ρ x x' tx) (htx : VIr.typeOf W.sig vty vvty x = some tx)
    (hox : VOk.tyOKM tx = true) (hoy : VOk.tyOKM ty = true) (hf : VOk.castFits tx ty = true) :
    VSimM W M env ρ (.cast ty x) a ty := by
  have hnl : ¬ (ty = .sc .lit ∨ ty = .sc .flit) := by
    intro h; rcases h with h | h <;> subst h <;> simp [VOk.tyOKM, VOk.basicK] at hoy
  simp only [genMV, hgt, hgx, hnl, if_false] at hg
  cases hn : GenMslVec.vtypeName ty with
  | error e => simp [hn] at hg
  | ok n =>
    simp [hn] at hg
    subst hg
    have htn := vtypeName_vtyOfName hn hoy
    have htt := trunc_typeOf (M := M) (env := env) ty hx.1 hox
    have hco := trunc_castOK hox hoy hf
    constructor
    · simp [VMsl.typeOf, htt, htn, hco]
    · intro σ
      simp only [VMsl.eval, htt, htn, hco, if_true, trunc_eval (ρ := ρ) ty hx.1 hox σ, hx.2 σ, VIr.eval]
      cases hv : VIr.eval W ρ x σ with
      | none => cases truncIdx tx ty <;> simp [VMsl.castMVR, castShapeR]
      | some p =>
        obtain ⟨v, σ1⟩ := p
        have hs := shape_sound hρ x tx σ σ1 v htx hv
        have hval := (trunc_cast_val (P := W.P) hox hoy hf hs).2
        cases hi : truncIdx tx ty with
        | none =>
          simp only [hi] at hval
          simp only [VMsl.castMVR, castShapeR]
          have : VMsl.castMV W.P (truncTy tx ty) ty v = castShape W.P ty v := by simpa using hval
          rw [hP, this]
          cases castShape W.P ty v <;> rfl
        | some idx =>
          simp only [hi] at hval
          rw [hP]
          cases hsel : select idx v with
          | none => simp [hsel] at hval; simp [hsel, ← hval, VMsl.castMVR, castShapeR]
          | some r =>
            simp [hsel] at hval
            simp only [hsel, VMsl.castMVR, castShapeR, hval]
            cases castShape W.P ty v <;> rfl

/-! ### a literal operand converted to a concrete type (`(int3)1`, `(float3)1.5`, `(uint2)-3`)

What the type checker builds since fixes 40c6233 / c05bffa for the literal next to a vector.  The emitted cast has the target
type under Metal's rules — the literal is an `int` / a `float` there — and its value is the IR's conversion of the exact
literal (`VOk.litOperandOK`: integer literals of magnitude below 2^31, floating literals converted to a float kind). -/

theorem genMV_cast_sc_lit {c : Const} {l : HlslAst.Expr} {ty : VTy} {a : VAExpr}
    (hgl : GenMsl.genLiteral c = .ok l) (hnl : ¬ (ty = .sc .lit ∨ ty = .sc .flit))
    (hg : genMV cx vvty (.cast ty (.sc (.lit c))) = .ok a) :
    ∃ n, GenMslVec.vtypeName ty = .ok n ∧ a = .cast n (.sc l) := by
  simp only [genMV, getTy, GenMsl.exprTy, Option.map, GenMsl.genExpr, hgl, hnl, if_false] at hg
  cases hn : GenMslVec.vtypeName ty with
  | error e => simp [hn] at hg
  | ok n => simp [hn, implicitTruncate] at hg; exact ⟨n, rfl, hg.symm⟩

theorem cast_int_lit_val (P : Prim) {ty : VTy} (hoy : VOk.tyOKM ty = true) (v : Int) (h1 : -2147483648 < v) (h2 : v < 2147483648) :
    VMsl.castMV P (.sc .int) ty (.sc (.i (BitVec.ofInt 32 v))) = castShape P ty (.sc (.lit v)) := by
  have hb : (BitVec.ofInt 32 v != 0#32) = (v != 0) := by
    by_cases hz : v = 0
    · subst hz; rfl
    · have : BitVec.ofInt 32 v ≠ 0#32 := by
        intro h0
        have := congrArg BitVec.toInt h0
        rw [BitVec.toInt_ofInt] at this
        have e : (0#32).toInt = 0 := by decide
        rw [e] at this
        unfold Int.bmod at this
        have h32 : ((2 ^ 32 : Nat) : Int) = 4294967296 := by decide
        simp only [h32] at this
        split at this <;> omega
      have a : (BitVec.ofInt 32 v != 0#32) = true := bne_iff_ne.mpr this
      have b : (v != 0) = true := bne_iff_ne.mpr hz
      rw [a, b]
  cases ty with
  | sc t => cases t <;> simp [VOk.tyOKM, VOk.basicK] at hoy <;>
      simp [VMsl.castMV, castShape, Msl.castM, VTy.scalar, castVal, hb]
  | vec t k => cases t <;> simp [VOk.tyOKM, VOk.basicK] at hoy <;>
      simp [VMsl.castMV, castShape, Msl.castM, VTy.scalar, castVal, hb]

theorem cast_float_lit_val (P : Prim) {ty : VTy} (hf : ty.scalar = .float) (x : BitVec 32) (d : BitVec 64) (hx : x = P.d2f d) :
    VMsl.castMV P (.sc .float) ty (.sc (.f x)) = castShape P ty (.sc (.flit d)) := by
  subst hx
  cases ty with
  | sc t => simp only [VTy.scalar] at hf; subst hf; simp [VMsl.castMV, castShape, Msl.castM, VTy.scalar, castVal]
  | vec t k => simp only [VTy.scalar] at hf; subst hf; simp [VMsl.castMV, castShape, Msl.castM, VTy.scalar, castVal]

theorem sim_mcast_lit {ty : VTy} {x : VExpr} {a : VAExpr}
    (hP : M.P = W.P) (hoy : VOk.tyOKM ty = true) (hl : VOk.litOperandOK ty x = true)
    (hg : genMV cx vvty (.cast ty x) = .ok a) :
    VSimM W M env ρ (.cast ty x) a ty := by
  have hnl : ¬ (ty = .sc .lit ∨ ty = .sc .flit) := by
    intro h; rcases h with h | h <;> subst h <;> simp [VOk.tyOKM, VOk.basicK] at hoy
  -- the final step, shared by the three forms of the literal: the operand has Metal type `tl` and value `vl`
  have fin : ∀ (l : HlslAst.Expr) (c : Const) (tl : Ty) (vl : Val), GenMsl.genLiteral c = .ok l → x = .sc (.lit c) →
      Msl.typeOf M.msig env.base l = some tl → (∀ σ, Msl.eval M env.base l σ = some (vl, σ)) →
      VMsl.castMV W.P (.sc tl) ty (.sc vl) = castShape W.P ty (.sc (Ir.constVal c)) →
      VSimM W M env ρ (.cast ty x) a ty := by
    intro l c tl vl hgl hx htl hvl hval
    subst hx
    obtain ⟨n, hn, rfl⟩ := genMV_cast_sc_lit hgl hnl hg
    have htn := vtypeName_vtyOfName hn hoy
    have hco : VMsl.castOK (.sc tl) ty = true := by cases ty <;> rfl
    constructor
    · simp [VMsl.typeOf, htl, htn, hco]
    · intro σ
      simp only [VMsl.eval, VMsl.typeOf, htl, Option.map, htn, hco, if_true, hvl σ, VIr.eval, Ir.eval, hP,
        VMsl.castMVR, castShapeR, hval]
      cases castShape W.P ty (.sc (Ir.constVal c)) <;> rfl
  cases x with
  | sc e0 =>
    cases e0 with
    | lit c =>
      cases c with
      | intLit v =>
        simp only [VOk.litOperandOK, Bool.and_eq_true, decide_eq_true_eq] at hl
        by_cases hneg : v < 0
        · -- `-(m)`: unary minus applied to the `int` literal m = -v
          have hm : (-v).toNat < 2147483648 := by omega
          have hb : -(BitVec.ofNat 32 (-v).toNat) = BitVec.ofInt 32 v := by
            rw [ofNat_toNat_int _ (by omega), ← BitVec.ofInt_neg]; simp
          refine fin (.un .Minus (.lit (.intUntyped (-v).toNat))) _ .int (.i (BitVec.ofInt 32 v)) ?_ rfl ?_ ?_ ?_
          · rw [genLiteral_eq]
            simp [GenHlsl.genLiteral, Ir.Const.kind, GenHlsl.Const.intValue,
              GenSem.findArm_intLit_neg v hneg (by simp only [GenHlsl.u64Max]; omega), GenHlsl.negMagnitude]
          · simp [Msl.typeOf, Msl.litTy, hm, astUnSem, Msl.promote]
          · intro σ
            simp [Msl.eval, Msl.typeOf, Msl.litTy, Msl.litVal, hm, astUnSem, Msl.promote, Msl.convR, Msl.convert,
              Msl.unopM, unop, hb]
          · exact cast_int_lit_val W.P hoy v hl.1 hl.2
        · have hm : v.toNat < 2147483648 := by omega
          refine fin (.lit (.intUntyped v.toNat)) _ .int (.i (BitVec.ofInt 32 v)) ?_ rfl ?_ ?_ ?_
          · rw [genLiteral_eq]
            simp [GenHlsl.genLiteral, Ir.Const.kind, GenHlsl.Const.intValue,
              GenSem.findArm_intLit_nonneg v (by omega) (by simp only [GenHlsl.u64Max]; omega), GenHlsl.mkLit, Except.map]
          · simp [Msl.typeOf, Msl.litTy, hm]
          · intro σ
            simp [Msl.eval, Msl.litVal, Msl.litTy, hm, ofNat_toNat_int _ (show 0 ≤ v by omega)]
          · exact cast_int_lit_val W.P hoy v hl.1 hl.2
      | floatLit d =>
        simp only [VOk.litOperandOK, beq_iff_eq] at hl
        refine fin (.lit (.floatUntyped d)) _ .float (.f (M.P.d2f d)) ?_ rfl ?_ ?_ ?_
        · rw [genLiteral_eq]
          simp [GenHlsl.genLiteral, Ir.Const.kind, GenHlsl.Const.intValue, GenSem.findArm_flit, GenHlsl.mkLit, Except.map]
        · simp [Msl.typeOf, Msl.litTy]
        · intro σ; simp [Msl.eval, Msl.litVal, Msl.litTy]
        · exact cast_float_lit_val W.P hl _ d (by rw [hP])
      | _ => simp [VOk.litOperandOK] at hl
    | _ => simp [VOk.litOperandOK] at hl
  | _ => simp [VOk.litOperandOK] at hl


/-! ### swizzles: members on vectors; on scalars the operand itself or the constructor `T_n(s)` -/

theorem fmod_not_type : VMsl.vtyOfName Msl.fmodName = none := by decide

theorem typeName_ne_fmod {n : String} {ty : VTy} (h : VMsl.vtyOfName n = some ty) : (n == Msl.fmodName) = false := by
  cases hb : n == Msl.fmodName with
  | false => rfl
  | true =>
    have : n = Msl.fmodName := by simpa using hb
    subst this
    rw [fmod_not_type] at h; simp at h

theorem slots_all_x {sl : List SwizzleSlot} (h : sl.all (fun s => decide (slotIdx s < 1)) = true) :
    sl.all (fun s => decide (s = .X)) = true ∧ sl.map slotIdx = List.replicate sl.length 0 := by
  induction sl with
  | nil => simp
  | cons s r ih =>
    simp only [List.all_cons, Bool.and_eq_true, decide_eq_true_eq] at h
    obtain ⟨ih1, ih2⟩ := ih h.2
    have : s = .X := by cases s <;> simp [slotIdx] at h <;> rfl
    subst this
    simp [ih1, ih2, slotIdx, List.replicate_succ]

theorem mapOpt_replicate_zero (y : Val) : ∀ n, mapOpt (fun i => [y][i]?) (List.replicate n 0) = some (List.replicate n y)
  | 0 => rfl
  | n + 1 => by simp [List.replicate_succ, mapOpt, mapOpt_replicate_zero y n]

theorem sim_mswz {vty : Var → Ty} {x : VExpr} {sl : List SwizzleSlot} {x' a : VAExpr} {tx t : VTy}
    (hρ : ∀ y, VOk.shaped (vvty y) (ρ y) = true)
    (hgt : getTy cx vvty x = some tx) (hgx : genMV cx vvty x = .ok x') (hg : genMV cx vvty (.swz x sl) = .ok a)
    (hx : VSimM W M env ρ x x' tx) (htx : VIr.typeOf W.sig vty vvty x = some tx)
    (ht : VIr.typeOf W.sig vty vvty (.swz x sl) = some t) (hox : VOk.tyOKM tx = true) (h4 : sl.length ≤ 4) :
    VSimM W M env ρ (.swz x sl) a t := by
  simp only [genMV, hgt, hgx] at hg
  simp only [VIr.typeOf, htx] at ht
  cases tx with
  | vec k n =>
    simp only [] at hg ht
    simp at hg; subst hg
    split at ht
    · rename_i hc
      simp only [Option.some.injEq] at ht; subst ht
      obtain ⟨hne, hall, _⟩ := hc
      have hmt : VMsl.memberTy (.vec k n) (GenMslVec.swizzleName sl) = some (Spec.SemVec.swzTy k sl.length) := by
        have hne' : sl.map slotIdx ≠ [] := by simpa using hne
        simp only [VMsl.memberTy, parse_mslSwizzleName, GenSemVec.all_map_slotIdx, hall, List.length_map]
        simp [hne']
      constructor
      · simp [VMsl.typeOf, hx.1, hmt]
      · intro σ
        simp only [VMsl.eval, hx.1, hmt, parse_mslSwizzleName, hx.2 σ, VIr.eval]
        cases VIr.eval W ρ x σ with
        | none => rfl
        | some r =>
          obtain ⟨v, σ1⟩ := r
          simp only []
          cases select (sl.map slotIdx) v <;> rfl
    · simp at ht
  | sc k =>
    simp only [] at hg ht
    split at ht
    · rename_i hc
      simp only [Option.some.injEq] at ht; subst ht
      obtain ⟨hne, hall, _⟩ := hc
      obtain ⟨hallx, hmap⟩ := slots_all_x hall
      have hk : VOk.basicK k = true := by simpa [VOk.tyOKM] using hox
      have hun : unliteral k = k := by rcases basicK_cases hk with rfl | rfl | rfl | rfl <;> rfl
      simp only [hallx, if_true, hun] at hg
      by_cases h1 : sl.length = 1
      · simp only [h1, if_true] at hg
        simp at hg; subst hg
        constructor
        · simpa [Spec.SemVec.swzTy, h1] using hx.1
        · intro σ
          simp only [hx.2 σ, VIr.eval, hmap, h1]
          cases hv : VIr.eval W ρ x σ with
          | none => rfl
          | some r =>
            obtain ⟨v, σ1⟩ := r
            obtain ⟨y, rfl⟩ := shaped_sc (shape_sound hρ x _ σ σ1 v htx hv)
            simp [select, mapOpt, VVal.comps]
      · simp only [h1, if_false] at hg
        cases hn : GenMslVec.vtypeName (.vec k sl.length) with
        | error e => simp [hn] at hg
        | ok n =>
          simp [hn] at hg; subst hg
          have hlen2 : 2 ≤ sl.length := by
            have : sl.length ≠ 0 := by simpa using hne
            omega
          have hoty : VOk.tyOKM (.vec k sl.length) = true := by simp [VOk.tyOKM, hk, hlen2, h4]
          have htn := vtypeName_vtyOfName hn hoty
          have hnf := typeName_ne_fmod htn
          constructor
          · simp [VMsl.typeOf, VMsl.argTypes, hx.1, VMsl.callTy, hnf, htn, VMsl.castOK, Spec.SemVec.swzTy, h1]
          · intro σ
            simp only [VMsl.eval, VMsl.argTypes, hx.1, VMsl.evalArgs, hx.2 σ, VIr.eval, hmap]
            cases hv : VIr.eval W ρ x σ with
            | none => rfl
            | some r =>
              obtain ⟨v, σ1⟩ := r
              obtain ⟨y, rfl⟩ := shaped_sc (shape_sound hρ x _ σ σ1 v htx hv)
              obtain ⟨m, hm⟩ : ∃ m, sl.length = m + 2 := ⟨sl.length - 2, by omega⟩
              have hmo : mapOpt (fun i => [y][i]?) (0 :: 0 :: List.replicate m 0) = some (y :: y :: List.replicate m y) := by
                have := mapOpt_replicate_zero y (m + 2)
                simpa [List.replicate_succ] using this
              simp [VMsl.callVal, hnf, htn, VMsl.castOK, VTy.scalar, select, VVal.comps, hm, List.replicate_succ, hmo]
    · simp at ht


/-! ### operators -/

theorem arithK_cases {k : Ty} (h : VOk.arithK k = true) : k = .int ∨ k = .uint ∨ k = .float := by
  cases k <;> simp [VOk.arithK] at h <;> simp

theorem intK_cases {k : Ty} (h : VOk.intK k = true) : k = .int ∨ k = .uint := by
  cases k <;> simp [VOk.intK] at h <;> simp

theorem convMVR_self (P : Prim) (t : VTy) (r : VR) : VMsl.convMVR P t t r = r := by
  cases r with
  | none => rfl
  | some p => simp [VMsl.convMVR, VMsl.convMV]

theorem sim_mun {vty : Var → Ty} {o : IntrinsicOp} {u : UnaryOp} {x : VExpr} {x' : VAExpr} {tx t : VTy}
    (hP : M.P = W.P) (hρ : ∀ y, VOk.shaped (vvty y) (ρ y) = true)
    (hf : mslOpForm o = .unary u)
    (hx : VSimM W M env ρ x x' tx) (htx : VIr.typeOf W.sig vty vvty x = some tx)
    (ht : VIr.typeOf W.sig vty vvty (.op o (.cons x .nil)) = some t)
    (hok : ∀ m k, irOpSem o = .un m → m ≠ .lnot → tx = .sc k → VOk.arithK k = true) :
    VSimM W M env ρ (.op o (.cons x .nil)) (.un u x') t := by
  have hsem := op_unaryM hf
  simp only [VIr.typeOf, htx] at ht
  cases hm : irOpSem o with
  | un m =>
    rw [hm] at ht
    have hlx : t = tx ∧ (m = .lnot → tx.scalar = .bool) := by
      cases m <;> simp at ht
      all_goals first
        | exact ⟨ht.2.symm, fun _ => ht.1.1⟩
        | exact ⟨ht.2.symm, by simp⟩
    obtain ⟨rfl, hb⟩ := hlx
    cases t with
    | sc k =>
      by_cases hl : m = .lnot
      · subst hl
        have hk : k = .bool := by simpa [VTy.scalar] using hb rfl
        subst hk
        constructor
        · simp [VMsl.typeOf, hsem, hm, hx.1, VTy.withScalar]
        · intro σ
          simp only [VMsl.eval, hsem, hm, hx.1, if_true, convMVR_self, hx.2 σ, VIr.eval]
          cases hv : VIr.eval W ρ x σ with
          | none => rfl
          | some r =>
            obtain ⟨v, σ1⟩ := r
            obtain ⟨y, rfl⟩ := shaped_sc (shape_sound hρ x _ σ σ1 v htx hv)
            simp only [lift1, hP]
            cases unop W.P .lnot y <;> rfl
      · have hak : VOk.arithK k = true := hok m k hm hl rfl
        have hpk : Msl.promote k = k := by rcases arithK_cases hak with rfl | rfl | rfl <;> rfl
        have hkl : k ≠ .lit := by rcases arithK_cases hak with rfl | rfl | rfl <;> simp
        constructor
        · simp only [VMsl.typeOf, hsem, hm, hx.1]
          cases m <;> simp at hl <;> simp [hpk]
        · intro σ
          simp only [VMsl.eval, hsem, hm, hx.1, hl, if_false, hpk, convMVR_self, hx.2 σ, VIr.eval]
          cases hv : VIr.eval W ρ x σ with
          | none => rfl
          | some r =>
            obtain ⟨v, σ1⟩ := r
            obtain ⟨y, rfl⟩ := shaped_sc (shape_sound hρ x _ σ σ1 v htx hv)
            simp only [lift1, Msl.unopM, hkl, if_false, hP]
            cases unop W.P m y <;> rfl
    | vec k n =>
      constructor
      · simp only [VMsl.typeOf, hsem, hm, hx.1]
        cases m <;> simp [VTy.withScalar]
        simpa [VTy.scalar] using (hb rfl).symm
      · intro σ
        have hcond : ¬ (m = .lnot ∧ k ≠ .bool) := by
          intro h; exact h.2 (by simpa [VTy.scalar] using hb h.1)
        simp only [VMsl.eval, hsem, hm, hx.1, hcond, if_false, hx.2 σ, VIr.eval, hP]
        cases VIr.eval W ρ x σ with
        | none => rfl
        | some r =>
          obtain ⟨v, σ1⟩ := r
          simp only []
          cases lift1 (unop W.P m) v <;> rfl
  | _ => rw [hm] at ht; simp at ht


/-- two operands of one type `T`, `T` scalar: the kind is int / uint (shifts) or int / uint / float -/
def binSide (m : MBin) (T : VTy) : Prop :=
  match T with
  | .sc k => (if Msl.isShift m then VOk.intK k else VOk.arithK k) = true
  | .vec _ _ => True

theorem binTy_self {m : MBin} {T : VTy} (h : binSide m T) : VMsl.binTy m T T = some T := by
  cases T with
  | vec k n => simp [VMsl.binTy]
  | sc k =>
    simp only [binSide] at h
    by_cases hs : Msl.isShift m = true
    · simp only [hs, if_true] at h
      rcases intK_cases h with rfl | rfl <;> simp [VMsl.binTy, hs, Msl.promote, Msl.isInteger]
    · have hs' : Msl.isShift m = false := by simpa using hs
      simp only [hs', Bool.false_eq_true, if_false] at h
      rcases arithK_cases h with rfl | rfl | rfl <;> simp [VMsl.binTy, hs', Msl.common, Msl.promote]

/-- value of a binary operator on two values of the shape of the operand type -/
theorem binAt_self {P : Prim} {m : MBin} {T : VTy} {va vb : VVal} (h : binSide m T) (ha : VOk.shaped T va = true) (hb : VOk.shaped T vb = true)
    (hrem : m = .mod → T.scalar ≠ .float) :
    VMsl.binAt P T T T m va vb = lift2 (binop P m) va vb := by
  cases T with
  | vec k n => simp [VMsl.binAt]
  | sc k =>
    obtain ⟨x, rfl⟩ := shaped_sc ha
    obtain ⟨y, rfl⟩ := shaped_sc hb
    simp only [binSide] at h
    by_cases hs : Msl.isShift m = true
    · simp only [hs, if_true] at h
      rcases intK_cases h with rfl | rfl <;> simp [VMsl.binAt, hs, VTy.scalar, Msl.promote, Msl.shiftM, lift2]
    · have hs' : Msl.isShift m = false := by simpa using hs
      simp only [hs', Bool.false_eq_true, if_false] at h
      rcases arithK_cases h with rfl | rfl | rfl <;> simp [VMsl.binAt, hs', Msl.binopM, lift2]
      -- `float`: the scalar operator `%` does not exist (the exporter writes `metal::fmod`)
      have hnm : ¬ m = MBin.mod := fun hm => absurd rfl (hrem hm)
      simp [hnm]

theorem operand_tys {m : MBin} {T : VTy} (h : binSide m T) : VMsl.operandTy m T T = T := by
  cases T with
  | vec k n => rfl
  | sc k =>
    simp only [binSide] at h
    by_cases hs : Msl.isShift m = true
    · simp only [hs, if_true] at h
      rcases intK_cases h with rfl | rfl <;> simp [VMsl.operandTy, hs, VTy.scalar, Msl.promote]
    · have hs' : Msl.isShift m = false := by simpa using hs
      simp [VMsl.operandTy, hs']

theorem sim_mbin {vty : Var → Ty} {o : IntrinsicOp} {b : BinOp} {x y : VExpr} {x' y' : VAExpr} {tx ty t : VTy}
    (hP : M.P = W.P) (hρ : ∀ z, VOk.shaped (vvty z) (ρ z) = true)
    (hsem : astBinSem b = irOpSem o)
    (hx : VSimM W M env ρ x x' tx) (htx : VIr.typeOf W.sig vty vvty x = some tx)
    (hy : VSimM W M env ρ y y' ty) (hty : VIr.typeOf W.sig vty vvty y = some ty)
    (ht : VIr.typeOf W.sig vty vvty (.op o (.cons x (.cons y .nil))) = some t)
    (hok : ∀ m, irOpSem o = .bin m → binSide m tx) (hrem : irOpSem o = .bin .mod → tx.scalar ≠ .float) :
    VSimM W M env ρ (.op o (.cons x (.cons y .nil))) (.bin b x' y') t := by
  simp only [VIr.typeOf, htx, hty] at ht
  cases hm : irOpSem o with
  | bin m =>
    have hside := hok m hm
    rw [hm] at ht
    simp only [] at ht
    split at ht
    · rename_i hc
      obtain ⟨rfl, _⟩ := hc
      have hres : t = VMsl.resTy m tx := by
        cases hcmp : m.isCmp <;> simp [hcmp, VMsl.resTy] at ht ⊢ <;> exact ht.symm
      have hbt := binTy_self hside
      have hot := operand_tys hside
      have hro : VMsl.remOK m tx tx = true := by
        by_cases hmm : m = .mod
        · subst hmm; have := hrem hm; simp [VMsl.remOK, this]
        · cases m <;> simp at hmm <;> simp [VMsl.remOK]
      constructor
      · simp [VMsl.typeOf, hsem, hm, hx.1, hy.1, hbt, hres, hro]
      · intro σ
        simp only [VMsl.eval, hsem, hm, hx.1, hy.1, hro, if_true, hbt, hot, VMsl.operandR, convMVR_self, hx.2 σ, VIr.eval]
        cases hvx : VIr.eval W ρ x σ with
        | none => rfl
        | some r =>
          obtain ⟨va, σ1⟩ := r
          simp only [hy.2 σ1]
          cases hvy : VIr.eval W ρ y σ1 with
          | none => rfl
          | some r2 =>
            obtain ⟨vb, σ2⟩ := r2
            have sa := shape_sound hρ x tx σ σ1 va htx hvx
            have sb := shape_sound hρ y tx σ1 σ2 vb hty hvy
            simp only [binAt_self hside sa sb (fun hmm => hrem (by rw [hm, hmm])), hP]
            cases lift2 (binop W.P m) va vb <;> rfl
    · simp at ht
  | land =>
    rw [hm] at ht
    have hb : tx = .sc .bool ∧ ty = .sc .bool ∧ t = .sc .bool := by
      cases tx with
      | vec k n => simp at ht
      | sc k =>
        cases ty with
        | vec k2 n2 => cases k <;> simp at ht
        | sc k2 => cases k <;> cases k2 <;> simp at ht <;> exact ⟨rfl, rfl, ht.symm⟩
    obtain ⟨rfl, rfl, rfl⟩ := hb
    constructor
    · simp [VMsl.typeOf, hsem, hm, hx.1, hy.1]
    · intro σ
      simp only [VMsl.eval, hsem, hm, hx.1, hy.1, convMVR_self, hx.2 σ, VIr.eval]
      cases VIr.eval W ρ x σ with
      | none => rfl
      | some r =>
        obtain ⟨v, σ1⟩ := r
        cases v with
        | vec vs => simp
        | sc sv =>
          cases sv with
          | b bv =>
            cases bv
            · simp
            · simp only [hy.2 σ1]
              cases VIr.eval W ρ y σ1 with
              | none => simp
              | some r2 =>
                obtain ⟨w, σ2⟩ := r2
                cases w with
                | vec ws => simp
                | sc sw => cases sw <;> simp
          | _ => simp
  | lor =>
    rw [hm] at ht
    have hb : tx = .sc .bool ∧ ty = .sc .bool ∧ t = .sc .bool := by
      cases tx with
      | vec k n => simp at ht
      | sc k =>
        cases ty with
        | vec k2 n2 => cases k <;> simp at ht
        | sc k2 => cases k <;> cases k2 <;> simp at ht <;> exact ⟨rfl, rfl, ht.symm⟩
    obtain ⟨rfl, rfl, rfl⟩ := hb
    constructor
    · simp [VMsl.typeOf, hsem, hm, hx.1, hy.1]
    · intro σ
      simp only [VMsl.eval, hsem, hm, hx.1, hy.1, convMVR_self, hx.2 σ, VIr.eval]
      cases VIr.eval W ρ x σ with
      | none => rfl
      | some r =>
        obtain ⟨v, σ1⟩ := r
        cases v with
        | vec vs => simp
        | sc sv =>
          cases sv with
          | b bv =>
            cases bv
            · simp only [hy.2 σ1]
              cases VIr.eval W ρ y σ1 with
              | none => simp
              | some r2 =>
                obtain ⟨w, σ2⟩ := r2
                cases w with
                | vec ws => simp
                | sc sw => cases sw <;> simp
            · simp
          | _ => simp
  | _ => rw [hm] at ht; simp at ht


/-- `%` on floating-point vectors / scalars: `metal::fmod(a, b)` -/
theorem sim_mfmod {vty : Var → Ty} {o : IntrinsicOp} {x y : VExpr} {x' y' : VAExpr} {tx ty t : VTy}
    (hP : M.P = W.P)
    (hm : irOpSem o = .bin .mod) (hfl : tx.scalar = .float)
    (hx : VSimM W M env ρ x x' tx) (htx : VIr.typeOf W.sig vty vvty x = some tx)
    (hy : VSimM W M env ρ y y' ty) (hty : VIr.typeOf W.sig vty vvty y = some ty)
    (ht : VIr.typeOf W.sig vty vvty (.op o (.cons x (.cons y .nil))) = some t) :
    VSimM W M env ρ (.op o (.cons x (.cons y .nil))) (.call Msl.fmodName (.cons x' (.cons y' .nil))) t := by
  simp only [VIr.typeOf, htx, hty, hm] at ht
  split at ht
  · rename_i hc
    obtain ⟨rfl, _⟩ := hc
    simp [MBin.isCmp] at ht; subst ht
    have hside : binSide .mod tx := by
      cases tx with
      | vec k n => trivial
      | sc k => simp [VTy.scalar] at hfl; subst hfl; simp [binSide, Msl.isShift, VOk.arithK]
    have hbt := binTy_self hside
    constructor
    · simp [VMsl.typeOf, VMsl.argTypes, hx.1, hy.1, VMsl.callTy, hfl, hbt]
    · intro σ
      simp only [VMsl.eval, VMsl.argTypes, hx.1, hy.1, VMsl.evalArgs, hx.2 σ, VIr.eval, hm]
      cases VIr.eval W ρ x σ with
      | none => rfl
      | some r =>
        obtain ⟨va, σ1⟩ := r
        simp only [hy.2 σ1]
        cases VIr.eval W ρ y σ1 with
        | none => rfl
        | some r2 =>
          obtain ⟨vb, σ2⟩ := r2
          simp only [VMsl.callVal, beq_self_eq_true, if_true, hfl, and_self, hbt, VMsl.operand, VMsl.convMV, hP]
          cases lift2 (binop W.P .mod) va vb <;> rfl
  · simp at ht

theorem ternTy_self (t : VTy) : VMsl.ternTy t t = some t := by simp [VMsl.ternTy]

theorem sim_mtern {vty : Var → Ty} {c f g : VExpr} {c' f' g' : VAExpr} {tc tf tg t : VTy}
    (hc : VSimM W M env ρ c c' tc) (htc : VIr.typeOf W.sig vty vvty c = some tc)
    (hf : VSimM W M env ρ f f' tf) (htf : VIr.typeOf W.sig vty vvty f = some tf)
    (hg : VSimM W M env ρ g g' tg) (htg : VIr.typeOf W.sig vty vvty g = some tg)
    (ht : VIr.typeOf W.sig vty vvty (.tern c f g) = some t) :
    VSimM W M env ρ (.tern c f g) (.tern c' f' g') t := by
  simp only [VIr.typeOf, htc, htf, htg] at ht
  have hb : tc = .sc .bool ∧ tf = t ∧ tg = t := by
    cases tc with
    | vec k n => simp at ht
    | sc k =>
      cases k <;> simp at ht
      obtain ⟨⟨h1, _⟩, h3⟩ := ht
      subst h1; subst h3; simp
  obtain ⟨rfl, rfl, rfl⟩ := hb
  constructor
  · simp [VMsl.typeOf, hc.1, hf.1, hg.1, ternTy_self]
  · intro σ
    simp only [VMsl.eval, hc.1, hf.1, hg.1, ternTy_self, convMVR_self, hc.2 σ, VIr.eval]
    cases VIr.eval W ρ c σ with
    | none => rfl
    | some r =>
      obtain ⟨v, σ1⟩ := r
      cases v with
      | vec vs => simp
      | sc sv =>
        cases sv with
        | b bv => cases bv <;> simp [hf.2 σ1, hg.2 σ1]
        | _ => simp


/-! ### constructors -/

def flat : List VVal → List Val
  | [] => []
  | v :: r => v.comps ++ flat r

def shapedAll : List VTy → List VVal → Bool
  | [], [] => true
  | t :: ts, v :: vs => VOk.shaped t v && shapedAll ts vs
  | _, _ => false

/-- what the induction proves about a constructor's slots -/
def SlotsSim (W : World) (M : Msl.MWorld) (env : VAst.VEnv) (ρ : VStore) (k : Ty) (slots : VSlots) (as : VAExprs) (total : Nat) : Prop :=
  ∃ tys, VMsl.argTypes M.msig env as = some tys ∧ (∀ t ∈ tys, t.scalar = k ∧ VOk.tyOKM t = true) ∧
    (tys.map VTy.count).sum = total ∧
    ∀ σ, match VMsl.evalArgs M env ρ as σ with
      | none => VIr.evalSlots W ρ slots σ = none
      | some (vs, σ1) => VIr.evalSlots W ρ slots σ = some (flat vs, σ1) ∧ shapedAll tys vs = true

theorem ctorComps_same {P : Prim} {k : Ty} : ∀ (tys : List VTy) (vs : List VVal),
    (∀ t ∈ tys, t.scalar = k) → shapedAll tys vs = true → VMsl.ctorComps P k tys vs = some (flat vs)
  | [], [], _, _ => rfl
  | [], _ :: _, _, h => by simp [shapedAll] at h
  | _ :: _, [], _, h => by simp [shapedAll] at h
  | t :: ts, v :: vs, hk, h => by
    simp only [shapedAll, Bool.and_eq_true] at h
    have ih := ctorComps_same (P := P) ts vs (fun t' ht' => hk t' (List.mem_cons_of_mem _ ht')) h.2
    simp [VMsl.ctorComps, hk t (List.mem_cons_self), ih, flat]

theorem same_ty {a b : VTy} (ha : VOk.tyOKM a = true) (hb : VOk.tyOKM b = true) (hs : a.scalar = b.scalar) (hc : a.count = b.count) : a = b := by
  cases a with
  | sc k =>
    cases b with
    | sc k2 => simp [VTy.scalar] at hs; subst hs; rfl
    | vec k2 n =>
      simp [VTy.count] at hc
      simp [VOk.tyOKM] at hb; omega
  | vec k n =>
    cases b with
    | sc k2 =>
      simp [VTy.count] at hc
      simp [VOk.tyOKM] at ha; omega
    | vec k2 n2 => simp [VTy.scalar] at hs; simp [VTy.count] at hc; subst hs; subst hc; rfl

theorem castOK_self {t : VTy} : VMsl.castOK t t = true := by cases t <;> simp [VMsl.castOK]

theorem count_pos {t : VTy} (h : VOk.tyOKM t = true) : 0 < t.count := by
  cases t with
  | sc k => simp [VTy.count]
  | vec k n => simp [VOk.tyOKM] at h; simp [VTy.count]; omega

theorem sim_mctor {ty : VTy} {slots : VSlots} {as : VAExprs} {n : String}
    (hn : GenMslVec.vtypeName ty = .ok n) (hoy : VOk.tyOKM ty = true)
    (hs : SlotsSim W M env ρ ty.scalar slots as ty.count) :
    VMsl.typeOf M.msig env (.call n as) = some ty ∧
      ∀ σ, VMsl.eval M env ρ (.call n as) σ = VIr.eval W ρ (.ctor ty slots) σ := by
  obtain ⟨tys, hat, hk, hsum, hev⟩ := hs
  have htn := vtypeName_vtyOfName hn hoy
  have hnf := typeName_ne_fmod htn
  have hcast : ∀ ta, tys = [ta] → ta = ty := by
    intro ta h; subst h
    have := hk ta (List.mem_cons_self)
    exact same_ty this.2 hoy this.1 (by simpa using hsum)
  constructor
  · simp only [VMsl.typeOf, hat, VMsl.callTy, hnf, htn]
    match tys, hsum, hcast with
    | [ta], _, hc => have := hc ta rfl; subst this; simp [castOK_self]
    | [], hsum, _ => simp at hsum; have := count_pos hoy; omega
    | _ :: _ :: _, hsum, _ => simp only [hsum, if_true]; simp
  · intro σ
    have h := hev σ
    simp only [VMsl.eval, hat, VIr.eval]
    cases hargs : VMsl.evalArgs M env ρ as σ with
    | none => simp only [hargs] at h; simp [h]
    | some r =>
      obtain ⟨vs, σ1⟩ := r
      simp only [hargs] at h
      obtain ⟨hir, hsh⟩ := h
      simp only [hir, VMsl.callVal, hnf, htn]
      match tys, vs, hsum, hcast, hsh, hk with
      | [ta], [v], _, hc, hsh, _ =>
        have := hc ta rfl; subst this
        simp only [castOK_self, if_true, flat, List.append_nil]
        simp only [shapedAll, Bool.and_true] at hsh
        cases ta with
        | sc k =>
          obtain ⟨y, rfl⟩ := shaped_sc hsh
          simp [VVal.comps, build]
        | vec k m =>
          obtain ⟨xs, rfl, hl⟩ := shaped_vec hsh
          simp [VVal.comps, build, hl]
      | [], [], hsum, _, _, _ => simp at hsum; have := count_pos hoy; omega
      | t1 :: t2 :: ts, vs, hsum, _, hsh, hk =>
        have hcc := ctorComps_same (P := M.P) (t1 :: t2 :: ts) vs (fun t ht => (hk t ht).1) hsh
        simp only [hsum, if_true, hcc]
        cases build ty (flat vs) <;> rfl
      | [_], [], _, _, hsh, _ => simp [shapedAll] at hsh
      | [_], _ :: _ :: _, _, _, hsh, _ => simp [shapedAll] at hsh
      | [], _ :: _, _, _, hsh, _ => simp [shapedAll] at hsh


end RsslVerif.Lemmas.GenMslVec

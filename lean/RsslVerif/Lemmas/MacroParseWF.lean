import RsslVerif.Lemmas.MacroTameSpec
/-!
`WFMacro` (the hypothesis of the refinement theorems on every macro of the table) is what `Macro::parse` guarantees
for a definition without `##`, given tokens as the lexer produces them (no `MacroArg`, no `Concat`).
-/
namespace RsslVerif.Lemmas.MacroParseWF
open RsslVerif.Model.Macro RsslVerif.Spec.CPreMacro RsslVerif.Lemmas.MacroTameSpec RsslVerif.Lemmas.MacroSubst

theorem splitAtTok_mem (k : Tok) (l a b : List PTok) (h : splitAtTok k l = some (a, b)) :
    (∀ t ∈ a, t ∈ l) ∧ (∀ t ∈ b, t ∈ l) := by
  induction l generalizing a b with
  | nil => simp [splitAtTok] at h
  | cons x xs ih =>
    unfold splitAtTok at h
    split at h
    · simp only [Option.some.injEq, Prod.mk.injEq] at h
      obtain ⟨rfl, rfl⟩ := h
      exact ⟨fun t ht => (by cases ht), fun t ht => List.mem_cons_of_mem _ ht⟩
    · split at h
      · rename_i a' b' hs
        simp only [Option.some.injEq, Prod.mk.injEq] at h
        obtain ⟨rfl, rfl⟩ := h
        obtain ⟨h1, h2⟩ := ih a' _ hs
        refine ⟨?_, fun t ht => List.mem_cons_of_mem _ (h2 t ht)⟩
        intro t ht
        rcases List.mem_cons.mp ht with rfl | ht
        · simp
        · exact List.mem_cons_of_mem _ (h1 t ht)
      · cases h

theorem indexOfName_bound (p : String) (l : List String) (k i : Nat) (h : indexOfName p l k = some i) :
    k ≤ i ∧ i < k + l.length := by
  induction l generalizing k with
  | nil => simp [indexOfName] at h
  | cons q r ih =>
    unfold indexOfName at h
    split at h
    · simp only [Option.some.injEq] at h; subst h; simp
    · have := ih (k + 1) h
      simp only [List.length_cons]
      omega


theorem bodyTok_cases (params : List String) (t0 : PTok) :
    (∃ s i, t0.tok = .id s ∧ indexOfName s params 0 = some i ∧ (bodyTok params t0).tok = .arg i) ∨
    (t0.tok = .hashhash ∧ (bodyTok params t0).tok = .concat) ∨
    ((bodyTok params t0).tok = t0.tok ∧ t0.tok ≠ .hashhash) := by
  unfold bodyTok
  cases htk : t0.tok with
  | id s =>
    cases hi : indexOfName s params 0 with
    | some i => exact Or.inl ⟨s, i, rfl, hi, by simp [hi]⟩
    | none => exact Or.inr (Or.inr ⟨by simp [hi, htk], by simp⟩)
  | hashhash => exact Or.inr (Or.inl ⟨rfl, by simp⟩)
  | _ => exact Or.inr (Or.inr ⟨by simp [htk], by simp⟩)

theorem mem_trim {l : List PTok} {t : PTok} (h : t ∈ trim l) : t ∈ l := by
  have hs : (trim l).Sublist l := by
    unfold trim trimEnd trimStart
    have h1 : (List.dropWhile (fun t : PTok => t.tok.isBlank) l).Sublist l := List.dropWhile_sublist _
    have h2 : ((List.dropWhile (fun t : PTok => t.tok.isBlank) l).reverse.dropWhile
        (fun t : PTok => t.tok.isBlank)).Sublist (List.dropWhile (fun t : PTok => t.tok.isBlank) l).reverse :=
      List.dropWhile_sublist _
    have h3 := List.Sublist.reverse h2
    simp only [List.reverse_reverse] at h3
    exact List.Sublist.trans h3 h1
  exact hs.subset h

theorem mem_trimStart {l : List PTok} {t : PTok} (h : t ∈ trimStart l) : t ∈ l :=
  (List.dropWhile_sublist _).subset h

theorem parseParams_nil_object (n : Nat) : parseParams (n + 1) [] [] = .ok [] := by
  simp [parseParams, splitAtTok, trim, trimEnd, trimStart]

/-- tokens as the lexer produces them: no `MacroArg`, no `Concat`, no identifier spelled like a parameter name of the
reference reading -/
def LexerTokens (l : List PTok) : Prop :=
  ∀ t ∈ l, (∀ i, t.tok ≠ .arg i) ∧ t.tok ≠ .concat ∧ ∀ s, t.tok = .id s → ∀ i, s ≠ paramName i

/-- **`Macro::parse` yields a well-formed macro** (for a definition without `##`) -/
theorem parseDefine_wf (cmd : List PTok) (m : Macro) (h : parseDefine cmd = .ok m) (hlex : LexerTokens cmd)
    (hnohash : ∀ t ∈ cmd, t.tok ≠ .hashhash) : WFMacro m := by
  unfold parseDefine at h
  split at h
  · rename_i name b0 sig htrim
    -- everything of `sig` is in `cmd`
    have hsig : ∀ t ∈ sig, t ∈ cmd := fun t ht => mem_trimStart (by rw [htrim]; exact List.mem_cons_of_mem _ ht)
    -- the three components
    have key : ∀ (ps : List PTok) (isFn : Bool) (body : List PTok) (params : List String),
        (∀ t ∈ body, t ∈ cmd) → (isFn = false → params = []) →
        WFMacro { name := name, isFunction := isFn, numParams := params.length,
                  body := (trim body).map (bodyTok params) } := by
      intro ps isFn body params hbody hobj
      have hmem : ∀ t ∈ (trim body).map (bodyTok params), ∃ t0 ∈ cmd, t = bodyTok params t0 := by
        intro t ht
        obtain ⟨t0, ht0, rfl⟩ := List.mem_map.mp ht
        exact ⟨t0, hbody t0 (mem_trim ht0), rfl⟩
      refine ⟨?_, ?_, ?_, ?_⟩
      · intro t ht hh
        obtain ⟨t0, ht0, rfl⟩ := hmem t ht
        rcases bodyTok_cases params t0 with ⟨s, i, _, _, h3⟩ | ⟨_, h2⟩ | ⟨h1, h2⟩
        · rw [h3] at hh; cases hh
        · rw [h2] at hh; cases hh
        · rw [h1] at hh; exact h2 hh
      · intro t ht hh
        obtain ⟨t0, ht0, rfl⟩ := hmem t ht
        rcases bodyTok_cases params t0 with ⟨s, i, _, _, h3⟩ | ⟨h1, _⟩ | ⟨h1, _⟩
        · rw [h3] at hh; cases hh
        · exact hnohash t0 ht0 h1
        · rw [h1] at hh; exact (hlex t0 ht0).2.1 hh
      · intro t ht s hs i
        obtain ⟨t0, ht0, rfl⟩ := hmem t ht
        rcases bodyTok_cases params t0 with ⟨s', i', _, _, h3⟩ | ⟨_, h2⟩ | ⟨h1, _⟩
        · rw [h3] at hs; cases hs
        · rw [h2] at hs; cases hs
        · rw [h1] at hs; exact (hlex t0 ht0).2.2 s hs i
      · intro t ht i hi
        obtain ⟨t0, ht0, rfl⟩ := hmem t ht
        rcases bodyTok_cases params t0 with ⟨s', j, _, hj, h3⟩ | ⟨_, h2⟩ | ⟨h1, _⟩
        · rw [h3] at hi
          cases hi
          have hb := indexOfName_bound _ _ _ _ hj
          refine ⟨by simp only; omega, ?_⟩
          cases hf : isFn with
          | true => rfl
          | false =>
            rw [hobj hf] at hj
            simp [indexOfName] at hj
        · rw [h2] at hi; cases hi
        · rw [h1] at hi; exact absurd hi ((hlex t0 ht0).1 i)
    -- the two shapes of the signature
    split at h
    · rename_i b1 rest
      split at h
      · rename_i ps body hsplit
        simp only at h
        split at h
        · cases h
        · rename_i params hp
          cases h
          obtain ⟨_, h2⟩ := splitAtTok_mem _ _ _ _ hsplit
          exact key ps true body params
            (fun t ht => hsig t (List.mem_cons_of_mem _ (h2 t ht))) (fun hf => by cases hf)
      · cases h
    · simp only at h
      rw [show parseParams (([] : List PTok).length + 1) [] [] = .ok [] from parseParams_nil_object 0] at h
      simp only at h
      cases h
      exact key [] false sig [] hsig (fun _ => rfl)
  · cases h

end RsslVerif.Lemmas.MacroParseWF

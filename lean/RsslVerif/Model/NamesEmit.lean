import RsslVerif.Model.Names
/-!
# How the two exporters consume the name map (hlsl/src/ast_generate.rs, msl/src/generator.rs + generator/pipeline.rs)

Executable, core Lean only.  Input: the module as the type checker leaves it (flat list of root definitions, each
with the namespace it lives in — `ir::Module::root_definitions` is flat as well, the exporters rebuild the
namespace blocks and merge adjacent ones), the target configuration and the pipeline.  Output (`emit`): the sequence
of **declarations and uses of identifiers** of the emitted program, in the order of the syntax tree handed to
the formatter.  Rendered (`render`), it is the token list the harness extracts from the real tree:

    N:n ( … )   namespace block          S:n ( M:m … m:f ( ) … )  struct with members and methods
    E:n ( V:v … )  enum                   G:n  global variable      C:n ( D:m … )  cbuffer block (HLSL)
    F:n ( P:p … L:x … ( … ) … )  function: parameters, locals, nested blocks
    ?a::b  use of a value by (relative) path     ?:a::b  use of a type     .m  member access

Every token also carries what the rendering drops: the scope it is emitted in and the entity it declares / means
(`Tok.decl sc k name ent`, `Tok.use sc isType path ent`); the theorems are about these.

What is mirrored:

* every namespace / struct / enum / enum value / global / function / method / local is printed with the leaf name
  `NameMap::get_name_leaf` returns, uses with `get_name_qualified` (all components from the root, relative base);
  **struct members, cbuffer blocks and cbuffer members are printed with their source names** (they never enter the map),
  a cbuffer member is referenced by its leaf name only; methods are symbols of the **root** scope of the map;
* HLSL for Vulkan with buffer addresses: every `BufferAddress` / `RWBufferAddress` global that is not an array becomes
  a member **named by the global's leaf name** of the generated `struct InlineDescriptor<set>`; a generated
  `g_inlineDescriptor<set>` of that type follows; the global itself is initialised with `g_inlineDescriptor<set>.<leaf>`;
* Metal: `simplify_cbuffers` first turns every cbuffer `X` into `struct XType` + a global `X` (both then go through
  the map); globals that are not compile-time constants (`static const`, static samplers) are **threaded**: every
  function receives, after its own parameters, one parameter **named by the leaf name** per global it needs
  (transitively, ascending id), a call passes them on by leaf name; with a pipeline, one `struct ArgumentBuffer<i>`
  per bind group (members named by leaf name) and the wrapper `ComputeShaderEntry` follow: it repeats the entry
  point's parameter, takes `set<i>`, declares the static / groupshared globals the entry needs as locals (leaf
  names) and calls the entry point by its qualified name;
* reflection: binding names are the names of the emitted declarations (HLSL: cbuffer source name, global leaf name;
  Metal: argument-buffer member), the entry point is the emitted function name (HLSL) / `ComputeShaderEntry`.

The name map itself is `Model.Names.build` on the registries the exporter sees (`namesInput`).
Vertex / pixel pipelines are outside the model (`supported`).
-/
namespace RsslVerif.Model.NamesEmit
open RsslVerif.Model.Names

inductive Target where
  | dx | vk | vkba | msl
  deriving DecidableEq, Repr, Inhabited

def Target.isMsl : Target → Bool
  | .msl => true
  | _ => false

/-- a reference written in a function body -/
inductive Ref where
  | glob (k : Nat) | func (k : Nat) | loc (k : Nat) | enumVal (v : Nat) | cbMember (c i : Nat)
  | structTy (k : Nat) | enumTy (k : Nat) | nothing
  /-- `WaveGetLaneIndex()` (`count = false`) / `WaveGetLaneCount()` (`count = true`) -/
  | wave (count : Bool)
  deriving DecidableEq, Repr, Inhabited

/-- function bodies are kept flat: declaration of local `k`, block open / close, a use -/
inductive BTok where
  | lv (k : Nat) | op | cl | use (r : Ref)
  deriving DecidableEq, Repr, Inhabited

structure ResOpts where
  array : Bool := false
  group : Option Nat := none
  elem : Option Nat := none
  deriving DecidableEq, Repr, Inhabited

inductive DefKind where
  /-- methods: (function ordinal, source name) -/
  | struct (ord : Nat) (name : String) (members : List String) (methods : List (Nat × String))
  /-- values: (ordinal through all enums, source name) -/
  | enum (ord : Nat) (name : String) (values : List (Nat × String))
  /-- `static int` (s), `static const int` (c), `groupshared int` (g) -/
  | glob (ord : Nat) (name : String) (storage : Char)
  | res (ord : Nat) (name : String) (kind : String) (opts : ResOpts)
  | cbuf (ord : Nat) (name : String) (group : Option Nat) (members : List String)
  /-- `entry = some 'c'`: compute entry point (one parameter) -/
  | func (ord : Nat) (name : String) (params : List Nat) (body : List BTok) (entry : Option Char)
  deriving DecidableEq, Repr, Inhabited

structure Def where
  ns : Option Nat
  kind : DefKind
  deriving DecidableEq, Repr, Inhabited

structure Program where
  nss : List (Option Nat × String)
  defs : List Def
  /-- source names of the variable registry (parameters and locals, function by function) -/
  localNames : List String
  /-- the entry points of the pipeline (function ordinals) and its default bind group; `none` = no pipeline -/
  pipeline : Option (List Nat × Option Nat)
  deriving DecidableEq, Repr, Inhabited

/-! ## facts about the definitions -/

def globalDef (p : Program) (k : Nat) : Option DefKind :=
  (p.defs.find? fun d => match d.kind with
    | .glob o _ _ => o == k
    | .res o _ _ _ => o == k
    | _ => false).map (·.kind)

def cbufDef (p : Program) (c : Nat) : Option DefKind :=
  (p.defs.find? fun d => match d.kind with
    | .cbuf o _ _ _ => o == c
    | _ => false).map (·.kind)

def numGlobals (p : Program) : Nat :=
  (p.defs.filter fun d => match d.kind with
    | .glob .. => true
    | .res .. => true
    | _ => false).length

def numStructs (p : Program) : Nat :=
  (p.defs.filter fun d => match d.kind with
    | .struct .. => true
    | _ => false).length

def cbufs (p : Program) : List (Nat × Option Nat × String) :=
  p.defs.filterMap fun d => match d.kind with
    | .cbuf c n _ _ => some (c, d.ns, n)
    | _ => none

def methodOrds (p : Program) : List Nat :=
  p.defs.flatMap fun d => match d.kind with
    | .struct _ _ _ fs => fs.map (·.1)
    | _ => []

/-- all enum values: (value ordinal, enum ordinal) -/
def valueEnums (p : Program) : List (Nat × Nat) :=
  p.defs.flatMap fun d => match d.kind with
    | .enum e _ vs => vs.map fun v => (v.1, e)
    | _ => []

/-- Metal numbers the global made from cbuffer `c` after all globals of the source -/
def cbGlobal (p : Program) (c : Nat) : Nat := numGlobals p + c
def cbStruct (p : Program) (c : Nat) : Nat := numStructs p + c

def defaultGroup (p : Program) : Nat :=
  match p.pipeline with
  | some (_, some d) => d
  | _ => 0

/-- does the (Metal) global keep a file-scope declaration (compile-time constant)? -/
def isConstantGlobal (p : Program) (g : Nat) : Bool :=
  match globalDef p g with
  | some (.glob _ _ s) => s == 'c'
  | some (.res _ _ kind _) => kind == "ssamp"
  | _ => false

def isExternResource (p : Program) (g : Nat) : Bool :=
  if g ≥ numGlobals p then true else
  match globalDef p g with
  | some (.res ..) => true
  | _ => false

/-- bind group of a resource / cbuffer global (Metal numbering of cbuffer globals) -/
def groupOf (p : Program) (g : Nat) : Nat :=
  if g ≥ numGlobals p then
    match cbufDef p (g - numGlobals p) with
    | some (.cbuf _ _ (some s) _) => s
    | _ => defaultGroup p
  else
    match globalDef p g with
    | some (.res _ _ _ o) => o.group.getD (defaultGroup p)
    | _ => defaultGroup p

/-- Vulkan with buffer addresses: the global lives in the inline descriptor struct -/
def isInline (p : Program) (g : Nat) : Bool :=
  match globalDef p g with
  | some (.res _ _ kind o) => (kind == "ba" || kind == "rwba") && !o.array
  | _ => false

def isArray (p : Program) (g : Nat) : Bool :=
  match globalDef p g with
  | some (.res _ _ _ o) => o.array
  | _ => false

/-- the struct a resource's type mentions (`ConstantBuffer<S>`, `StructuredBuffer<S>`) -/
def elemStruct (p : Program) (g : Nat) : Option Nat :=
  match globalDef p g with
  | some (.res _ _ kind o) => if kind == "cbs" || kind == "sbs" then o.elem else none
  | _ => none

/-! ## the registries `NameMap::build` sees -/

def bodyUses (body : List BTok) : List Ref :=
  body.filterMap fun t => match t with
    | .use r => some r
    | _ => none

def funcBodies (p : Program) : List (Nat × List BTok) :=
  p.defs.filterMap fun d => match d.kind with
    | .func o _ _ b _ => some (o, b)
    | _ => none

/-- the usage analysis: every function / global some function body mentions; on Metal a use of a cbuffer member is a
use of the global made from the cbuffer, on HLSL cbuffers are skipped (`UsageSymbol::ConstantBuffer => continue`) -/
def usedSyms (t : Target) (p : Program) : List Sym :=
  (funcBodies p).flatMap fun fb => (bodyUses fb.2).filterMap fun r =>
    match r with
    | .glob k => some ⟨.global, k⟩
    | .func k => if (methodOrds p).contains k then none else some ⟨.func, k⟩
    | .cbMember c _ => if t.isMsl then some ⟨.global, cbGlobal p c⟩ else none
    | _ => none

def structEntries (p : Program) : List Entry :=
  p.defs.filterMap fun d => match d.kind with
    | .struct o n _ _ => some ⟨⟨.struct, o⟩, d.ns, n⟩
    | _ => none

/-- enums, each followed by its values (symbols of the scope that contains the enum) -/
def enumEntries (p : Program) : List Entry :=
  p.defs.flatMap fun d => match d.kind with
    | .enum o n vs => ⟨⟨.enum, o⟩, d.ns, n⟩ :: vs.map fun v => ⟨⟨.enumValue, v.1⟩, d.ns, v.2⟩
    | _ => []

def globalEntries (p : Program) : List Entry :=
  p.defs.filterMap fun d => match d.kind with
    | .glob o n _ => some ⟨⟨.global, o⟩, d.ns, n⟩
    | .res o n _ _ => some ⟨⟨.global, o⟩, d.ns, n⟩
    | _ => none

/-- functions in registry order; methods are named in the root scope whatever namespace holds the struct -/
def funcEntries (p : Program) : List Entry :=
  p.defs.flatMap fun d => match d.kind with
    | .struct _ _ _ fs => fs.map fun f => ⟨⟨.func, f.1⟩, none, f.2⟩
    | .func o n _ _ _ => [⟨⟨.func, o⟩, d.ns, n⟩]
    | _ => []

def namesInput (t : Target) (p : Program) : Input :=
  { nss := p.nss
    entries :=
      structEntries p ++
      (if t.isMsl then (cbufs p).map fun c => (⟨⟨.struct, cbStruct p c.1⟩, c.2.1, c.2.2 ++ "Type"⟩ : Entry) else []) ++
      enumEntries p ++ globalEntries p ++
      (if t.isMsl then (cbufs p).map fun c => (⟨⟨.global, cbGlobal p c.1⟩, c.2.1, c.2.2⟩ : Entry) else []) ++
      funcEntries p
    used := usedSyms t p
    locals := p.localNames }

/-! ## names -/

def leaf (names : List Named) (s : Sym) : String :=
  match lookup names s with
  | some n => n.name
  | none => "<no name>"

def pathOf (names : List Named) (s : Sym) : List String :=
  match qualified names s with
  | .ok q => q
  | .error _ => ["<no name>"]

def showPath (q : List String) : String := "::".intercalate q

/-- `get_enum_value_name_full`: the enum's qualified name followed by the value's leaf name -/
def valuePath (names : List Named) (p : Program) (v : Nat) : List String :=
  match (valueEnums p).find? (·.1 == v) with
  | some (_, e) => pathOf names ⟨.enum, e⟩ ++ [leaf names ⟨.enumValue, v⟩]
  | none => ["<no value>"]

def nsPath (names : List Named) (ns : Option Nat) : List String :=
  match ns with
  | none => []
  | some i => pathOf names ⟨.ns, i⟩

/-! ## Metal: the globals a function needs -/

def insertNat (n : Nat) : List Nat → List Nat
  | [] => [n]
  | m :: r => if n < m then n :: m :: r else if n == m then m :: r else m :: insertNat n r

def unionSorted (a b : List Nat) : List Nat := a.foldl (fun acc n => insertNat n acc) b

/-- the threaded globals a body mentions directly -/
def directGlobals (p : Program) (body : List BTok) : List Nat :=
  (bodyUses body).foldl (fun acc r =>
    match r with
    | .glob k => if isConstantGlobal p k then acc else insertNat k acc
    | .cbMember c _ => insertNat (cbGlobal p c) acc
    | _ => acc) []

/-- required globals of every function, in definition order (a body only calls functions defined before it) -/
def requiredAll (p : Program) : List (Nat × List Nat) :=
  (funcBodies p).foldl (fun acc fb =>
    let callees := (bodyUses fb.2).filterMap fun r => match r with
      | .func k => some k
      | _ => none
    let fromCalls := callees.foldl (fun a k =>
      match acc.find? (·.1 == k) with
      | some x => unionSorted x.2 a
      | none => a) []
    acc ++ [(fb.1, unionSorted (directGlobals p fb.2) fromCalls)]) []

def required (p : Program) (f : Nat) : List Nat :=
  match (requiredAll p).find? (·.1 == f) with
  | some x => x.2
  | none => []

/-! ## Metal: the implicit wave parameters

`msl/src/generator.rs`: a function whose usage set (transitive over calls) contains the intrinsic `WaveGetLaneIndex` /
`WaveGetLaneCount` gets `ImplicitFunctionParameter::ThreadIndexInSimdgroup` / `ThreadsPerSimdgroup`; `required_globals.sort()`
puts them (in this order) in front of the `Global` parameters.  Codes: 0 = lane index, 1 = lane count. -/

def waveCode (count : Bool) : Nat := if count then 1 else 0

/-- the identifier of the implicit parameter (tied to the generator by `Gen.Reserved.mslImplicitParams`) -/
def waveName (w : Nat) : String := if w == 0 then "thread_index_in_simdgroup" else "threads_per_simdgroup"

def directWaves (body : List BTok) : List Nat :=
  (bodyUses body).foldl (fun acc r =>
    match r with
    | .wave c => insertNat (waveCode c) acc
    | _ => acc) []

def requiredWavesAll (p : Program) : List (Nat × List Nat) :=
  (funcBodies p).foldl (fun acc fb =>
    let callees := (bodyUses fb.2).filterMap fun r => match r with
      | .func k => some k
      | _ => none
    let fromCalls := callees.foldl (fun a k =>
      match acc.find? (·.1 == k) with
      | some x => unionSorted x.2 a
      | none => a) []
    acc ++ [(fb.1, unionSorted (directWaves fb.2) fromCalls)]) []

def requiredWaves (p : Program) (f : Nat) : List Nat :=
  match (requiredWavesAll p).find? (·.1 == f) with
  | some x => x.2
  | none => []

/-! ## tokens -/

/-- what a token declares / means -/
inductive Ent where
  /-- an entity the name map names -/
  | sym (s : Sym)
  /-- member `i` of struct `s` (source name; Metal: also the members of the struct made from a cbuffer) -/
  | member (s i : Nat)
  /-- HLSL cbuffer block and its members (source names) -/
  | cbuf (c : Nat)
  | cbufMember (c i : Nat)
  /-- a declaration the exporter generates itself -/
  | gen (name : String)
  deriving DecidableEq, Repr, Inhabited

/-- the scope of the emitted program a token is placed in -/
inductive Scope where
  | file (ns : Option Nat)
  | strct (s : Nat)
  | enm (e : Nat)
  | cbuffer (c : Nat)
  | genStruct (name : String)
  | func (f : Nat)
  | wrapper
  deriving DecidableEq, Repr, Inhabited

inductive Tok where
  | decl (sc : Scope) (k : String) (name : String) (e : Ent)
  | use (sc : Scope) (isType : Bool) (path : List String) (e : Ent)
  | mem (sc : Scope) (name : String) (e : Ent)
  | op | cl
  deriving DecidableEq, Repr, Inhabited

def render : Tok → String
  | .decl _ k n _ => k ++ ":" ++ n
  | .use _ ty q _ => (if ty then "?:" else "?") ++ showPath q
  | .mem _ n _ => "." ++ n
  | .op => "("
  | .cl => ")"

def gInline (s : Nat) : String := "g_inlineDescriptor" ++ toString s
def inlineStruct (s : Nat) : String := "InlineDescriptor" ++ toString s
def argBuffer (i : Nat) : String := "ArgumentBuffer" ++ toString i
def setName (i : Nat) : String := "set" ++ toString i
def wrapperName : String := "ComputeShaderEntry"

/-- Metal: the implicit wave parameters of function `f`, declared in scope `sc` (the function's own scope / the wrapper) -/
def waveParams (t : Target) (sc : Scope) (p : Program) (f : Nat) : List Tok :=
  if t.isMsl then (requiredWaves p f).map fun w => Tok.decl sc "P" (waveName w) (.gen (waveName w)) else []

/-- Metal: a call of `f` passes the caller's implicit wave parameters on -/
def waveArgs (t : Target) (sc : Scope) (p : Program) (f : Nat) : List Tok :=
  if t.isMsl then (requiredWaves p f).map fun w => Tok.use sc false [waveName w] (.gen (waveName w)) else []

/-- the type tokens in front of a declaration of global `g` (a user struct named by the type) -/
def typeToks (sc : Scope) (names : List Named) (p : Program) (g : Nat) : List Tok :=
  if g ≥ numGlobals p then
    [.use sc true (pathOf names ⟨.struct, cbStruct p (g - numGlobals p)⟩) (.sym ⟨.struct, cbStruct p (g - numGlobals p)⟩)]
  else match elemStruct p g with
    | some s => [.use sc true (pathOf names ⟨.struct, s⟩) (.sym ⟨.struct, s⟩)]
    | none => []

def structMembers (p : Program) (s : Nat) : List String :=
  match p.defs.findSome? (fun d => match d.kind with
    | .struct o _ ms _ => if o == s then some ms else none
    | _ => none) with
  | some ms => ms
  | none => []

/-- `.m` after a `ConstantBuffer<S>` resource: the first member of `S` -/
def memberTok (sc : Scope) (p : Program) (g : Nat) : List Tok :=
  match globalDef p g with
  | some (.res _ _ kind o) =>
    if kind == "cbs" then
      match o.elem with
      | some s =>
        match structMembers p s with
        | m :: _ => [.mem sc m (.member s 0)]
        | [] => []
      | none => []
    else []
  | _ => []

def cbMemberName (p : Program) (c i : Nat) : String :=
  match cbufDef p c with
  | some (.cbuf _ _ _ ms) => ms.getD i "<no member>"
  | _ => "<no cbuffer>"

def useToks (t : Target) (sc : Scope) (names : List Named) (p : Program) : Ref → List Tok
  | .glob k =>
    if t.isMsl && !isConstantGlobal p k then
      -- an element of an array of structured buffers is cast to its buffer type first
      (if isArray p k then typeToks sc names p k else []) ++
        [.use sc false [leaf names ⟨.global, k⟩] (.sym ⟨.global, k⟩)] ++ memberTok sc p k
    else [.use sc false (pathOf names ⟨.global, k⟩) (.sym ⟨.global, k⟩)] ++ memberTok sc p k
  | .func k =>
    if (methodOrds p).contains k then [] else
    [.use sc false (pathOf names ⟨.func, k⟩) (.sym ⟨.func, k⟩)] ++ waveArgs t sc p k ++
      (if t.isMsl then (required p k).map fun g => .use sc false [leaf names ⟨.global, g⟩] (.sym ⟨.global, g⟩) else [])
  | .loc k => [.use sc false [leaf names ⟨.localVar, k⟩] (.sym ⟨.localVar, k⟩)]
  | .enumVal v => [.use sc false (valuePath names p v) (.sym ⟨.enumValue, v⟩)]
  | .cbMember c i =>
    if t.isMsl then
      [.use sc false [leaf names ⟨.global, cbGlobal p c⟩] (.sym ⟨.global, cbGlobal p c⟩),
       .mem sc (cbMemberName p c i) (.member (cbStruct p c) i)]
    else [.use sc false [cbMemberName p c i] (.cbufMember c i)]
  | .structTy k => [.use sc true (pathOf names ⟨.struct, k⟩) (.sym ⟨.struct, k⟩)]
  | .enumTy k => [.use sc true (pathOf names ⟨.enum, k⟩) (.sym ⟨.enum, k⟩)]
  | .nothing => []
  -- Metal prints the intrinsic as the implicit parameter; HLSL calls the built-in (no declared identifier involved)
  | .wave c => if t.isMsl then [.use sc false [waveName (waveCode c)] (.gen (waveName (waveCode c)))] else []

def bodyToks (t : Target) (sc : Scope) (names : List Named) (p : Program) (body : List BTok) : List Tok :=
  body.flatMap fun b => match b with
    | .lv k => [.decl sc "L" (leaf names ⟨.localVar, k⟩) (.sym ⟨.localVar, k⟩)]
    | .op => [.op]
    | .cl => [.cl]
    | .use r => useToks t sc names p r

def memberDecls (sc : Scope) (k : String) (mk : Nat → Ent) : List String → Nat → List Tok
  | [], _ => []
  | m :: r, i => .decl sc k m (mk i) :: memberDecls sc k mk r (i + 1)

/-- the tokens of one root definition (without its namespace blocks) -/
def defToks (t : Target) (names : List Named) (p : Program) (d : Def) : List Tok :=
  match d.kind with
  | .struct o _ ms fs =>
    [.decl (.file d.ns) "S" (leaf names ⟨.struct, o⟩) (.sym ⟨.struct, o⟩), .op] ++
      memberDecls (.strct o) "M" (.member o) ms 0 ++
      fs.flatMap (fun f => [.decl (.strct o) "m" (leaf names ⟨.func, f.1⟩) (.sym ⟨.func, f.1⟩), .op, .cl]) ++ [.cl]
  | .enum o _ vs =>
    [.decl (.file d.ns) "E" (leaf names ⟨.enum, o⟩) (.sym ⟨.enum, o⟩), .op] ++
      vs.map (fun v => .decl (.enm o) "V" (leaf names ⟨.enumValue, v.1⟩) (.sym ⟨.enumValue, v.1⟩)) ++ [.cl]
  | .glob o _ s =>
    if t.isMsl && s != 'c' then [] else [.decl (.file d.ns) "G" (leaf names ⟨.global, o⟩) (.sym ⟨.global, o⟩)]
  | .res o _ kind _ =>
    if t.isMsl then
      (if kind == "ssamp" then [.decl (.file d.ns) "G" (leaf names ⟨.global, o⟩) (.sym ⟨.global, o⟩)] else [])
    else
      typeToks (.file d.ns) names p o ++ [.decl (.file d.ns) "G" (leaf names ⟨.global, o⟩) (.sym ⟨.global, o⟩)] ++
        (if t == .vkba && isInline p o then
          [.use (.file d.ns) false [gInline (groupOf p o)] (.gen (gInline (groupOf p o))),
           .mem (.file d.ns) (leaf names ⟨.global, o⟩) (.sym ⟨.global, o⟩)] else [])
  | .cbuf c name _ ms =>
    if t.isMsl then
      [.decl (.file d.ns) "S" (leaf names ⟨.struct, cbStruct p c⟩) (.sym ⟨.struct, cbStruct p c⟩), .op] ++
        memberDecls (.strct (cbStruct p c)) "M" (.member (cbStruct p c)) ms 0 ++ [.cl]
    else
      -- the members of a cbuffer block are names of the enclosing scope
      [.decl (.file d.ns) "C" name (.cbuf c), .op] ++ memberDecls (.file d.ns) "D" (.cbufMember c) ms 0 ++ [.cl]
  | .func o _ ps body _ =>
    [.decl (.file d.ns) "F" (leaf names ⟨.func, o⟩) (.sym ⟨.func, o⟩), .op] ++
      ps.map (fun l => .decl (.func o) "P" (leaf names ⟨.localVar, l⟩) (.sym ⟨.localVar, l⟩)) ++
      waveParams t (.func o) p o ++
      (if t.isMsl then (required p o).flatMap fun g =>
        typeToks (.func o) names p g ++ [.decl (.func o) "P" (leaf names ⟨.global, g⟩) (.sym ⟨.global, g⟩)] else []) ++
      bodyToks t (.func o) names p body ++ [.cl]

def commonPrefix : List String → List String → List String
  | a :: r, b :: s => if a == b then a :: commonPrefix r s else []
  | _, _ => []

/-- the namespace ids along the chain of `ns`, outermost first -/
def nsChain (p : Program) : Nat → Option Nat → List Nat
  | 0, _ => []
  | _, none => []
  | fuel + 1, some i =>
    match p.nss[i]? with
    | some (parent, _) => nsChain p fuel parent ++ [i]
    | none => [i]

/-- `generate_root_definitions` + `simplify_namespaces`: every definition is wrapped in its namespace chain and
adjacent blocks of one (emitted) name are merged.  `cur` = the blocks that are open. -/
def wrap (names : List Named) (p : Program) : List String → List (Option Nat × List Tok) → List Tok
  | cur, [] => cur.map fun _ => .cl
  | cur, (ns, toks) :: rest =>
    -- a definition that emits nothing, in a namespace that is open anyway (or at the root), leaves nothing between the
    -- blocks around it: they stay adjacent and are merged (also the nested ones, `simplify_namespaces` recurses)
    if toks.isEmpty && (nsPath names ns).isPrefixOf cur then wrap names p cur rest else
    let path := nsPath names ns
    let c := commonPrefix cur path
    let chain := nsChain p (p.nss.length + 1) ns
    (List.replicate (cur.length - c.length) Tok.cl) ++
      (((List.range path.length).drop c.length).flatMap fun j =>
        let id := chain.getD j 0
        let parent : Option Nat := if j == 0 then none else some (chain.getD (j - 1) 0)
        [Tok.decl (.file parent) "N" (path.getD j "") (.sym ⟨.ns, id⟩), Tok.op]) ++
      toks ++ wrap names p path rest

/-- the resources in root-definition order, cbuffers under their Metal global number -/
def boundInOrder (p : Program) : List Nat :=
  p.defs.filterMap fun d => match d.kind with
    | .res o _ _ _ => some o
    | .cbuf c _ _ _ => some (cbGlobal p c)
    | _ => none

def inlineGlobals (p : Program) : List Nat :=
  (boundInOrder p).filter fun g => g < numGlobals p && isInline p g

def inlineSets (p : Program) : List Nat :=
  (inlineGlobals p).foldl (fun acc g => insertNat (groupOf p g) acc) []

/-- Vulkan with buffer addresses: `struct InlineDescriptor<s> { … }; ConstantBuffer<InlineDescriptor<s>> g_inlineDescriptor<s>;` -/
def inlinePrelude (names : List Named) (p : Program) : List Tok :=
  (inlineSets p).flatMap fun s =>
    [Tok.decl (.file none) "S" (inlineStruct s) (.gen (inlineStruct s)), .op] ++
      (((inlineGlobals p).filter fun g => groupOf p g == s).map
        fun g => Tok.decl (.genStruct (inlineStruct s)) "M" (leaf names ⟨.global, g⟩) (.sym ⟨.global, g⟩)) ++
      [.cl, .use (.file none) true [inlineStruct s] (.gen (inlineStruct s)),
       .decl (.file none) "G" (gInline s) (.gen (gInline s))]

/-- Metal: the globals with a binding slot (extern, not a static sampler) -/
def mslBound (p : Program) : List Nat :=
  (boundInOrder p).filter fun g => !isConstantGlobal p g

def mslGroups (p : Program) : Nat :=
  (mslBound p).foldl (fun m g => max m (groupOf p g + 1)) 0

def entryParam (p : Program) (e : Nat) : Option Nat :=
  p.defs.findSome? fun d => match d.kind with
    | .func o _ (l :: _) _ (some 'c') => if o == e then some l else none
    | _ => none

/-- Metal: one `struct ArgumentBuffer<i>` per bind group -/
def argBufferToks (names : List Named) (p : Program) : List Tok :=
  (List.range (mslGroups p)).flatMap fun i =>
    [Tok.decl (.file none) "S" (argBuffer i) (.gen (argBuffer i)), .op] ++
      (((mslBound p).filter fun g => groupOf p g == i).flatMap fun g =>
        typeToks (.genStruct (argBuffer i)) names p g ++
          [Tok.decl (.genStruct (argBuffer i)) "M" (leaf names ⟨.global, g⟩) (.sym ⟨.global, g⟩)]) ++ [.cl]

def wrapperParams (names : List Named) (p : Program) (e : Nat) : List Tok :=
  (match entryParam p e with
   | some l => [Tok.decl .wrapper "P" (leaf names ⟨.localVar, l⟩) (.sym ⟨.localVar, l⟩)]
   | none => []) ++
  ((List.range (mslGroups p)).flatMap fun i =>
    [Tok.use .wrapper true [argBuffer i] (.gen (argBuffer i)), .decl .wrapper "P" (setName i) (.gen (setName i))]) ++
  waveParams .msl .wrapper p e

/-- the static / groupshared globals the entry point needs become locals of the wrapper -/
def wrapperLocals (names : List Named) (p : Program) (e : Nat) : List Tok :=
  (required p e).flatMap fun g =>
    if isExternResource p g then [] else [Tok.decl .wrapper "L" (leaf names ⟨.global, g⟩) (.sym ⟨.global, g⟩)]

def wrapperCall (names : List Named) (p : Program) (e : Nat) : List Tok :=
  [Tok.use .wrapper false (pathOf names ⟨.func, e⟩) (.sym ⟨.func, e⟩)] ++
  (match entryParam p e with
   | some l => [Tok.use .wrapper false [leaf names ⟨.localVar, l⟩] (.sym ⟨.localVar, l⟩)]
   | none => []) ++
  waveArgs .msl .wrapper p e ++
  ((required p e).flatMap fun g =>
    if isExternResource p g then
      [Tok.use .wrapper false [setName (groupOf p g)] (.gen (setName (groupOf p g))),
       .mem .wrapper (leaf names ⟨.global, g⟩) (.sym ⟨.global, g⟩)]
    else [Tok.use .wrapper false [leaf names ⟨.global, g⟩] (.sym ⟨.global, g⟩)])

/-- Metal with a compute pipeline: argument buffer structs and the entry wrapper -/
def mslEpilogue (names : List Named) (p : Program) : List Tok :=
  match p.pipeline with
  | some ([e], _) =>
    argBufferToks names p ++ [Tok.decl (.file none) "F" wrapperName (.gen wrapperName), .op] ++
      wrapperParams names p e ++ wrapperLocals names p e ++ wrapperCall names p e ++ [.cl]
  | _ => []

/-- the declarations and uses of the emitted program -/
def emit (t : Target) (names : List Named) (p : Program) : List Tok :=
  (if t == .vkba then inlinePrelude names p else []) ++
  wrap names p [] (p.defs.map fun d => (d.ns, defToks t names p d)) ++
  (if t.isMsl then mslEpilogue names p else [])

/-! ## reflection -/

def groupsUpTo (gs : List Nat) : List Nat := List.range (gs.foldl (fun m g => max m (g + 1)) 0)

def cbufName (p : Program) (c : Nat) : String :=
  match cbufDef p c with
  | some (.cbuf _ n _ _) => n
  | _ => "<no cbuffer>"

/-- `(bind group, reported name)` in the order of the metadata -/
def reflection (t : Target) (names : List Named) (p : Program) : List (Nat × String) :=
  if t.isMsl then
    (groupsUpTo ((mslBound p).map (groupOf p))).flatMap fun i =>
      ((mslBound p).filter fun g => groupOf p g == i).map fun g => (i, leaf names ⟨.global, g⟩)
  else
    (groupsUpTo ((boundInOrder p).map (groupOf p))).flatMap fun i =>
      ((boundInOrder p).filter fun g => groupOf p g == i).map fun g =>
        if g ≥ numGlobals p then (i, cbufName p (g - numGlobals p)) else (i, leaf names ⟨.global, g⟩)

def entryNames (t : Target) (names : List Named) (p : Program) : List String :=
  match p.pipeline with
  | some (es, _) => es.map fun e => if t.isMsl then wrapperName else leaf names ⟨.func, e⟩
  | none => []

/-- pipelines with vertex / pixel stages are outside the model -/
def supported (p : Program) : Bool :=
  (p.defs.all fun d => match d.kind with
    | .func _ _ _ _ (some c) => c == 'c'
    | _ => true) &&
  (match p.pipeline with
   | some ([e], _) => p.defs.any fun d => match d.kind with
     | .func o _ _ _ (some 'c') => o == e
     | _ => false
   | some _ => false
   | none => true)

end RsslVerif.Model.NamesEmit

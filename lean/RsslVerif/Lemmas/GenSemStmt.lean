import RsslVerif.Lemmas.GenSemExpr
/-! Statements: executing the emitted statement equals executing the typed statement, for every fuel. -/
namespace RsslVerif.Lemmas.GenSem
open RsslVerif.Gen.HlslGenTables RsslVerif.Model RsslVerif.Model.GenHlsl RsslVerif.Spec.Sem
open RsslVerif.Model.Ir (Ty Var Const Dir)
set_option linter.unusedSimpArgs false

theorem typeName_tyOfName' {ty : Ty} {n : String} (h : typeName ty = .ok n) : Ast.tyOfName n = some ty := by
  cases ty <;> simp [typeName, scalarKey, scalarTypeName] at h <;> first | contradiction | (subst h; rfl)

theorem Sim.drop {W : World} {env : Ast.Env} {e : Ir.Expr} {a : HlslAst.Expr} {t : Ty}
    (h : Sim W env e a t) (σ : Store) : dropVal (Ast.eval W env a σ) = dropVal (Ir.eval W e σ) := by
  rw [h.2 σ]; cases Ir.eval W e σ <;> simp [dropVal]

theorem Sim.cond {W : World} {env : Ast.Env} {e : Ir.Expr} {a : HlslAst.Expr} {t : Ty}
    (h : Sim W env e a t) (σ : Store) :
    condOfB W.P (Ast.eval W env a σ) = condOfB W.P (Ir.eval W e σ) := by
  by_cases hl : Ir.litlike e = true
  · obtain ⟨v, rfl⟩ := litlike_cases hl
    simp [h.lit.2 σ, Ir.eval, Ir.constVal, condOfB, castVal_lit_int]
  · have hl' : Ir.litlike e = false := by simpa using hl
    rw [(h.plain hl').2 σ]

/-- every accepted expression is simulated by what the exporter emits for it -/
theorem sim_ok {W : World} {env : Ast.Env} {cx : Ctx} (hag : Agree cx env) {e : Ir.Expr} {a : HlslAst.Expr}
    (hg : genExpr cx e = .ok a) (hok : Ir.okExpr W.sig cx.vty e = true) :
    ∃ t, Ir.typeOf W.sig cx.vty e = some t ∧ Sim W env e a t := by
  simp only [Ir.okExpr, Bool.and_eq_true] at hok
  obtain ⟨t, ht⟩ := Option.isSome_iff_exists.mp hok.1
  exact ⟨t, ht, sim_expr hag e a t hg ht hok.2⟩

theorem sim_okT {W : World} {env : Ast.Env} {cx : Ctx} (hag : Agree cx env) {e : Ir.Expr} {a : HlslAst.Expr} {t : Ty}
    (hg : genExpr cx e = .ok a) (hok : Ir.okExprT W.sig cx.vty t e = true) :
    Ir.typeOf W.sig cx.vty e = some t ∧ Sim W env e a t := by
  simp only [Ir.okExprT, Bool.and_eq_true] at hok
  cases ht : Ir.typeOf W.sig cx.vty e with
  | none => simp [ht] at hok
  | some t' =>
    simp [ht] at hok
    obtain ⟨rfl, hl⟩ := hok
    exact ⟨rfl, sim_expr hag e a t' hg ht hl⟩

theorem cond_fn_eq {W : World} {env : Ast.Env} {cx : Ctx} (hag : Agree cx env)
    {c : Option Ir.Expr} {c' : Option HlslAst.Expr}
    (hg : genOptExpr cx c = .ok c') (hok : Ir.okOpt W.sig cx.vty c = true) :
    Ast.condFn W env c' = Ir.condFn W c := by
  cases c with
  | none => simp [genOptExpr] at hg; subst hg; rfl
  | some e =>
    cases hge : genExpr cx e with
    | error err => simp [genOptExpr, hge, Except.map] at hg
    | ok a =>
      simp [genOptExpr, hge, Except.map] at hg; subst hg
      obtain ⟨t, _, hs⟩ := sim_ok hag hge (by simpa [Ir.okOpt] using hok)
      funext σ
      simp [Ast.condFn, Ir.condFn, Ast.condE, hs.1, hs.cond σ]

theorem inc_fn_eq {W : World} {env : Ast.Env} {cx : Ctx} (hag : Agree cx env)
    {c : Option Ir.Expr} {c' : Option HlslAst.Expr}
    (hg : genOptExpr cx c = .ok c') (hok : Ir.okOpt W.sig cx.vty c = true) :
    Ast.incFn W env c' = Ir.incFn W c := by
  cases c with
  | none => simp [genOptExpr] at hg; subst hg; rfl
  | some e =>
    cases hge : genExpr cx e with
    | error err => simp [genOptExpr, hge, Except.map] at hg
    | ok a =>
      simp [genOptExpr, hge, Except.map] at hg; subst hg
      obtain ⟨t, _, hs⟩ := sim_ok hag hge (by simpa [Ir.okOpt] using hok)
      funext σ
      simp [Ast.incFn, Ir.incFn, hs.drop σ]

theorem vardef_eq {W : World} {env : Ast.Env} {cx : Ctx} (hag : Agree cx env)
    {id : Nat} {init : Option Ir.Expr} {tn name : String} {i : Option HlslAst.Expr}
    (hg : genVarDef cx id init = .ok (tn, name, i)) (hok : Ir.okVarDef W.sig cx.vty id init = true) :
    Ast.tyOfName tn = some (cx.vty (.loc id)) ∧
    ∀ σ, Ast.execVarDef W env (cx.vty (.loc id)) name i σ = Ir.execVarDef W id init σ := by
  simp only [genVarDef] at hg
  cases htn : typeName (cx.vty (.loc id)) with
  | error e => simp [htn] at hg
  | ok tn' =>
    cases hgi : genOptExpr cx init with
    | error e => simp [htn, hgi] at hg
    | ok i' =>
      simp [htn, hgi] at hg
      obtain ⟨rfl, rfl, rfl⟩ := hg
      refine ⟨typeName_tyOfName' htn, fun σ => ?_⟩
      have hr := hag.res (.loc id)
      simp only [Ctx.name] at hr
      cases init with
      | none => simp [genOptExpr] at hgi; subst hgi; simp [Ast.execVarDef, Ir.execVarDef, hr]
      | some e =>
        cases hge : genExpr cx e with
        | error err => simp [genOptExpr, hge, Except.map] at hgi
        | ok a =>
          simp [genOptExpr, hge, Except.map] at hgi; subst hgi
          obtain ⟨ht, hs⟩ := sim_okT hag hge (by simpa [Ir.okVarDef] using hok)
          have := hs.conv ht σ
          simp [Ast.execVarDef, Ir.execVarDef, hr, hs.1, this]

theorem fordefs_eq {W : World} {env : Ast.Env} {cx : Ctx} (hag : Agree cx env) (T : Ty) (tn : String) :
    ∀ (ds : List (Nat × Option Ir.Expr)) (ds' : List (String × Option HlslAst.Expr)),
      genForDefs cx tn ds = .ok ds' → (ds.all fun d => Ir.okVarDef W.sig cx.vty d.1 d.2) = true →
      (∀ d ∈ ds, ∀ n, typeName (cx.vty (.loc d.1)) = .ok n → n = tn → cx.vty (.loc d.1) = T) →
      ∀ σ, Ast.execForDefs W env T ds' σ = Ir.execForDefs W ds σ
  | [], ds', hg, _, _ => by simp [genForDefs] at hg; subst hg; intro σ; rfl
  | (id, init) :: r, ds', hg, hok, hT => by
    simp only [List.all_cons, Bool.and_eq_true] at hok
    simp only [genForDefs] at hg
    cases hv : genVarDef cx id init with
    | error e => simp [hv] at hg
    | ok v =>
      obtain ⟨tn', name, i⟩ := v
      simp only [hv] at hg
      by_cases hne : tn' ≠ tn
      · simp [hne] at hg
      · have heq : tn' = tn := by simpa using hne
        simp only [heq, ne_eq, not_true_eq_false, if_false] at hg
        cases hr : genForDefs cx tn r with
        | error e => simp [hr] at hg
        | ok ds2 =>
          simp [hr] at hg; subst hg
          have hvd := vardef_eq (W := W) hag hv hok.1
          have hTy : cx.vty (.loc id) = T := by
            have htn : typeName (cx.vty (.loc id)) = .ok tn' := by
              simp only [genVarDef] at hv
              cases h1 : typeName (cx.vty (.loc id)) with
              | error e => simp [h1] at hv
              | ok n1 =>
                cases h2 : genOptExpr cx init with
                | error e => simp [h1, h2] at hv
                | ok i2 => simp [h1, h2] at hv; simp [hv.1]
            exact hT (id, init) (by simp) tn' htn heq
          have ih := fordefs_eq hag T tn r ds2 hr hok.2 (fun d hd => hT d (by simp [hd]))
          intro σ
          simp only [Ast.execForDefs, Ir.execForDefs, ← hTy, hvd.2 σ]
          cases Ir.execVarDef W id init σ with
          | none => rfl
          | some σ1 => simp [hTy, ih σ1]

theorem typeName_inj {a b : Ty} {n : String} (ha : typeName a = .ok n) (hb : typeName b = .ok n) : a = b := by
  have h1 := typeName_tyOfName' ha
  have h2 := typeName_tyOfName' hb
  rw [h1] at h2
  exact Option.some.inj h2

theorem forinit_eq {W : World} {env : Ast.Env} {cx : Ctx} (hag : Agree cx env)
    {init : Ir.ForInit} {init' : HlslAst.ForInit}
    (hg : genForInit cx init = .ok init') (hok : Ir.okForInit W.sig cx.vty init = true) :
    ∀ σ, Ast.execForInit W env init' σ = Ir.execForInit W init σ := by
  cases init with
  | empty => simp [genForInit] at hg; subst hg; intro σ; rfl
  | expr e =>
    cases hge : genExpr cx e with
    | error err => simp [genForInit, hge, Except.map] at hg
    | ok a =>
      simp [genForInit, hge, Except.map] at hg; subst hg
      obtain ⟨t, _, hs⟩ := sim_ok hag hge (by simpa [Ir.okForInit] using hok)
      intro σ
      simp [Ast.execForInit, Ir.execForInit, hs.drop σ]
  | defs ds =>
    cases ds with
    | nil => simp [genForInit] at hg
    | cons d r =>
      obtain ⟨id, i0⟩ := d
      simp only [Ir.okForInit, List.all_cons, Bool.and_eq_true] at hok
      simp only [genForInit] at hg
      cases hv : genVarDef cx id i0 with
      | error e => simp [hv] at hg
      | ok v =>
        obtain ⟨tn, name, i⟩ := v
        simp only [hv] at hg
        cases hr : genForDefs cx tn r with
        | error e => simp [hr] at hg
        | ok ds2 =>
          simp [hr] at hg; subst hg
          have hvd := vardef_eq (W := W) hag hv hok.1
          have htn : typeName (cx.vty (.loc id)) = .ok tn := by
            simp only [genVarDef] at hv
            cases h1 : typeName (cx.vty (.loc id)) with
            | error e => simp [h1] at hv
            | ok n1 =>
              cases h2 : genOptExpr cx i0 with
              | error e => simp [h1, h2] at hv
              | ok i2 => simp [h1, h2] at hv; simp [hv.1]
          have ih := fordefs_eq (W := W) hag (cx.vty (.loc id)) tn r ds2 hr hok.2
            (fun d _ n hn hnt => typeName_inj (by rw [hn, hnt]) htn)
          intro σ
          simp only [Ast.execForInit, hvd.1, Ast.execForDefs, Ir.execForInit, Ir.execForDefs, hvd.2 σ]
          cases Ir.execVarDef W id i0 σ with
          | none => rfl
          | some σ1 => simp [ih σ1]


open RsslVerif.Model.HlslAst (pushStmt)

/-- continue after a statement list that was entered in mode `m` -/
def bindS (m : Mode) (r : SR) (k : Mode → Store → SR) : SR :=
  match r with
  | none => none
  | some (.normal, σ1) => k .run σ1
  | some (.seeking, σ1) => k m σ1
  | some (fl, σ1) => some (fl, σ1)

theorem execs_run_ne_seeking (W : World) (env : Ast.Env) (rt : Ty) (fuel : Nat) :
    ∀ (b : HlslAst.Stmts) (σ σ' : Store), Ast.execs W env rt fuel .run b σ ≠ some (.seeking, σ')
  | .nil, σ, σ' => by simp [Ast.execs, endOf]
  | .cons s r, σ, σ' => by
    simp only [Ast.execs]
    cases h : Ast.exec W env rt fuel .run s σ with
    | none => simp
    | some p =>
      obtain ⟨fl, σ1⟩ := p
      cases fl <;> simp
      · exact execs_run_ne_seeking W env rt fuel r σ1 σ'
      · exact execs_run_ne_seeking W env rt fuel r σ1 σ'

theorem bindS_run_of (W : World) (env : Ast.Env) (rt : Ty) (fuel : Nat) (m : Mode) (b : HlslAst.Stmts) (σ : Store)
    (k : Mode → Store → SR) :
    bindS m (Ast.execs W env rt fuel .run b σ) k = bindS .run (Ast.execs W env rt fuel .run b σ) k := by
  cases h : Ast.execs W env rt fuel .run b σ with
  | none => rfl
  | some p =>
    obtain ⟨fl, σ1⟩ := p
    cases fl <;> try rfl
    exact absurd h (execs_run_ne_seeking W env rt fuel b σ σ1)

theorem execs_single (W : World) (env : Ast.Env) (rt : Ty) (fuel : Nat) (m : Mode) (s : HlslAst.Stmt) (σ : Store) :
    Ast.execs W env rt fuel m (.cons s .nil) σ =
      (match Ast.exec W env rt fuel m s σ with
        | none => none
        | some (.normal, σ1) => some (.normal, σ1)
        | some (.seeking, σ1) => endOf m σ1
        | some (fl, σ1) => some (fl, σ1)) := by
  simp only [Ast.execs]
  cases Ast.exec W env rt fuel m s σ with
  | none => rfl
  | some p => obtain ⟨fl, σ1⟩ := p; cases fl <;> simp [endOf]

theorem loopW_ne_seeking (fuel : Nat) (c : Store → Option (Bool × Store)) (b : Store → SR) (i : Store → Option Store) :
    ∀ (σ σ' : Store), loopW fuel c b i σ ≠ some (.seeking, σ') := by
  induction fuel with
  | zero => intro σ σ'; simp [loopW]
  | succ n ih =>
    intro σ σ'
    simp only [loopW]
    cases c σ with
    | none => simp
    | some p =>
      obtain ⟨bv, σ1⟩ := p
      cases bv
      · simp
      · simp only []
        cases b σ1 with
        | none => simp
        | some q =>
          obtain ⟨fl, σ2⟩ := q
          cases fl <;> simp <;> (cases i σ2 <;> simp <;> exact ih _ _)

theorem loopD_ne_seeking (fuel : Nat) (b : Store → SR) (c : Store → Option (Bool × Store)) :
    ∀ (σ σ' : Store), loopD fuel b c σ ≠ some (.seeking, σ') := by
  induction fuel with
  | zero => intro σ σ'; simp [loopD]
  | succ n ih =>
    intro σ σ'
    simp only [loopD]
    cases b σ with
    | none => simp
    | some q =>
      obtain ⟨fl, σ2⟩ := q
      cases fl <;> simp <;> (cases c σ2 with
        | none => simp
        | some p => obtain ⟨bv, σ3⟩ := p; cases bv <;> simp <;> exact ih _ _)

theorem switchOut_ne_seeking (r1 : SR) (p2 : Store → SR) (σ' : Store) : switchOut r1 p2 ≠ some (.seeking, σ') := by
  unfold switchOut
  cases r1 with
  | none => simp
  | some p =>
    obtain ⟨fl, σ2⟩ := p
    cases fl <;> simp
    cases p2 σ2 with
    | none => simp
    | some q => obtain ⟨fl2, σ3⟩ := q; cases fl2 <;> simp

/-- a statement that is entered executing never reports "still looking for a label" -/
theorem exec_run_ne_seeking (W : World) (env : Ast.Env) (rt : Ty) (fuel : Nat) :
    ∀ (s : HlslAst.Stmt) (σ σ' : Store), Ast.exec W env rt fuel .run s σ ≠ some (.seeking, σ')
  | .expr e, σ, σ' => by
    simp only [Ast.exec, skip]; cases Ast.eval W env e σ <;> simp [dropVal, normalOf]
  | .var ty n i, σ, σ' => by
    simp only [Ast.exec, skip]
    cases Ast.tyOfName ty with
    | none => simp
    | some T => simp only []; cases Ast.execVarDef W env T n i σ <;> simp [normalOf]
  | .block b, σ, σ' => by simp only [Ast.exec, skip]; exact execs_run_ne_seeking W env rt fuel b σ σ'
  | .ifThen c b, σ, σ' => by
    simp only [Ast.exec, skip]
    cases Ast.condE W env c σ with
    | none => simp
    | some p => obtain ⟨bv, σ1⟩ := p; cases bv <;> simp; exact exec_run_ne_seeking W env rt fuel b σ1 σ'
  | .ifElse c t f, σ, σ' => by
    simp only [Ast.exec, skip]
    cases Ast.condE W env c σ with
    | none => simp
    | some p =>
      obtain ⟨bv, σ1⟩ := p
      cases bv <;> simp
      · exact exec_run_ne_seeking W env rt fuel f σ1 σ'
      · exact exec_run_ne_seeking W env rt fuel t σ1 σ'
  | .for i c n b, σ, σ' => by
    simp only [Ast.exec, skip]
    cases Ast.execForInit W env i σ with
    | none => simp
    | some σ0 => exact loopW_ne_seeking _ _ _ _ _ _
  | .while c b, σ, σ' => by simp only [Ast.exec, skip]; exact loopW_ne_seeking _ _ _ _ _ _
  | .doWhile b c, σ, σ' => by simp only [Ast.exec, skip]; exact loopD_ne_seeking _ _ _ _ _
  | .break, σ, σ' => by simp [Ast.exec, skip]
  | .continue, σ, σ' => by simp [Ast.exec, skip]
  | .ret none, σ, σ' => by simp [Ast.exec, skip]
  | .ret (some e), σ, σ' => by
    simp only [Ast.exec, skip]
    cases Ast.typeOf W.sig env e with
    | none => simp
    | some te => simp only []; cases Ast.convR W.P te rt (Ast.eval W env e σ) <;> simp [retOf]
  | .empty, σ, σ' => by simp [Ast.exec, endOf]
  | .switch c body, σ, σ' => by
    cases body with
    | block b =>
      simp only [Ast.exec, skip]
      cases htc : Ast.typeOf W.sig env c with
      | none => simp
      | some tc =>
        simp only []
        cases hcv : Ast.convR W.P tc (Ast.promote tc) (Ast.eval W env c σ) with
        | none => simp
        | some p => obtain ⟨v, σ1⟩ := p; exact switchOut_ne_seeking _ _ _
    | _ => simp [Ast.exec, skip]
  | .caseLabel e s, σ, σ' => by simp only [Ast.exec]; exact exec_run_ne_seeking W env rt fuel s σ σ'
  | .defaultLabel s, σ, σ' => by simp only [Ast.exec]; exact exec_run_ne_seeking W env rt fuel s σ σ'

/-- the label-filling `push` of `generate_scope_block` means "and then this statement" -/
theorem execs_push (W : World) (env : Ast.Env) (rt : Ty) (fuel : Nat) (s : HlslAst.Stmt) :
    ∀ (acc : HlslAst.Stmts) (m : Mode) (σ : Store),
      Ast.execs W env rt fuel m (pushStmt acc s) σ =
        bindS m (Ast.execs W env rt fuel m acc σ) (fun m' σ' => Ast.execs W env rt fuel m' (.cons s .nil) σ')
  | .nil, m, σ => by
    cases m <;> simp [pushStmt, Ast.execs, endOf, bindS]
  | .cons x .nil, m, σ => by
    have generic : Ast.execs W env rt fuel m (.cons x (.cons s .nil)) σ =
        bindS m (Ast.execs W env rt fuel m (.cons x .nil) σ) (fun m' σ' => Ast.execs W env rt fuel m' (.cons s .nil) σ') := by
      rw [execs_single W env rt fuel m x σ]
      conv => lhs; rw [Ast.execs]
      cases Ast.exec W env rt fuel m x σ with
      | none => rfl
      | some p =>
        obtain ⟨fl, σ1⟩ := p
        cases fl <;> try rfl
        cases m <;> simp [endOf, bindS]
    cases x with
    | caseLabel e s0 =>
      cases s0 with
      | empty =>
        simp only [pushStmt]
        rw [execs_single, execs_single]
        have hrun : ∀ σ0, (match Ast.exec W env rt fuel .run s σ0 with
            | none => none
            | some (.normal, σ1) => some (Flow.normal, σ1)
            | some (.seeking, σ1) => endOf m σ1
            | some (fl, σ1) => some (fl, σ1)) =
            (match Ast.exec W env rt fuel .run s σ0 with
            | none => none
            | some (.normal, σ1) => some (Flow.normal, σ1)
            | some (.seeking, σ1) => endOf .run σ1
            | some (fl, σ1) => some (fl, σ1)) := by
          intro σ0
          cases h : Ast.exec W env rt fuel .run s σ0 with
          | none => rfl
          | some p =>
            obtain ⟨fl, σ1⟩ := p
            cases fl <;> try rfl
            exact absurd h (exec_run_ne_seeking W env rt fuel s σ0 σ1)
        cases m with
        | run => simp [Ast.exec, endOf, bindS, execs_single]
        | seekDefault =>
          simp only [Ast.exec, endOf, bindS, execs_single]
        | seekCase T v =>
          simp only [Ast.exec]
          cases Ast.typeOf W.sig env e with
          | none => rfl
          | some te =>
            simp only []
            cases Ast.convR W.P te T (Ast.eval W env e σ) with
            | none => rfl
            | some q =>
              obtain ⟨ev, _⟩ := q
              simp only []
              by_cases hv : ev = v
              · simp only [hv, if_true, endOf, bindS, execs_single]
                exact hrun σ
              · simp only [hv, if_false, endOf, bindS, execs_single]
      | _ => simpa [pushStmt] using generic
    | defaultLabel s0 =>
      cases s0 with
      | empty =>
        simp only [pushStmt]
        rw [execs_single, execs_single]
        have hrun : ∀ σ0, (match Ast.exec W env rt fuel .run s σ0 with
            | none => none
            | some (.normal, σ1) => some (Flow.normal, σ1)
            | some (.seeking, σ1) => endOf m σ1
            | some (fl, σ1) => some (fl, σ1)) =
            (match Ast.exec W env rt fuel .run s σ0 with
            | none => none
            | some (.normal, σ1) => some (Flow.normal, σ1)
            | some (.seeking, σ1) => endOf .run σ1
            | some (fl, σ1) => some (fl, σ1)) := by
          intro σ0
          cases h : Ast.exec W env rt fuel .run s σ0 with
          | none => rfl
          | some p =>
            obtain ⟨fl, σ1⟩ := p
            cases fl <;> try rfl
            exact absurd h (exec_run_ne_seeking W env rt fuel s σ0 σ1)
        cases m with
        | run => simp [Ast.exec, endOf, bindS, execs_single]
        | seekCase T v => simp only [Ast.exec, endOf, bindS, execs_single]
        | seekDefault =>
          simp only [Ast.exec, endOf, bindS, execs_single]
          exact hrun σ
      | _ => simpa [pushStmt] using generic
    | _ => simpa [pushStmt] using generic
  | .cons x (.cons y r), m, σ => by
    have ih := execs_push W env rt fuel s (.cons y r)
    simp only [pushStmt]
    rw [Ast.execs]
    conv => rhs; rw [Ast.execs]
    cases Ast.exec W env rt fuel m x σ with
    | none => rfl
    | some p =>
      obtain ⟨fl, σ1⟩ := p
      cases fl with
      | normal => simp only []; rw [ih .run σ1]; exact (bindS_run_of W env rt fuel m _ σ1 _).symm
      | seeking => simp only []; rw [ih m σ1]
      | _ => rfl

/-- a mode handed to a statement list whose labels have type `lt` looks for a value of that type -/
def ModeOK (lt : Option Ty) : Mode → Prop
  | .seekCase T _ => lt = some T
  | _ => True

theorem bind_end (W : World) (env : Ast.Env) (rt : Ty) (fuel : Nat) (m : Mode) (acc : HlslAst.Stmts) (σ : Store) :
    bindS m (Ast.execs W env rt fuel m acc σ) (fun m' σ' => endOf m' σ') = Ast.execs W env rt fuel m acc σ := by
  cases h : Ast.execs W env rt fuel m acc σ with
  | none => rfl
  | some p =>
    obtain ⟨fl, σ1⟩ := p
    cases fl <;> try rfl
    cases m with
    | run => exact absurd h (execs_run_ne_seeking W env rt fuel acc σ σ1)
    | _ => rfl

theorem bind_step (m m' : Mode) (hm : m' = .run ∨ m' = m) (X : SR) (K : Mode → Store → SR) :
    bindS m (match X with
        | none => none
        | some (.normal, σ2) => some (Flow.normal, σ2)
        | some (.seeking, σ2) => endOf m' σ2
        | some (fl, σ2) => some (fl, σ2)) K =
      (match X with
        | none => none
        | some (.normal, σ2) => K .run σ2
        | some (.seeking, σ2) => K m' σ2
        | some (fl, σ2) => some (fl, σ2)) := by
  cases X with
  | none => rfl
  | some p =>
    obtain ⟨fl, σ2⟩ := p
    cases fl <;> try rfl
    cases hm with
    | inl h => subst h; rfl
    | inr h => subst h; cases m' <;> rfl

theorem promote_astTy {sig : Sig} {vty : Var → Ty} {e : Ir.Expr} {T : Ty}
    (ht : Ir.typeOf sig vty e = some T) (hT : T ≠ .lit) : Ast.promote (astTy e T) = T := by
  by_cases hl : Ir.litlike e = true
  · have := litlike_ty ht hl; subst this; simp [astTy, hl, Ast.promote]
  · have hl' : Ir.litlike e = false := by simpa using hl
    simp only [astTy, hl']
    cases T <;> simp [Ast.promote] at hT ⊢

mutual
theorem sim_stmt {W : World} {env : Ast.Env} {cx : Ctx} (hag : Agree cx env) (rt : Ty) :
    ∀ (s : Ir.Stmt) (s' : HlslAst.Stmt) (lt : Option Ty),
      genStmt cx s = .ok s' → Ir.wtStmt W.sig cx.vty rt lt s = true →
      ∀ m, ModeOK lt m → ∀ fuel σ, Ast.exec W env rt fuel m s' σ = Ir.exec W fuel m s σ
  | .expr e, s', lt, hg, hwt => by
    cases hge : genExpr cx e with
    | error err => simp [genStmt, hge, Except.map] at hg
    | ok a =>
      simp [genStmt, hge, Except.map] at hg; subst hg
      obtain ⟨t, _, hs⟩ := sim_ok hag hge (by simpa [Ir.wtStmt] using hwt)
      intro m _ fuel σ
      simp [Ast.exec, Ir.exec, hs.drop σ]
  | .var id init, s', lt, hg, hwt => by
    cases hv : genVarDef cx id init with
    | error err => simp [genStmt, hv] at hg
    | ok v =>
      obtain ⟨tn, name, i⟩ := v
      simp [genStmt, hv] at hg; subst hg
      have hvd := vardef_eq (W := W) hag hv (by simpa [Ir.wtStmt] using hwt)
      intro m _ fuel σ
      simp [Ast.exec, Ir.exec, hvd.1, hvd.2 σ]
  | .block b, s', lt, hg, hwt => by
    cases hb : genStmtsAcc cx b .nil with
    | error err => simp [genStmt, hb, Except.map] at hg
    | ok b' =>
      simp [genStmt, hb, Except.map] at hg; subst hg
      have ih := sim_acc hag rt b .nil b' none hb (by simpa [Ir.wtStmt] using hwt) .run trivial
      intro m _ fuel σ
      simp [Ast.exec, Ir.exec, ih fuel σ, Ast.execs, endOf, bindS]
  | .ifThen c b, s', lt, hg, hwt => by
    simp only [Ir.wtStmt, Bool.and_eq_true] at hwt
    cases hgc : genExpr cx c with
    | error err => simp [genStmt, hgc] at hg
    | ok c' =>
      cases hb : genStmtsAcc cx b .nil with
      | error err => simp [genStmt, hgc, hb] at hg
      | ok b' =>
        simp [genStmt, hgc, hb] at hg; subst hg
        obtain ⟨t, _, hs⟩ := sim_ok hag hgc hwt.1
        have ih := sim_acc hag rt b .nil b' none hb hwt.2 .run trivial
        intro m _ fuel σ
        simp only [Ast.exec, Ir.exec, Ast.condE, hs.1, hs.cond σ]
        congr 1; funext _
        cases condOfB W.P (Ir.eval W c σ) with
        | none => rfl
        | some r => obtain ⟨bv, σ1⟩ := r; cases bv <;> simp [skip, ih fuel σ1, Ast.execs, endOf, bindS]
  | .ifElse c t f, s', lt, hg, hwt => by
    simp only [Ir.wtStmt, Bool.and_eq_true] at hwt
    cases hgc : genExpr cx c with
    | error err => simp [genStmt, hgc] at hg
    | ok c' =>
      cases hb : genStmtsAcc cx t .nil with
      | error err => simp [genStmt, hgc, hb] at hg
      | ok t' =>
        cases hb2 : genStmtsAcc cx f .nil with
        | error err => simp [genStmt, hgc, hb, hb2] at hg
        | ok f' =>
          simp [genStmt, hgc, hb, hb2] at hg; subst hg
          obtain ⟨ty, _, hs⟩ := sim_ok hag hgc hwt.1.1
          have ih1 := sim_acc hag rt t .nil t' none hb hwt.1.2 .run trivial
          have ih2 := sim_acc hag rt f .nil f' none hb2 hwt.2 .run trivial
          intro m _ fuel σ
          simp only [Ast.exec, Ir.exec, Ast.condE, hs.1, hs.cond σ]
          congr 1; funext _
          cases condOfB W.P (Ir.eval W c σ) with
          | none => rfl
          | some r =>
            obtain ⟨bv, σ1⟩ := r
            cases bv <;> simp [skip, ih1 fuel σ1, ih2 fuel σ1, Ast.execs, endOf, bindS]
  | .for init cond inc b, s', lt, hg, hwt => by
    simp only [Ir.wtStmt, Bool.and_eq_true] at hwt
    obtain ⟨⟨⟨hwi, hwc⟩, hwn⟩, hwb⟩ := hwt
    cases hgi : genForInit cx init with
    | error err => simp [genStmt, hgi] at hg
    | ok init' =>
      cases hgc : genOptExpr cx cond with
      | error err => simp [genStmt, hgi, hgc] at hg
      | ok cond' =>
        cases hgn : genOptExpr cx inc with
        | error err => simp [genStmt, hgi, hgc, hgn] at hg
        | ok inc' =>
          cases hb : genStmtsAcc cx b .nil with
          | error err => simp [genStmt, hgi, hgc, hgn, hb] at hg
          | ok b' =>
            simp [genStmt, hgi, hgc, hgn, hb] at hg; subst hg
            have ih := sim_acc hag rt b .nil b' none hb hwb .run trivial
            intro m _ fuel σ
            have hbody : (fun s => Ast.execs W env rt fuel .run b' s) = (fun s => Ir.execs W fuel .run b s) := by
              funext s; simp [ih fuel s, Ast.execs, endOf, bindS]
            simp only [Ast.exec, Ir.exec, forinit_eq hag hgi hwi σ, cond_fn_eq hag hgc hwc, inc_fn_eq hag hgn hwn, skip]
            congr 1; funext _
            cases Ir.execForInit W init σ with
            | none => rfl
            | some σ0 => simp only []; rw [hbody]
  | .while c b, s', lt, hg, hwt => by
    simp only [Ir.wtStmt, Bool.and_eq_true] at hwt
    cases hgc : genExpr cx c with
    | error err => simp [genStmt, hgc] at hg
    | ok c' =>
      cases hb : genStmtsAcc cx b .nil with
      | error err => simp [genStmt, hgc, hb] at hg
      | ok b' =>
        simp [genStmt, hgc, hb] at hg; subst hg
        have ih := sim_acc hag rt b .nil b' none hb hwt.2 .run trivial
        have hc : Ast.condFn W env (some c') = Ir.condFn W (some c) :=
          cond_fn_eq hag (by simp [genOptExpr, hgc, Except.map]) (by simpa [Ir.okOpt] using hwt.1)
        intro m _ fuel σ
        have hbody : (fun s => Ast.execs W env rt fuel .run b' s) = (fun s => Ir.execs W fuel .run b s) := by
          funext s; simp [ih fuel s, Ast.execs, endOf, bindS]
        simp only [Ast.exec, Ir.exec, hc, hbody, skip]
  | .doWhile b c, s', lt, hg, hwt => by
    simp only [Ir.wtStmt, Bool.and_eq_true] at hwt
    cases hb : genStmtsAcc cx b .nil with
    | error err => simp [genStmt, hb] at hg
    | ok b' =>
      cases hgc : genExpr cx c with
      | error err => simp [genStmt, hgc, hb] at hg
      | ok c' =>
        simp [genStmt, hgc, hb] at hg; subst hg
        have ih := sim_acc hag rt b .nil b' none hb hwt.1 .run trivial
        have hc : Ast.condFn W env (some c') = Ir.condFn W (some c) :=
          cond_fn_eq hag (by simp [genOptExpr, hgc, Except.map]) (by simpa [Ir.okOpt] using hwt.2)
        intro m _ fuel σ
        have hbody : (fun s => Ast.execs W env rt fuel .run b' s) = (fun s => Ir.execs W fuel .run b s) := by
          funext s; simp [ih fuel s, Ast.execs, endOf, bindS]
        simp only [Ast.exec, Ir.exec, hc, hbody, skip]
  | .break, s', lt, hg, _ => by
    simp [genStmt] at hg; subst hg; intro m _ fuel σ; rfl
  | .continue, s', lt, hg, _ => by
    simp [genStmt] at hg; subst hg; intro m _ fuel σ; rfl
  | .ret none, s', lt, hg, _ => by
    simp [genStmt, genOptExpr, Except.map] at hg; subst hg; intro m _ fuel σ; rfl
  | .ret (some e), s', lt, hg, hwt => by
    cases hge : genExpr cx e with
    | error err => simp [genStmt, genOptExpr, hge, Except.map] at hg
    | ok a =>
      simp [genStmt, genOptExpr, hge, Except.map] at hg; subst hg
      obtain ⟨ht, hs⟩ := sim_okT hag hge (by simpa [Ir.wtStmt] using hwt)
      intro m _ fuel σ
      simp [Ast.exec, Ir.exec, hs.1, hs.conv ht σ]
  | .switch T c b, s', lt, hg, hwt => by
    simp only [Ir.wtStmt, Bool.and_eq_true, decide_eq_true_eq] at hwt
    obtain ⟨⟨hwc, hT⟩, hwb⟩ := hwt
    cases hgc : genExpr cx c with
    | error err => simp [genStmt, hgc] at hg
    | ok c' =>
      cases hb : genStmtsAcc cx b .nil with
      | error err => simp [genStmt, hgc, hb] at hg
      | ok b' =>
        simp [genStmt, hgc, hb] at hg; subst hg
        obtain ⟨ht, hs⟩ := sim_okT hag hgc hwc
        have ih := sim_acc hag rt b .nil b' (some T) hb hwb
        intro m _ fuel σ
        have hbody : ∀ m, ModeOK (some T) m → ∀ σ, Ast.execs W env rt fuel m b' σ = Ir.execs W fuel m b σ := by
          intro m hm σ
          rw [ih m hm fuel σ]
          cases m <;> simp [Ast.execs, endOf, bindS]
        simp only [Ast.exec, Ir.exec, hs.1, promote_astTy ht hT, hs.conv ht σ]
        congr 1; funext _
        cases Ir.eval W c σ with
        | none => rfl
        | some p =>
          obtain ⟨v, σ1⟩ := p
          simp only []
          rw [hbody (.seekCase T v) rfl σ1]
          congr 1; funext s
          exact hbody .seekDefault trivial s
  | .caseLabel c, s', lt, hg, hwt => by
    cases hgl : genLiteral c with
    | error err => simp [genStmt, hgl] at hg
    | ok e =>
      simp [genStmt, hgl] at hg; subst hg
      simp only [Ir.wtStmt, Bool.or_eq_true, Bool.and_eq_true, decide_eq_true_eq] at hwt
      have hs := sim_lit W env c e hgl
      have ht : Ir.typeOf W.sig cx.vty (.lit c) = some c.ty := by simp [Ir.typeOf]
      intro m hm fuel σ
      cases m with
      | run => simp [Ast.exec, Ir.exec, endOf]
      | seekDefault => simp [Ast.exec, Ir.exec, endOf]
      | seekCase T v =>
        simp only [ModeOK] at hm
        -- the emitted label, converted to `T`, is the IR constant converted to `T`
        have key : Ast.convR W.P (astTy (.lit c) c.ty) T (Ast.eval W env e σ) =
            (match castVal W.P T (Ir.constVal c) with | none => none | some x => some (x, σ)) := by
          cases hwt with
          | inl h =>
            have hTT : T = c.ty := by rw [h] at hm; exact (Option.some.inj hm).symm
            subst hTT
            rw [hs.conv ht σ]
            cases c <;> simp [Ir.eval, Ir.constVal, castVal, Const.ty]
          | inr h =>
            have hl : Ir.litlike (.lit c) = false := by
              cases c <;> simp [Const.ty] at h <;> simp [Ir.litlike]
            rw [(hs.plain hl).2 σ]
            simp only [astTy, hl, h.1, Ir.eval, Ast.convR, Ast.convert]
            by_cases hT : Ty.lit = T
            · subst hT
              cases c <;> simp [Const.ty] at h <;> simp [Ir.constVal, castVal]
            · have hT' : ¬ ((if false = true then Ty.lit else Ty.lit) = T) := by simpa using hT
              simp only [hT', if_false]
              cases castVal W.P T (Ir.constVal c) <;> rfl
        simp only [Ast.exec, Ir.exec, hs.1, key, endOf]
        cases hcv : castVal W.P T (Ir.constVal c) with
        | none => rfl
        | some x => by_cases hv : x = v <;> simp [hv]
  | .defaultLabel, s', lt, hg, _ => by
    simp [genStmt] at hg; subst hg
    intro m _ fuel σ
    cases m <;> simp [Ast.exec, Ir.exec, endOf]
theorem sim_acc {W : World} {env : Ast.Env} {cx : Ctx} (hag : Agree cx env) (rt : Ty) :
    ∀ (b : Ir.Stmts) (acc acc' : HlslAst.Stmts) (lt : Option Ty),
      genStmtsAcc cx b acc = .ok acc' → Ir.wtStmts W.sig cx.vty rt lt b = true →
      ∀ m, ModeOK lt m → ∀ fuel σ,
        Ast.execs W env rt fuel m acc' σ =
          bindS m (Ast.execs W env rt fuel m acc σ) (fun m' σ' => Ir.execs W fuel m' b σ')
  | .nil, acc, acc', lt, hg, _ => by
    simp [genStmtsAcc] at hg; subst hg
    intro m _ fuel σ
    simp only [Ir.execs]
    exact (bind_end W env rt fuel m acc σ).symm
  | .cons s r, acc, acc', lt, hg, hwt => by
    simp only [Ir.wtStmts, Bool.and_eq_true] at hwt
    cases hs : genStmt cx s with
    | error err => simp [genStmtsAcc, hs] at hg
    | ok s' =>
      simp only [genStmtsAcc, hs] at hg
      have h1 := sim_stmt hag rt s s' lt hs hwt.1
      have h2 := sim_acc hag rt r (pushStmt acc s') acc' lt hg hwt.2
      intro m hm fuel σ
      rw [h2 m hm fuel σ, execs_push]
      cases hR : Ast.execs W env rt fuel m acc σ with
      | none => rfl
      | some p =>
        obtain ⟨fl, σ1⟩ := p
        cases fl with
        | normal =>
          change bindS m (Ast.execs W env rt fuel Mode.run (.cons s' .nil) σ1) (fun m' σ' => Ir.execs W fuel m' r σ') =
            Ir.execs W fuel .run (.cons s r) σ1
          rw [execs_single, h1 .run trivial fuel σ1, Ir.execs]
          cases Ir.exec W fuel .run s σ1 with
          | none => rfl
          | some q => obtain ⟨fl2, σ2⟩ := q; cases fl2 <;> simp [bindS, endOf]
        | seeking =>
          change bindS m (Ast.execs W env rt fuel m (.cons s' .nil) σ1) (fun m' σ' => Ir.execs W fuel m' r σ') =
            Ir.execs W fuel m (.cons s r) σ1
          rw [execs_single, h1 m hm fuel σ1, Ir.execs]
          cases Ir.exec W fuel m s σ1 with
          | none => rfl
          | some q => obtain ⟨fl2, σ2⟩ := q; cases fl2 <;> cases m <;> simp [bindS, endOf]
        | _ => rfl
end

theorem params_eq {env : Ast.Env} {cx : Ctx} (hag : Agree cx env) :
    ∀ (ps : List (Nat × Dir × Ty)) (ps' : List (String × Dir × String)), genParams cx ps = .ok ps' →
      ps'.length = ps.length ∧
      (∀ vals σ, Ast.bindParams env ps' vals σ = some (Ir.bindParams ps vals σ)) ∧
      (∀ σ, Ast.finalParams env σ ps' = some (ps.map fun p => σ (.loc p.1))) ∧
      Ast.paramSig ps' = some (ps.map fun p => (p.2.1, p.2.2))
  | [], ps', hg => by
    simp [genParams] at hg; subst hg
    refine ⟨rfl, ?_, ?_, rfl⟩
    · intro vals σ; cases vals <;> simp [Ast.bindParams, Ir.bindParams]
    · intro σ; simp [Ast.finalParams]
  | (id, d, t) :: r, ps', hg => by
    simp only [genParams] at hg
    cases htn : typeName t with
    | error e => simp [htn] at hg
    | ok tn =>
      cases hr : genParams cx r with
      | error e => simp [htn, hr] at hg
      | ok r' =>
        simp [htn, hr] at hg; subst hg
        obtain ⟨h1, h2, h3, h4⟩ := params_eq hag r r' hr
        have hres := hag.res (.loc id)
        simp only [Ctx.name] at hres
        refine ⟨by simp [h1], ?_, ?_, ?_⟩
        · intro vals σ
          cases vals with
          | nil => simp [Ast.bindParams, Ir.bindParams]
          | cons v vs => simp [Ast.bindParams, Ir.bindParams, hres, h2]
        · intro σ; simp [Ast.finalParams, hres, h3 σ]
        · simp [Ast.paramSig, typeName_tyOfName' htn, h4]

/-- **function level**: running the emitted definition equals running the typed function -/
theorem sim_func {W : World} {env : Ast.Env} {cx : Ctx} (hag : Agree cx env)
    {fn : Ir.Func} {afn : HlslAst.Func}
    (hg : genFunc cx fn = .ok afn) (hwt : Ir.wtStmts W.sig cx.vty fn.ret none fn.body = true) :
    ∀ fuel vals σ, Ast.callFunc W env fuel afn vals σ = Ir.callFunc W fuel fn vals σ := by
  simp only [genFunc, genStmts] at hg
  cases hrt : typeName fn.ret with
  | error e => simp [hrt] at hg
  | ok rt =>
    cases hps : genParams cx fn.params with
    | error e => simp [hrt, hps] at hg
    | ok ps' =>
      cases hb : genStmtsAcc cx fn.body .nil with
      | error e => simp [hrt, hps, hb] at hg
      | ok b' =>
        simp [hrt, hps, hb] at hg; subst hg
        obtain ⟨h1, h2, h3, _⟩ := params_eq hag fn.params ps' hps
        have ih := sim_acc hag fn.ret fn.body .nil b' none hb hwt .run trivial
        intro fuel vals σ
        simp only [Ast.callFunc, Ir.callFunc, h1, typeName_tyOfName' hrt, h2 vals σ]
        by_cases hlen : vals.length ≠ fn.params.length
        · simp [hlen]
        · have hrun : ∀ s, Ast.execs W env fn.ret fuel .run b' s = Ir.execs W fuel .run fn.body s := by
            intro s; simp [ih fuel s, Ast.execs, endOf, bindS]
          simp only [hlen, if_false, hrun]
          cases Ir.execs W fuel .run fn.body (Ir.bindParams fn.params vals σ) with
          | none => rfl
          | some r => obtain ⟨fl, σ1⟩ := r; simp [h3 σ1]

theorem genFunc_facts {env : Ast.Env} {cx : Ctx} (hag : Agree cx env) {fn : Ir.Func} {afn : HlslAst.Func}
    (hg : genFunc cx fn = .ok afn) :
    afn.name = cx.funcName fn.id ∧ Ast.tyOfName afn.ret = some fn.ret ∧
    Ast.paramSig afn.params = some (fn.params.map fun p => (p.2.1, p.2.2)) := by
  simp only [genFunc, genStmts] at hg
  cases hrt : typeName fn.ret with
  | error e => simp [hrt] at hg
  | ok rt =>
    cases hps : genParams cx fn.params with
    | error e => simp [hrt, hps] at hg
    | ok ps' =>
      cases hb : genStmtsAcc cx fn.body .nil with
      | error e => simp [hrt, hps, hb] at hg
      | ok b' =>
        simp [hrt, hps, hb] at hg; subst hg
        exact ⟨rfl, typeName_tyOfName' hrt, (params_eq hag fn.params ps' hps).2.2.2⟩

theorem find_corr {env : Ast.Env} {cx : Ctx} (hag : Agree cx env) (f : Nat) :
    ∀ (prog : List Ir.Func) (astProg : List HlslAst.Func), genProg cx prog = .ok astProg →
      match prog.find? (fun fn => fn.id == f) with
      | none => astProg.find? (fun a => env.fres a.name == some f) = none
      | some fn => ∃ afn, astProg.find? (fun a => env.fres a.name == some f) = some afn ∧ genFunc cx fn = .ok afn
  | [], astProg, hg => by simp [genProg] at hg; subst hg; simp
  | fn :: r, astProg, hg => by
    simp only [genProg] at hg
    cases hf : genFunc cx fn with
    | error e => simp [hf] at hg
    | ok a =>
      cases hr : genProg cx r with
      | error e => simp [hf, hr] at hg
      | ok as =>
        simp [hf, hr] at hg; subst hg
        have hn := (genFunc_facts hag hf).1
        have hfr : env.fres a.name = some fn.id := by rw [hn]; exact hag.fres fn.id
        have ih := find_corr hag f r as hr
        by_cases hid : fn.id = f
        · subst hid
          simp [List.find?, hfr, hf]
        · have h1 : (fn.id == f) = false := by simpa using hid
          have h2 : (env.fres a.name == some f) = false := by simp [hfr, hid]
          simp only [List.find?, h1, h2]
          exact ih

theorem sig_eq {env : Ast.Env} {cx : Ctx} (hag : Agree cx env) {prog : List Ir.Func} {astProg : List HlslAst.Func}
    (hg : genProg cx prog = .ok astProg) : Ast.sigOf env astProg = Ir.sigOf prog := by
  funext f
  have := find_corr hag f prog astProg hg
  simp only [Ast.sigOf, Ir.sigOf]
  cases hp : prog.find? (fun fn => fn.id == f) with
  | none => rw [hp] at this; simp only [] at this; rw [this]
  | some fn =>
    rw [hp] at this; simp only [] at this
    obtain ⟨afn, h1, h2⟩ := this
    obtain ⟨_, h3, h4⟩ := genFunc_facts hag h2
    simp [h1, h3, h4]

/-- **program level**: the callable functions of the emitted program are those of the typed program, at every call depth -/
theorem sim_phi {env : Ast.Env} {cx : Ctx} (hag : Agree cx env) {prog : List Ir.Func} {astProg : List HlslAst.Func}
    (hg : genProg cx prog = .ok astProg)
    (hwt : ∀ fn ∈ prog, Ir.wtStmts (Ir.sigOf prog) cx.vty fn.ret none fn.body = true) (P : Prim) (fuel : Nat) :
    ∀ d, Ast.phi P env astProg fuel d = Ir.phi P prog fuel d
  | 0 => rfl
  | d + 1 => by
    funext f vals σ
    have ih := sim_phi hag hg hwt P fuel d
    have hc := find_corr hag f prog astProg hg
    simp only [Ast.phi, Ir.phi, sig_eq hag hg, ih]
    cases hp : prog.find? (fun fn => fn.id == f) with
    | none => rw [hp] at hc; simp only [] at hc; rw [hc]
    | some fn =>
      rw [hp] at hc; simp only [] at hc
      obtain ⟨afn, h1, h2⟩ := hc
      simp only [h1]
      exact sim_func (W := { P := P, phi := Ir.phi P prog fuel d, sig := Ir.sigOf prog }) hag h2
        (hwt fn (List.mem_of_find?_eq_some hp)) fuel vals σ


end RsslVerif.Lemmas.GenSem

import RsslVerif.Lemmas.GenMslVecAssign
import RsslVerif.Thm.C02Sem
/-!
# C02, vector layer — the Metal exporter preserves the meaning of vector expressions

Theorems about `Model.GenMslVec` (the Cast / Swizzle / Constructor / vector-type-name arms and the component-wise operators
of `msl/src/generator.rs`), over C01's vector layer (`Model.IrVec`, `Spec.SemVec`: the typed semantics `VIr.eval`, unchanged)
and the Metal reading `Spec.SemMslVec.VMsl`.  Scalar leaves are discharged by the scalar half (`Thm.C02Sem.gen_sem_expr`).
-/
namespace RsslVerif.Thm.C02Vec
open RsslVerif.Gen.HlslGenTables RsslVerif.Gen.HlslVecTables RsslVerif.Gen.MslGenTables RsslVerif.Gen.MslVecTables
open RsslVerif.Model RsslVerif.Model.IrVec RsslVerif.Model.GenMsl RsslVerif.Model.GenMslVec
open RsslVerif.Spec.Sem RsslVerif.Spec.SemVec RsslVerif.Spec.SemMslVec RsslVerif.Lemmas.GenMsl RsslVerif.Lemmas.GenMslVec
open RsslVerif.Model.Ir (Ty Var Const Dir)

/-- the textual shape of the arms `Model.GenMslVec` mirrors is the one in the source (facts re-extracted on every run:
an edit of the Swizzle / Constructor / Cast arm, of `try_implicit_truncate`, of the Vector / Matrix arms of
`generate_type_impl`, of the `Mul` / `Transpose` arms or of the rejection of matrix subscripts and matrix swizzles makes a
fact `false` and this theorem stops checking) -/
theorem msl_exporter_vec_shape_as_modelled :
    mslSwizzleArmAsModelled = true ∧ mslConstructorArmAsModelled = true ∧ mslCastHeadAsModelled = true ∧
    mslCastTruncatesThenCasts = true ∧ vectorTypeNameAppendsDimUnlessOne = true ∧ matrixTypeNameSwapsDims = true ∧
    mulIsMultiplyInOrder = true ∧ transposeIsTranspose = true ∧ matrixSwizzleRejected = true ∧ matrixSubscriptRejected = true ∧
    truncateToScalar = "x" ∧ truncateToVec2 = "xy" ∧ truncateToVec3 = "xyz" := by
  decide

/-- the letter the exporter writes for a swizzle slot is read by Metal as that component; a swizzle's member name parses
back to its slots -/
theorem msl_swizzle_letters_are_identity :
    (∀ s, VAst.charIdx (mslSwizzleChar s) = some (slotIdx s)) ∧
    (∀ sl, VAst.parseSwizzle (GenMslVec.swizzleName sl) = some (sl.map slotIdx)) :=
  ⟨fun s => by cases s <;> rfl, parse_mslSwizzleName⟩

/-- a type Metal can name (basic kind, 2–4 components) is named by the name Metal reads back as that very type -/
theorem msl_vector_type_names_roundtrip (ty : VTy) (n : String) (h : GenMslVec.vtypeName ty = .ok n) (hok : VOk.tyOKM ty = true) :
    VMsl.vtyOfName n = some ty := vtypeName_vtyOfName h hok

/-- a one-component vector type is emitted under the scalar's name: `float1` does not exist in Metal (outside the layer) -/
theorem vec1_is_named_as_scalar : GenMslVec.vtypeName (.vec .float 1) = .ok "float" ∧ VMsl.vtyOfName "float" = some (.sc .float) :=
  ⟨rfl, by decide⟩

/-- **shape soundness** of the typed semantics: what the static decisions of the Metal reading rely on -/
theorem vec_shape_sound {W : World} {ρ : VStore} {vty : Var → Ty} {vvty : Var → VTy} (hρ : ∀ x, VOk.shaped (vvty x) (ρ x) = true)
    (e : VExpr) (t : VTy) (σ σ1 : Store) (v : VVal)
    (ht : VIr.typeOf W.sig vty vvty e = some t) (hv : VIr.eval W ρ e σ = some (v, σ1)) : VOk.shaped t v = true :=
  shape_sound hρ e t σ σ1 v ht hv

/-- **vector expressions**: the expression the Metal exporter emits is well typed under Metal's rules — *with the IR's type*,
so no implicit conversion is ever needed around it — and evaluates to exactly the IR's value and scalar store, from every
store, for every interpretation of the primitives and every (well-shaped) value of the vector variables.
Covered: casts scalar ↔ vector ↔ vector with the truncating swizzles `.x` / `.xy` / `.xyz` Metal needs, swizzles of vectors
(members) and of scalars (the operand itself / the constructor `T_n(s)`), constructors with any slots, component-wise unary /
binary operators incl. comparisons, shifts and `%` (on floats: `metal::fmod`), `&&` `||` `?:` with scalar conditions, vector
variables, scalar leaves (through `gen_sem_expr`). -/
theorem gen_sem_msl_vec_expr {W : World} {M : Msl.MWorld} {env : VAst.VEnv} {cx : Ctx} {vvty : Var → VTy} {vis : Var → Bool}
    {rsv : Nat → List Var} (hag : VAgreeM cx vis env vvty) (hw : Worlds cx rsv W M)
    (e : VExpr) (a : VAExpr) (t : VTy)
    (hg : genMV cx vvty e = .ok a) (ht : VIr.typeOf W.sig cx.vty vvty e = some t)
    (hok : VOk.okMV (side cx W vis rsv) vvty e = true) :
    VMsl.typeOf M.msig env a = some t ∧
      ∀ (ρ : VStore), (∀ x, VOk.shaped (vvty x) (ρ x) = true) → ∀ σ, VMsl.eval M env ρ a σ = VIr.eval W ρ e σ := by
  refine ⟨?_, fun ρ hρ σ => (sim_mv hag hw hρ e a t hg ht hok).2 σ⟩
  -- the static type does not depend on the vector store
  exact (sim_mv (ρ := fun x => match vvty x with | .sc _ => .sc .void | .vec _ n => .vec (List.replicate n .void)) hag hw
    (by intro x; cases h : vvty x <;> simp [VOk.shaped, h]) e a t hg ht hok).1

/-- a cast to a *vector of a literal type* cannot be exported: `generate_type` reaches
`generate_scalar_type(IntLiteral / FloatLiteral)` and panics — the drop-the-cast rule only looks at scalar targets.  The arm
is still in the source, but since fixes 40c6233 (binary operations) and c05bffa (the arms of `?:`) the type checker no longer
builds such a cast (see `msl_vector_op_literal_in_concrete_type`; the two known findings are `fixed` records whose
reproducers stay in the corpus). -/
theorem literal_vector_cast_panics_msl (cx : Ctx) (vvty : Var → VTy) (n : Nat) (id : Nat) :
    (∃ s, genMV cx vvty (.cast (.vec .lit n) (.vvar id)) = .error (.panic s)) ∧
    (∃ s, genMV cx vvty (.cast (.vec .flit n) (.vvar id)) = .error (.panic s)) := by
  exact ⟨⟨_, rfl⟩, ⟨_, rfl⟩⟩

/-- **statement-level vector assignment** `v = E;`, `v.xz = E;`, `v op= E;`, `v.yx op= E;` (vector local / static in scope, a
swizzle with distinct components of a variable of vector type; ALL assignment operators — since fixes 92d66eb + 35faaaa also
`%=` on floating-point places, which was excluded before: Metal has no such operator, the exporter emitted it all the same):
whatever the exporter emits for the assignment (`hg`) is accepted by Metal's rules (implicit conversion of the right
operand: the identity here, distinct swizzle components) and leaves the same value, scalar store and vector store as the
typed assignment.  The emitted statement is `l op r` with the operator of the table, except for `%=` on a floating-point
place: there it is `l = metal::fmod(l, r)` — the exporter's own guard (`is_plain_place(l)`, `is_free_of_writes(r)`: else
`ComplexRemainderAssignment`, no output) holds whenever there is an output. -/
theorem gen_sem_msl_vec_assign {W : World} {M : Msl.MWorld} {env : VAst.VEnv} {cx : Ctx} {vvty : Var → VTy} {vis : Var → Bool}
    {rsv : Nat → List Var} (hag : VAgreeM cx vis env vvty) (hw : Worlds cx rsv W M)
    {o : IntrinsicOp} {lhs rhs : VExpr} {lhs' rhs' a : VAExpr} {T : VTy}
    (hgl : genMV cx vvty lhs = .ok lhs') (hgr : genMV cx vvty rhs = .ok rhs')
    (hg : genMV cx vvty (.op o (.cons lhs (.cons rhs .nil))) = .ok a)
    (hok : VIr.assignOK W.sig cx.vty vvty lhs rhs = some T) (hpl : placeOKM vis vvty lhs = true)
    (hol : VOk.okMV (side cx W vis rsv) vvty lhs = true) (hor : VOk.okMV (side cx W vis rsv) vvty rhs = true)
    (hsem : irOpSem o = .assign ∨ ∃ m, irOpSem o = .compound m ∧ binSide m T) :
    ((irOpSem o = .compound .mod ∧ T.scalar = .float ∧ plainPlaceV lhs = true ∧ freeOfWritesV rhs = true ∧
        a = .bin .Assignment lhs' (.call Msl.fmodName (.cons lhs' (.cons rhs' .nil)))) ∨
      (¬ (irOpSem o = .compound .mod ∧ T.scalar = .float) ∧ ∃ b, astBinSem b = irOpSem o ∧ a = .bin b lhs' rhs')) ∧
    ∀ ρ, (∀ y, VOk.shaped (vvty y) (ρ y) = true) → ∀ σ,
      VMsl.evalTop M env ρ a σ = VIr.evalTop W ρ (.op o (.cons lhs (.cons rhs .nil))) σ := by
  have htl : VIr.typeOf W.sig cx.vty vvty lhs = some T := by
    simp only [VIr.assignOK] at hok
    split at hok
    · rename_i h1 h2 h3
      split at hok
      · rename_i heq; simp at hok; rw [h2, hok]
      · simp at hok
    · simp at hok
  have hbk : VOk.basicK T.scalar = true := tyOKM_scalar (okMV_tyOK (S := side cx W vis rsv) lhs T htl hol)
  have hshape := genMV_assign_shape hw hgl hgr hg htl hbk
    (by rcases hsem with h | ⟨m, h, _⟩; exact .inl h; exact .inr ⟨m, h⟩)
  refine ⟨hshape, ?_⟩
  rcases hshape with ⟨hc, hfl, _, _, rfl⟩ | ⟨hn, b, hbs, rfl⟩
  · exact sim_mremassign hag hw hc hgl hgr hok hpl hol hor hfl
  · refine sim_massign hag hw hbs hgl hgr hok hpl hol hor ?_
    rcases hsem with h | ⟨m, h, hside⟩
    · exact .inl h
    · exact .inr ⟨m, h, hside, fun hm hfl => hn ⟨by rw [h, hm], hfl⟩⟩

/-! ## matrices: orientation -/

/-- **matrix orientation**: the Metal object the exporter's type correspondence assigns to an RSSL matrix (`toMetal`: the
same logical matrix, stored by columns) multiplies a vector — Metal's `M * v`, a linear combination of the columns — to
exactly RSSL's `mul(M, v)` (the dot products of the rows with `v`), component by component, for every `add` / `mul`:
this is why `Mul => left * right` is right *given* that matrices are built and read through the logical correspondence. -/
theorem column_get {α : Type} (j : Nat) : ∀ (rows : List (List α)) (i : Nat) (r : List α),
    rows[i]? = some r → (∀ r' ∈ rows, j < r'.length) → (Mat.column rows j)[i]? = r[j]?
  | [], i, r, h, _ => by simp at h
  | r0 :: rs, i, r, h, hl => by
    have h0 : j < r0.length := hl r0 (List.mem_cons_self)
    have hget : r0[j]? = some r0[j] := List.getElem?_eq_getElem h0
    cases i with
    | zero => simp at h; subst h; simp [Mat.column, List.filterMap_cons, hget]
    | succ i =>
      simp at h
      simp only [Mat.column, List.filterMap_cons, hget, List.getElem?_cons_succ]
      exact column_get j rs i r h (fun r' hr' => hl r' (List.mem_cons_of_mem _ hr'))

theorem mul_go {α : Type} (add mul : α → α → α) (i : Nat) : ∀ (vs : List α) (cols : List (List α)) (rs : List α) (acc : α),
    rs.length = vs.length → cols.length = vs.length → (∀ j, j < vs.length → (cols[j]?).bind (·[i]?) = rs[j]?) →
    Mat.mulColsVecAt.go add mul i acc cols vs = some (Mat.dot.go add mul acc rs vs)
  | [], cols, rs, acc, hr, hc, _ => by
    cases rs <;> simp at hr
    cases cols <;> simp at hc
    simp [Mat.mulColsVecAt.go, Mat.dot.go]
  | w :: ws, c :: cs, x :: xs, acc, hr, hc, h => by
    have h0 := h 0 (by simp)
    simp only [List.getElem?_cons_zero, Option.bind_some] at h0
    simp only [Mat.mulColsVecAt.go, Mat.dot.go, h0]
    exact mul_go add mul i ws cs xs _ (by simpa using hr) (by simpa using hc)
      (fun j hj => by have := h (j + 1) (by simpa using hj); simpa using this)
  | _ :: _, [], _, _, _, hc, _ => by simp at hc
  | _ :: _, _ :: _, [], _, hr, _, _ => by simp at hr

theorem mul_at {α : Type} (add mul : α → α → α) (i : Nat) : ∀ (v : List α) (cols : List (List α)) (r : List α),
    r.length = v.length → cols.length = v.length → (∀ j, j < v.length → (cols[j]?).bind (·[i]?) = r[j]?) →
    Mat.mulColsVecAt add mul cols v i = Mat.dot add mul r v
  | [], cols, [], _, _, _ => by cases cols <;> simp [Mat.mulColsVecAt, Mat.dot]
  | v0 :: vs, c0 :: cs, r0 :: rs, hrl, hcl, hcols => by
    have h0 := hcols 0 (by simp)
    simp only [List.getElem?_cons_zero, Option.bind_some] at h0
    simp only [Mat.mulColsVecAt, Mat.dot, h0]
    exact mul_go add mul i vs cs rs _ (by simpa using hrl) (by simpa using hcl)
      (fun j hj => by have := hcols (j + 1) (by simpa using hj); simpa using this)
  | _ :: _, [], _, _, hcl, _ => by simp at hcl
  | [], _, _ :: _, hrl, _, _ => by simp at hrl
  | _ :: _, _ :: _, [], hrl, _, _ => by simp at hrl

theorem mulMV_toMetal {α : Type} (add mul : α → α → α) (rows : List (List α)) (v : List α) (i : Nat) (r : List α)
    (hr : rows[i]? = some r) (hlen : ∀ r' ∈ rows, r'.length = v.length) :
    Mat.mulColsVecAt add mul (Mat.toMetal v.length rows) v i = Mat.dot add mul r v := by
  have hrl : r.length = v.length := hlen r (List.mem_of_getElem? hr)
  have hcols : ∀ j, j < v.length → ((Mat.toMetal v.length rows)[j]?).bind (·[i]?) = r[j]? := by
    intro j hj
    simp only [Mat.toMetal, List.getElem?_map, List.getElem?_range hj, Option.map_some, Option.bind_some]
    exact column_get j rows i r hr (fun r' hr' => by rw [hlen r' hr']; exact hj)
  have hcl : (Mat.toMetal v.length rows).length = v.length := by simp [Mat.toMetal]
  exact mul_at add mul i v (Mat.toMetal v.length rows) r hrl hcl hcols

/-- **negation witness** (known finding *metal-matrix-constructor-is-column-major*): the Constructor arm keeps the argument
order; Metal's constructor from scalars fills columns, RSSL's fills rows: `float2x2(1, 2, 3, 4)` denotes `[[1, 2], [3, 4]]`
in RSSL, and the emitted `metal::float2x2(1, 2, 3, 4)` is the Metal object of `[[1, 3], [2, 4]]` — the transposed matrix;
`mul` with `(1, 0)` gives `(1, 3)` in RSSL and `(1, 2)` in the emitted Metal. -/
theorem ctor_from_scalars_transposes :
    Mat.metalFromScalars 2 2 [1, 2, 3, 4] ≠ Mat.toMetal 2 (Mat.rsslFromScalars 2 2 [1, 2, 3, 4]) ∧
    Mat.metalFromScalars 2 2 [1, 2, 3, 4] = Mat.toMetal 2 [[1, 3], [2, 4]] ∧
    Mat.mulRowsVec (· + ·) (· * ·) (Mat.rsslFromScalars 2 2 [1, 2, 3, 4]) [1, 0] = some [1, 3] ∧
    [0, 1].map (Mat.mulColsVecAt (· + ·) (· * ·) (Mat.metalFromScalars 2 2 [1, 2, 3, 4]) [1, 0]) = [some 1, some 2] := by
  decide

/-- …and the correspondence is the right one for the same numbers: on the corresponding object Metal's product is RSSL's -/
example : [0, 1].map (Mat.mulColsVecAt (· + ·) (· * ·) (Mat.toMetal 2 (Mat.rsslFromScalars 2 2 [1, 2, 3, 4])) [1, 0]) = [some 1, some 3] := by
  decide

/-- Metal's `m[i]` is column `i`; RSSL's is row `i` (the exporter rejects matrix subscripts: `matrixSubscriptRejected`) -/
theorem metal_subscript_is_a_column :
    (Mat.toMetal 2 [[1, 2], [3, 4]])[0]? = some [1, 3] ∧ ([[1, 2], [3, 4]] : List (List Nat))[0]? = some [1, 2] := by decide

/-! ## non-vacuity -/

/-- vector variables `l…` of type `int3` next to the scalar `int` ones of `Thm.C02Sem.cxW` -/
def vvtyEx : Var → VTy := fun _ => .vec .int 3

def envV : VAst.VEnv := { base := C02Sem.envW, vres := C02Sem.envW.res, vvty := vvtyEx }

theorem agreeV : VAgreeM C02Sem.cxW (fun _ => true) envV vvtyEx where
  base := C02Sem.agreeW
  vres x _ := C02Sem.agreeW.res x rfl
  vvty := rfl

/-- `(int2)((v1 + (int3)s0.xxx).zyx) << (int2)s0` with `v1 : int3`, `s0 : int` -/
def vExM : VExpr :=
  .op .LeftShift (.cons
    (.cast (.vec .int 2) (.swz (.op .Add (.cons (.vvar 1) (.cons (.cast (.vec .int 3) (.swz (.sc (.var 0)) [.X, .X, .X])) .nil))) [.Z, .Y, .X]))
    (.cons (.cast (.vec .int 2) (.sc (.var 0))) .nil))

/-- the exporter's output for it: the scalar swizzle became a constructor, the narrowing cast got its `.xy` -/
example : genMV C02Sem.cxW vvtyEx vExM = .ok
    (.bin .LeftShift
      (.cast "int2" (.member (.member (.bin .Add (.ident "ll") (.cast "int3" (.call "int3" (.cons (.sc (.ident "l")) .nil)))) "zyx") "xy"))
      (.cast "int2" (.sc (.ident "l")))) := rfl

example : VIr.typeOf C02Sem.W2.sig C02Sem.cxW.vty vvtyEx vExM = some (.vec .int 2) := by decide
example : VOk.okMV (side C02Sem.cxW C02Sem.W2 (fun _ => true) (fun _ => [])) vvtyEx vExM = true := by decide

/-- `gen_sem_msl_vec_expr` instantiated on it, in the linked worlds of `Thm.C02Sem.worlds2` -/
example : ∃ a, genMV C02Sem.cxW vvtyEx vExM = .ok a ∧ VMsl.typeOf C02Sem.M2.msig envV a = some (.vec .int 2) ∧
    ∀ ρ, (∀ x, VOk.shaped (vvtyEx x) (ρ x) = true) → ∀ σ, VMsl.eval C02Sem.M2 envV ρ a σ = VIr.eval C02Sem.W2 ρ vExM σ := by
  refine ⟨_, rfl, ?_⟩
  exact gen_sem_msl_vec_expr agreeV C02Sem.worlds2 vExM _ (.vec .int 2) rfl (by decide) (by decide)

/-! ### a vector operation with a literal operand (fixes 40c6233 / c05bffa)

Before the fixes the type checker computed `b + 1` (`b : bool3`), `v * 1.5` (`v : int3`) and `c ? v : 1.5` in a *vector of the
literal type* — `Cast(IntLiteral3, b)` — and the exporter panicked in `generate_scalar_type` (two known findings, now `fixed`
records).  Now the literal receives the concrete type: `Add(Cast(int3, b), Cast(int3, 1))`.  The side conditions were extended
to that form (`VOk.litOperandOK`), so the trees are instances of `gen_sem_msl_vec_expr`. -/

/-- `b + 1` with `b : bool3`, as typed since fix 40c6233 -/
def eBoolVecPlusLit : VExpr :=
  .op .Add (.cons (.cast (.vec .int 3) (.vvar 1)) (.cons (.cast (.vec .int 3) (.sc (.lit (.intLit 1)))) .nil))

/-- `v * 1.5` with `v : int3` -/
def eIntVecTimesFlit : VExpr :=
  .op .Multiply (.cons (.cast (.vec .float 3) (.vvar 1))
    (.cons (.cast (.vec .float 3) (.sc (.lit (.floatLit 0x3ff8000000000000#64)))) .nil))

/-- `s0 != 0 ? v : -7` with `v : int3` next to a negative literal, as typed since fix c05bffa (the arms of `?:`) -/
def eTernVecLit : VExpr :=
  .tern (.sc (.op .Inequality (.cons (.var 0) (.cons (.lit (.int32 0#32)) .nil))))
    (.vvar 1) (.cast (.vec .int 3) (.sc (.lit (.intLit (-7)))))

def vvtyB : Var → VTy := fun _ => .vec .bool 3
def envB : VAst.VEnv := { base := C02Sem.envW, vres := C02Sem.envW.res, vvty := vvtyB }
theorem agreeB : VAgreeM C02Sem.cxW (fun _ => true) envB vvtyB where
  base := C02Sem.agreeW
  vres x _ := C02Sem.agreeW.res x rfl
  vvty := rfl

/-- **a vector operation with a literal operand is exported and keeps its meaning** — the positive statement that replaces
the known findings `b + 1` / `v * 1.5` (panic `int literal / float literal should not be required on output`) after fixes
40c6233 and c05bffa: the trees the type checker now builds are accepted (`VIr.typeOf`), lie inside the side conditions, are
exported as `(int3)b + (int3)1`, `(float3)v * (float3)1.5`, `c ? v : (int3)-7`, and the emitted expression has the IR's type
under Metal's rules and evaluates to the IR's value and store for every well-shaped value of the vector, every store and every
interpretation of the primitives (instances of `gen_sem_msl_vec_expr`). -/
theorem msl_vector_op_literal_in_concrete_type :
    genMV C02Sem.cxW vvtyB eBoolVecPlusLit
      = .ok (.bin .Add (.cast "int3" (.ident "ll")) (.cast "int3" (.sc (.lit (.intUntyped 1))))) ∧
    (∀ a, genMV C02Sem.cxW vvtyB eBoolVecPlusLit = .ok a →
      VMsl.typeOf C02Sem.M2.msig envB a = some (.vec .int 3) ∧
      ∀ ρ, (∀ x, VOk.shaped (vvtyB x) (ρ x) = true) → ∀ σ, VMsl.eval C02Sem.M2 envB ρ a σ = VIr.eval C02Sem.W2 ρ eBoolVecPlusLit σ) ∧
    genMV C02Sem.cxW vvtyEx eIntVecTimesFlit
      = .ok (.bin .Multiply (.cast "float3" (.ident "ll")) (.cast "float3" (.sc (.lit (.floatUntyped 0x3ff8000000000000#64))))) ∧
    (∀ a, genMV C02Sem.cxW vvtyEx eIntVecTimesFlit = .ok a →
      VMsl.typeOf C02Sem.M2.msig envV a = some (.vec .float 3) ∧
      ∀ ρ, (∀ x, VOk.shaped (vvtyEx x) (ρ x) = true) → ∀ σ, VMsl.eval C02Sem.M2 envV ρ a σ = VIr.eval C02Sem.W2 ρ eIntVecTimesFlit σ) ∧
    (∃ a, genMV C02Sem.cxW vvtyEx eTernVecLit = .ok a ∧
      VMsl.typeOf C02Sem.M2.msig envV a = some (.vec .int 3) ∧
      ∀ ρ, (∀ x, VOk.shaped (vvtyEx x) (ρ x) = true) → ∀ σ, VMsl.eval C02Sem.M2 envV ρ a σ = VIr.eval C02Sem.W2 ρ eTernVecLit σ) :=
  ⟨rfl,
   fun a h => gen_sem_msl_vec_expr agreeB C02Sem.worlds2 eBoolVecPlusLit a (.vec .int 3) h (by decide) (by decide),
   rfl,
   fun a h => gen_sem_msl_vec_expr agreeV C02Sem.worlds2 eIntVecTimesFlit a (.vec .float 3) h (by decide) (by decide),
   ⟨_, rfl, gen_sem_msl_vec_expr agreeV C02Sem.worlds2 eTernVecLit _ (.vec .int 3) rfl (by decide) (by decide)⟩⟩

/-- the one-element vector holding a scalar value: what a value of type `T1` is in the typed semantics, while Metal — where
`T1` is the scalar `T` — holds the scalar itself -/
def vec1Of : VVal → VVal
  | .sc x => .vec [x]
  | v => v

/-- **a cast of a vector to a one-component vector is exported and keeps its meaning** — the positive statement that replaces
the negation witness `narrowing_to_vec1_is_not_metal` (known finding *metal-cast-not-allowed*: `(int1)v` was emitted as
`(int)v`, no vector → scalar conversion in Metal) after fix b6f2da1: for every operand `e` of a vector type with 2–4
components inside the side conditions and every basic kind `t`, the exporter writes `(t1)e` exactly as it writes the scalar
cast `(t)e` — `(t)e'.x`, `try_implicit_truncate` now selects `.x` for a one-component target too —, the emitted expression has
the Metal type `t` (the scalar that `t1` is on Metal), and its value is the single component of the typed cast's value, with the
same store, for every store, every interpretation of the primitives and every well-shaped value of the vector variables. -/
theorem cast_to_vec1_selects_first_component {W : World} {M : Msl.MWorld} {env : VAst.VEnv} {cx : Ctx} {vvty : Var → VTy}
    {vis : Var → Bool} {rsv : Nat → List Var} (hag : VAgreeM cx vis env vvty) (hw : Worlds cx rsv W M)
    (e : VExpr) (t k : Ty) (m : Nat) (a : VAExpr)
    (hte : VIr.typeOf W.sig cx.vty vvty e = some (.vec k m)) (hoke : VOk.okMV (side cx W vis rsv) vvty e = true)
    (hbt : VOk.basicK t = true) (hg : genMV cx vvty (.cast (.vec t 1) e) = .ok a) :
    genMV cx vvty (.cast (.sc t) e) = .ok a ∧
    VMsl.typeOf M.msig env a = some (.sc t) ∧
    ∀ ρ, (∀ x, VOk.shaped (vvty x) (ρ x) = true) → ∀ σ,
      VIr.eval W ρ (.cast (.vec t 1) e) σ = (VMsl.eval M env ρ a σ).map (fun r => (vec1Of r.1, r.2)) := by
  have hoe := okMV_tyOK (S := side cx W vis rsv) e (.vec k m) hte hoke
  have hgt := getTy_ok hw.ret e (.vec k m) hte
  have hm2 : 2 ≤ m := by
    simp only [VOk.tyOKM, Bool.and_eq_true, decide_eq_true_eq] at hoe; exact hoe.1.2
  -- the two casts are generated alike
  have hsame : genMV cx vvty (.cast (.sc t) e) = genMV cx vvty (.cast (.vec t 1) e) := by
    have hn1 : ¬ ((VTy.sc t = .sc .lit) ∨ (VTy.sc t = .sc .flit)) := by
      intro h; rcases h with h | h <;> (injection h with h; subst h; simp [VOk.basicK] at hbt)
    have hn2 : ¬ ((VTy.vec t 1 = .sc .lit) ∨ (VTy.vec t 1 = .sc .flit)) := by intro h; rcases h with h | h <;> cases h
    simp only [genMV, hgt, hn1, hn2, if_false]
    cases genMV cx vvty e with
    | error err => rfl
    | ok inner =>
      simp only [GenMslVec.vtypeName, GenMslVec.dimSuffix, implicitTruncate]
      cases typeName t with
      | error err => rfl
      | ok n => simp
  have hgs : genMV cx vvty (.cast (.sc t) e) = .ok a := hsame.trans hg
  have hts : VIr.typeOf W.sig cx.vty vvty (.cast (.sc t) e) = some (.sc t) := by
    have : ¬ (t = .lit ∨ t = .flit ∨ t = .void) := by
      intro h; rcases h with h | h | h <;> subst h <;> simp [VOk.basicK] at hbt
    simp [VIr.typeOf, hte, VTy.scalar, this]
  have hoks : VOk.okMV (side cx W vis rsv) vvty (.cast (.sc t) e) = true := by
    simp only [VOk.okMV, VOk.tyOKM, hbt, Bool.true_and, Bool.or_eq_true, Bool.and_eq_true]
    right
    refine ⟨hoke, ?_⟩
    have : VIr.typeOf (side cx W vis rsv).sig (side cx W vis rsv).vty vvty e = some (.vec k m) := hte
    rw [this]
    simp only [VOk.tyOKM, Bool.and_eq_true, decide_eq_true_eq] at hoe
    simp [VOk.castFits, VOk.tyOKM, hoe]
  have hmain := gen_sem_msl_vec_expr hag hw (.cast (.sc t) e) a (.sc t) hgs hts hoks
  refine ⟨hgs, hmain.1, fun ρ hρ σ => ?_⟩
  rw [hmain.2 ρ hρ σ]
  simp only [VIr.eval]
  cases hv : VIr.eval W ρ e σ with
  | none => rfl
  | some r =>
    obtain ⟨v, σ1⟩ := r
    have hs := vec_shape_sound hρ e (.vec k m) σ σ1 v hte hv
    obtain ⟨xs, rfl, hlen⟩ := shaped_vec hs
    match xs, hlen with
    | x :: y :: r2, _ =>
      simp only [castShapeR, castShape, List.take, List.length_cons]
      have h1 : 1 ≤ r2.length + 1 + 1 := by omega
      simp only [h1, if_true, mapOpt]
      cases castVal W.P t x <;> simp [vec1Of]
    | [], h0 => simp at h0; omega
    | [x], h0 => simp at h0; omega

/-- the instance that was the negation witness: `(int1)v` with `v : int3` is exported as `(int)v.x`, typed `int` in Metal -/
example :
    genMV C02Sem.cxW vvtyEx (.cast (.vec .int 1) (.vvar 1)) = .ok (.cast "int" (.member (.ident "ll") "x")) ∧
    VMsl.typeOf C02Sem.M2.msig envV (.cast "int" (.member (.ident "ll") "x")) = some (.sc .int) ∧
    VIr.typeOf C02Sem.W2.sig C02Sem.cxW.vty vvtyEx (.cast (.vec .int 1) (.vvar 1)) = some (.vec .int 1) :=
  ⟨rfl, by decide, by decide⟩

/-- the opposite direction of fix b6f2da1: a one-component operand is a scalar on Metal and gets no member selection -/
example : implicitTruncate (.vec .float 1) (.sc .float) (.ident "v") = .ident "v" ∧
    implicitTruncate (.vec .float 3) (.vec .float 1) (.ident "v") = .member (.ident "v") "x" := ⟨rfl, rfl⟩

/-- `gen_sem_msl_vec_assign` instantiated: `v1.zx += (int2)s0;` -/
example : ∀ ρ, (∀ y, VOk.shaped (vvtyEx y) (ρ y) = true) → ∀ σ,
    VMsl.evalTop C02Sem.M2 envV ρ (.bin .SumAssignment (.member (.ident "ll") "zx") (.cast "int2" (.sc (.ident "l")))) σ =
      VIr.evalTop C02Sem.W2 ρ (.op .SumAssignment (.cons (.swz (.vvar 1) [.Z, .X]) (.cons (.cast (.vec .int 2) (.sc (.var 0))) .nil))) σ :=
  (gen_sem_msl_vec_assign agreeV C02Sem.worlds2 (o := .SumAssignment) (T := .vec .int 2) rfl rfl rfl (by decide) (by decide) (by decide) (by decide)
    (Or.inr ⟨.add, rfl, trivial⟩)).2

/-! ### `%=` on floating-point vectors (fixes 92d66eb + 35faaaa) -/

def vvtyF : Var → VTy := fun _ => .vec .float 3
def envF : VAst.VEnv := { base := C02Sem.envW, vres := C02Sem.envW.res, vvty := vvtyF }
theorem agreeF : VAgreeM C02Sem.cxW (fun _ => true) envF vvtyF where
  base := C02Sem.agreeW
  vres x _ := C02Sem.agreeW.res x rfl
  vvty := rfl

/-- **`v %= w` on float vectors is exported and keeps its meaning** — the positive statement for the known finding
*metal-remainder-operator-on-floats* (`v %= w` was emitted unchanged; Metal has no `%=` on floats): the exporter writes
`v = metal::fmod(v, w)` (also for a swizzled target, `v.zx = metal::fmod(v.zx, w.xy)`), Metal accepts it, and it leaves the
value, store and vector store of the typed `%=`; a right operand that may write (`v %= (float3)(i++)`) or a target that is not a
plain place is refused with `ComplexRemainderAssignment` instead of being reordered / evaluated twice. -/
theorem msl_float_remainder_assignment_keeps_meaning :
    genMV C02Sem.cxW vvtyF (.op .RemainderAssignment (.cons (.vvar 1) (.cons (.vvar 2) .nil))) =
      .ok (.bin .Assignment (.ident "ll") (.call "metal::fmod" (.cons (.ident "ll") (.cons (.ident "lll") .nil)))) ∧
    (∀ ρ, (∀ y, VOk.shaped (vvtyF y) (ρ y) = true) → ∀ σ,
      VMsl.evalTop C02Sem.M2 envF ρ (.bin .Assignment (.ident "ll") (.call "metal::fmod" (.cons (.ident "ll") (.cons (.ident "lll") .nil)))) σ =
        VIr.evalTop C02Sem.W2 ρ (.op .RemainderAssignment (.cons (.vvar 1) (.cons (.vvar 2) .nil))) σ) ∧
    genMV C02Sem.cxW vvtyF (.op .RemainderAssignment (.cons (.swz (.vvar 1) [.Z, .X]) (.cons (.swz (.vvar 2) [.X, .Y]) .nil))) =
      .ok (.bin .Assignment (.member (.ident "ll") "zx")
        (.call "metal::fmod" (.cons (.member (.ident "ll") "zx") (.cons (.member (.ident "lll") "xy") .nil)))) ∧
    genMV C02Sem.cxW vvtyF (.op .RemainderAssignment (.cons (.vvar 1)
      (.cons (.cast (.vec .float 3) (.sc (.op .PostfixIncrement (.cons (.var 0) .nil)))) .nil))) =
        .error (.diag "ComplexRemainderAssignment") ∧
    genMV C02Sem.cxW vvtyF (.op .RemainderAssignment (.cons (.tern (.sc (.var 0)) (.vvar 1) (.vvar 2)) (.cons (.vvar 2) .nil))) =
        .error (.diag "ComplexRemainderAssignment") := by
  refine ⟨rfl, ?_, rfl, rfl, rfl⟩
  exact (gen_sem_msl_vec_assign agreeF C02Sem.worlds2 (o := .RemainderAssignment) (T := .vec .float 3) rfl rfl rfl
    (by decide) (by decide) (by decide) (by decide) (Or.inr ⟨.mod, rfl, trivial⟩)).2

end RsslVerif.Thm.C02Vec

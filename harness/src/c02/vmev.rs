//! A Metal Shading Language (C++14 + Metal vector / matrix rules) reading of the tree the exporter emits (`vmconv.rs`
//! forms): the oracle of the vector stream `C02.vfn`, independent of the Lean model and of the HLSL evaluator of C01.
//!
//! Reading (MSL specification, sections "Vector / Matrix constructors", "Implicit type conversions", "Operators"):
//! * scalar kinds bool / int / uint / float / long (an unsuffixed integer literal is `int` below 2^31, else 64 bit);
//!   scalars follow C++ (promotion of bool, usual arithmetic conversions, shift rule of Metal)
//! * vectors: component-wise operators on operands of ONE vector type; a scalar operand is converted to the element
//!   type and replicated; no integer promotion inside vectors; comparisons give bool vectors; `v.xyzw` / `v[i]` are
//!   places; implicit conversion scalar → vector replicates; vector → vector of another type, vector → scalar, scalar →
//!   matrix are NOT implicit; explicit `(T_n)x` / `T_n(x)` converts a scalar (replicated) or a vector of the same size
//! * vector constructors flatten their scalar / vector arguments (each component converted to the element type)
//! * matrices `metal::floatCxR` have C columns of R components; the constructor takes C·R scalars in COLUMN-major
//!   order, or C column vectors, or one scalar (the diagonal; zero elsewhere); `+ -` are component-wise; `*` between
//!   matrices is the linear-algebra product (reported, never evaluated: the float primitives are uninterpreted)
//! * `T name` parameters by value, `thread T& name` parameters bind the argument's place (exactly that type; not a
//!   vector component / swizzle: "non-const reference cannot bind to vector element"); an array parameter `T a[n]` is a
//!   pointer to the caller's array (C++ decay); struct methods run on the object's place
//! * aggregates `{…}` / `T {…}` initialise members / elements in order, with C++ brace elision (a sub-aggregate without
//!   its own braces takes as many clauses as it has elements: what the struct cast `(S)x` ↦ `S { x, x, … }` relies on);
//!   a narrowing conversion of a clause (float → int, non-constant int → float / uint, …) is ill-formed inside braces
//! * built-ins `metal::f(...)` are the uninterpreted functions of `c01/vval.rs` under the name of the HLSL built-in they
//!   implement (`fract` = frac, `mix` = lerp, `popcount` = countbits, …); `select(a, b, c)` = HLSL `select(c, b, a)`
#![allow(dead_code)]
use super::sx::*;
use super::vval::*;
use std::collections::HashMap;

#[derive(Clone, Copy, PartialEq, Eq, Debug)]
pub enum MS {
    Bool,
    Int,
    Uint,
    Float,
    Long,
    /// only in the alternative reading `hlsl_literals`: an unsuffixed literal that adapts to the other operand
    LitInt,
}

impl MS {
    fn name(self) -> &'static str {
        match self {
            MS::Bool => "bool",
            MS::Int => "int",
            MS::Uint => "uint",
            MS::Float => "float",
            MS::Long => "long",
            MS::LitInt => "literal-int",
        }
    }
    fn of_name(s: &str) -> Option<MS> {
        Some(match s {
            "bool" => MS::Bool,
            "int" => MS::Int,
            "uint" => MS::Uint,
            "float" => MS::Float,
            "long" => MS::Long,
            _ => return None,
        })
    }
    fn t(self) -> Option<T> {
        Some(match self {
            MS::Bool => T::Bool,
            MS::Int => T::Int,
            MS::Uint => T::Uint,
            MS::Float => T::Float,
            _ => return None,
        })
    }
}

#[derive(Clone, PartialEq, Debug)]
pub enum MTy {
    Void,
    S(MS),
    V(MS, usize),
    /// float matrix: columns, rows
    M(usize, usize),
    Struct(String),
    Arr(Box<MTy>, usize),
    Enum(String),
    /// `metal::true_type`
    Tag,
}

impl MTy {
    pub fn show(&self) -> String {
        match self {
            MTy::Void => "void".into(),
            MTy::S(s) => s.name().into(),
            MTy::V(s, n) => format!("{}{}", s.name(), n),
            MTy::M(c, r) => format!("metal::float{}x{}", c, r),
            MTy::Struct(k) => k.clone(),
            MTy::Enum(k) => k.clone(),
            MTy::Arr(e, n) => format!("{}[{}]", e.show(), n),
            MTy::Tag => "metal::true_type".into(),
        }
    }
    /// the name of the RSSL type this Metal type stands for (built-in signatures are hashed under RSSL names)
    fn rssl_name(&self) -> String {
        match self {
            MTy::M(c, r) => format!("float{}x{}", r, c),
            other => other.show(),
        }
    }
    fn scalar(&self) -> Option<MS> {
        match self {
            MTy::S(s) | MTy::V(s, _) => Some(*s),
            MTy::M(..) => Some(MS::Float),
            _ => None,
        }
    }
    fn with_scalar(&self, s: MS) -> MTy {
        match self {
            MTy::S(_) => MTy::S(s),
            MTy::V(_, n) => MTy::V(s, *n),
            other => other.clone(),
        }
    }
    fn is_numeric(&self) -> bool {
        matches!(self, MTy::S(_) | MTy::V(..) | MTy::M(..))
    }
}

#[derive(Clone, Copy, PartialEq, Eq, Debug)]
pub enum Stuck {
    /// the emitted tree is not valid Metal / differs by construction, in one of the described classes
    Class(&'static str),
    /// the program's own meaning is outside what both sides define (built-in without a comparable reading, …)
    Skip,
    Other,
}

thread_local! {
    static WHY: std::cell::RefCell<Option<(Stuck, String)>> = const { std::cell::RefCell::new(None) };
}
fn stuck<X>(kind: Stuck, why: String) -> Option<X> {
    WHY.with(|w| {
        let mut w = w.borrow_mut();
        if w.is_none() {
            *w = Some((kind, why.chars().take(240).collect()));
        }
    });
    None
}
fn other<X>(why: String) -> Option<X> {
    stuck(Stuck::Other, why)
}
pub fn take_stuck() -> Option<(Stuck, String)> {
    WHY.with(|w| w.borrow_mut().take())
}

pub const FUEL: u32 = 64;
pub const DEPTH: u32 = 12;

pub const C_REF_ELEM: &str = "metal-reference-to-vector-element";
pub const C_MAT_PRODUCT: &str = "metal-matrix-product-for-componentwise-multiply";
pub const C_MAT_CTOR: &str = "metal-matrix-constructor-from-rows";
pub const C_MAT_OP: &str = "metal-matrix-operator-not-defined";
pub const C_ARRAY_PARAM: &str = "metal-array-parameter-is-a-pointer";
pub const C_IMPLICIT: &str = "metal-implicit-conversion-not-allowed";
pub const C_VEC_OPERANDS: &str = "metal-vector-operand-types-differ";
pub const C_CAST: &str = "metal-cast-not-allowed";
pub const C_BUILTIN_ARGS: &str = "metal-builtin-argument-types";
pub const C_FLOAT_REM: &str = "metal-remainder-operator-on-floats";
pub const C_NARROWING: &str = "metal-narrowing-conversion-in-braces";
pub const C_NARROWING_LITERAL: &str = "metal-narrowing-literal-in-braces";

fn wrap64(n: i128) -> i128 {
    (n as i64) as i128
}

fn promote(t: MS) -> MS {
    if t == MS::Bool { MS::Int } else { t }
}

fn is_integer(t: MS) -> bool {
    matches!(t, MS::Int | MS::Uint | MS::Long | MS::LitInt)
}

fn common_scalar(a: MS, b: MS) -> Option<MS> {
    use MS::*;
    let (a, b) = (promote(a), promote(b));
    Some(match (a, b) {
        (LitInt, LitInt) => LitInt,
        (LitInt, x) | (x, LitInt) => x,
        (Float, _) | (_, Float) => Float,
        (Long, _) | (_, Long) => Long,
        (Uint, _) | (_, Uint) => Uint,
        (Int, Int) => Int,
        _ => return None,
    })
}

pub fn convert_scalar(from: MS, to: MS, v: V) -> Option<V> {
    if v == V::Void {
        return Some(V::Void);
    }
    let b2u = |x: bool| x as u32;
    let r = match (to, v) {
        (MS::Bool, V::B(x)) => V::B(x),
        (MS::Bool, V::I(x)) | (MS::Bool, V::U(x)) => V::B(x != 0),
        (MS::Bool, V::F(x)) => V::B(f2b(x)),
        (MS::Bool, V::L(n)) => V::B(n != 0),
        (MS::Int, V::B(x)) => V::I(b2u(x)),
        (MS::Int, V::I(x)) | (MS::Int, V::U(x)) => V::I(x),
        (MS::Int, V::F(x)) => V::I(f2i(x)),
        (MS::Int, V::L(n)) => V::I(n as u32),
        (MS::Uint, V::B(x)) => V::U(b2u(x)),
        (MS::Uint, V::I(x)) | (MS::Uint, V::U(x)) => V::U(x),
        (MS::Uint, V::F(x)) => V::U(f2u(x)),
        (MS::Uint, V::L(n)) => V::U(n as u32),
        (MS::Float, V::B(x)) => V::F(i2f(b2u(x))),
        (MS::Float, V::I(x)) => V::F(i2f(x)),
        (MS::Float, V::U(x)) => V::F(u2f(x)),
        (MS::Float, V::F(x)) => V::F(x),
        // the shared primitives have no 64 bit conversion: defined where an int holds the value
        (MS::Float, V::L(n)) => {
            if from == MS::LitInt || (n >= i32::MIN as i128 && n <= i32::MAX as i128) {
                V::F(i2f(n as u32))
            } else {
                return other(format!("long {} to float", n));
            }
        }
        (MS::Long, V::B(x)) => V::L(x as i128),
        (MS::Long, V::I(x)) => V::L(x as i32 as i128),
        (MS::Long, V::U(x)) => V::L(x as i128),
        (MS::Long, V::L(n)) => V::L(wrap64(n)),
        (MS::LitInt, V::L(n)) => V::L(n),
        _ => return other(format!("no conversion {:?} -> {:?} of {}", from, to, v.show())),
    };
    Some(r)
}

fn long_bin(m: MBin, p: i128, q: i128) -> Option<V> {
    Some(match m {
        MBin::Lt => V::B(p < q),
        MBin::Le => V::B(p <= q),
        MBin::Gt => V::B(p > q),
        MBin::Ge => V::B(p >= q),
        MBin::Eq => V::B(p == q),
        MBin::Ne => V::B(p != q),
        MBin::Add => V::L(wrap64(p.wrapping_add(q))),
        MBin::Sub => V::L(wrap64(p.wrapping_sub(q))),
        MBin::Mul => V::L(wrap64(p.wrapping_mul(q))),
        MBin::Div => {
            if q == 0 || (p == i64::MIN as i128 && q == -1) {
                return other("long division".into());
            }
            V::L(p / q)
        }
        MBin::Mod => {
            if q == 0 || (p == i64::MIN as i128 && q == -1) {
                return other("long remainder".into());
            }
            V::L(p % q)
        }
        MBin::Band => V::L(((p as i64) & (q as i64)) as i128),
        MBin::Bor => V::L(((p as i64) | (q as i64)) as i128),
        MBin::Bxor => V::L(((p as i64) ^ (q as i64)) as i128),
        _ => return None,
    })
}

/// scalar operator on two operands already converted to the operation type `t`
fn scalar_bin(t: MS, m: MBin, p: V, q: V) -> Option<V> {
    if p == V::Void || q == V::Void {
        return other("operand is an uninitialised value".into());
    }
    match (t, p, q) {
        (MS::Long, V::L(x), V::L(y)) => long_bin(m, x, y),
        _ => binop(m, p, q),
    }
}

fn scalar_shift(tl: MS, m: MBin, l: V, c: V) -> Option<V> {
    let count = |w: u32| -> Option<u32> {
        Some(match c {
            V::I(x) | V::U(x) => x % w,
            V::L(n) => (n.rem_euclid(w as i128)) as u32,
            _ => return None,
        })
    };
    let left = m == MBin::Shl;
    Some(match (tl, l) {
        (MS::Int, V::I(x)) => {
            let k = count(32)?;
            V::I(if left { x << k } else { ((x as i32) >> k) as u32 })
        }
        (MS::Uint, V::U(x)) => {
            let k = count(32)?;
            V::U(if left { x << k } else { x >> k })
        }
        (MS::Long, V::L(x)) => {
            let k = count(64)?;
            V::L(if left { wrap64(((x as i64) << k) as i128) } else { ((x as i64) >> k) as i128 })
        }
        _ => return other(format!("shift of {}", l.show())),
    })
}

/// a place: a cell of the memory and a path into its value
#[derive(Clone, Debug)]
pub struct Place {
    pub cell: usize,
    pub path: Vec<Acc>,
}

impl Place {
    fn sub(&self, acc: Acc) -> Place {
        let mut p = self.clone();
        p.path.push(acc);
        p
    }
    /// does the path end inside a vector (a component, a swizzle)?  decided by the accessors: `Swz`, or `Idx` into a vector
    fn in_vector(&self, ends_in_vector_element: bool) -> bool {
        ends_in_vector_element || matches!(self.path.last(), Some(Acc::Swz(_)) | Some(Acc::MSwz(_)))
    }
}

pub struct Mem {
    pub cells: Vec<VV>,
    pub names: Vec<String>,
}

impl Mem {
    fn alloc(&mut self, v: VV, name: &str) -> usize {
        self.cells.push(v);
        self.names.push(name.to_string());
        self.cells.len() - 1
    }
    fn read(&self, p: &Place) -> Option<VV> {
        match get_path(&self.cells[p.cell], &p.path) {
            Some(v) => Some(v),
            None => other(format!("no such place in `{}`", self.names[p.cell])),
        }
    }
    fn write(&mut self, p: &Place, v: VV) -> Option<()> {
        let mut whole = self.cells[p.cell].clone();
        match set_path(&mut whole, &p.path, v) {
            Some(()) => {
                self.cells[p.cell] = whole;
                Some(())
            }
            None => other(format!("cannot write the place in `{}`", self.names[p.cell])),
        }
    }
}

#[derive(Clone)]
struct Binding {
    place: Place,
    ty: MTy,
}

pub struct Frame {
    vars: HashMap<String, Binding>,
    ret: MTy,
    /// inside a method: the struct and the object's place
    this: Option<(String, Place)>,
    /// namespace prefix (`NS1::`) of the running function: unqualified names are looked up there first
    ns: String,
}

#[derive(Clone, PartialEq, Debug)]
pub enum Flow {
    Normal,
    Break,
    Continue,
    Ret(Option<VV>),
}

pub struct StructDef<'a> {
    pub members: Vec<(String, MTy)>,
    pub methods: Vec<&'a Sx>,
}

/// how the caller of the function under test passes one argument
#[derive(Clone, Debug)]
pub enum TopArg {
    Val(VV),
    /// a caller variable holding this value, passed by reference
    Var(VV),
}

pub struct MslV<'a> {
    pub funcs: Vec<&'a Sx>,
    pub structs: HashMap<String, StructDef<'a>>,
    /// enum → (underlying, enumerators)
    pub enums: HashMap<String, (MS, Vec<(String, V)>)>,
    /// `E::A`, `NS::E::A` and `NS::A` → (enum, value)
    pub enum_consts: HashMap<String, (String, V)>,
    /// file-scope constants in emission order: name, type, initialiser
    pub consts: Vec<(String, MTy, Option<&'a Sx>)>,
    pub hlsl_literals: bool,
    /// `metal::fmod` stands for the built-in `fmod` (else for the operator `%` on floats)
    pub fmod_is_builtin: bool,
    /// evaluating `metal::fmod` as the float remainder (the one place where `%` on floats is meant)
    pub in_fmod: std::cell::Cell<bool>,
}

include!("vmev_types.rs");
include!("vmev_expr.rs");
include!("vmev_call.rs");
include!("vmev_stmt.rs");

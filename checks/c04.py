"""C04 — emitted DirectX HLSL is accepted by the front end and is a fixpoint."""
# streams of `harness c04`: C04.fix (whole-program byte fixpoint: decl / gen / lit / tpl / disk / text), C04.reelab (second IR
# against the elaboration model), C04.names (name resolution of the emitted paths against Model.FixpointNames)
import os
import subprocess

T = "RsslVerif.Thm.C04."

# The legs of the composition are the property theorems of other properties.  Their obligations are obligations of C04
# as well: if one of them no longer checks (a table can not be re-extracted, a theorem stops type-checking), C04 reports a
# broken obligation and starts its own witness search (`search` below), whose inputs exercise exactly that leg.
LEG_GENS = ["LexTables",                      # C10: literal_int / literal_float / digit tables of preprocess/src/lexer.rs
            "FmtTables", "ParseTables",       # C09: printer precedence / spelling tables, parser levels
            "Reserved"]                       # C15: reserved words of the HLSL name generator
LEG_MODULES = ["RsslVerif.Thm.C10", "RsslVerif.Thm.C09", "RsslVerif.Thm.C15",
               "RsslVerif.Thm.C05Layers", "RsslVerif.Thm.C06"]   # the allocator's type peel (slot clause, typedef'd resources)
LEG_THEOREMS = (
    # literals re-read exactly (C10): the shape of calculate_float64_from_parts is the modelled one, the value is the
    # nearest double / float of the digits, integers are exact or rejected
    ["RsslVerif.Thm.C10." + n for n in [
        "float_parts_shape_as_modelled", "lex_float_nearest", "nearest64_correct", "nearest64_total", "nearest_correct",
        "nearest_exact_on_representable", "int_value_exact", "int_overflow_rejected", "literalInt_radix",
        "token_numeric_dispatch"]] +
    # printing and parsing are inverse (C09)
    ["RsslVerif.Thm.C09." + n for n in [
        "tables_agree", "assoc_agrees", "ternary_level", "unary_tables_agree", "paren_rule_matches_grammar",
        "glue_prefix_prefix", "glue_postfix_next", "roundtrip_expr_partial", "roundtrip_subexpr_partial",
        "roundtrip_comma_positions_partial", "literal_roundtrip_partial", "decimal_roundtrip"]] +
    # first-generation names are unique and unreserved, so the second name generation keeps them (C15)
    ["RsslVerif.Thm.C15." + n for n in [
        "reserved_complete", "never_reserved", "injective_per_scope", "verbatim", "locals_apart_from_used"]] +
    # the allocator's peel (outer modifier, sized array layer, element modifier) reads every layer chain by its array
    # lengths and innermost object only (C05's layer-chain theorems over the re-extracted Gen.MetaTables.allocPeel) and has
    # the statement shape of C06's model (Gen.SlotTables.allocShape): cited by C04's typedef_spelling_* theorems
    ["RsslVerif.Thm.C05." + n for n in [
        "peel_facts_as_modelled", "peels_read_layers", "descriptor_kind_count_from_layers",
        "reflection_peel_agrees_with_allocator_peel", "spelling_kind_count"]] +
    ["RsslVerif.Thm.C06.alloc_shape_as_modelled"])


def custom(ctx):
    if not ctx.harness_build():
        return
    root = os.path.dirname(os.path.dirname(os.path.abspath(__file__)))
    corpus = os.path.join(root, "corpus", "C04.txt")
    if os.path.exists(corpus) and os.path.getsize(corpus) > 0:
        cases, _ = ctx.run_harness(["c04", "--requests", corpus])
        ctx.correspond(cases)
    cases, stats = ctx.run_harness(["c04", "--tier", ctx.tier, "--seed", str(ctx.seed)])
    ctx.stats.extend(stats)
    ctx.correspond(cases)
    ctx.extra["model_comparison"] = ("C04.reelab: the model predicts the second-generation IR skeleton of every expression "
                                     "position (erase, unelab, elabTop, conversion) and is compared with what the real front end "
                                     "makes of the real emitted text; C04.names: the model (its own scope table, find_identifier "
                                     "with the full-path retry on every enclosing scope, the emitted root-relative paths, the "
                                     "exported program without typedefs and empty namespace blocks) predicts which entity every "
                                     "use refers to in the first generation and in the text the compiler emits for that text, "
                                     "`g2:reject` when an emitted path finds nothing, `g1:reject` for a source path that finds "
                                     "nothing and for an enum value named like a namespace of its scope (register_enum_value, "
                                     "fix fe5dd8d); compared with what the two real texts say (ids carried as "
                                     "constants); when an emitted path finds an entity of another kind the model abstains "
                                     "(`unsupported`: the type checker decides). C04.fix (whole-program byte fixpoint and "
                                     "slots) has no model side, it is the property's own oracle (the model answers `unsupported`)")


def _harness_exe():
    import vlib
    return vlib.HARNESS_EXE


def _source_of(ident):
    if ident.startswith("text:"):
        try:
            return bytes.fromhex(ident[5:]).decode("utf-8", "replace")
        except ValueError:
            return None
    if ident.startswith(("lit:", "gen:", "decl:", "tpl:", "dfn:", "tdr:")):
        try:
            r = subprocess.run([_harness_exe(), "c04", "source", ident], capture_output=True, text=True, timeout=60)
        except Exception:
            return None
        return "\n".join(l for l in r.stdout.split("\n") if not l.startswith("WARNING conda"))
    return None


def shrink(req):
    """drop one source line at a time (a candidate the front end rejects is not a failure and is discarded by vlib);
    for the name-resolution stream: one declaration / statement / use of the descriptor at a time"""
    f = req.split("\t")
    if len(f) >= 2 and f[0] == "C04.names":
        try:
            r = subprocess.run([_harness_exe(), "c04", "names-shrink", f[1]], capture_output=True, text=True, timeout=60)
        except Exception:
            return
        for l in r.stdout.split("\n"):
            if l and not l.startswith("WARNING conda"):
                yield "C04.names\t" + l + "\t?"
        return
    if len(f) >= 2 and f[0] in ("C04.reelab", "C04.accept"):
        lines = f[1].split("\\n")
        for i in range(len(lines)):
            if lines[i].strip() in ("", "{", "}"):
                continue
            yield "\t".join(["C04.reelab", "\\n".join(lines[:i] + lines[i + 1:]), "-", "-"])
        return
    if len(f) < 2 or f[0] != "C04.fix":
        return
    src = _source_of(f[1])
    if not src:
        return
    lines = src.split("\n")
    if f[1][:5] != "text:":
        # the same program as an explicit text request (so that the replay file carries the source itself)
        yield "C04.fix\ttext:" + src.encode().hex()
    for i in range(len(lines)):
        if lines[i].strip() in ("", "{", "}"):
            continue
        cand = "\n".join(lines[:i] + lines[i + 1:])
        yield "C04.fix\ttext:" + cand.encode().hex()


def search(ctx):
    """inputs tried on the real compiler when an obligation (own or of a cited leg) no longer checks: programs built
    around what each leg guarantees — literals of every suffix and length (C10), operator nestings whose printed form
    depends on the precedence tables (C09), names that collide with reserved words or with each other (C15), and
    conversions of every kind (C03)"""
    out = []
    try:
        r = subprocess.run([_harness_exe(), "c04", "search-requests"], capture_output=True, text=True, timeout=60)
        out += [l for l in r.stdout.split("\n") if l.startswith("C04.fix\t")]
    except Exception:
        pass
    for src in SEARCH_SOURCES:
        out.append("C04.fix\ttext:" + src.encode().hex())
    for d in SEARCH_NAMES + generated_name_candidates():
        out.append("C04.names\t" + d + "\t?")
    # and a slice of the literal stream with other seeds
    out += ["C04.fix\tlit:%d" % (1000003 * k + ctx.seed) for k in range(1, 120)]
    return out


SEARCH_SOURCES = [
    "int f(int a, int b, bool c) { int r = (a, b); r = c ? a : (b = 3); r = -(-a) - -a + +(+a); return a - (b - 1) - (a / (b | 1)) * 2 % 5; }\n",
    "bool f(int a, uint b) { return a < b || (a == -1 && b != 0u) == !(a > 0); }\nuint g(uint a, int s) { a <<= s; a >>= 1; a = a >> (uint)s << 1; return a; }\n",
    "int k(int a) { return 1; }\nint k(float a) { return 2; }\nint k(uint a, uint b) { return 3; }\n"
    "void f(bool t, uint u, int i, float x) { int w = k(t + 1); w = k(u, 1); w = k(x); uint v = t ? 1 : 2; const int ci = 3; float ff = ci + 1.5; }\n",
    "struct S { int line; float sample; };\nstatic int point;\nint triangle(int discard_) { int in_ = discard_; int out_ = in_ + point; return out_; }\n",
    "void f(bool t, uint u, int i, float x) { float y = -1.5f; int j = -3; uint v = ~0u; bool c = !i; int n = ~t; y = -x; j = -(-3); y = t ? 1 : 2.5; y = i ? x : 1; u = u << 1; i = i >> t; }\n",
    # since fix batch 2: vector / matrix operations with a literal operand (40c6233), mutable places for out / inout arguments,
    # assignments and ++ / -- (4575004, b359800, 3758fdd)
    "void g(out float x, inout int y) { x = 1; y += 1; }\nstruct S { float3 v; int q; };\n"
    "void f(float2x2 m, uint2 u, bool3 c, int3 w, int i) { float2x2 r = m * 2; int3 z = c + 1; float3 q = w * 1.5; r = m + i; "
    "S s; float a; g(a, i); g(s.v.x, s.q); s.q++; --s.v.y; float arr[2]; g(arr[1], i); }\n",
    # name resolution of emitted paths (seeded mutant C04-3): function templates, overloads, typedefs of qualified types, enums
    # named like their namespace, constants used before / after a homonymous namespace is declared, locals and parameters
    # named like namespaces — every program is a fixpoint on the unchanged compiler
    "namespace Util { template<typename T> T twice(T x) { return x + x; } int base(int x) { return x; } }\n"
    "namespace App { namespace Util { int halve(int x) { return x / 2; } } int f() { return ::Util::twice<int>(1) + ::Util::twice(2.0f) + Util::halve(2) + ::Util::base(3); } }\n",
    "namespace A { int k(int a) { return 1; } int k(float a) { return 2; } namespace B { int k(uint a) { return 3; } int g() { return k(1u) + A::k(1) + ::A::k(1.5f); } } }\n",
    "namespace M { struct V { float x; float len() { return x; } }; typedef V Vec; }\n"
    "namespace N { typedef ::M::V MV; typedef M::Vec MV2; float f(MV a, MV2 b) { M::Vec c; c.x = a.len() + b.x; return c.x; } }\n",
    "namespace Color { enum Color { Red, Green, Blue }; int index(Color c) { return c == Green ? 1 : (c == Color::Blue ? 2 : 0); } }\n"
    "namespace Other { int g() { return Color::index(Color::Color::Red) + Color::index(::Color::Green); } }\nint first() { return Color::index(Color::Color::Red); }\n",
    "namespace P { static const int n = 4; }\nnamespace Q { int a() { return P::n; } namespace P { static const int m = 5; } int b() { return ::P::n + P::m; } }\n",
    "namespace W { static int v; int get() { return v; } }\nint user(int W) { int v = W; return v + ::W::v + ::W::get(); }\n",
    "enum E { A = 2, B = A + 1, C = B };\nnamespace N { cbuffer CB { int cbm; } template<int K> int tv() { return K + cbm; } enum F { P = 1, Q = P << 1 }; }\n"
    "int useall() { return (int)B + N::tv<3>() + (int)N::Q; }\n",
    # template value arguments (seeded mutant C04-4): the kind recorded for a literal argument must be the kind its printed
    # spelling is read back with; the parameter is combined with untyped literals in int / uint / float contexts
    'template<int N> int f(int x) { int y = N + 1; return x + y; }\nint user() { return f<3>(1); }\n',
    'template<int N> int f(int x) { int y = N + 1; for (int i = 0; i < N + 1; ++i) { x += N << 1; } return x + y; }\ntemplate<typename T, T A> T g(T x) { T y = A + 1; return x * A + y; }\ntemplate<bool B> int h(int x) { return B ? x + 1 : 2; }\ntemplate<typename T> T tw(T x) { return x + x + 1; }\nint user() { return f<3>(1) + f<2 + 1>(2) + f<3u>(3) + g<int, 5>(1) + (int)g<float, 2>(1.5) + (int)g<uint, 2u>(1u) + h<true>(1) + tw(1) + (int)tw(1.5) + (int)tw(2u); }\n',
    # siblings: enum values, constants folded into array sizes / case labels, static const initialisers, default parameter
    # values, literal arguments of overloaded functions and intrinsics
    'enum E { A = 2, B = A + 1, C = 1 << 3, D = 0x10u, F = -1 };\nstatic const int K = 4;\nstatic const uint KU = 3u;\nstatic const int K2 = K + 1;\nstatic const float KF = K * 2;\nstatic float garr[K + 1];\nstatic int garr2[KU];\nstatic int garr3[B];\nint d(int a = 3, uint b = 2, float c = 1, int e = K + 1) { return a + (int)b + (int)c + e; }\nint pick(int a) { return 1; }\nint pick(float a) { return 3; }\nint user(int v) {\n    float arr[K * 2];\n    int arr2[2 + 2];\n    int r = d() + d(1) + d(1, 2) + d(1, 2u, 3);\n    r += pick(K + 1) + pick(1 + 1) + pick((int)B + 1) + pick(KF);\n    r += min(K, 2) + max(1, 2) + (int)min(KU, 2) + (int)clamp(v, 0, 10) + (int)pow(2, 3) + abs(-3) + (int)lerp(0, 1, 0.5);\n    switch (v) { case K: r += 1; break; case K + 1: r += 2; break; default: break; }\n    int e = (int)A + 1; uint eu = (uint)B + 1u; float ef = (int)C * 1.5;\n    E ev = (E)1;\n    return r + e + (int)eu + (int)ef + (int)ev;\n}\n',
]


# descriptors of the name-resolution stream tried when an obligation about the lookup of emitted paths no longer checks
# (`path_lookup_as_modelled`, a disagreement of C04.names): every emitted root-relative path below has its first segment
# declared again, as another namespace / enum, in a scope between the use and the root — without the rest of the path
SEARCH_NAMES = [
    # a nested namespace reuses the name of a root namespace; `::Util::twice` is emitted as `Util::twice` inside `App`
    "ns Util fn twice - end end ns App ns Util fn halve - end end fn f - uf a Util twice ; uf r Util halve ; end end",
    # an enum named like the namespace that contains it: `Color::Color`, `Color::Color::Green` emitted inside `Color`
    "ns Color en Color Red Green end fn index - uy r Color ; ue r Green ; ue r Color Green ; end end fn first - uf r Color index ; ue r Color Color Red ; end",
    # a nested namespace named like its parent, used from the inner one: `N::z` / `N::N::w`
    "ns N gv z ns N gv w fn g - uv a N z ; uv r w ; uv r N w ; end end end",
    # global, struct, enum, function of a root namespace used from a sibling that has an inner namespace of that name
    "ns A gv x st S end en E V end fn f - end end ns B ns A gv y end fn g - uv a A x ; ut a A S ; ue a A E V ; uy a A E ; uf a A f ; uv r A y ; end ug a A S ; end",
    # the same from a struct method and from a nested block
    "ns A gv x end ns B ns A gv y end st T uv a A x ; bl uv a A x ; end end end",
    # an enum scope in between: a root namespace `E` and an enum `E` in the using namespace
    "ns E gv x end ns M en E V end fn g - uv a E x ; ue r E V ; end end",
]


# the names of the stream's pool the exporter has to rename (reserved words of the output language that are plain
# identifiers of the source language) and a pool name that is renamed because a namespace of the scope has it too
RENAMED_POOL = ["texture", "pass", "technique"]


def generated_name_candidates():
    """descriptors tried when an obligation about generated names no longer checks (`generated_names_reserved_as_modelled`,
    C15's leg over NameMap::build): every kind of entity whose name gets RENAMED on export, with a parameter / local /
    local of a nested block / local of a method body spelled exactly like the generated name `<name>_<k>` (k = 0..2),
    followed by uses of the entity in that scope - type: declaration, cast + enum variable, enum value through it,
    namespace-level use; function / global: call, assignment (control: those are reserved by the usage loop)"""
    out = []
    for n in RENAMED_POOL:
        for k in range(3):
            g = "%s_%d" % (n, k)
            # the entity alone in its scope is printed <n>_0; next to a namespace of that name it is <n>_1; next to a
            # namespace and a user entity called <n>_1 it is <n>_2
            pre = ["", "ns %s gv q end " % n, "ns %s gv q end gv %s_1 " % (n, n)][k]
            out += [
                pre + "st %s end fn f %s ut a %s ; end" % (n, g, n),
                pre + "st %s end fn f - lv %s ut a %s ; ut r %s ; end" % (n, g, n, n),
                pre + "st %s end fn f - bl lv %s ut r %s ; end end" % (n, g, n),
                pre + "st %s end st T lv %s ut a %s ; end" % (n, g, n),
                pre + "st %s end ns M fn f %s ut a %s ; end end" % (n, g, n),
                "ns M " + pre + "st %s end fn f %s ut r %s ; ut a M %s ; end end" % (n, g, n, n),
            ]
            if k == 0:
                out += [
                    "en %s V1 end fn f %s uy a %s ; ue a %s V1 ; end" % (n, g, n, n),
                    "en %s V1 end fn f - lv %s uy a %s ; ue r V1 ; end" % (n, g, n),
                    "en E %s end fn f - lv %s ue a E %s ; ue a %s ; end" % (n, g, n, n),
                    "ns %s st S end gv x end fn f %s ut a %s S ; uv a %s x ; end" % (n, g, n, n),
                    "st %s end td W a %s ; fn f %s ut r W ; end" % (n, n, g),
                    # control: functions / globals
                    "fn %s - end fn g %s uf a %s ; end" % (n, g, n),
                    "gv %s fn g - lv %s uv a %s ; end" % (n, g, n),
                    "gv %s fn g %s bl lv %s uv a %s ; end end" % (n, g, g, n),
                ]
    # homonyms across kinds (no reserved word): namespace A and struct A in one scope are printed A_0 and A_1
    for k in range(3):
        out += ["ns A gv q end st A end fn f A_%d ut a A ; end" % k,
                "ns A gv q end st A end fn f - lv A_%d ut a A ; uv a A q ; end" % k,
                "ns B ns A gv q end st A end fn f A_%d ut r A ; end end" % k]
    return out


def nontrivial(req, obs):
    return obs.startswith("ok:") or obs.startswith("fn ") or obs.startswith("g1:u")


def _names_class(detail):
    """class of a failure of the name-resolution stream, from the tag of the harness's own scope simulation"""
    import re
    m = re.search(r"\[names: captured:([a-z]+):by-([a-z-]+)", detail or "")
    if m:
        by = {"fn": "namespace-level-entity", "var": "namespace-level-entity", "struct": "namespace-level-entity",
              "enum": "namespace-level-entity", "enumval": "enum-value", "local": "local"}.get(m.group(2), m.group(2))
        return "names:relative-path-captured/%s:by-%s" % (m.group(1), by)
    return None


TEMPLATE_LOOKAHEAD_KEY = "rejected-by-parser: less-than ... greater-than followed by `(` is read as template arguments and a call"


CBUFFER_LEAF_KEY = "rejected: member of a cbuffer declared in a namespace is printed by its leaf name outside the namespace"


TPL_INT32_KEY = ("not-fixpoint: a template value argument of kind Int32 is printed bare at the call site and read back as "
                 "an int literal")


def _typed_int_template_arguments_only(src):
    """free-form source (corpus reproducer): there are template instantiations with value arguments and every one of them
    has an argument of kind Int32 - a cast `(int)..` or a `static const int` name"""
    import re
    consts = set(re.findall(r"static\s+const\s+int\s+(\w+)", src))
    inst = re.findall(r"\b\w+<([^<>;{}]*)>\s*\(", src)
    inst = [a for a in inst if not re.fullmatch(r"\s*(int|uint|float|bool|half|double)\d?(x\d)?\s*", a)]
    if not inst:
        return False
    for a in inst:
        if "(int)" in a:
            continue
        if any(re.search(r"\b%s\b" % re.escape(c), a) for c in consts):
            continue
        return False
    return True


ELEMENT_CONST_KEY = ("not-fixpoint: the const a typedef puts on the element type of a typedef'd resource array is printed on "
                     "the exported declaration and not printed again")


PROTO_PARAMS_KEY = "decl-forms:emitted-prototype-carries-the-parameter-list-of-the-definition/"


def finding_key(req, obs, detail):
    # key by the first differing line class / rejection message, not by the whole program
    import re
    m = re.search(r"\[dfn: ([a-z-]+)\]", detail or "")
    if m and req.startswith("C04.fix\t"):
        # named on the SOURCE TEXT alone (harness/src/c04/declforms.rs classify): the emitted text is refused with `no matching
        # function for call to F(n arguments)` where F's first declaration is a prototype with more default arguments than its
        # definition and n lies between the two / with `'X' was not declared` on a prototype line where X is declared between
        # a prototype and the definition whose default expressions name it
        return PROTO_PARAMS_KEY + m.group(1)
    if req.startswith("C04.fix\t") and "[tdr: element-const-of-typedef-array-printed-once]" in (detail or ""):
        # named on the two emitted texts alone (harness/src/c04/tdres.rs split_const_lines): EVERY differing line differs by
        # exactly a leading `const ` on a global resource array declaration, and the slots are the same
        return ELEMENT_CONST_KEY
    if req.startswith("C04.fix\ttpl:") and "[tpl: int32-template-argument-printed-bare]" in (detail or ""):
        # named by the generator's own record of argument kinds (harness/src/c04/tmpl.rs classify): the first differing
        # line lies in an instance every call of which was written with an Int32 argument
        return TPL_INT32_KEY
    if req.startswith("C04.fix\ttext:") and "second generation differs" in (detail or "") and "(int)(" in (detail or ""):
        src = _source_of(req.split("\t")[1]) or ""
        if _typed_int_template_arguments_only(src):
            return TPL_INT32_KEY
    if req.startswith("C04.names\t"):
        # the class the harness's scope simulation names, else the specific descriptor (the printed names are derived)
        return _names_class(detail) or "C04.names\t" + req.split("\t")[1]
    m = re.match(r"FAIL:panic ([^:]+):\d+: (.*)$", detail or "")
    if m:
        return f"panic {m.group(1)}: " + re.sub(r"\d+", "N", m.group(2))
    if "emitted HLSL is rejected" in (detail or "") and "failed to parse source" in detail:
        # the printed line the parser gave up on: `x < y ... > (z)` is tried as a template argument list followed by a
        # call (known C09 class `a < a > (a & a)`); identified by the shape of the offending line, not by the program
        line = detail.split("failed to parse source", 1)[1]
        if re.search(r"[^<]<(?![<=]).*[^>\-]>(?![>=]) \(", line):
            return TEMPLATE_LOOKAHEAD_KEY
    for msg in ("expression could not be evaluated as a constant expression", "function call applied to non-function type"):
        # the same look-ahead when the bogus reading PARSES: `g1 + g1 < g1 << g1 && (g1 | g1) > (uint)(2.5f, 2)` is read as
        # `g1 + g1<g1 << g1 && (g1 | g1)>(uint)(..)` - a template instantiation whose argument is not a constant - and
        # `7u >> 0u < 1u && (uint)2.5f > (c ? a : b)` as a call of `0u<..>(..)`; the typer then refuses what the parser
        # accepted.  Recognised by the message, by the shape of the offending line and by the error position: the caret
        # stands at or after the operand in front of the first `<` of that shape
        if "emitted HLSL is rejected" in (detail or "") and msg in detail:
            line = detail.split(msg, 1)[1]
            mm = re.match(r"\\+n(.*?)\\+n( *)\^", line)
            if mm:
                text, col = mm.group(1), len(mm.group(2))
                sh = re.search(r"[^<]<(?![<=]).*[^>\-]>(?![>=]) \(", text)
                if sh and col <= sh.start() + 3:
                    return TEMPLATE_LOOKAHEAD_KEY
    m = re.search(r"emitted HLSL is rejected: .*?error: '(\w+)' was not declared in this scope", detail or "")
    if m and req.startswith("C04.fix\t"):
        # a member of a cbuffer declared inside a namespace is printed by its leaf name (C15's known finding
        # `hlsl-cbuffer-member-printed-by-leaf-name`): recognised on the source — the undeclared identifier is such a member
        src = _source_of(req.split("\t")[1]) or ""
        if re.search(r"namespace\s+\w+\s*\{[^}]*cbuffer\s+\w+\s*\{[^}]*\b%s\b" % re.escape(m.group(1)), src, re.S):
            return CBUFFER_LEAF_KEY
    if req.startswith("C04.reelab\t") or req.startswith("C04.accept\t"):
        # the specific input: the source text (ctx / ir are derived from it)
        return "C04.reelab\t" + req.split("\t")[1]
    return req


SPEC = {
    "id": "C04",
    "gens": ["SlotTables", "FixpointTables", "PathLookup", "TemplateConst", "NameReserve", "ProtoParams", "RankTable", "TypingTables", "HlslGenTables", "HlslIntrinsicTables",
             "MetaTables", "CompileTables"] + LEG_GENS,
    "lean_modules": ["RsslVerif.Thm.C04"] + LEG_MODULES,
    "theorems": [T + n for n in [
        "slots_stable", "run_explicit", "step_explicit",
        "dx_params", "slots_stable_reread", "annotations_stable", "reread_names_group",
        "reread_table_agrees", "cast_drop_agrees", "reread_only_int32",
        # resources declared through typedefs: the exported direct spelling is the same declaration to the allocator
        "slot_peel_as_modelled", "toSlot_of_dims_base", "exported_dims", "typedef_spelling_same_slot",
        "typedef_spelling_slots_stable", "mutant_peel_moves_slots",
        "reelab_no_new_casts", "reelab_stmt_no_new_casts", "export_is_source", "unelab_is_export", "renamed_exists",
        "reelab_idempotent", "out_arguments_plain", "out_arguments_plain_stmt", "out_argument_conversion_rejected",
        "bridge_square", "skeleton_and_constants", "reread_payloads_as_modelled", "leaf_value_preserved", "parsesBack_of_c09", "fixpoint_expr", "fixpoint_expr_text", "fixpoint_stmt",
        "namesAgreeEx", "idxInjEx",
        # name lookup of the emitted paths (Model.FixpointNames)
        "path_lookup_as_modelled", "emitPath_relative", "noCloserMatch_of_noInnerHomonym",
        "emitted_path_resolves_of_no_closer_match", "emitted_path_resolves_to_same_entity",
        "pathsResolveBack_of_no_closer_match", "machine_tables_wf", "mutant_discipline_loses_emitted_path",
        "emitted_path_captured_witness", "namesAgree_of_pathsResolveBack", "fixpoint_expr_paths",
        "enum_value_named_like_namespace_refused", "enum_value_named_like_namespace_refused_step",
        # the kind of a template value argument through export and re-compilation (Model.FixpointTemplate)
        "template_const_as_modelled", "emitted_literal_kind_stable", "template_instance_reelab",
        "template_instance_reelab_stmt", "emitted_literal_kind_int32_witness", "mutant_discipline_loses_literal_kind",
        # generated names are reserved against locals (C15's model of NameMap::build, Lemmas.FixpointGenNames)
        "generated_names_reserved_as_modelled", "local_meets_only_kept_names", "generated_names_apart_from_locals",
        "late_set_loses_generated_type_names",
        # prototypes and definitions of one function: which declaration supplies the signature / the printed parameters
        # (Model.FixpointProto)
        "proto_params_as_modelled", "emitted_declarations_fixpoint", "emitted_calls_accepted_again", "emitted_call_iff",
        "prototype_default_dropped_witness"]] + LEG_THEOREMS,
    "harness": "c04",
    "custom": custom,
    "nontrivial": nontrivial,
    "finding_key": finding_key,
    "shrink": shrink,
    "search": search,
    "rule": "C04.fix dfn: declaration forms of functions - 2..5 functions in the root / a namespace / a nested namespace (prototype "
            "and definition in separate, reopened blocks), 1..4 parameters (int / uint / float / float2 / struct / array, out / "
            "inout in front, other names on the prototype), form = definition only | prototype + definition | prototype twice + "
            "definition | definition + later prototype | prototype + definition + prototype | (1 program in 40) a prototype that "
            "is never defined; default arguments on trailing parameters with the count on the prototype and on the definition "
            "chosen independently (none / both the same / both with different expressions / prototype only / definition only / "
            "more on one side); default expressions = literals of every suffix, negative literals, constant expressions, casts, "
            "constants declared in front of everything, calls, vector constructors and - definition side - a constant declared "
            "BETWEEN prototype and definition; overload sets (1 in 3), calls in front of the definitions (forward declared) and "
            "after them with every admissible number of omitted arguments, mutual recursion through a prototype, a struct whose "
            "methods have defaults / call a method defined later / call a free function, a function template with a default "
            "argument, and 2..6 snippets of exporter features no other stream writes (interpolation modifiers and precise on "
            "parameters / members / locals, row_major / column_major / snorm / unorm / volatile, statement attributes, WaveSize / "
            "outputtopology, SV_Depth* semantics, sizeof, enum-typed constants, infinities, 4-component swizzles, geometry "
            "primitive parameters, 60 rarely used intrinsics); 3 programs in 5 use only pairings that keep every default a call "
            "relies on (all fixpoints), the others any pairing; a failure is named on the SOURCE TEXT alone (declaration scanner "
            "of harness/src/c04/declforms.rs, independent of compiler and model; works for text: reproducers): "
            "prototype-default-dropped (refused call of F with n arguments, F's first declaration is a prototype with more "
            "defaults than its definition, n between the two) and definition-default-printed-on-earlier-prototype (`'X' was not "
            "declared` on a prototype line, X declared between a prototype and the definition whose defaults name it) are the two "
            "known classes of one defect; any other failure is a violation. C04.fix tdr: resources and resource arrays "
            "declared THROUGH TYPEDEFS (harness/src/c04/tdres.rs) - 1..3 typedef families over one of 14 object types: "
            "`typedef [const] <obj> TO;`, `typedef [const] <obj | TO> TA[n];`, 0..2 aliases `typedef [const] <prev> TC;`; 3..8 "
            "resources spelled direct / direct array / through the object typedef (with or without a declarator dimension) / "
            "through the array typedef / through an alias of it, with or without `const`, attribute none | bind_group | "
            "register(<letter><i>) | register(.., space<k>) | register(space<k>) (on an array-typedef'd declaration 1 time in "
            "30: refused by the front end), a cbuffer with / without register in front, between or after, uses of elements; every "
            "program has a typedef'd array that is not the last resource, so a resource that loses or gains slots moves a "
            "follower; the exporter prints no typedef, so the second generation sees other layer chains (const outside vs "
            "inside the array layer); one known class, decided on the two emitted texts alone (every differing line differs by "
            "exactly a leading `const ` on a root-level resource array declaration with a register annotation, slots equal: the "
            "const a typedef put on the ELEMENT type of a typedef'd array is printed once - lines of the class are passed over "
            "when the first differing line is reported); any other failure is a violation. C04.fix tpl: function templates with value parameters (int / uint / bool, `typename T, T N`, two parameters) and type "
            "parameters deduced from literal arguments; bodies combine the parameter with untyped literals in int / uint / float "
            "contexts (initialisers, compound assignments, operands, loop bounds, ?:, case labels, overloaded-function and intrinsic "
            "arguments, unary operators, array sizes); arguments are unsuffixed / suffixed literals and literal expressions, bools "
            "and (1 program in 4) typed constants / casts; plus sibling shapes (enum values, constants folded into array sizes, "
            "static const initialisers, default parameter values, case labels from constants, literal arguments of overloads and "
            "intrinsics); every call carries its ordinal, the generator's own record of argument kinds names the one known class "
            "(an Int32 argument printed bare), any other failure is a violation. C04.fix: programs = type-directed generated sources using every declaration kind (enum, struct with method, static/"
            "groupshared globals, cbuffer with register, resources of 16 object types with register/space annotations and "
            "bind-group attributes, arrays, function template, namespace, overloads, default / out / inout parameters, every "
            "statement form, casts, swizzles, intrinsics) + resource/pipeline programs + the literal stream (numeric literals of "
            "every suffix: 20-30 digit decimals, shortest 15-17 digit doubles, over-long expansions, exponent forms, subnormal / huge "
            "magnitudes, -0.0, integer limits, hex, floats / halves written with the 15-17 digits of their value as a double and "
            "the float whose shortest digits are read back as its neighbour (fix 265a080); as global / local initialisers, call "
            "arguments, operands and array sizes) + the "
            "repository's inputs under tests/; each compiled for DirectX in no-pipeline mode and the emitted text compiled again; "
            "the second generation must be accepted, byte-identical and keep every binding slot. C04.reelab: scalar programs of "
            "C01's generator + fixed sources; real first IR -> real emitted text -> real front end again; the model predicts the "
            "skeleton (constant kinds, casts, operators, call targets, names) of every expression position of the second IR; oracle = "
            "accepted and byte-identical second text; non-trivial = the source was accepted. C04.names: descriptor programs "
            "along the name-resolution dimensions - namespaces (nested to depth 3, reopened, reusing the names of enclosing / root "
            "namespaces and of enums, structs, functions, globals: six pool names + fresh ones), enums (scoped E::V and unscoped V "
            "uses, enum named like its namespace), structs with a method whose body uses names, typedefs of qualified struct / enum "
            "types, functions with parameters named like namespaces / globals, locals and nested blocks shadowing namespace members, "
            "`::`-prefixed paths and every relative suffix of the full path from every position (same namespace, sibling, nested, "
            "root, method body, nested block, namespace-level `static PATH g;`), declarations before / after a homonym, names the "
            "exporter has to RENAME (reserved words of the output language that are plain identifiers of the source: texture / pass "
            "/ technique, for every declaration kind; several symbols of one name in a scope) together with locals / parameters "
            "(1 in 3) spelled exactly like a generated name `<name>_<k>`, k = 0..2, of something declared before and followed by "
            "uses of that entity in the scope of the local (type: declaration, cast / enum variable, enum value; control: call of "
            "the function, assignment of the global), entities spelled like generated names (kept verbatim), and (1 in 10) "
            "a use that must not resolve or (1 in 13) a last enum with a value spelled like a namespace of the root, which must be "
            "refused (`redefinition of ..`, fix fe5dd8d; model: g1:reject); every declaration carries its id as a constant and every use its ordinal, so both emitted "
            "texts say which entity each use refers to; oracle = the emitted text is accepted and the second text is byte-identical; "
            "the harness's own scope simulation of the exported program (rebuilt from the printed text) names the class of a failure "
            "that is an emitted relative path meeting a closer homonym (known findings names:relative-path-captured/..); a use "
            "printed under a GENERATED name (printed leaf differs from the source leaf) that meets a local printed with that very "
            "name is set apart (`generated-name-taken-by-local`: the collision is of the exporter's own making, never a known "
            "class) - this and any other failure is a violation with the descriptor as input",
    "level_text": "Proof by composition, machine-checked for expressions. (1) reelab_no_new_casts: for every expression of the C03 "
                  "elaboration model (all operators, ?:, comma, casts, calls through overload resolution; scalar / vector / matrix / "
                  "modified types; induction over all source expressions, debug and release builds) every syntax tree the front end "
                  "can read from the export of the elaborated expression (Unelab: generate_expression node by node - typed Int32 "
                  "constants lose their kind, negative constants become minus applied to the magnitude, casts to literal types are "
                  "dropped, every function has a name of its own) elaborates to the same IR again: no conversion added or lost, same "
                  "overload, same literal kinds; also for expression statements, return and initialised definitions; idempotent from "
                  "the first generation on; every written operand (=, ++, --) and every out / inout argument is accepted as a mutable "
                  "place again (check_mutable_place asks the IR type of the same node in the exported environment). The theorem has "
                  "no exception any more: until fix 3758fdd it needed the hypothesis that no Cast is passed for an out / inout "
                  "parameter (T <-> T1; the witness reelab_fails_out_argument and a known finding); now check_output_arguments runs "
                  "on the converted arguments, the hypothesis is the theorem out_arguments_plain (every accepted expression / "
                  "statement, any build mode), and the former witness input is rejected (out_argument_conversion_rejected; the two "
                  "reproducers stay in the corpus, findings converted to fixed). Vector / matrix operations with a literal operand "
                  "(fix 40c6233: the working type is remapped from IntLiteral / FloatLiteral to int / float) are covered: the "
                  "working kind of the re-elaborated operands may differ but not after the remap (arith_stable_remap). (2) bridge_square: the exporter "
                  "model of C01 (GenHlsl.genExpr, tied by C01's correspondence) read back by the front end (parse_literal, name lookup) "
                  "is such a tree. (3) fixpoint_expr / fixpoint_expr_text: composition of (1), (2), the C09 round trip "
                  "(roundtrip_expr_partial, for cast-free trees) and injectivity of skeleton + constants: the second generation of an "
                  "expression of the scalar subset is the first and prints the same text; named hypotheses: name hygiene (C15), literal "
                  "exactness (C10); leaf_value_preserved discharges the latter at the level of constants (every printable constant incl. "
                  "i32::MIN gets its value back through generate_literal, parse_literal, sign folding, re-tagging). (4) "
                  "slots_stable_reread: the allocator re-run (default group 0) on the declarations whose bind group is re-read character "
                  "by character from the printed register(..) annotations (C05's reader) reproduces every group, index, register class "
                  "and inline block, for all declaration sequences. (5) Names of qualified symbols: the hypothesis of (3) about "
                  "names is stated on the scope table of the exported program - PathsResolveBack: find_identifier, started in the scope "
                  "of the use with the relative identifier scoped_name_to_identifier builds from the full path, returns the entity the "
                  "path was printed for; namesAgree_of_pathsResolveBack / fixpoint_expr_paths feed it into the composition. "
                  "Model.FixpointNames mirrors ScopeData, walk_into_scopes (with its assertions), find_identifier_in_scope and the "
                  "outward walk of find_identifier that retries the whole path from every enclosing scope. "
                  "emitted_path_resolves_of_no_closer_match: in every well-formed table (all tables the descriptor machine builds are: "
                  "machine_tables_wf, proved by invariant over all instruction lists) a path that denotes its entity from the root and "
                  "that no scope between the use and the root resolves is looked up to that entity - any depth, any path length; "
                  "emitted_path_resolves_to_same_entity: without a homonymous inner scope (nothing between use and root declares the "
                  "first name of the path) this holds for the code's discipline and for the stop-at-the-first-qualifier discipline of "
                  "seeded mutant C04-3 alike; mutant_discipline_loses_emitted_path: with App::Util next to ::Util the code's lookup "
                  "finds ::Util::twice through the emitted `Util::twice` and the mutant's reports an unknown identifier (negation "
                  "witness, the program is in the corpus); emitted_path_captured_witness: with a closer full match the code's lookup "
                  "returns the closer entity, PathsResolveBack is false (the 12 known capture classes, cross-referenced to C15's "
                  "relative-path-resolves-elsewhere). path_lookup_as_modelled pins the bodies of find_identifier, walk_into_scopes, "
                  "scoped_name_to_identifier, the start scope per base, the emitted base and the stage / arm structure of "
                  "find_identifier_in_scope to the re-extracted Gen.PathLookup, and so the checks of register_enum_value (own "
                  "enum, then local / global / cbuffer member / enum value / type / function of the containing scope, then - fix "
                  "fe5dd8d - a namespace of that scope) and the assertion-free promotion loop of end_enum; "
                  "enum_value_named_like_namespace_refused: for every descriptor prefix, every enum with a value spelled like a "
                  "namespace / enum scope of the scope it stands in and every continuation the compilation is refused (was: the "
                  "end_enum panic, a known finding, now a fixed record with its reproducers in the corpus); the C04.names stream "
                  "compares the model's lookups and refusals (positive and negative, both generations) with the real compiler. "
                  "(6) Kind of constants: emitted_literal_kind_stable - every constant kind except Int32 is read "
                  "back from its spelling with the kind the IR constant had; a template value argument written as a literal is "
                  "recorded (parse_and_evaluate_constant_expression, find_overload_casts: re-extracted by Gen.TemplateConst, "
                  "template_const_as_modelled) with a kind that is not Int32, the constant substituted inside the instance has that "
                  "kind and the second compilation records it again; template_instance_reelab(_stmt): for such a kind the instance "
                  "body (substValue over any expression of the C03 model) is a parser-producible tree again, so (1) applies to it; "
                  "emitted_literal_kind_int32_witness: for an Int32 argument (f<K>, f<(int)3>) the call site prints a bare literal, "
                  "`int y = N + 1` is Add(Int32, Int32) first and Cast(int, Add(IntLiteral, IntLiteral)) second (known finding, "
                  "reproducers in the corpus); mutant_discipline_loses_literal_kind: recording a literal argument as Int32 (seeded "
                  "mutant C04-4) puts f<3> into that case. (7) Generated names against locals: types are emitted as root-relative paths, "
                  "locals as plain identifiers, and the lookup reads the locals of a scope first; "
                  "local_meets_only_kept_names - for every input of C15's model of NameMap::build (any namespaces, entries, "
                  "locals, reserved list) a local / parameter printed with the name of a namespace, struct, enum, enum value, global "
                  "or function meets a symbol that kept its source name; generated_names_apart_from_locals - a symbol printed under "
                  "a generated name (texture -> texture_0; A next to a namespace A -> A_1) shares it with no local (proof: a scope "
                  "names a symbol with its source name or with a candidate it records in St.gen, scopeRun_src_or_gen, and the local "
                  "pass starts from reserved ++ gen of all scopes ++ used names and never picks a member of its start set); "
                  "generated_names_reserved_as_modelled pins every statement of NameMap::build that touches used_names_all_scopes "
                  "(created before the per-scope loop, every inserted candidate recorded, usage loop, test and extension by the "
                  "local pass) to the re-extracted Gen.NameReserve; late_set_loses_generated_type_names: with the set created after "
                  "the loop (seeded mutant C04-5, buildLate - not the code) struct texture / enum pass and the locals texture_0 / "
                  "pass_0 are all printed texture_0 / pass_0 while a used function is still avoided (program in the corpus). What "
                  "remains for kept names is the known capture class by-local. (8) Prototypes and definitions of one function "
                  "(Model.FixpointProto: the signature with the number of parameters without a default is registered by the FIRST "
                  "declaration, parse_function; the exporter prints EVERY declaration, prototype or definition, from the parameter "
                  "list of the definition, generate_function_inner; both pinned to the re-extracted Gen.ProtoParams by "
                  "proto_params_as_modelled): emitted_declarations_fixpoint - for every list of declarations (any number of "
                  "prototypes in front of, between and after the definition, any defaults on any of them) the printed list is "
                  "printed as itself again, every printed declaration carries the definition's parameter list and the second "
                  "compilation registers the definition's signature; emitted_calls_accepted_again - if the definition has at least "
                  "as many defaults as the first declaration, every call the first compilation admits is admitted again; "
                  "emitted_call_iff - in general the second compilation admits exactly the calls with enough arguments for the "
                  "definition; prototype_default_dropped_witness - `float g(float a, float b = 2.0f); float g(float a, float b) "
                  "{..}`: g(1.0f) admitted first, refused second (known finding, class key), and with the default on the "
                  "definition only the emitted prototype carries the definition's expression (the sibling finding when that "
                  "expression names something declared between the two). The legs' property theorems (C10 literals, C09 round trip, C15 "
                  "names) and their Gen tables are obligations of C04. Partial: structural statements, declarations, structs, "
                  "template instantiation itself (naming of instances, headers, loops / switch / array sizes in instance bodies), intrinsic calls and the text leg of trees with casts are not in a Lean composition theorem; they are "
                  "exercised by the whole-program fixpoint run and the re-elaboration stream.",
    "trusted_base": [
        "Lean 4.33 kernel; axioms propext / Classical.choice / Quot.sound only (audited by #print axioms)",
        "Model/Elab.lean, Conv.lean, Overload.lean, IrTyping.lean (C03 / C16 models, tied to the code by their correspondence runs) "
        "and Gen.RankTable / Gen.TypingTables",
        "Model/GenHlsl.lean (C01 exporter model, tied by C01's correspondence) and Gen.HlslGenTables; Model/Format.lean, Parse.lean "
        "(C09), Model/Slots.lean, Meta.lean, Spec/Meta.lean (C06 / C05)",
        "Model/Fixpoint.lean: Unelab / unelab (the exporter on the C03 expression type; proved equal to the C01 exporter model read "
        "back by the front end on the scalar subset: bridge_square), rereadTable, litTyped, opSyn - compared with the re-extracted "
        "tables Gen.FixpointTables / HlslGenTables by theorems on every run",
        "Model/FixpointBridge.lean: erase (abstraction map between the two IR models, not a mirror of code), readBack (what "
        "parse_expr_internal does with each syntax node before typing), rereadConst / negConst / retagTo (payloads; tied by "
        "reread_payloads_as_modelled and by the value-level byte comparison of the correspondence runs)",
        "Model/MetaLayers.lean (C05: Ty layer chains, applyOp / runPeel, globalTy = parse_globaltype + parse_declarator + "
        "parse_rootdefinition_typedef, tied by C05's correspondence run C05.layers) and Gen.MetaTables.allocPeel / "
        "Gen.SlotTables.allocShape; RDecl.exportedTy of Thm/C04.lean (what the exporter prints for a typedef'd resource: object type "
        "and all array layers on the declarator, no const) is hand-written and tied by the C04.fix tdr stream through the "
        "property's own oracle only",
        "tools/gens/c04.py (FixpointTables: parse_literal, the to_literal test of the Cast arm, the literal shortcut of apply)",
        "Model/FixpointTemplate.lean (restrictKind / recordKind / instanceKind / secondRecordKind / substValue: the way of a template "
        "value argument) - tied by template_const_as_modelled (tools/gens/c04.py TemplateConst) and by the C04.fix tpl stream "
        "through the property's own oracle; the generator's record of argument kinds (harness/src/c04/tmpl.rs Kind, classify) is "
        "trusted for naming the known class only",
        "the C04.reelab correspondence run: the model's prediction of the second-generation IR skeleton vs the real front end on the "
        "real emitted text",
        "Model/Names.lean (C15's model of NameMap::build, tied by C15's correspondence run and Gen.Reserved) under the theorems of "
        "section GeneratedNames; Gen.NameReserve (tools/gens/c04.py: block structure of NameMap::build read by brace matching on "
        "the comment-stripped source); the source-side simulation of harness/src/c04/names.rs (entity ids, source leaf names) is "
        "trusted for telling a generated name from a kept one when a failure is classified",
        "Model/FixpointProto.lean (declarations of one function: sigNonDefault = first declaration, implParams = definition, "
        "exportDecls = every declaration printed with the definition's parameters) - tied by proto_params_as_modelled "
        "(tools/gens/c04.py ProtoParams: every statement of generate_function_inner that mentions the implementation / "
        "only_declare, the two root-definition arms, the default_expr statements of generate_function_param and "
        "parse_function_body, the id / signature statements of parse_function, the non_default_params statements of "
        "parse_function_signature) and exercised by the C04.fix dfn stream through the property's own oracle; the source-side "
        "declaration scanner (harness/src/c04/declforms.rs classify) is trusted for naming the two known classes only",
        "Model/FixpointNames.lean (scope table, walkInto / findInScope / find, the descriptor machine exec = symbol insertion of "
        "enter_namespace / insert_global / insert_function_in_scope / begin_struct / begin_enum / register_enum_value / register_typedef "
        "/ insert_variable, enumValueRefused = the checks of register_enum_value, exportInstrs = the program the second "
        "generation sees) - tied by path_lookup_as_modelled "
        "(tools/gens/c04.py PathLookup) and by the C04.names correspondence run; the reading of entity ids out of the emitted "
        "text (harness/src/c04/names.rs scan) is trusted for that run",
    ],
    "assumptions": [
        "Rust's shortest round-trip float formatting and correctly rounded parsing (f64 Display / FromStr)",
        "name hygiene (C15 verbatim / never_reserved / injective_per_scope) enters fixpoint_expr as the hypotheses NamesAgree and "
        "Renamed; literal exactness (C10) as the hypothesis that the second generation's constants are the first's",
        "PathsResolveBack (qualified names resolve back) is a hypothesis of fixpoint_expr_paths; it is a theorem only for uses "
        "without a closer full match (NoCloserMatch / NoInnerHomonym) and is false on the current code when a closer homonym "
        "exists (known findings names:relative-path-captured/..); DenotesFromRoot (the full path denotes the entity from the "
        "root: unique names per scope in the output) is C15's injective_per_scope",
        "the names model has no overload sets with more than one function, no templates, no cbuffers and no struct-qualified "
        "paths (the code has none either: walk_into_scopes enters namespaces and enums only); those are exercised by the "
        "free-form sources of the corpus / search list through the whole-program oracle",
        "generated_names_apart_from_locals is about the name map; that a local of that name would capture the printed type is the "
        "stage order of find_identifier_in_scope (path_lookup_as_modelled) and is exercised, not proved, for whole programs "
        "(C04.names); member names of structs are outside NameMap::build's local pass (TODO in the code)",
        "the constant evaluator keeps the kind of a literal and of a negated literal (C02's evaluator model): assumed by "
        "secondRecordKind; 64-bit template arguments are outside the Scalar model (parse_literal refuses 64-bit literals)",
        "the print / parse round trip of exported trees that contain casts is assumed (ParsesBack): C09's model has no cast node",
        "the declaration-form model (Model.FixpointProto) treats default expressions as opaque tokens and one function at a "
        "time: WHERE an expression printed on a prototype is looked up (the sibling finding), overload sets, namespaces, "
        "methods, templates with defaults, attributes / semantics of prototypes and every snippet of the `extras` pool of the "
        "dfn stream (modifiers, statement / function attributes, semantics, sizeof, infinities, intrinsics) are covered by the "
        "correspondence run and its oracle only; the dfn stream has no driver op (the model side of C04.fix answers "
        "`unsupported`): the tie of Model.FixpointProto is the extractor, and the stream's classifier applies exactly the "
        "condition of emitted_call_iff to the source text",
        "typedef_spelling_* cover chains over an OBJECT type (resources); unsized declarator dimensions and chains with two "
        "array layers are in the theorems (they get no slot in either generation) but not in the tdr generator",
        "in the second generation no pipeline is selected (default bind group 0), as in the property's observation point",
    ],
}

"""Gen.PanicSites: inventory of every explicit panic site in the non-test sources, plus the syntactic facts
the C08 progress lemmas lean on (shape of parse_list_base / parse_optional / parse_internal, TokenStream::next,
ConditionChain, the macro_disabled bracket around the recursive expansion)."""
import os
import re

CRATES = ["src", "ir/src", "hlsl/src", "msl/src", "typer/src", "parser/src", "formatter/src",
          "preprocess/src", "text/src", "ast/src"]

MACROS = ["panic", "todo", "unimplemented", "unreachable", "assert", "assert_eq", "assert_ne",
          "debug_assert", "debug_assert_eq", "debug_assert_ne"]


def blank(text, a, b):
    """replace text[a:b] by spaces, keeping newlines (so positions and line numbers stay valid)"""
    return text[:a] + re.sub(r'[^\n]', ' ', text[a:b]) + text[b:]


def strip_tests(text, matching):
    """blank out `#[test] fn ..{..}`, `#[cfg(test)] mod ..{..}` / `#[cfg(test)] fn ..{..}` / `#[cfg(test)] use ..;`"""
    pos = 0
    while True:
        m = re.compile(r'#\s*\[\s*(?:test|cfg\s*\(\s*test\s*\))\s*\]').search(text, pos)
        if not m:
            return text
        # the item ends at the first `;` or at the brace matching the first `{`, whichever comes first
        i = m.end()
        while i < len(text) and text[i] not in '{;':
            i += 1
        if i >= len(text):
            return blank(text, m.start(), len(text))
        end = i + 1 if text[i] == ';' else matching(text, i) + 1
        text = blank(text, m.start(), end)
        pos = end


def fn_spans(text, matching):
    spans = []
    for m in re.finditer(r'\bfn\s+([A-Za-z_0-9]+)', text):
        i = m.end()
        depth = 0
        # find the body `{` at bracket depth 0 (skips generics / argument lists / where clauses)
        while i < len(text):
            c = text[i]
            if c in '([':
                depth += 1
            elif c in ')]':
                depth -= 1
            elif c == ';' and depth == 0:
                i = -1
                break
            elif c == '{' and depth == 0:
                break
            i += 1
        if i < 0 or i >= len(text):
            continue
        try:
            spans.append((m.start(), matching(text, i), m.group(1)))
        except Exception:
            continue
    return spans


LINES = {}


def register(gen, T):
    @gen("PanicSites")
    def panic_sites():
        from rustsrc import lean_str, matching, normws, fn_body, ExtractError
        files = []
        for crate in CRATES:
            base = os.path.join(T.REPO, crate)
            for dp, _, fns in os.walk(base):
                for fn in sorted(fns):
                    if fn.endswith(".rs") and not fn.endswith("tests.rs") and fn != "test_support.rs":
                        files.append(os.path.relpath(os.path.join(dp, fn), T.REPO))
        files.sort()
        sites = []
        for f in files:
            text = strip_tests(T.src(f), matching)
            spans = fn_spans(text, matching)

            def fn_at(pos):
                best = None
                for a, b, n in spans:
                    if a <= pos <= b and (best is None or a > best[0]):
                        best = (a, n)
                return best[1] if best else "?"

            found = []
            for m in re.finditer(r'\b(' + "|".join(MACROS) + r')!\s*([(\[{])', text):
                # `debug_assert` also matches `assert` at a later offset: \b keeps them apart
                try:
                    close = matching(text, m.end() - 1)
                except Exception:
                    close = min(len(text), m.end() + 80)
                arg = normws(text[m.end():close])
                found.append((m.start(), m.group(1) + "!", arg[:70]))
            for m in re.finditer(r'\.\s*(unwrap|expect)\s*\(', text):
                # receiver: the statement text before the call, back to the previous `;`, `{` or `}`
                a = max(text.rfind(';', 0, m.start()), text.rfind('{', 0, m.start()), text.rfind('}', 0, m.start()))
                recv = normws(text[a + 1:m.start()])
                found.append((m.start(), "." + m.group(1), recv[-70:]))
            found.sort()
            seen = {}
            for pos, kind, txt in found:
                key = (f, fn_at(pos), kind, txt)
                k = seen.get(key, 0) + 1
                seen[key] = k
                sites.append((f, key[1], kind, txt if k == 1 else f"{txt} #{k}"))
                LINES[sites[-1]] = text.count("\n", 0, pos) + 1
        sites.sort()
        out = [T.header("PanicSites", ["every non-test .rs file of the workspace crates", "parser/src/parser.rs",
                                       "preprocess/src/lexer.rs", "preprocess/src/preprocess.rs"])]
        out.append("/-- (file, enclosing fn, kind, text of the macro arguments / of the receiver; `#k` = k-th identical one) -/\n")
        out.append("def sites : List (String × String × String × String) := [\n")
        out.append(",\n".join(f"  ({lean_str(a)}, {lean_str(b)}, {lean_str(c)}, {lean_str(d)})" for a, b, c, d in sites))
        out.append("\n]\n\n")
        out.append(f"def siteCount : Nat := {len(sites)}\n\n")

        # ---- shape of the parser's loop combinators (parser/src/parser.rs)
        parser_rs = strip_tests(T.src("parser/src/parser.rs"), matching)
        plb = normws(fn_body(parser_rs, "parse_list_base"))
        popt = normws(fn_body(parser_rs, "parse_optional"))
        pint = normws(fn_body(parser_rs, "parse_internal"))
        facts = {
            # the loop continues only after separator AND element succeeded, and then moves to the element's rest
            "listLoopAdvancesToElementRest": r'while let Ok\(\(after_sep, _\)\) = parse_separator\(input\) \{ match parse_element\(after_sep\) \{ Ok\(\(rest, element\)\) => \{ values\.push\(element\); input = rest; \}',
            # a failing element that consumed nothing ends the loop *before* the separator
            "listLoopBreaksOnUnconsumedError": r'Err\(ParseErrorContext\(rest, _, _\)\) if rest\.len\(\) == after_sep\.len\(\) => \{ break; \}',
            # a failing element that consumed something is an error
            "listLoopFailsOnConsumedError": r'Err\(err\) => return Err\(err\), \} \} Ok\(\(input, values\)\)',
            "listEmptyOnlyIfUnconsumed": r'Err\(ParseErrorContext\(rest, _, _\)\) if allow_empty && rest\.len\(\) == input\.len\(\) => \{ Ok\(\(input, Vec::new\(\)\)\) \}',
            "optionalNoneOnlyIfUnconsumed": r'Err\(ParseErrorContext\(rest, _, _\)\) if rest\.len\(\) == input\.len\(\) => Ok\(\(input, None\)\),',
            "optionalPropagatesConsumedError": r'Err\(err\) => Err\(err\), \}',
            "rootLoopAdvancesToRest": r'loop \{ let last_def = parse_root_definition_with_semicolon\(rest\); if let Ok\(\(remaining, root\)\) = last_def \{ roots\.push\(root\); rest = remaining; \} else \{ return',
        }
        srcs = {"listLoopAdvancesToElementRest": plb, "listLoopBreaksOnUnconsumedError": plb,
                "listLoopFailsOnConsumedError": plb, "listEmptyOnlyIfUnconsumed": plb,
                "optionalNoneOnlyIfUnconsumed": popt, "optionalPropagatesConsumedError": popt,
                "rootLoopAdvancesToRest": pint}
        out.append("/-- syntactic facts about parse_list_base / parse_optional / parse_internal (regexes over the normalised source) -/\n")
        out.append("structure ParserLoopShape where\n" + "".join(f"  {k} : Bool\n" for k in facts) + "  deriving DecidableEq, Repr\n\n")
        out.append("def parserLoopShape : ParserLoopShape := { " +
                   ", ".join(f"{k} := {'true' if re.search(rx, srcs[k]) else 'false'}" for k, rx in facts.items()) + " }\n\n")

        # ---- every use of the loop combinators: (file, enclosing fn, combinator, separator parser, element parser)
        uses = []
        for f in files:
            if not f.startswith("parser/src"):
                continue
            text = strip_tests(T.src(f), matching)
            spans = fn_spans(text, matching)
            for m in re.finditer(r'\b(parse_list_nonempty|parse_list|parse_multiple)\s*\(', text):
                if re.search(r'\bfn\s+$', text[max(0, m.start() - 8):m.start()]):
                    continue
                close = matching(text, m.end() - 1)
                from rustsrc import split_top
                args = [normws(a) for a in split_top(text[m.end():close], ',') if a.strip()]
                best = None
                for a, b, n in spans:
                    if a <= m.start() <= b and (best is None or a > best[0]):
                        best = (a, n)
                fnn = best[1] if best else "?"
                if m.group(1) == "parse_multiple":
                    sep, el = "-", (args[0] if args else "?")
                else:
                    sep, el = (args[0] if args else "?"), (args[1] if len(args) > 1 else "?")
                uses.append((f, fnn, m.group(1), sep[:60], el[:80]))
        out.append("/-- every call of parse_list / parse_list_nonempty / parse_multiple: (file, fn, combinator, separator, element) -/\n")
        out.append("def listUses : List (String × String × String × String × String) := [\n")
        out.append(",\n".join("  (" + ", ".join(lean_str(x) for x in u) + ")" for u in sorted(set(uses))))
        out.append("\n]\n\n")

        # ---- TokenStream::next / end_of_stream / read_to_end (preprocess/src/lexer.rs)
        lexer_rs = strip_tests(T.src("preprocess/src/lexer.rs"), matching)
        from rustsrc import impl_fn_body
        nxt = normws(impl_fn_body(lexer_rs, r"<'bytes>\s*TokenStream<'bytes>", "next"))
        eos = normws(impl_fn_body(lexer_rs, r"<'bytes>\s*TokenStream<'bytes>", "end_of_stream"))
        rte = normws(impl_fn_body(lexer_rs, r"<'bytes>\s*TokenStream<'bytes>", "read_to_end"))
        new = normws(impl_fn_body(lexer_rs, r"<'bytes>\s*TokenStream<'bytes>", "new"))
        lfacts = {
            "syntheticEndlineAtEnd": (nxt, r'^if self\.add_trailing_endline && self\.current_offset == self\.input_bytes\.len\(\) \{ assert!\(!self\.last_was_endline\); self\.last_was_endline = true;'),
            "syntheticEndlineIsEmptySpan": (nxt, r'PreprocessToken::new\( Token::Endline, self\.base_location, self\.current_offset as u32, self\.current_offset as u32, \); return Ok\(tok\);'),
            "lexesFromCurrentOffset": (nxt, r'match token_intermediate\(&self\.input_bytes\[self\.current_offset\.\.\], inside_include\) \{'),
            "progressAsserted": (nxt, r'let next_location = self\.input_bytes\.len\(\) - remaining\.len\(\); debug_assert!\(self\.current_offset < next_location\);'),
            "recordsEndline": (nxt, r'self\.last_was_endline = next_token == Token::Endline;'),
            "advancesOffset": (nxt, r'self\.current_offset = next_location; Ok\(tok\)'),
            "endOfStreamDef": (eos, r'^self\.current_offset >= self\.input_bytes\.len\(\) && \(self\.last_was_endline \|\| !self\.add_trailing_endline\)$'),
            "readToEndLoop": (rte, r'while !self\.end_of_stream\(\) \{ tokens\.push\(self\.next\(false\)\?\); \}'),
            "startsAfterEndline": (new, r'current_offset: 0, add_trailing_endline: true, last_was_endline: true,'),
        }
        out.append("/-- syntactic facts about TokenStream (preprocess/src/lexer.rs) -/\n")
        out.append("structure LexShape where\n" + "".join(f"  {k} : Bool\n" for k in lfacts) + "  deriving DecidableEq, Repr\n\n")
        out.append("def lexShape : LexShape := { " +
                   ", ".join(f"{k} := {'true' if re.search(rx, s) else 'false'}" for k, (s, rx) in lfacts.items()) + " }\n\n")
        # the only caller loops of TokenStream::next guard it with end_of_stream
        pre_rs = strip_tests(T.src("preprocess/src/preprocess.rs"), matching)
        callers = []
        for f in files:
            text = strip_tests(T.src(f), matching)
            for m in re.finditer(r'(\w+)\s*\.\s*next\s*\(\s*(inside_include|false|true)\s*\)', text):
                guard = re.search(r'while\s*!\s*' + re.escape(m.group(1)) + r'\s*\.\s*end_of_stream\s*\(\s*\)\s*\{', text[max(0, m.start() - 400):m.start()])
                callers.append((f, m.group(1), "guarded" if guard else "unguarded"))
        out.append("/-- every call of TokenStream::next and whether a `while !x.end_of_stream()` loop head precedes it -/\n")
        out.append("def lexNextCallers : List (String × String × String) := [" +
                   ", ".join("(" + ", ".join(lean_str(x) for x in c) + ")" for c in sorted(set(callers))) + "]\n\n")

        # ---- ConditionChain (preprocess/src/preprocess.rs); since 03ca601 / 115a619 a block records `seen_else`
        #      and the chain carries the number of blocks that belong to the including files (`self.1`)
        sw = normws(impl_fn_body(pre_rs, r"ConditionChain", "switch"))
        pp = normws(impl_fn_body(pre_rs, r"ConditionChain", "pop"))
        ia = normws(impl_fn_body(pre_rs, r"ConditionChain", "is_active"))
        pu = normws(impl_fn_body(pre_rs, r"ConditionChain", "push"))
        nw = normws(impl_fn_body(pre_rs, r"ConditionChain", "new"))
        pif = normws(fn_body(pre_rs, "preprocess_initial_file"))
        pinc = normws(fn_body(pre_rs, "preprocess_included_file"))
        pc = normws(fn_body(pre_rs, "preprocess_command"))
        base_writes = len(re.findall(r'(?:condition_chain|self)\s*\.\s*1\s*(?:[-+*/|&^]?=)(?!=)', pre_rs))
        cfacts = {
            "switchWorksOnFileSlice": (sw, r'^let blocks_of_file = &mut self\.0\[self\.1\.\.\]; match blocks_of_file\.last_mut\(\) \{ Some\(block\) => \{'),
            "switchRejectsAfterElse": (sw, r'Some\(block\) => \{ if block\.seen_else \{ return Err\(if is_else \{ PreprocessError::ElseAfterElse\(location\) \} else \{ PreprocessError::ElifAfterElse\(location\) \}\); \} block\.seen_else = is_else; block\.state = match block\.state \{'),
            "switchTable": (sw, r'block\.state = match block\.state \{ ConditionState::Enabled => ConditionState::DisabledOuter, ConditionState::DisabledInner if active => ConditionState::Enabled, ConditionState::DisabledInner => ConditionState::DisabledInner, ConditionState::DisabledOuter => ConditionState::DisabledOuter, \}; Ok\(\(\)\) \}'),
            "switchEmptyIsElseNotMatched": (sw, r'None => Err\(PreprocessError::ElseNotMatched\), \}$'),
            "popOnlyOwnBlocks": (pp, r'^if self\.0\.len\(\) > self\.1 \{ self\.0\.pop\(\); Ok\(\(\)\) \} else \{ Err\(PreprocessError::EndIfNotMatched\) \}$'),
            "isActiveAllEnabled": (ia, r'^self\.0 ?\.iter\(\) ?\.all\(\|block\| block\.state == ConditionState::Enabled\)$'),
            "pushStartsWithoutElse": (pu, r'^self\.0\.push\(ConditionBlock \{ state: gate, seen_else: false, \}\);$'),
            "newChainIsEmptyWithBaseZero": (nw, r'^ConditionChain\(vec!\[\], 0\)$'),
            "fileSavesAndSetsBase": (pinc, r'let outer_file_block_count = condition_chain\.1; condition_chain\.1 = condition_chain\.0\.len\(\);'),
            "fileEndChecksAndRestoresBase": (pinc, r'if condition_chain\.0\.len\(\) != condition_chain\.1 \{ return Err\(PreprocessError::ConditionChainNotFinished\); \} condition_chain\.1 = outer_file_block_count; Ok\(\(\)\)$'),
            "initialFileUsesTheFileBracket": (pif, r'let mut condition_chain = ConditionChain::new\(\);.*preprocess_included_file\( &mut tokens, file_loader, input_file, &mut macros, &mut condition_chain, \)\?; if !condition_chain\.0\.is_empty\(\) \{ return Err\(PreprocessError::ConditionChainNotFinished\); \} Ok\(tokens\)$'),
            "skipComputedFirstAndJunkIgnoredWhenSkipped": (pc, r'^let command_location = command\[0\]\.get_location\(\); let skip = !condition_chain\.is_active\(\); let \(command_name, command\) = match command \{.*?_ if skip => return Ok\(\(\)\), _ => return Err\(PreprocessError::UnknownCommand\(command_location\)\), \};'),
            "skippedIncludeNotLoaded": (pc, r'"include" => \{ if skip \{ return Ok\(\(\)\); \}'),
            "includeRunsTheFileBracket": (pc, r'Ok\(file\) => \{ file_loader\.include_depth \+= 1; let result = preprocess_included_file\( buffer, file_loader, file, macros, condition_chain, \); file_loader\.include_depth -= 1; result \}'),
            "skippedIfPushesDisabledInner": (pc, r'"if" => \{ if skip \{ condition_chain\.push\(ConditionState::DisabledInner\); return Ok\(\(\)\); \}'),
            "skippedIfdefPushesDisabledInner": (pc, r'"ifdef" \| "ifndef" => \{ if skip \{ condition_chain\.push\(ConditionState::DisabledInner\); return Ok\(\(\)\); \}'),
            "activeIfPushesByCondition": (pc, r'condition_chain\.push\(if active \{ ConditionState::Enabled \} else \{ ConditionState::DisabledInner \}\); Ok\(\(\)\) \} "elif"'),
            "elifSwitches": (pc, r'"elif" => \{ .*? condition_chain\.switch\(active, false, command_location\)\?; Ok\(\(\)\) \}'),
            "elseSwitchesTrue": (pc, r'condition_chain\.switch\(true, true, command_location\)\?;'),
            "endifPops": (pc, r'condition_chain\.pop\(\)\?;'),
        }
        out.append("/-- syntactic facts about ConditionChain and its users (preprocess/src/preprocess.rs) -/\n")
        out.append("structure CondShape where\n" + "".join(f"  {k} : Bool\n" for k in cfacts) + "  deriving DecidableEq, Repr\n\n")
        out.append("def condShape : CondShape := { " +
                   ", ".join(f"{k} := {'true' if re.search(rx, s) else 'false'}" for k, (s, rx) in cfacts.items()) + " }\n\n")
        out.append("/-- number of assignments to the second field of the chain (`condition_chain.1 = ..` / `self.1 = ..`) in\n"
                   "    preprocess.rs: the save-and-set and the restore of `preprocess_included_file` -/\n"
                   f"def chainBaseWrites : Nat := {base_writes}\n\n")

        # ---- macro expansion: the recursive call on a macro body is bracketed by disabling that macro,
        #      arguments are expanded with the caller's disabled set, disabled macros are not found
        asm = normws(fn_body(pre_rs, "apply_single_macro"))
        ami = normws(fn_body(pre_rs, "apply_macros_internal"))
        fsm = normws(fn_body(pre_rs, "find_single_macro"))
        mfacts = {
            "bodyExpansionBracketed": (asm, r'assert!\(!macro_disabled\[macro_index\]\); macro_disabled\[macro_index\] = true; let output = apply_macros_internal\(output, macro_defs, macro_disabled, false, source_manager\)\?; assert!\(macro_disabled\[macro_index\]\); macro_disabled\[macro_index\] = false;'),
            "argsExpandedWithCallerDisabledSet": (asm, r'let subbed_text = apply_macros_internal\( arg\.to_vec\(\), macro_defs, macro_disabled, false, source_manager, \)\?;'),
            "outerLoopUntilEnd": (ami, r'while pos\.next_pos < tokens\.len\(\) \{'),
            "disabledMacrosSkipped": (fsm, r'if macro_disabled\[macro_index\] \{'),
        }
        out.append("/-- syntactic facts about the macro expander's recursion guard -/\n")
        out.append("structure MacroShape where\n" + "".join(f"  {k} : Bool\n" for k in mfacts) + "  deriving DecidableEq, Repr\n\n")
        out.append("def macroShape : MacroShape := { " +
                   ", ".join(f"{k} := {'true' if re.search(rx, s) else 'false'}" for k, (s, rx) in mfacts.items()) + " }\n\n")

        # ---- compile(): every stage result is matched and its error rendered through display()
        comp = normws(fn_body(strip_tests(T.src("src/compile.rs"), matching), "compile"))
        bp = normws(fn_body(strip_tests(T.src("src/compile.rs"), matching), "build_pipeline"))
        stage_calls = len(re.findall(r'Err\(err\) => \{ return Err\(CompileError::Text\(format!\( "\{\}", err\.display\(&?source_manager\) \)\)\); \}', comp + " " + bp))
        layout = bool(re.search(r'let Err\(err\) = ir::layout_checker::check_layout\(&ir\) \{ return Err\(CompileError::Text\(format!\( "\{\}", err\.display\(&source_manager\) \)\)\); \}', comp))
        out.append(f"/-- number of `Err(err) => return Err(CompileError::Text(format!(\"{{}}\", err.display(..))))` arms in compile()+build_pipeline() -/\n"
                   f"def renderedErrorArms : Nat := {stage_calls}\n"
                   f"def layoutErrorRendered : Bool := {'true' if layout else 'false'}\n")
        out.append(T.footer("PanicSites"))
        return "".join(out)


    @gen("ArithSites")
    def arith_sites():
        """implicit panic sites (unchecked arithmetic, `as` casts, indexing, slicing) of the preprocessor / lexer core, and
        the facts about the `defined` operation of apply_single_macro that `Model/DefinedLoc.lean` mirrors"""
        import importlib.util
        from rustsrc import lean_str, matching, normws, fn_body
        spec = importlib.util.spec_from_file_location("_c08_arith", os.path.join(os.path.dirname(os.path.abspath(__file__)), "_c08_arith.py"))
        A = importlib.util.module_from_spec(spec)
        spec.loader.exec_module(A)
        sites, _lines = A.inventory(T.REPO, strip_tests, fn_spans, matching, T.src)
        out = [T.header("ArithSites", A.FILES)]
        out.append("/-- (file, enclosing fn, kind, normalised text of the operands); kinds: `+ - * += -= *=`, `as <type>`, `index`, `slice`;\n"
                   "    `#k` = k-th identical one inside that function -/\n")
        out.append("def sites : List (String × String × String × String) := [\n")
        out.append(",\n".join(f"  ({lean_str(a)}, {lean_str(b)}, {lean_str(c)}, {lean_str(d)})" for a, b, c, d in sites))
        out.append("\n]\n\n")
        out.append(f"def siteCount : Nat := {len(sites)}\n\n")
        out.append("def files : List String := [" + ", ".join(lean_str(f) for f in A.FILES) + "]\n\n")

        pre_rs = strip_tests(T.src("preprocess/src/preprocess.rs"), matching)
        lex_rs = strip_tests(T.src("preprocess/src/lexer.rs"), matching)
        asm = normws(fn_body(pre_rs, "apply_single_macro"))
        fsm = normws(fn_body(pre_rs, "find_single_macro"))
        pc = normws(fn_body(pre_rs, "preprocess_command"))
        pif = normws(fn_body(pre_rs, "preprocess_included_file"))
        mp = normws(fn_body(pre_rs, "parse"))
        sma = normws(fn_body(pre_rs, "split_macro_args"))
        twnl = normws(fn_body(pre_rs, "trim_whitespace_and_endlines_start"))
        tws = normws(fn_body(pre_rs, "trim_whitespace_start"))
        pinit = normws(fn_body(pre_rs, "preprocess_initial_file"))

        def flag_of(text):
            t = text.strip()
            return {"false": ".constFalse", "true": ".constTrue", "apply_defined": ".caller"}.get(t, ".other")

        # 4th argument of the two recursive calls of apply_macros_internal inside apply_single_macro
        from rustsrc import split_top
        calls = []
        for m in re.finditer(r'apply_macros_internal\s*\(', asm):
            close = matching(asm, m.end() - 1)
            args = [a.strip() for a in split_top(asm[m.end():close], ',') if a.strip()]
            calls.append(args)
        arg_call = [c for c in calls if c and c[0].startswith("arg")]
        body_call = [c for c in calls if c and c[0] == "output"]
        arg_flag = flag_of(arg_call[0][3]) if len(arg_call) == 1 and len(arg_call[0]) == 5 else ".other"
        body_flag = flag_of(body_call[0][3]) if len(body_call) == 1 and len(body_call[0]) == 5 else ".other"
        out.append("/-- where the `apply_defined` flag of a recursive `apply_macros_internal` call comes from -/\n"
                   "inductive FlagSrc where\n  | constFalse\n  | constTrue\n  /-- the caller's own `apply_defined` -/\n  | caller\n  | other\n  deriving DecidableEq, Repr, Inhabited\n\n")
        out.append(f"/-- flag of the rescan of the substituted macro body (`apply_macros_internal(output, .., <flag>, ..)`) -/\ndef bodyRescanFlag : FlagSrc := {body_flag}\n")
        out.append(f"/-- flag of the expansion of the macro arguments (`apply_macros_internal(arg.to_vec(), .., <flag>, ..)`) -/\ndef argExpandFlag : FlagSrc := {arg_flag}\n")
        out.append(f"def recursiveScanCalls : Nat := {len(calls)}\n\n")

        dfacts = {
            # find_single_macro reports `defined` only at or after next_pos and only when apply_defined is set
            "definedOnlyFromNextPos": (fsm, r'if i >= search_pos\.next_pos && apply_defined && id\.0 == "defined" \{ return Ok\(FoundMacro::Defined\(i\)\); \}'),
            "definedBeforeMacroLookup": (fsm, r'if let Token::Id\(id\) = &tokens\[i\]\.0 \{ if i >= search_pos\.next_pos && apply_defined'),
            "startIsTheDefinedToken": (asm, r'let start_location = tokens\[pos\]\.get_location\(\);'),
            "endIsTheLastConsumedToken": (asm, r'let end_location = tokens\[tokens\.len\(\) - remaining\.len\(\) - 1\]\.get_end_location\(\);'),
            "sizeIsRawDifference": (asm, r'let location_size = end_location\.get_raw\(\) - start_location\.get_raw\(\);'),
            "generatedTokenSpansFromStart": (asm, r'PreprocessToken::new\( generated_token, start_location, 0, location_size, \)'),
            "bareFormNeedsBlank": (asm, r'\[PreprocessToken\(arg @ Token::Id\(_\), _\), rest @ \.\.\] if remaining\.len\(\) != remaining_trimmed\.len\(\) => \{ remaining = rest; arg \}'),
            "parenFormSplitsArgs": (asm, r'let \(rest, args\) = split_macro_args\("defined", remaining\)\?; remaining = rest;'),
            "definedContinuesAfterToken": (asm, r'tokens\.splice\(pos\.\.end, output\); Ok\(MacroSearchPosition \{ next_pos: pos \+ 1, early_function_pos: pos \+ 1, last_macro_function_index: usize::MAX, \}\)'),
            "userContinuesAfterOutput": (asm, r'let new_end = pos \+ tokens_added; Ok\(MacroSearchPosition \{ next_pos: new_end, early_function_pos: pos,'),
            "noneStopsAtEnd": (asm, r'FoundMacro::None => Ok\(MacroSearchPosition \{ next_pos: tokens\.len\(\), early_function_pos: tokens\.len\(\),'),
            "concatRestartsAtLeft": (asm, r'tokens\.splice\(left_token_pos\.\.=right_token_pos, output\); Ok\(MacroSearchPosition \{ next_pos: left_token_pos, early_function_pos: left_token_pos,'),
            # who scans with apply_defined = true: #if and #elif only; ordinary text never
            "ifScansWithDefined": (pc, r'"if" => \{ .*?let resolved = apply_macros\(command, macros, true, file_loader\.source_manager\)\?;'),
            "elifScansWithDefined": (pc, r'"elif" => \{ let command = trim_whitespace\(command\); let resolved = apply_macros\(command, macros, true, file_loader\.source_manager\)\?;'),
            "textScansWithoutDefined": (pif, r'apply_macros\(input_tokens, macros, false, file_loader\.source_manager\)\?;'),
            # Concat / MacroArg tokens are made by Macro::parse only (from `##` / parameter names in a macro body)
            "concatMadeInMacroParse": (mp, r'else if let Token::HashHash = &t\.0 \{ return PreprocessToken\(Token::Concat, t\.1\.clone\(\)\); \}'),
            # f08088c: an invocation may continue on the next line: the `(` is looked for after blanks and line ends, in
            # split_macro_args and in the function check of find_single_macro; `Z(<line end>)` is an empty argument list
            "splitArgsSkipsLineEnds": (sma, r'^let remaining = trim_whitespace_and_endlines_start\(remaining\); let mut remaining = if let \[PreprocessToken\(Token::LeftParen, _\), rest @ \.\.\] = remaining \{ rest \} else \{ return Err\(PreprocessError::MacroRequiresArguments\('),
            "functionCheckSkipsLineEnds": (fsm, r'if macro_def\.is_function \{ let trimmed = trim_whitespace_and_endlines_start\(&tokens\[i \+ 1\.\.\]\); activate_pos = tokens\.len\(\) - trimmed\.len\(\); let \[PreprocessToken\(Token::LeftParen, _\), \.\.\] = trimmed else \{ continue; \}; \}'),
            "emptyArgumentListMayHoldLineEnd": (asm, r'if macro_def\.num_params == 0 \{ if !\(args\.len\(\) == 1 && trim_whitespace_and_endlines_start\(args\[0\]\)\.is_empty\(\)\) \{ return Err\(PreprocessError::MacroExpectsDifferentNumberOfArguments\); \} \} else if args\.len\(\) as u64 != macro_def\.num_params \{'),
            "lineEndTrimDropsAllWhitespace": (twnl, r'^while let Some\(\(PreprocessToken\(tok, _\), rest\)\) = tokens\.split_first\(\) \{ if tok\.is_whitespace\(\) \{ tokens = rest; \} else \{ break; \} \} tokens$'),
            "blankTrimKeepsLineEnds": (tws, r'^while let Some\(\(PreprocessToken\(tok, _\), rest\)\) = tokens\.split_first\(\) \{ if tok\.is_whitespace\(\) && \*tok != Token::Endline \{ tokens = rest; \} else \{ break; \} \} tokens$'),
            # 3c81ed5: no line end can enter a macro body through an API define
            "apiDefineRejectsLineEnd": (pinit, r'if tokens\.iter\(\)\.any\(\|t\| t\.0 == Token::Endline\) \{ return Err\(PreprocessError::InvalidDefine\(SourceLocation::UNKNOWN\)\); \} let macro_def = Macro::parse\(&tokens\)\?;'),
        }
        out.append("/-- syntactic facts about the `defined` operation and the scan positions (regexes over the normalised source) -/\n")
        out.append("structure DefinedShape where\n" + "".join(f"  {k} : Bool\n" for k in dfacts) + "  deriving DecidableEq, Repr\n\n")
        out.append("def definedShape : DefinedShape := { " +
                   ", ".join(f"{k} := {'true' if re.search(rx, s_) else 'false'}" for k, (s_, rx) in dfacts.items()) + " }\n\n")
        n_apply_true = len(re.findall(r'apply_macros\([^;]*?, true,', pre_rs))
        n_concat_made = len(re.findall(r'\(\s*Token::Concat\s*,', pre_rs + lex_rs))
        n_macroarg_made = len(re.findall(r'\(\s*Token::MacroArg\(', pre_rs + lex_rs))
        out.append(f"/-- number of `apply_macros(.., true, ..)` calls in preprocess.rs (the `#if` and `#elif` arms) -/\ndef scansWithDefined : Nat := {n_apply_true}\n")
        out.append(f"/-- number of places in preprocess.rs + lexer.rs that construct a `Token::Concat` / `Token::MacroArg` token -/\n"
                   f"def concatConstructions : Nat := {n_concat_made}\ndef macroArgConstructions : Nat := {n_macroarg_made}\n")
        out.append(T.footer("ArithSites"))
        return "".join(out)


    @gen("PipelineProps")
    def pipeline_props():
        """typer/src/typer/pipelines.rs: how the duplicate-property checks compare, and the property tables of the
        match arms (which arms assert "not set before", which return early on a compute pipeline)"""
        from rustsrc import lean_str, matching, normws, fn_body, first_match, match_arms, ExtractError
        F = "typer/src/typer/pipelines.rs"
        text = strip_tests(T.src(F), matching)
        pp_raw = fn_body(text, "parse_pipeline")
        ss_raw = fn_body(text, "parse_static_sampler")
        bs_raw = fn_body(text, "parse_blend_state")
        pp, ss = normws(pp_raw), normws(ss_raw)

        def compare_of(body, seq):
            """what the duplicate check of this function compares: the property names as text, the Located<String> values
            (text AND source location), or something this generator does not recognise"""
            loop = (r'for i in 1\.\.' + seq + r'\.len\(\) \{ let new_property = &' + seq + r'\[i\]; let before_properties = &' + seq +
                    r'\[\.\.i\]; for before_prop in before_properties \{ if (.*?) \{ return Err\(TyperError::PipelinePropertyDuplicate\( new_property\.property\.location, \)\); \} \} \}')
            m = re.search(loop, body)
            cond = m.group(1).strip() if m else None
            if cond is None:
                # a helper may have taken the loop over: look at every comparison of two `.property` values in the file
                conds = re.findall(r'(\w+\.property(?:\.\w+(?:\(\))?)*) == (\w+\.property(?:\.\w+(?:\(\))?)*)', normws(text))
                if len(conds) == 1 or (conds and all(c == conds[0] for c in conds)):
                    a, b = conds[0]
                    cond = f"{a} == {b}"
            if cond is None:
                return ".other", False
            sides = [x.strip() for x in cond.split("==")]
            if len(sides) != 2:
                return ".other", bool(m)
            def kind(x):
                if re.fullmatch(r'\w+\.property\.as_str\(\)', x) or re.fullmatch(r'\w+\.property\.node(?:\.as_str\(\))?', x) or re.fullmatch(r'\*?\w+\.property\.node', x):
                    return "text"
                if re.fullmatch(r'\w+\.property', x):
                    return "located"
                return "other"
            ks = {kind(x) for x in sides}
            if ks == {"text"}:
                return ".text", bool(m)
            if ks == {"located"}:
                return ".located", bool(m)
            return ".other", bool(m)

        pipe_cmp, pipe_inline = compare_of(pp, r'def\.properties')
        samp_cmp, samp_inline = compare_of(ss, r'properties')

        def arms_of(body, scrutinee=r'property\.property\.as_str\(\)', start=0):
            scrut, arms_text, end = first_match(body, scrutinee, start)
            out = []
            for pats, guard, result in match_arms(arms_text):
                names = [p[1:-1] for p in pats if re.fullmatch(r'"[A-Za-z0-9_]+"', p)]
                out.append((names, guard, result, pats))
            return out, end

        stage_arms, after_stage = arms_of(pp_raw)
        state_arms, _ = arms_of(pp_raw, start=after_stage)
        samp_arms, _ = arms_of(ss_raw)
        blend_arms, _ = arms_of(bs_raw)
        stage_names = [n for names, _, res, _ in stage_arms for n in names if "add_stage(" in res]
        gate_rx = r'^\{ if is_compute \{ return Err\(TyperError::PipelinePropertyRequiresGraphicsPipeline\( property\.property\.location, \)\); \}'
        state_rows = []
        for names, guard, res, pats in state_arms:
            if not names:
                continue
            gated = bool(re.search(gate_rx, res))
            asserts = re.findall(r'assert!\(([^;]*?)\);', res)
            # an asserting arm is modelled only in the shape "gate, assert the slot is unset, set the slot"
            state_rows.append((names, gated, len(asserts) > 0))
        out = [T.header("PipelineProps", [F])]
        out.append("/-- what a duplicate-property check compares: the property names as text (`.as_str()` / `.node`), the whole\n"
                   "    `Located<String>` values (text *and* source location — two occurrences never compare equal), or unrecognised -/\n"
                   "inductive CmpSrc where\n  | text\n  | located\n  | other\n  deriving DecidableEq, Repr, Inhabited\n\n")
        out.append(f"/-- comparison of the duplicate check that guards `parse_pipeline` -/\ndef pipelineDupCompare : CmpSrc := {pipe_cmp}\n")
        out.append(f"/-- comparison of the duplicate check that guards `parse_static_sampler` -/\ndef samplerDupCompare : CmpSrc := {samp_cmp}\n\n")
        facts = {
            # both loops compare the property NAMES as text
            "duplicatePropertyCheckComparesText": pipe_cmp == ".text" and samp_cmp == ".text",
            # ... in the all-pairs loop `for i in 1..len { for before in [..i] { .. } }` that reports the later occurrence
            "duplicateCheckIsThePairwiseLoop": pipe_inline and samp_inline,
            # the check runs before any property is interpreted: it precedes the stage loop and the state loop
            "duplicateCheckPrecedesPropertyLoops": bool(re.search(r'PipelinePropertyDuplicate.*?let mut remaining_properties = Vec::new\(\); for property in &def\.properties \{ match property\.property\.as_str\(\) \{', pp))
                                                   and len(re.findall(r'PipelinePropertyDuplicate', pp)) == 1
                                                   and bool(re.search(r'^(?:(?!for property in properties).)*PipelinePropertyDuplicate.*for property in properties \{ match property\.property\.as_str\(\) \{', ss)),
            # the state loop walks exactly the properties the stage loop did not consume, in source order, matching the name as text
            "stateLoopWalksRemainingProperties": bool(re.search(r'_ => remaining_properties\.push\(property\), \} \}', pp))
                                                 and bool(re.search(r'for property in &remaining_properties \{ match property\.property\.as_str\(\) \{', pp))
                                                 and len(re.findall(r'remaining_properties\.push\(', pp)) == 1,
            # the flags / slots the asserts test are written by their own arm only
            "cullFlagWrittenByItsArmOnly": len(re.findall(r'cull_mode_set = ', pp)) == 2 and bool(re.search(r'assert!\(!cull_mode_set\); cull_mode_set = true;', pp)),
            "windingFlagWrittenByItsArmOnly": len(re.findall(r'winding_order_set = ', pp)) == 2 and bool(re.search(r'assert!\(!winding_order_set\); winding_order_set = true;', pp)),
            "depthSlotWrittenByItsArmOnly": len(re.findall(r'gpo\.depth_target_format = ', pp)) == 1 and bool(re.search(r'assert!\(gpo\.depth_target_format\.is_none\(\)\); gpo\.depth_target_format = Some\(', pp)),
            "renderTargetSlotIsTheNameDigit": bool(re.search(r'let index = \(property\.property\.as_str\(\)\.as_bytes\(\)\[18\] - b\'0\'\) as usize; if gpo\.render_target_formats\.len\(\) < index \+ 1 \{ gpo\.render_target_formats\.resize\(index \+ 1, None\); \} assert!\(gpo\.render_target_formats\[index\]\.is_none\(\)\); gpo\.render_target_formats\[index\] = Some\(', pp))
                                              and len(re.findall(r'gpo\.render_target_formats\[index\] = ', pp)) == 1,
            # on a compute pipeline the gated arms return before they write, so the two closing asserts hold
            "computeClosingAssertsFollowGatedWrites": bool(re.search(r'\} else \{ assert!\(gpo\.render_target_formats\.is_empty\(\)\); assert!\(gpo\.depth_target_format\.is_none\(\)\); \}', pp)),
            "isComputeIsFirstStage": bool(re.search(r'let is_compute = pipeline\.stages\[0\]\.stage == ir::ShaderStage::Compute;', pp)),
        }
        out.append("/-- syntactic facts about the duplicate checks and the state loop of parse_pipeline / parse_static_sampler -/\n")
        out.append("structure PipelineShape where\n" + "".join(f"  {k} : Bool\n" for k in facts) + "  deriving DecidableEq, Repr\n\n")
        out.append("def pipelineShape : PipelineShape := { " + ", ".join(f"{k} := {'true' if v else 'false'}" for k, v in facts.items()) + " }\n\n")

        def names_list(xs):
            return "[" + ", ".join(lean_str(x) for x in xs) + "]"
        out.append("/-- property names the first loop of parse_pipeline hands to add_stage -/\n"
                   f"def stageProps : List String := {names_list(stage_names)}\n\n")
        out.append("/-- arms of the state loop of parse_pipeline: (names of the arm, returns PipelinePropertyRequiresGraphicsPipeline first on a\n"
                   "    compute pipeline, contains an `assert!` that the flag / slot of this name is still unset) -/\n"
                   "def stateArms : List (List String × Bool × Bool) := [\n" +
                   ",\n".join(f"  ({names_list(n)}, {'true' if g else 'false'}, {'true' if a else 'false'})" for n, g, a in state_rows) + "\n]\n\n")
        out.append(f"/-- property names matched by parse_blend_state -/\ndef blendProps : List String := {names_list([n for names, _, _, _ in blend_arms for n in names])}\n\n")
        out.append(f"/-- property names matched by parse_static_sampler -/\ndef samplerProps : List String := {names_list([n for names, _, _, _ in samp_arms for n in names])}\n")
        out.append(T.footer("PipelineProps"))
        return "".join(out)


    @gen("UsageLoop")
    def usage_loop():
        """ir/src/usage_analysis.rs: `GlobalUsageAnalysis::recurse` is an iterative sweep (`loop { modified = false; for key
        in &keys { .. } if !modified { break; } }`) that calls nothing defined in this file; no function of
        `impl GlobalUsageAnalysis` calls itself or another function of the impl block except `calculate` (the entry,
        which runs `calculate_local` and then `recurse` once).  The only recursion in the file is the structural walk
        `gather_usage_for_*` over the finite IR tree."""
        from rustsrc import lean_str, normws, fn_body, impl_fn_body, ExtractError
        F = "ir/src/usage_analysis.rs"
        text = T.src(F)

        def body(name, impl=True):
            try:
                return normws(impl_fn_body(text, r"GlobalUsageAnalysis", name) if impl else fn_body(text, name))
            except (ExtractError, Exception):
                return ""
        rec = body("recurse")
        calc = body("calculate")
        fns = re.findall(r"\bfn\s+([A-Za-z0-9_]+)", text)
        # the functions defined inside `impl GlobalUsageAnalysis { .. }`
        m = re.search(r"impl\s+GlobalUsageAnalysis\s*\{", text)
        impl_fns = []
        impl_text = ""
        if m:
            from rustsrc import matching
            j = matching(text, m.end() - 1)
            impl_text = text[m.end():j]
            impl_fns = re.findall(r"\bfn\s+([A-Za-z0-9_]+)", impl_text)

        def calls(b):
            """names of functions of this file that the body `b` calls (`name(`, `Self::name(`, `.name(`)"""
            return sorted({f for f in fns if re.search(r"(?<![A-Za-z0-9_])" + re.escape(f) + r"\s*\(", b)})
        call_rows = []
        for f in impl_fns:
            try:
                b = normws(impl_fn_body(text, r"GlobalUsageAnalysis", f))
            except Exception:
                b = ""
            call_rows.append((f, calls(b)))
        facts = {
            # the closure is computed by an ITERATIVE sweep: no function of this file is called from `recurse` ...
            "recurseCallsNoLocalFunction": rec != "" and calls(rec) == [],
            # ... whose whole body is: snapshot of the keys, `loop { modified = false; for key in &keys {..}; if !modified break }`, self
            "keysSnapshotThenLoop": bool(re.search(r"^let keys = self\.0\.keys\(\)\.cloned\(\)\.collect::<Vec<_>>\(\); loop \{ let mut modified = false; for key in &keys \{", rec)),
            "loopEndsWhenUnmodified": bool(re.search(r"\} if !modified \{ break; \} \} self$", rec)) and len(re.findall(r"\bbreak\b", rec)) == 1
                                      and len(re.findall(r"\bloop\b|\bwhile\b", rec)) == 1 and not re.search(r"\bcontinue\b|\breturn\b", rec),
            # a key's set only grows, and `modified` is raised exactly when a set grew (the termination measure)
            "newSetStartsFromCurrent": bool(re.search(r"let current_set = self\.0\.get\(key\)\.unwrap\(\); let mut new_set = current_set\.required\.clone\(\);", rec)),
            "newSetAddsMembersSets": bool(re.search(r"for other in &current_set\.required \{ new_set\.extend\(&self\.0\.get\(other\)\.unwrap\(\)\.required\); \}", rec)),
            "modifiedIffGrown": bool(re.search(r"if new_set\.len\(\) > current_set\.required\.len\(\) \{ let stored_analysis = self\.0\.get_mut\(key\)\.unwrap\(\); stored_analysis\.required = new_set; modified = true; \}", rec))
                                and len(re.findall(r"modified = ", rec)) == 2,
            # `calculate` = local pass, then the sweep, once
            "calculateRunsLocalThenRecurse": calc == "let result = GlobalUsageAnalysis::calculate_local(module); result.recurse()",
            # the impl block consists of the four known functions (a new helper such as a depth-first `resolve_symbol` shows here)
            "implFunctionsAreTheReviewedOnes": impl_fns == ["calculate", "calculate_local", "recurse", "get_usage_for_function"],
            # no function of the impl block calls itself
            "noImplFunctionCallsItself": all(f not in c for f, c in call_rows) and impl_fns != [],
        }
        out = [T.header("UsageLoop", [F])]
        out.append("/-- syntactic facts about `GlobalUsageAnalysis::recurse` and its impl block (regexes over the comment-stripped,\n"
                   "    whitespace-normalised source) -/\n")
        out.append("structure UsageLoopShape where\n" + "".join(f"  {k} : Bool\n" for k in facts) + "  deriving DecidableEq, Repr\n\n")
        out.append("def usageLoopShape : UsageLoopShape := { " + ", ".join(f"{k} := {'true' if v else 'false'}" for k, v in facts.items()) + " }\n\n")
        out.append("/-- the closure of the usage relation is computed by iteration, not by recursion over the call graph -/\n"
                   "def usageClosureIsIterative : Bool :=\n  usageLoopShape.recurseCallsNoLocalFunction && usageLoopShape.keysSnapshotThenLoop && usageLoopShape.loopEndsWhenUnmodified &&\n"
                   "  usageLoopShape.implFunctionsAreTheReviewedOnes && usageLoopShape.noImplFunctionCallsItself\n\n")
        out.append("/-- functions of `impl GlobalUsageAnalysis` with the functions of usage_analysis.rs each one calls -/\n"
                   "def implCalls : List (String × List String) := [\n" +
                   ",\n".join(f"  ({lean_str(f)}, [{', '.join(lean_str(c) for c in cs)}])" for f, cs in call_rows) + "\n]\n\n")
        out.append("/-- every function defined in usage_analysis.rs, in source order -/\n"
                   f"def fileFunctions : List String := [{', '.join(lean_str(f) for f in fns)}]\n")
        out.append(T.footer("UsageLoop"))
        return "".join(out)

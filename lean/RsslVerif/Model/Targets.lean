import RsslVerif.Gen.SlotTables
import RsslVerif.Gen.CompileTables
import RsslVerif.Gen.TargetTables
import RsslVerif.Model.MacroLite
/-!
# Where the compile target enters `compile()` (src/compile.rs) and the two back ends' reports

* `initialTable t user`: the macro table the preprocessor starts with (generated define list, then the
  user's defines);
* `frontEnd`: preprocess, then everything up to the typed IR as a function of the token stream alone
  (the code between `defines.extend(args.defines)` and the `binding_params` match never names the target:
  `Gen.TargetTables.frontShape`, `frontEndArgReads`);
* `report`/`bindingsFor`: which declarations get a reflected binding and with which descriptor kind and count
  (`analyse_bindings` of both back ends on top of the slot decision of `Module::assign_api_bindings`);
* `stageReports`: the `CompiledPipelineStage` list built in `build_pipeline`.
Core Lean only.
-/
namespace RsslVerif.Model.Targets
open RsslVerif.Gen.SlotTables RsslVerif.Gen.CompileTables RsslVerif.Gen.TargetTables
open RsslVerif.Model.MacroLite

def allTargets : List Target := [.HlslForDirectX, .HlslForVulkan, .Msl, .MetalBytecode]

/-- the generated part of the macro table: one object-like macro per define, body = one integer literal -/
def builtinTable (t : Target) : Table := (targetDefineNums t).map fun d => ⟨d.1, [.lit d.2]⟩

/-- the macro table `preprocess_initial_file` starts with -/
def initialTable (t : Target) (user : Table) : Table := builtinTable t ++ user

/-- the generated define names whose value is not the same for every target -/
def targetDependentNames : List String :=
  ((targetDefineNums .HlslForDirectX).map (·.1)).filter fun n =>
    allTargets.any fun t => (targetDefineNums t).lookup n != (targetDefineNums .HlslForDirectX).lookup n

/-- what compile() reads of its arguments before the per-target match -/
structure FrontArgs where
  user : Table
  file : List Line

/-- compile() up to the typed IR: `rest` stands for prepare_tokens, parse, type_check and the optional layout
    check, which receive the token stream only; a preprocessor error is rendered by `render` -/
def frontEnd {ρ : Type} (ev : List Tok → Option Bool) (render : PErr → String)
    (rest : List Tok → Except String ρ) (t : Target) (a : FrontArgs) : Except String ρ :=
  match run ev (initialTable t a.user) a.file with
  | .error e => .error (render e)
  | .ok toks => rest toks

/-! ## Reflected bindings -/

inductive Arr where
  | single
  | sized (n : Nat)
  | unsized
  deriving DecidableEq, Repr

/-- an extern global declaration, as far as binding reflection looks at it -/
inductive Shape where
  /-- `cbuffer Name { .. }` -/
  | cbuffer
  /-- a global of object type, possibly in one array layer; `ss` = it has a StaticSampler initialiser -/
  | object (k : ObjKind) (arr : Arr) (ss : Bool)
  /-- a global whose (peeled) type is not an object -/
  | plain (arr : Arr)
  deriving DecidableEq, Repr

structure Decl where
  name : String
  shape : Shape
  deriving DecidableEq, Repr

structure Binding where
  name : String
  kind : DescKind
  /-- `None` = unbounded -/
  count : Option Nat
  /-- the declaration is a static sampler -/
  ss : Bool
  deriving DecidableEq, Repr

inductive Backend where
  | hlsl
  | msl
  deriving DecidableEq, Repr

def backendOf : Target → Backend
  | .HlslForDirectX => .hlsl
  | .HlslForVulkan => .hlsl
  | .Msl => .msl
  | .MetalBytecode => .msl

def kindTable : Backend → ObjKind → Option DescKind
  | .hlsl => hlslDescriptorKind
  | .msl => mslDescriptorKind

def nonObjectKind : Backend → DescKind
  | .hlsl => hlslNonObjectKind
  | .msl => mslNonObjectKind

/-- does `assign_api_bindings` give the declaration an api slot (only then is it reflected); since fix 774c0b4 an
    object kind without a register class (`get_register_type() = None`: `RayDesc`, `RayQuery`, `TriangleStream`, the
    mips views) is not a resource and takes no slot on any target - before, DirectX panicked there -/
def hasSlot (p : Params) : Shape → Bool
  | .cbuffer => true
  | .object k arr ss => (registerType k).isSome && !(ss && !p.staticSamplersHaveSlots) && arr != .unsized
  | .plain _ => false

/-- `descriptor_count` of `analyse_bindings`: one array layer peeled -/
def countOf : Arr → Option Nat
  | .single => some 1
  | .sized n => some n
  | .unsized => none

inductive ReportErr where
  | unsupportedObjectType
  deriving DecidableEq, Repr

/-- the HLSL name map applied to the name of a global or function, for modules in which `<name>_0` is not itself
    a declared name (the collision counter of `NameMap::build` belongs to C15's model) -/
def hlslRename (n : String) : String := if hlslReservedNames.contains n then n ++ "_0" else n

/-- the Metal name map applied to the name of a global (same proviso) -/
def mslRename (n : String) : String := if mslReservedNames.contains n then n ++ "_0" else n

/-- the two exporters' name maps on global names -/
structure NameMaps where
  hlsl : String → String
  msl : String → String

def codeNameMaps : NameMaps := ⟨hlslRename, mslRename⟩

/-- the name a back end reports for a global's binding: each asks its own name map
    (`context.get_global_name` in both `analyse_bindings` since 9dda9a6) -/
def nameFor (rn : NameMaps) : Backend → String → String
  | .hlsl, n => rn.hlsl n
  | .msl, n => rn.msl n

/-- the name reported for a declaration: a cbuffer block keeps its source name on HLSL
    (`get_constant_buffer_name` reads the registry) and is a renamable global on Metal (`simplify_cbuffers`) -/
def reportedName (rn : NameMaps) (b : Backend) (d : Decl) : String :=
  match d.shape, b with
  | .cbuffer, .hlsl => d.name
  | _, _ => nameFor rn b d.name

/-- `analyse_bindings` for one root definition: the descriptor kind is looked up first (an unsupported object
    kind fails the export), then the binding is registered if the declaration has a slot.  On Metal a cbuffer
    has been rewritten into a `ConstantBuffer<struct>` global of the same name by `simplify_cbuffers`. -/
def report (rn : NameMaps) (b : Backend) (p : Params) (d : Decl) : Except ReportErr (Option Binding) :=
  match d.shape with
  | .cbuffer =>
    match b with
    | .hlsl => .ok (some ⟨reportedName rn .hlsl d, .ConstantBuffer, some 1, false⟩)
    | .msl =>
      match kindTable .msl .ConstantBuffer with
      | none => .error .unsupportedObjectType
      | some k => .ok (some ⟨reportedName rn .msl d, k, some 1, false⟩)
  | .object k arr ss =>
    match kindTable b k with
    | none => .error .unsupportedObjectType
    | some dk => .ok (if hasSlot p d.shape then some ⟨reportedName rn b d, dk, countOf arr, ss⟩ else none)
  | .plain _ => .ok none

def reports (rn : NameMaps) (b : Backend) (p : Params) : List Decl → Except ReportErr (List Binding)
  | [] => .ok []
  | d :: ds =>
    match report rn b p d with
    | .error e => .error e
    | .ok r =>
      match reports rn b p ds with
      | .error e => .error e
      | .ok rs => .ok (r.toList ++ rs)

/-- the reflected bindings of a module for a target (`sba` = support_buffer_address) -/
def bindingsFor (rn : NameMaps) (t : Target) (sba : Bool) (ds : List Decl) :
    Except ReportErr (List Binding) :=
  reports rn (backendOf t) (paramsFor t sba) ds

/-- How `compile()` was asked to pick pipelines: every pipeline of the file (`all`), the one with a given name
    (`named`; `build_pipeline` gets `Some(pipeline)` in both and the exporters see `selected_pipeline = Some _`), or
    `CompileArgs::no_pipeline_mode()` (`none`: one output, `build_pipeline(.., None, ..)`, the module is exported with
    `selected_pipeline = None`). -/
inductive Mode where
  | all
  | named
  | none
  deriving DecidableEq, Repr

def Mode.selectsPipeline : Mode → Bool
  | .all => true
  | .named => true
  | .none => false

/-- does a back end run its binding analysis (and hand its result on) when no pipeline is selected?
    Read from the two `generate_module`s on every run (`Gen.hlslBindingsReportedWithoutPipeline`,
    `Gen.mslBindingsReportedWithoutPipeline`). -/
def codeReportsWithoutPipeline : Backend → Bool
  | .hlsl => hlslBindingsReportedWithoutPipeline
  | .msl => mslBindingsReportedWithoutPipeline

/-- The reflected bindings of one output of `compile()` in a mode.  `always b = false` models an exporter that builds the
    reflection only for a selected pipeline and otherwise returns `PipelineDescription::default()` (no analysis, hence no
    error either): the model follows whatever the extraction found, the theorems below need `always = fun _ => true`. -/
def bindingsInMode (always : Backend → Bool) (rn : NameMaps) (t : Target) (sba : Bool) (m : Mode) (ds : List Decl) :
    Except ReportErr (List Binding) :=
  if m.selectsPipeline || always (backendOf t) then bindingsFor rn t sba ds else .ok []

/-- the declared name is treated alike by both target languages: reserved in neither or in both (a cbuffer block
    is never renamed by HLSL, so for it: not reserved in Metal) -/
def reservedAlike (d : Decl) : Bool :=
  match d.shape with
  | .cbuffer => !mslReservedNames.contains d.name
  | _ => hlslReservedNames.contains d.name == mslReservedNames.contains d.name

def isAddressKind (k : DescKind) : Bool := k == .BufferAddress || k == .RwBufferAddress

/-- "static samplers and buffer addresses aside": the part of the reflection the property compares -/
def comparable (bs : List Binding) : List (String × DescKind × Option Nat) :=
  (bs.filter fun b => !b.ss && !isAddressKind b.kind).map fun b => (b.name, b.kind, b.count)

/-- the same without the names -/
def comparableKindsCounts (bs : List Binding) : List (DescKind × Option Nat) :=
  (bs.filter fun b => !b.ss && !isAddressKind b.kind).map fun b => (b.kind, b.count)

/-! ## HLSL text of extern global / cbuffer declarations

`generate_global_variable` and `generate_constant_buffer` (hlsl/src/ast_generate.rs) read the target only
through two module flags; `generate_type` reads `requires_buffer_address` for the two address kinds.
Slots and type spellings are parameters: the statement is about *where* the flags can show. -/

structure Flags where
  requiresVkBinding : Bool
  requiresBufferAddress : Bool
  deriving DecidableEq, Repr

/-- `assign_api_bindings`: `requires_buffer_address = support_buffer_address`,
    `requires_vk_binding = !require_slot_type || support_buffer_address` (`Gen.flagsDerivedAsModelled`) -/
def flagsOf (p : Params) : Flags :=
  ⟨!p.requireSlotType || p.supportBufferAddress, p.supportBufferAddress⟩

/-- one emitted declaration: `[[vk::binding(..)]]`-style attributes, type, name, array suffix,
    `: register(..)` annotation -/
structure DeclText (σ : Type) where
  vkBinding : Option σ
  typeName : String
  name : String
  arr : Arr
  register : Option σ
  deriving Repr

instance {σ : Type} [DecidableEq σ] : DecidableEq (DeclText σ) := by
  intro a b
  cases a; cases b
  simp only [DeclText.mk.injEq]
  exact inferInstance

/-- the declaration text of an extern global of object kind `k` / of a cbuffer (`k = none`) -/
def declText {σ : Type} (f : Flags) (spell : ObjKind → String) (slot : σ) (name : String)
    (k : Option ObjKind) (arr : Arr) : DeclText σ :=
  { vkBinding := if f.requiresVkBinding then some slot else none
    typeName := match k with
      | none => "cbuffer"
      | some k => if isBufferAddress k && f.requiresBufferAddress then "uint64_t" else spell k
    name := name
    arr := arr
    register := if !f.requiresVkBinding then some slot else none }

/-- erase binding annotations -/
def DeclText.erase {σ : Type} (d : DeclText σ) : DeclText Unit :=
  { vkBinding := none, typeName := d.typeName, name := d.name, arr := d.arr, register := none }

/-! ## Stage reports -/

structure StageDef where
  stage : Stage
  entry : String
  threads : Option (Nat × Nat × Nat)
  deriving DecidableEq, Repr

/-- `CompiledPipelineStage` list of `build_pipeline`: HLSL reports the name its exporter generated for the entry
    function (`rnFn`, the HLSL name map on function names — the same map for DirectX and Vulkan, built from the
    module alone), Metal a fixed name per stage -/
def stageReports (rnFn : String → String) (t : Target) (stages : List StageDef) : List StageDef :=
  stages.map fun s =>
    match backendOf t with
    | .hlsl => { s with entry := rnFn s.entry }
    | .msl => { s with entry := mslEntryName s.stage }

/-- the stage reports of one output: the selected pipeline's stages, none in no-pipeline mode (`build_pipeline` fills
    `stages` only under `if let Some(pipeline) = pipeline` in both arms) -/
def stageReportsInMode (rnFn : String → String) (t : Target) (m : Mode) (stages : List StageDef) : List StageDef :=
  if m.selectsPipeline then stageReports rnFn t stages else []

end RsslVerif.Model.Targets

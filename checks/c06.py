"""C06 — binding slots are allocated completely, contiguously and without overlap."""
T = "RsslVerif.Thm.C06."


def nontrivial(req, obs):
    if req.startswith("C06.compile"):
        # at least one returned pipeline in which two declarations are bound
        return any(p.count(",i") + p.count(",n") >= 2 for p in obs.split(" ## "))
    # at least two bound declarations
    return obs.count(",i") + obs.count(",n") >= 2


def shrink_compile(f):
    """C06.compile: drop one declaration (renumbering the uses), one pipeline, or the spelling flags of one declaration"""
    pipes = [] if f[3] == "-" else [p.split(":") for p in f[3].split(";")]
    decls = f[4].split(";") if f[4] else []

    def emit(pipes, decls):
        return "\t".join(f[:3] + [";".join(":".join(p) for p in pipes) or "-", ";".join(decls)])
    for i in range(len(decls)):
        if i + 1 < len(decls) and ".j" in "." + decls[i + 1].split("~")[1]:
            continue  # the next one is written as a further declarator of this one
        np = []
        for p in pipes:
            uses = [int(u) for u in p[3].split(".") if u]
            np.append(p[:3] + [".".join(str(u - (1 if u > i else 0)) for u in uses if u != i)])
        yield emit(np, decls[:i] + decls[i + 1:])
    named = f[2][5:] if f[2].startswith("name=") else None
    for i in range(len(pipes)):
        if pipes[i][0] != named and len(pipes) > 1:
            # later pipelines may be built from the entry points of pipeline i: renumber or drop the reference
            rest = []
            for p in pipes[:i] + pipes[i + 1:]:
                kind, _, ref = p[2].partition("=")
                if ref:
                    ref = int(ref)
                    kind = kind if ref == i else "%s=%d" % (kind, ref - (1 if ref > i else 0))
                rest.append([p[0], p[1], kind, p[3]])
            yield emit(rest, decls)
    for i in range(len(pipes)):
        if pipes[i][3]:
            yield emit(pipes[:i] + [pipes[i][:3] + [""]] + pipes[i + 1:], decls)
    for i, d in enumerate(decls):
        head, flags = d.split("~")
        keep = ".".join(x for x in flags.split(".") if x in ("s", "z", "j"))
        if keep != flags:
            yield emit(pipes, decls[:i] + [head + "~" + keep] + decls[i + 1:])
    # one flag at a time (a further register annotation, a second group attribute, a storage keyword, ...)
    for i, d in enumerate(decls):
        head, flags = d.split("~")
        fl = [x for x in flags.split(".") if x]
        for k in range(len(fl)):
            if fl[k] in ("s", "z", "j"):
                continue
            yield emit(pipes, decls[:i] + [head + "~" + ".".join(fl[:k] + fl[k + 1:])] + decls[i + 1:])


def shrink(req):
    f = req.split("\t")
    if f[0] == "C06.compile":
        yield from shrink_compile(f)
        return
    decls = f[3].split(";")
    # drop one user declaration at a time (keep the fixed first/last root definitions)
    for i in range(1, len(decls) - 1):
        yield "\t".join(f[:3] + [";".join(decls[:i] + decls[i + 1:])])


SPEC = {
    "id": "C06",
    "gens": ["SlotTables", "SlotCompile"],
    "lean_modules": ["RsslVerif.Thm.C06"],
    "theorems": [T + n for n in [
        "slice_cost_table", "alloc_shape_as_modelled", "params_of_targets_ok", "params_of_targets", "index_ranges_tile",
        "inline_offsets_tile", "binding_complete", "inline_buffers_correct", "assign_never_panics",
        "register_class_iff_resource", "non_resource_global_is_inert",
        "compile_shape_as_modelled", "per_pipeline_default_group", "fresh_module_unbound", "per_pipeline_tiling",
        "by_name_agrees_with_whole_file", "metadata_is_the_allocation",
        "attribute_fold_later_wins", "accepted_annotations_agree", "declarator_groups_independent",
        "declarator_group_depends_only_on_itself", "front_lists_each_declarator", "agrees_get",
        "declarator_lands_in_its_own_group",
        "compile_refuses_buffer_address_off_vulkan", "returned_parameter_set_is_one_of_four",
        "annotation_without_register_class_rejected", "accepted_without_register_class_has_no_annotation",
        "cbuffer_members_only_reject", "accepted_member_has_no_register"]],
    "harness": "c06",
    "level_text": "Proof: the allocator model (a fold with two counters) is proved, for every declaration sequence, default group "
                  "and parameter set compile() can build, to hand out per-group index ranges that tile [0,total) in declaration "
                  "order with the required lengths, 8-byte inline offsets that tile the inline block, one sorted inline block "
                  "per group placed after all index slots, and bindings for exactly the bindable declarations (cbuffers and "
                  "globals of a resource kind; a global of a non-resource object kind such as RayDesc takes nothing), and never "
                  "to panic (assign_never_panics, unconditional since fix 774c0b4). The driver model "
                  "(compile / build_pipeline / select_pipeline / the guard of assign_api_bindings / the metadata construction of "
                  "both exporters) is proved, for every list of pipelines, mode and target, to return for the k-th requested "
                  "pipeline exactly the allocator run with that pipeline's own default group (0 in no-pipeline mode), "
                  "independent of the other pipelines, and metadata that lists per group exactly that allocation (the Metal "
                  "per-group sort is the identity because the ranges tile). The front half (Model/SlotsFront: the attribute loop of a "
                  "declaration, the storage-class loop, the loop over the declarators of a global-variable declaration with its "
                  "per-declarator annotation loop, attribute overrides and static-sampler checks, the cbuffer path) is proved, for "
                  "every declaration, registry and declarator list, to append exactly one global per declarator in declarator "
                  "order, the j-th being what that declarator alone gives, its explicit group = the declaration's last group "
                  "attribute, else the space of ITS OWN register annotation, else none (declarator_groups_independent); "
                  "accepted repeated annotations all ask for the same binding; composed with the driver and allocator theorems: in "
                  "every returned pipeline every declarator of every accepted declaration is bound (iff bindable) in that group or "
                  "else the pipeline's default group, whatever its neighbours say (declarator_lands_in_its_own_group). "
                  "Wave 5: compile refuses buffer addresses on every target but Vulkan-flavoured HLSL before it reads the module, "
                  "so whatever it returns was allocated with one of the property's four parameter sets "
                  "(compile_refuses_buffer_address_off_vulkan, returned_parameter_set_is_one_of_four); a declarator whose "
                  "declaration's base type has no register class -- which includes an ARRAY typedef of a resource, because the "
                  "lookup is done on the base type -- is rejected as soon as it carries an annotation, and an accepted "
                  "declaration over such a base has none (annotation_without_register_class_rejected, "
                  "accepted_without_register_class_has_no_annotation); the annotations of cbuffer MEMBERS can only reject the "
                  "block and never touch its binding (cbuffer_members_only_reject, accepted_member_has_no_register). "
                  "Tables and 58 statement-level source facts are "
                  "re-extracted from the source each run; the allocator model is compared with the real assign_api_bindings on "
                  "generated declaration sequences and the driver model with the real rssl::compile on generated shader files "
                  "(4 target configurations x whole file / every pipeline by name / unknown name / no-pipeline mode), with the "
                  "property's own overlap/gap/order/default-group oracle run on the real slots and on the returned metadata, "
                  "evaluated per declarator (explicit groups of a declarator = the ones written in its declaration's attributes "
                  "and in its own register annotations; a program whose every binding annotation is well formed must not be "
                  "rejected for its annotations). The generated files also vary how the same declaration is WRITTEN -- const, a "
                  "typedef of the type, an array typedef, the array length as a constant expression or a named constant, nested "
                  "and reopened namespaces, declarations after the entry points and after the Pipeline blocks, enums / function "
                  "prototypes / functions / typedefs between the resources, pipeline names that are prefixes of each other, "
                  "DefaultBindGroup written first / as an expression / in hexadecimal / through a named constant, mesh + pixel "
                  "and single-stage graphics pipelines, arrays of 16-1000 elements, groups 6-9 -- and the compile() options "
                  "(validate_layout_consistency, source_info, defines, a pipeline name in no-pipeline mode, buffer addresses "
                  "on every target): the oracle demands the slots of the plain spelling and a refusal (InvalidArgs) for a "
                  "fifth parameter set.",
    "nontrivial": nontrivial,
    "shrink": shrink,
    "rule": "C06.assign requests = (parameter set, default group, declaration sequence) run through the real front end and "
            "Module::assign_api_bindings; exhaustive single declarations over every bindable kind x length x group x "
            "static-sampler and over the non-resource object kinds that can be declared (RayDesc, RayQuery, TriangleStream) "
            "x length x group, exhaustive pairs (thorough: full class alphabet) and random sequences of length 3-12, each on "
            "the 4 parameter sets x default group 0..2. C06.compile requests = (target configuration, mode, pipelines with "
            "their default groups 0..5 / absent, kinds and shared entry points, 0-9 named declarations in source order with "
            "the spelling of their group: attribute / register space / vk::binding / attribute overriding a register space, "
            "explicit register indices, bindless, namespaces, static / groupshared / extern storage keywords, unsized "
            "and two-dimensional arrays; several declarators per declaration, each with ITS OWN register space / register "
            "index / repeated (agreeing or conflicting) annotations / array shape / static-sampler initialiser while the "
            "attributes -- one or two group attributes, vk::binding, bindless -- belong to the declaration; now and then an "
            "ill-formed annotation: wrong register class, semantic, register on a non-object, binding index on a static "
            "sampler, static sampler with static storage, bindless cbuffer, `static extern`, 12 kinds of ill-formed "
            "attribute) rendered to a shader file and compiled by rssl::compile; first the declarator matrix (8 ways the "
            "first declarator / the declaration spells a group x 4 ways a later declarator does, groups equal to / "
            "different from the pipelines' default groups; quick 32 programs, thorough 384), then quick 300 random programs "
            "(every other one with at least two pipelines), thorough 6000; the spelling matrix (kind x {const, typedef, array "
            "typedef, length as expression x3, nested namespace, after the functions, after the pipelines, all together, "
            "other root definitions in between}: quick 5 kinds = 55 programs, thorough all 20 kinds twice = 440); per "
            "(program, target) with probability 1/3 a random subset of the options B (buffer addresses whatever the target), "
            "L, S, D, Q in the target field `<target>+B+L..`. non-trivial = at least two declarations "
            "received a binding (in at least one returned pipeline)",
    "trusted_base": [
        "Lean 4.33 kernel; axioms propext / Classical.choice / Quot.sound only (audited by #print axioms)",
        "tools/translate.py (SlotTables: ObjectType variants, slice_cost arm, is_buffer_address, get_register_type, "
        "AssignBindingsParams::default, compile()'s binding_params, 16 statement facts about process_definition) and "
        "tools/gens/c06.py (SlotCompile: 42 statement facts about compile / build_pipeline / select_pipeline / the typer's "
        "explicit group and DefaultBindGroup / typer/src/typer/globals.rs: the per-declarator binding state is created "
        "inside the declarator loop (langSlotFreshPerDeclarator), nobody else assigns a language binding, the annotation "
        "loop, the overrides after it, the whole attribute loop and parse_expr_as_u32 (exact text), the storage-class "
        "loop, the cbuffer path incl. the annotation loop of its members (cbufferMemberLoopShape), "
        "binding_params / build_pipeline read no option but the target and support_buffer_address "
        "(optionsNeverReachBinding) / both exporters' analyse_bindings, register_binding, inline block, Metal "
        "group limit and sort) -- re-run on /repo's working tree every time; the facts are regular expressions or exact "
        "comparisons over the comment-stripped, whitespace-normalised source, reviewed by hand",
        "hand-written Model/Slots.lean mirrors process_definition, Model/SlotsCompile.lean mirrors compile / "
        "build_pipeline / select_pipeline / register_binding / generate_inline_constant_buffers / the Metal sort, "
        "Model/SlotsFront.lean mirrors parse_attributes_for_global / parse_globaltype's storage loop / "
        "parse_rootdefinition_globalvariable / parse_rootdefinition_constantbuffer as far as binding goes; "
        "tied to the code by the source facts and the two correspondence streams only",
        "Spec/Slots.lean: our reading of the property (which object kinds are resources, i.e. bindable; which kinds are "
        "doubled on Metal; 8 bytes per buffer address); "
        "Lemmas/SlotsCompile.requestedDefaults: which pipelines a call returns and that no-pipeline mode uses group 0; "
        "Lemmas/SlotsMeta.entriesOf: what the metadata of a group must list; "
        "Lemmas/SlotsFront.explicitGroup: what 'the explicit group of a declarator' means (last group attribute of its "
        "declaration, else the space of its own last register annotation)",
        "harness/src/c06/e2e.rs renders the request to source text (decl_attrs / own_anns / normalise); Driver/C06.lean "
        "reads the same request into attributes, storage keywords and per-declarator annotations on its own "
        "(declAttrs / ownAnns / groupEntries) and runs the front model on them; the two readings are checked against "
        "each other only by the run; the driver hands the front model a base type without register class for an "
        "array-typedef declaration that carries an annotation (Entry.annBase: the declaration is then rejected at that "
        "annotation, annotation_without_register_class_rejected) and answers err:invalid-args before reading the "
        "declarations exactly when the model's compile would (same test)",
    ],
    "assumptions": [
        "u32 arithmetic is modelled by Nat: statements apply while every group's running total stays below 2^32",
        "array lengths are the ones the type checker records (evaluated constant expressions)",
        "the module handed to compile()'s loop is the one type_check returned: nothing selected, nothing assigned "
        "(hypotheses of per_pipeline_default_group; fresh_module_unbound shows the model's fresh module meets them)",
        "reported names are the source names (generated programs avoid names the exporters rename; renaming is C15)",
        "attributes are modelled as the classes parse_attributes_for_global distinguishes (three well-formed shapes with "
        "already evaluated u32 arguments, wrong argument count, unknown name, non-constant argument); evaluating the "
        "argument expressions is the constant evaluator's business (C12/C13)",
        "which of two explicit groups on one declarator wins (attribute vs register space, earlier vs later attribute) is "
        "not fixed by the property: the oracle accepts either, the model and the source facts pin what the code does",
        "covered by the correspondence run and its oracle only (no theorem; the typed declaration the model starts from "
        "is the same, turning the spelling into it is parse_type_for_usage / parse_declarator / the constant evaluator / "
        "the parser, which C06 does not transcribe): `const`, typedef'd object types and array typedefs without "
        "annotation, array lengths written as constant expressions or named constants, nested / reopened namespaces, the "
        "position of a declaration relative to functions and Pipeline blocks, enums / prototypes / functions / typedefs "
        "between the resources (the model sees one unbound root definition), the spelling and position of "
        "DefaultBindGroup, mesh + pixel and single-stage graphics pipelines, the options validate_layout_consistency / source_info / defines and a "
        "pipeline name given in no-pipeline mode (the driver maps it to no-pipeline mode; source fact "
        "optionsNeverReachBinding and nameChecksAfterTheLoop)",
        "unsized arrays (excluded by the property), two-dimensional arrays and struct-typed globals holding resources "
        "(outside the property's quantifier) receive no slot: modelled as such, not judged by the oracle",
    ],
}

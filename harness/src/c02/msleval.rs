//! A C++14 / Metal reading of the emitted syntax tree (the oracle of the semantic half of C02, independent of the Lean
//! model): per-call frames of cells, `T name` parameters by value, `thread T& name` parameters bound to the cell the
//! argument names, overloads told apart by their number of parameters, the tag type `metal::true_type`, integer
//! promotion and the usual arithmetic conversions, Metal's shift rule, integer literal types (`int`, else `long`).
//! The primitive interpretation (float arithmetic, conversions, division) is the shared one of `c01/sx.rs`.
#![allow(dead_code)]
use super::sx::*;
use std::collections::HashMap;

/// static types of the Metal reading
#[derive(Clone, Copy, PartialEq, Eq, Debug)]
pub enum MT {
    Bool,
    Int,
    Uint,
    Float,
    /// 64 bit
    Long,
    /// only in the alternative reading `hlsl_literals`: an unsuffixed literal that adapts to the other operand
    LitInt,
    Void,
}

fn mt_of_name(n: &str) -> Option<MT> {
    Some(match n {
        "bool" => MT::Bool,
        "int" => MT::Int,
        "uint" => MT::Uint,
        "float" => MT::Float,
        "long" => MT::Long,
        "void" => MT::Void,
        _ => return None,
    })
}

#[derive(Clone, Copy, PartialEq, Eq, Debug)]
pub enum Stuck {
    /// an uninitialised variable was read (`T x;` / the trampoline's local for an `out` parameter)
    Uninit,
    /// the source itself is outside HLSL/C (accepted by the type checker all the same): `switch` on a non-integer
    InvalidSource,
    /// the emitted tree is not valid Metal in a way that has a name (a described class of defects)
    Class(&'static str),
    Other,
}

/// Metal has no `%` / `%=` for floating-point operands (the exporter writes `metal::fmod`; fixes 92d66eb + 35faaaa for `%=`)
pub const C_FLOAT_REM: &str = "metal-remainder-operator-on-floats";

thread_local! {
    static WHY: std::cell::RefCell<Option<(Stuck, String)>> = const { std::cell::RefCell::new(None) };
}
fn stuck<T>(kind: Stuck, why: String) -> Option<T> {
    WHY.with(|w| {
        let mut w = w.borrow_mut();
        if w.is_none() {
            *w = Some((kind, why.chars().take(200).collect()));
        }
    });
    None
}
pub fn take_stuck() -> Option<(Stuck, String)> {
    WHY.with(|w| w.borrow_mut().take())
}

pub const FUEL: u32 = 64;
pub const DEPTH: u32 = 12;

fn wrap64(n: i128) -> i128 {
    (n as i64) as i128
}

fn promote(t: MT) -> MT {
    if t == MT::Bool { MT::Int } else { t }
}

fn is_integer(t: MT) -> bool {
    matches!(t, MT::Int | MT::Uint | MT::Long | MT::LitInt)
}

fn common(a: MT, b: MT) -> Option<MT> {
    use MT::*;
    let (a, b) = (promote(a), promote(b));
    Some(match (a, b) {
        (LitInt, LitInt) => LitInt,
        (LitInt, x) | (x, LitInt) if matches!(x, Int | Uint | Float | Long) => x,
        (Float, x) | (x, Float) if matches!(x, Int | Uint | Float | Long) => Float,
        (Long, x) | (x, Long) if matches!(x, Int | Uint | Long) => Long,
        (Uint, x) | (x, Uint) if matches!(x, Int | Uint) => Uint,
        (Int, Int) => Int,
        _ => return None,
    })
}

fn convert(from: MT, to: MT, v: V) -> Option<V> {
    if from == to {
        return Some(v);
    }
    let b2u = |x: bool| x as u32;
    let r = match (to, v) {
        (MT::Bool, V::B(x)) => V::B(x),
        (MT::Bool, V::I(x)) | (MT::Bool, V::U(x)) => V::B(x != 0),
        (MT::Bool, V::F(x)) => V::B(f2b(x)),
        (MT::Bool, V::L(n)) => V::B(n != 0),
        (MT::Int, V::B(x)) => V::I(b2u(x)),
        (MT::Int, V::I(x)) | (MT::Int, V::U(x)) => V::I(x),
        (MT::Int, V::F(x)) => V::I(f2i(x)),
        (MT::Int, V::L(n)) => V::I(n as u32),
        (MT::Uint, V::B(x)) => V::U(b2u(x)),
        (MT::Uint, V::I(x)) | (MT::Uint, V::U(x)) => V::U(x),
        (MT::Uint, V::F(x)) => V::U(f2u(x)),
        (MT::Uint, V::L(n)) => V::U(n as u32),
        (MT::Float, V::B(x)) => V::F(i2f(b2u(x))),
        (MT::Float, V::I(x)) => V::F(i2f(x)),
        (MT::Float, V::U(x)) => V::F(u2f(x)),
        (MT::Float, V::F(x)) => V::F(x),
        // the shared primitives have no 64 bit conversion: defined where an int holds the value
        (MT::Float, V::L(n)) => {
            if from == MT::LitInt || (n >= i32::MIN as i128 && n <= i32::MAX as i128) {
                V::F(i2f(n as u32))
            } else {
                return stuck(Stuck::Other, format!("long {} to float", n));
            }
        }
        (MT::Long, V::B(x)) => V::L(x as i128),
        (MT::Long, V::I(x)) => V::L(x as i32 as i128),
        (MT::Long, V::U(x)) => V::L(x as i128),
        (MT::Long, V::L(n)) => V::L(wrap64(n)),
        _ => return stuck(Stuck::Other, format!("no conversion {:?} -> {:?} of {}", from, to, v.show())),
    };
    Some(r)
}

fn long_bin(m: MBin, p: i128, q: i128) -> Option<V> {
    Some(match m {
        MBin::Lt => V::B(p < q),
        MBin::Le => V::B(p <= q),
        MBin::Gt => V::B(p > q),
        MBin::Ge => V::B(p >= q),
        MBin::Eq => V::B(p == q),
        MBin::Ne => V::B(p != q),
        MBin::Add => V::L(wrap64(p.wrapping_add(q))),
        MBin::Sub => V::L(wrap64(p.wrapping_sub(q))),
        MBin::Mul => V::L(wrap64(p.wrapping_mul(q))),
        MBin::Div => {
            if q == 0 || (p == i64::MIN as i128 && q == -1) {
                return stuck(Stuck::Other, "long division".into());
            }
            V::L(p / q)
        }
        MBin::Mod => {
            if q == 0 || (p == i64::MIN as i128 && q == -1) {
                return stuck(Stuck::Other, "long remainder".into());
            }
            V::L(p % q)
        }
        MBin::Band => V::L(((p as i64) & (q as i64)) as i128),
        MBin::Bor => V::L(((p as i64) | (q as i64)) as i128),
        MBin::Bxor => V::L(((p as i64) ^ (q as i64)) as i128),
        _ => return None,
    })
}

pub struct MslEval<'a> {
    /// `(fn name ret (params ...) (block ...))` in emission order
    pub funcs: Vec<&'a Sx>,
    /// file-scope constants `(global name type init?)`
    pub consts: Vec<&'a Sx>,
    /// alternative reading used only to classify a difference: unsuffixed integer literals are exact literal ints that
    /// adapt to the other operand (HLSL's rule, the reading of C01's text evaluator)
    pub hlsl_literals: bool,
}

struct Frame {
    vars: HashMap<String, (usize, MT)>,
    ret: MT,
}

pub struct Mem {
    /// `V::Void` = uninitialised
    pub cells: Vec<V>,
    /// the name each cell was declared under (diagnostics: which variable was read uninitialised)
    pub names: Vec<String>,
    /// file-scope constants: name → (cell, type)
    consts: HashMap<String, (usize, MT)>,
}

impl Mem {
    fn alloc(&mut self, v: V, name: &str) -> usize {
        self.cells.push(v);
        self.names.push(name.to_string());
        self.cells.len() - 1
    }
}

fn collect_decls(s: &Sx, out: &mut Vec<(String, MT)>) {
    if let Sx::L(items) = s {
        if s.head() == "var" || s.head() == "decl" {
            if let Some(t) = mt_of_name(s.args()[0].atom()) {
                for d in &s.args()[1..] {
                    out.push((d.args()[0].atom().to_string(), t));
                }
            }
        }
        for i in items {
            collect_decls(i, out);
        }
    }
}

fn is_tag_arg(e: &Sx) -> bool {
    e.head() == "call" && e.args().len() == 1 && e.args()[0].atom() == "metal::true_type"
}

#[derive(Clone, PartialEq, Debug)]
pub enum Flow {
    Normal,
    Break,
    Continue,
    Ret(Option<V>),
}

/// how the caller of the function under test passes one argument
#[derive(Clone, Copy, Debug)]
pub enum TopArg {
    Val(V),
    /// a caller variable holding this value, passed by reference
    Var(V),
}

impl<'a> MslEval<'a> {
    pub fn new(module: &'a [Sx], hlsl_literals: bool) -> Self {
        MslEval {
            funcs: module.iter().filter(|d| d.head() == "fn").collect(),
            consts: module.iter().filter(|d| d.head() == "global").collect(),
            hlsl_literals,
        }
    }

    fn lookup_var(&self, name: &str, fr: &Frame, mem: &Mem) -> Option<(usize, MT)> {
        fr.vars.get(name).copied().or_else(|| mem.consts.get(name).copied())
    }

    fn lit_type(&self, e: &Sx) -> Option<MT> {
        let x = e.args();
        Some(match x[0].atom() {
            "bool" => MT::Bool,
            "int" => {
                if self.hlsl_literals {
                    MT::LitInt
                } else {
                    let n: u128 = x[1].atom().parse().ok()?;
                    if n < (1u128 << 31) {
                        MT::Int
                    } else if n < (1u128 << 63) {
                        MT::Long
                    } else {
                        return stuck(Stuck::Other, "integer literal too large".into());
                    }
                }
            }
            "uint" => MT::Uint,
            // Metal has no double: an unsuffixed floating-point literal is a float
            "f32" | "flt" => MT::Float,
            _ => return None,
        })
    }

    fn find_overload(&self, name: &str, nargs: usize) -> Option<&'a Sx> {
        self.funcs.iter().copied().find(|f| f.args()[0].atom() == name && f.args()[2].args().len() == nargs)
    }

    pub fn type_of(&self, e: &Sx, fr: &Frame, mem: &Mem) -> Option<MT> {
        let x = e.args();
        match e.head() {
            "lit" => self.lit_type(e),
            "id" => self.lookup_var(x[0].atom(), fr, mem).map(|v| v.1),
            "un" => {
                let t = self.type_of(&x[1], fr, mem)?;
                match op_sem(x[0].atom()) {
                    OpSem::Un(MUn::Lnot) => Some(MT::Bool),
                    OpSem::Un(_) => Some(promote(t)),
                    OpSem::IncDec(_, _) => Some(t),
                    _ => None,
                }
            }
            "bin" => {
                let ta = self.type_of(&x[1], fr, mem)?;
                let tb = self.type_of(&x[2], fr, mem)?;
                match op_sem(x[0].atom()) {
                    OpSem::Bin(m) if matches!(m, MBin::Shl | MBin::Shr) && !self.hlsl_literals => {
                        if is_integer(promote(ta)) && is_integer(promote(tb)) { Some(promote(ta)) } else { None }
                    }
                    OpSem::Bin(m) => {
                        let t = common(ta, tb)?;
                        if m == MBin::Mod && t == MT::Float {
                            return stuck(Stuck::Class(C_FLOAT_REM), format!("operator % on float operands in {}", e.show()));
                        }
                        Some(if m.is_cmp() { MT::Bool } else { t })
                    }
                    OpSem::Land | OpSem::Lor => Some(MT::Bool),
                    OpSem::Compound(MBin::Mod) if common(ta, tb) == Some(MT::Float) => {
                        stuck(Stuck::Class(C_FLOAT_REM), format!("operator %= on float operands in {}", e.show()))
                    }
                    OpSem::Assign | OpSem::Compound(_) => Some(ta),
                    OpSem::Comma => Some(tb),
                    _ => None,
                }
            }
            "tern" => {
                self.type_of(&x[0], fr, mem)?;
                let (tt, tf) = (self.type_of(&x[1], fr, mem)?, self.type_of(&x[2], fr, mem)?);
                if tt == tf { Some(tt) } else { common(tt, tf) }
            }
            "cast" => {
                self.type_of(&x[1], fr, mem)?;
                mt_of_name(x[0].atom())
            }
            "call" => {
                if x[0].atom() == "metal::fmod" {
                    return Some(MT::Float);
                }
                let f = self.find_overload(x[0].atom(), x.len() - 1)?;
                mt_of_name(f.args()[1].atom())
            }
            _ => None,
        }
    }

    fn read_cell(&self, c: usize, mem: &Mem, what: &str) -> Option<V> {
        match mem.cells[c] {
            V::Void => stuck(Stuck::Uninit, format!("read of uninitialised variable declared as `{}` (through {})", mem.names[c], what)),
            v => Some(v),
        }
    }

    fn eval_as(&self, to: MT, e: &Sx, fr: &mut Frame, mem: &mut Mem, depth: u32) -> Option<V> {
        let from = match self.type_of(e, fr, mem) {
            Some(t) => t,
            None => return stuck(Stuck::Other, format!("no static type for {}", e.show())),
        };
        let v = self.eval(e, fr, mem, depth)?;
        convert(from, to, v)
    }

    fn lval(&self, e: &Sx, fr: &Frame, mem: &Mem) -> Option<(usize, MT)> {
        if e.head() == "id" {
            match self.lookup_var(e.args()[0].atom(), fr, mem) {
                Some(v) => Some(v),
                None => stuck(Stuck::Other, format!("identifier {} is not in scope", e.args()[0].atom())),
            }
        } else {
            stuck(Stuck::Other, format!("not an lvalue: {}", e.show()))
        }
    }

    /// arithmetic / bitwise / relational operator on operands converted to the common type `t`
    fn arith(&self, t: MT, m: MBin, p: V, q: V) -> Option<V> {
        if m == MBin::Mod && t == MT::Float {
            return stuck(Stuck::Class(C_FLOAT_REM), "operator % / %= on float operands".into());
        }
        match (t, p, q) {
            (MT::Long, V::L(a), V::L(b)) => long_bin(m, a, b),
            (MT::LitInt, _, _) => binop(m, p, q),
            _ => binop(m, p, q),
        }
    }

    fn shift(&self, tl: MT, m: MBin, l: V, c: V) -> Option<V> {
        let count = |w: u32| -> Option<u32> {
            Some(match c {
                V::I(x) | V::U(x) => x % w,
                V::L(n) => (n.rem_euclid(w as i128)) as u32,
                _ => return None,
            })
        };
        let left = m == MBin::Shl;
        Some(match (tl, l) {
            (MT::Int, V::I(a)) => {
                let k = count(32)?;
                V::I(if left { a << k } else { ((a as i32) >> k) as u32 })
            }
            (MT::Uint, V::U(a)) => {
                let k = count(32)?;
                V::U(if left { a << k } else { a >> k })
            }
            (MT::Long, V::L(a)) => {
                let k = count(64)?;
                V::L(if left { wrap64(((a as i64) << k) as i128) } else { ((a as i64) >> k) as i128 })
            }
            _ => return None,
        })
    }

    pub fn eval(&self, e: &Sx, fr: &mut Frame, mem: &mut Mem, depth: u32) -> Option<V> {
        let x = e.args();
        match e.head() {
            "lit" => {
                let v = x[1].atom();
                Some(match x[0].atom() {
                    "bool" => V::B(v == "1"),
                    "int" => match self.lit_type(e)? {
                        MT::Int => V::I(v.parse::<u32>().ok()?),
                        _ => V::L(v.parse().ok()?),
                    },
                    "uint" => V::U(v.parse::<u64>().ok()? as u32),
                    "f32" => V::F(u32::from_str_radix(v, 16).ok()?),
                    "flt" => V::F(d2f(u64::from_str_radix(v, 16).ok()?)),
                    _ => return None,
                })
            }
            "id" => {
                let (c, _) = self.lval(e, fr, mem)?;
                self.read_cell(c, mem, x[0].atom())
            }
            "cast" => {
                let t = mt_of_name(x[0].atom())?;
                let from = self.type_of(&x[1], fr, mem)?;
                let v = self.eval(&x[1], fr, mem, depth)?;
                // an explicit cast to the operand's own type is the identity
                convert(from, t, v)
            }
            "tern" => {
                self.type_of(&x[0], fr, mem)?;
                let (tt, tf) = (self.type_of(&x[1], fr, mem)?, self.type_of(&x[2], fr, mem)?);
                let t = if tt == tf { tt } else { common(tt, tf)? };
                match self.eval_as(MT::Bool, &x[0], fr, mem, depth)? {
                    V::B(true) => self.eval_as(t, &x[1], fr, mem, depth),
                    V::B(false) => self.eval_as(t, &x[2], fr, mem, depth),
                    _ => None,
                }
            }
            "call" if x[0].atom() == "metal::fmod" => {
                if x.len() != 3 {
                    return None;
                }
                let p = self.eval_as(MT::Float, &x[1], fr, mem, depth)?;
                let q = self.eval_as(MT::Float, &x[2], fr, mem, depth)?;
                binop(MBin::Mod, p, q)
            }
            "call" => {
                let name = x[0].atom();
                let args = &x[1..];
                let f = match self.find_overload(name, args.len()) {
                    Some(f) => f,
                    None => return stuck(Stuck::Other, format!("no overload of {} with {} parameters", name, args.len())),
                };
                let params = f.args()[2].args();
                let mut bound: Vec<Bound> = Vec::new();
                let mut is_target = false;
                for (p, arg) in params.iter().zip(args) {
                    match p.head() {
                        "val" => {
                            let t = mt_of_name(p.args()[0].atom())?;
                            let v = self.eval_as(t, arg, fr, mem, depth)?;
                            bound.push(Bound::Val(p.args()[1].atom().to_string(), t, v));
                        }
                        "ref" => {
                            let t = mt_of_name(p.args()[1].atom())?;
                            let (c, ta) = self.lval(arg, fr, mem)?;
                            if ta != t {
                                return stuck(Stuck::Other, format!("reference to {:?} cannot bind to {:?} {}", t, ta, arg.show()));
                            }
                            bound.push(Bound::Ref(p.args()[2].atom().to_string(), t, c));
                        }
                        "tag" => {
                            if !is_tag_arg(arg) {
                                return stuck(Stuck::Other, format!("tag parameter receives {}", arg.show()));
                            }
                            is_target = true;
                        }
                        _ => return None,
                    }
                }
                self.invoke(f, bound, is_target, mem, depth)
            }
            "un" => match op_sem(x[0].atom()) {
                OpSem::Un(MUn::Lnot) => {
                    let v = self.eval_as(MT::Bool, &x[1], fr, mem, depth)?;
                    unop(MUn::Lnot, v)
                }
                OpSem::Un(m) => {
                    let t = promote(self.type_of(&x[1], fr, mem)?);
                    let v = self.eval_as(t, &x[1], fr, mem, depth)?;
                    match (t, v, m) {
                        (MT::Long, V::L(n), MUn::Neg) => Some(V::L(wrap64(-n))),
                        (MT::Long, V::L(n), MUn::Plus) => Some(V::L(n)),
                        (MT::Long, V::L(n), MUn::Bnot) => Some(V::L(-n - 1)),
                        _ => unop(m, v),
                    }
                }
                OpSem::IncDec(pre, inc) => {
                    let (c, _) = self.lval(&x[1], fr, mem)?;
                    let old = self.read_cell(c, mem, "incremented variable")?;
                    let new = step(inc, old)?;
                    mem.cells[c] = new;
                    Some(if pre { new } else { old })
                }
                _ => None,
            },
            "bin" => {
                let (l, r) = (&x[1], &x[2]);
                match op_sem(x[0].atom()) {
                    OpSem::Bin(m) if matches!(m, MBin::Shl | MBin::Shr) && !self.hlsl_literals => {
                        let tl = promote(self.type_of(l, fr, mem)?);
                        let tc = promote(self.type_of(r, fr, mem)?);
                        let p = self.eval_as(tl, l, fr, mem, depth)?;
                        let q = self.eval_as(tc, r, fr, mem, depth)?;
                        self.shift(tl, m, p, q)
                    }
                    OpSem::Bin(m) => {
                        let t = common(self.type_of(l, fr, mem)?, self.type_of(r, fr, mem)?)?;
                        let p = self.eval_as(t, l, fr, mem, depth)?;
                        let q = self.eval_as(t, r, fr, mem, depth)?;
                        self.arith(t, m, p, q)
                    }
                    OpSem::Land | OpSem::Lor => {
                        let is_and = op_sem(x[0].atom()) == OpSem::Land;
                        self.type_of(r, fr, mem)?;
                        match self.eval_as(MT::Bool, l, fr, mem, depth)? {
                            V::B(p) if p != is_and => Some(V::B(p)),
                            V::B(_) => match self.eval_as(MT::Bool, r, fr, mem, depth)? {
                                V::B(q) => Some(V::B(q)),
                                _ => None,
                            },
                            _ => None,
                        }
                    }
                    OpSem::Assign => {
                        let (c, t) = self.lval(l, fr, mem)?;
                        let v = self.eval_as(t, r, fr, mem, depth)?;
                        mem.cells[c] = v;
                        Some(v)
                    }
                    OpSem::Compound(m) => {
                        let (c, t) = self.lval(l, fr, mem)?;
                        let tr = self.type_of(r, fr, mem)?;
                        if matches!(m, MBin::Shl | MBin::Shr) && !self.hlsl_literals {
                            let tl = promote(t);
                            let q = self.eval_as(promote(tr), r, fr, mem, depth)?;
                            let cur = convert(t, tl, self.read_cell(c, mem, "assigned variable")?)?;
                            let res = convert(tl, t, self.shift(tl, m, cur, q)?)?;
                            mem.cells[c] = res;
                            return Some(res);
                        }
                        let ct = common(t, tr)?;
                        let q = self.eval_as(ct, r, fr, mem, depth)?;
                        let cur = convert(t, ct, self.read_cell(c, mem, "assigned variable")?)?;
                        let res = convert(ct, t, self.arith(ct, m, cur, q)?)?;
                        mem.cells[c] = res;
                        Some(res)
                    }
                    OpSem::Comma => {
                        self.type_of(l, fr, mem)?;
                        self.eval(l, fr, mem, depth)?;
                        self.eval(r, fr, mem, depth)
                    }
                    _ => None,
                }
            }
            _ => stuck(Stuck::Other, format!("expression {}", e.show())),
        }
    }

    fn cond(&self, e: &Sx, fr: &mut Frame, mem: &mut Mem, depth: u32) -> Option<bool> {
        if e.head() == "none" {
            return Some(true);
        }
        match self.eval_as(MT::Bool, e, fr, mem, depth)? {
            V::B(x) => Some(x),
            _ => None,
        }
    }

    fn decls(&self, items: &[Sx], fr: &mut Frame, mem: &mut Mem, depth: u32) -> Option<()> {
        let t = mt_of_name(items[0].atom())?;
        for d in &items[1..] {
            let n = d.args()[0].atom();
            let c = fr.vars.get(n)?.0;
            if d.args().len() > 1 {
                let v = self.eval_as(t, &d.args()[1], fr, mem, depth)?;
                mem.cells[c] = v;
            }
        }
        Some(())
    }

    pub fn exec(&self, s: &Sx, fr: &mut Frame, mem: &mut Mem, depth: u32) -> Option<Flow> {
        let x = s.args();
        match s.head() {
            "expr" => {
                self.eval(&x[0], fr, mem, depth)?;
                Some(Flow::Normal)
            }
            "var" => {
                self.decls(x, fr, mem, depth)?;
                Some(Flow::Normal)
            }
            "block" => {
                for st in x {
                    match self.exec(st, fr, mem, depth)? {
                        Flow::Normal => {}
                        other => return Some(other),
                    }
                }
                Some(Flow::Normal)
            }
            "if" => {
                if self.cond(&x[0], fr, mem, depth)? { self.exec(&x[1], fr, mem, depth) } else { Some(Flow::Normal) }
            }
            "ifelse" => {
                if self.cond(&x[0], fr, mem, depth)? { self.exec(&x[1], fr, mem, depth) } else { self.exec(&x[2], fr, mem, depth) }
            }
            "for" | "while" => {
                let (cond, inc, body) = if s.head() == "for" {
                    match x[0].head() {
                        "none" => {}
                        "e" => {
                            self.eval(&x[0].args()[0], fr, mem, depth)?;
                        }
                        "decl" => self.decls(x[0].args(), fr, mem, depth)?,
                        _ => return None,
                    }
                    (&x[1], Some(&x[2]), &x[3])
                } else {
                    (&x[0], None, &x[1])
                };
                for _ in 0..FUEL {
                    if !self.cond(cond, fr, mem, depth)? {
                        return Some(Flow::Normal);
                    }
                    match self.exec(body, fr, mem, depth)? {
                        Flow::Break => return Some(Flow::Normal),
                        Flow::Ret(v) => return Some(Flow::Ret(v)),
                        _ => {}
                    }
                    if let Some(i) = inc {
                        if i.head() != "none" {
                            self.eval(i, fr, mem, depth)?;
                        }
                    }
                }
                stuck(Stuck::Other, "out of fuel".into())
            }
            "dowhile" => {
                for _ in 0..FUEL {
                    match self.exec(&x[0], fr, mem, depth)? {
                        Flow::Break => return Some(Flow::Normal),
                        Flow::Ret(v) => return Some(Flow::Ret(v)),
                        _ => {}
                    }
                    if !self.cond(&x[1], fr, mem, depth)? {
                        return Some(Flow::Normal);
                    }
                }
                stuck(Stuck::Other, "out of fuel".into())
            }
            "break" => Some(Flow::Break),
            "continue" => Some(Flow::Continue),
            "ret" => {
                if x.is_empty() {
                    Some(Flow::Ret(None))
                } else {
                    let v = self.eval_as(fr.ret, &x[0], fr, mem, depth)?;
                    Some(Flow::Ret(Some(v)))
                }
            }
            "empty" => Some(Flow::Normal),
            "case" => self.exec(&x[1], fr, mem, depth),
            "default" => self.exec(&x[0], fr, mem, depth),
            "switch" => {
                if x[1].head() != "block" {
                    return None;
                }
                let tc = self.type_of(&x[0], fr, mem)?;
                let t = if tc == MT::LitInt { MT::Int } else { promote(tc) };
                if !is_integer(t) {
                    return stuck(Stuck::InvalidSource, "switch on a non-integer".into());
                }
                let v = self.eval_as(t, &x[0], fr, mem, depth)?;
                enum Item<'s> {
                    Case(&'s Sx),
                    Default,
                    Stmt(&'s Sx),
                }
                fn flat<'s>(s: &'s Sx, out: &mut Vec<Item<'s>>) {
                    match s.head() {
                        "case" => {
                            out.push(Item::Case(&s.args()[0]));
                            flat(&s.args()[1], out)
                        }
                        "default" => {
                            out.push(Item::Default);
                            flat(&s.args()[0], out)
                        }
                        "empty" => {}
                        _ => out.push(Item::Stmt(s)),
                    }
                }
                let mut items = Vec::new();
                for s in x[1].args() {
                    flat(s, &mut items);
                }
                let mut start = None;
                for (i, it) in items.iter().enumerate() {
                    if let Item::Case(e) = it {
                        if self.eval_as(t, e, fr, mem, depth)? == v {
                            start = Some(i);
                            break;
                        }
                    }
                }
                if start.is_none() {
                    start = items.iter().position(|it| matches!(it, Item::Default));
                }
                if let Some(i) = start {
                    for it in &items[i..] {
                        if let Item::Stmt(s) = it {
                            match self.exec(s, fr, mem, depth)? {
                                Flow::Normal => {}
                                Flow::Break => return Some(Flow::Normal),
                                other => return Some(other),
                            }
                        }
                    }
                }
                Some(Flow::Normal)
            }
            _ => stuck(Stuck::Other, format!("statement {}", s.head())),
        }
    }

    /// run a definition on bound arguments; a call of a tagged overload (trampoline → target) is not counted as a
    /// level of call depth, so that one source-level call is one level on both sides
    fn invoke(&self, f: &'a Sx, bound: Vec<Bound>, is_target: bool, mem: &mut Mem, depth: u32) -> Option<V> {
        let depth = if is_target { depth } else {
            if depth == 0 {
                return stuck(Stuck::Other, "call depth".into());
            }
            depth - 1
        };
        let mut fr = Frame { vars: HashMap::new(), ret: mt_of_name(f.args()[1].atom())? };
        // every local of the function gets a fresh, uninitialised cell for this call
        let mut decls = Vec::new();
        collect_decls(&f.args()[3], &mut decls);
        for (n, t) in decls {
            let c = mem.alloc(V::Void, &n);
            fr.vars.insert(n, (c, t));
        }
        for b in bound {
            match b {
                Bound::Val(n, t, v) => {
                    let c = mem.alloc(v, &n);
                    fr.vars.insert(n, (c, t));
                }
                Bound::Ref(n, t, c) => {
                    fr.vars.insert(n, (c, t));
                }
            }
        }
        let fl = self.exec(&f.args()[3], &mut fr, mem, depth)?;
        Some(match fl {
            Flow::Ret(Some(v)) => v,
            _ => V::Void,
        })
    }

    /// the file-scope constants with their initial values
    pub fn init_mem(&self) -> Option<Mem> {
        let mut mem = Mem { cells: Vec::new(), names: Vec::new(), consts: HashMap::new() };
        for g in &self.consts {
            let n = g.args()[0].atom().to_string();
            let t = mt_of_name(g.args()[1].atom())?;
            let v = if g.args().len() > 2 {
                let mut fr = Frame { vars: HashMap::new(), ret: MT::Void };
                self.eval_as(t, &g.args()[2], &mut fr, &mut mem, 1)?
            } else {
                V::Void
            };
            let c = mem.alloc(v, &n);
            mem.consts.insert(n, (c, t));
        }
        Some(mem)
    }

    /// call the function `name` as code outside the module would: by-value arguments as values, every reference
    /// parameter bound to a variable of the caller (`user[i]` for the first parameters, the static of that name for the
    /// parameters the exporter appended).  Returns (return value, final values of the caller's variables in parameter
    /// order — `None` for by-value parameters —, final statics in the order of `globals`).
    pub fn run(&self, name: &str, user: &[TopArg], globals: &[(String, V)]) -> Option<(V, Vec<Option<V>>, Vec<V>)> {
        let mut mem = self.init_mem()?;
        // the statics live where the entry point would declare them
        let mut gcells: Vec<(String, usize)> = Vec::new();
        for (n, v) in globals {
            let c = mem.alloc(*v, n);
            gcells.push((n.clone(), c));
        }
        // callers use the overload without the tag parameter
        let f = self
            .funcs
            .iter()
            .copied()
            .find(|f| f.args()[0].atom() == name && !f.args()[2].args().iter().any(|p| p.head() == "tag"));
        let f = match f {
            Some(f) => f,
            None => return stuck(Stuck::Other, format!("no callable definition of {}", name)),
        };
        let params = f.args()[2].args();
        if params.len() < user.len() {
            return stuck(Stuck::Other, "fewer parameters than the source function".into());
        }
        let mut bound = Vec::new();
        let mut user_cells: Vec<Option<usize>> = Vec::new();
        for (i, p) in params.iter().enumerate() {
            if i < user.len() {
                match (p.head(), user[i]) {
                    ("val", TopArg::Val(v)) => {
                        bound.push(Bound::Val(p.args()[1].atom().to_string(), mt_of_name(p.args()[0].atom())?, v));
                        user_cells.push(None);
                    }
                    ("ref", TopArg::Var(v)) => {
                        let c = mem.alloc(v, "<caller variable>");
                        bound.push(Bound::Ref(p.args()[2].atom().to_string(), mt_of_name(p.args()[1].atom())?, c));
                        user_cells.push(Some(c));
                    }
                    _ => return stuck(Stuck::Other, format!("parameter {} is passed differently from the source parameter", i)),
                }
            } else {
                // a parameter the exporter appended: must be a reference to the static of that name
                if p.head() != "ref" {
                    return stuck(Stuck::Other, format!("appended parameter {} is not a reference", p.show()));
                }
                let n = p.args()[2].atom();
                match gcells.iter().find(|g| g.0 == n) {
                    Some((_, c)) => bound.push(Bound::Ref(n.to_string(), mt_of_name(p.args()[1].atom())?, *c)),
                    None => return stuck(Stuck::Other, format!("appended parameter {} names no static", n)),
                }
            }
        }
        let ret = self.invoke(f, bound, false, &mut mem, DEPTH)?;
        let finals = user_cells.iter().map(|c| c.map(|c| mem.cells[c])).collect();
        let gl = gcells.iter().map(|(_, c)| mem.cells[*c]).collect();
        Some((ret, finals, gl))
    }
}

pub enum Bound {
    Val(String, MT, V),
    Ref(String, MT, usize),
}

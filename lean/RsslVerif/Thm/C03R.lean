import RsslVerif.Model.RetScope
import RsslVerif.Gen.RetScope
/-! # C03: a `return` is checked against, and converted to, the return type of the function that contains it

whatever template instantiations (struct templates with any number of methods, function templates, nested to any depth) were
checked re-entrantly between the entry of the function and the `return`.  All statements quantify over all bodies, names,
types and scope chains; proofs by mutual structural induction over `Item` / `Items` / `Methods`. -/
namespace RsslVerif.Thm.C03R
open RsslVerif.Model.RetScope

/-! ## Reference semantics: purely structural, no scope state

`specItems owner R T b` = the checked returns of a body `b` written inside the function `owner` that returns `R`, where the
name `T` means `T`: a return statement belongs to the function node that textually contains it. -/

/-- a written type under a binding of `T` (`void` stands for an unbound `T`; never reached from an accepted program) -/
def resolveSpec (T : Option Code) : TyRef → Code
  | .lit c => c
  | .tparam => T.getD .void

mutual
def specItem (owner : String) (R : Code) (T : Option Code) : Item → List Ev
  | .ret o => [⟨owner, R, o.map (resolveSpec T)⟩]
  | .blk b => specItems owner R T b
  | .st _ arg ms => specMethods (some (resolveSpec T arg)) ms
  | .ft name rt arg b => specItems name (resolveSpec (some (resolveSpec T arg)) rt) (some (resolveSpec T arg)) b
def specItems (owner : String) (R : Code) (T : Option Code) : Items → List Ev
  | .nil => []
  | .cons i r => specItem owner R T i ++ specItems owner R T r
def specMethods (T : Option Code) : Methods → List Ev
  | .nil => []
  | .cons name rt b r => specItems name (resolveSpec T rt) T b ++ specMethods T r
end

/-- the return statements written directly in a body (at any block depth), not those of the templates it instantiates -/
def directRets : Items → List (Option TyRef)
  | .nil => []
  | .cons (.ret o) r => o :: directRets r
  | .cons (.blk b) r => directRets b ++ directRets r
  | .cons (.st _ _ _) r => directRets r
  | .cons (.ft _ _ _ _) r => directRets r

/-- what the language allows: a value of type `got` (`none`: no value) returned from a function of type `want` -/
def Returnable (got : Option Code) (want : Code) : Prop :=
  match got with
  | none => want = .void
  | some g => conv g want = true

/-! ## the source facts the model rests on (re-extracted on every run) -/

/-- `get_current_return_type` is `search_scopes(|s| s.function_return_type)`; `search_scopes` walks the parent chain from
    `current_scope`; `revisit_function` only re-enters the function's scope; the only writers of `function_return_type` are
    `set_function_return_type` (called once, by `parse_function_signature`, right after `parse_returntype`) and
    `build_function_template_signature`; both `return` arms of `parse_statement` ask `get_current_return_type`; `Context` has
    no other field that could remember a "current function".  Seeded mutant C03-6 falsifies it. -/
theorem returnTypeComesFromTheScopeChain :
    RsslVerif.Gen.RetScope.returnTypeComesFromTheScopeChain = true
    ∧ RsslVerif.Gen.RetScope.searchScopesWalksParents = true
    ∧ RsslVerif.Gen.RetScope.revisitFunctionOnlyReentersScope = true
    ∧ RsslVerif.Gen.RetScope.setFunctionReturnTypeAsPinned = true
    ∧ RsslVerif.Gen.RetScope.functionReturnTypeWriters = ["build_function_template_signature", "set_function_return_type"]
    ∧ RsslVerif.Gen.RetScope.functionReturnTypeInitialisedNone = 2
    ∧ RsslVerif.Gen.RetScope.setFunctionReturnTypeCallers = ["functions.rs:parse_function_signature"]
    ∧ RsslVerif.Gen.RetScope.getCurrentReturnTypeCallers = ["statements.rs:parse_statement", "statements.rs:parse_statement"]
    ∧ RsslVerif.Gen.RetScope.contextFields = ["module", "scopes", "current_scope", "function_to_scope", "struct_template_data"]
    ∧ RsslVerif.Gen.RetScope.instantiationRestoresCurrentScope = true := by
  decide

/-! ## lemmas -/

theorem resolve_spec {chain : List Frame} {r : TyRef} {c : Code} (h : resolve chain r = some c) :
    resolveSpec (currentT chain) r = c := by
  cases r with
  | lit c' => simp [resolve] at h; simp [resolveSpec, h]
  | tparam => simp [resolve] at h; simp [resolveSpec, h]

theorem popScope_cons {x : Frame} {chain c : List Frame} (hne : chain ≠ []) (h : popScope (x :: chain) = .ok c) : c = chain := by
  cases chain with
  | nil => exact absurd rfl hne
  | cons p r => simp [popScope] at h; exact h.symm

theorem currentRet_ne_nil {chain : List Frame} {R : Code} (h : currentRet chain = some R) : chain ≠ [] := by
  intro hc; subst hc; simp [currentRet] at h

@[simp] theorem currentT_bound (x : Option Code) (a : Code) (c : List Frame) :
    currentT ({ fnRet := x, targ := some a } :: c) = some a := by simp [currentT, List.findSome?]

@[simp] theorem currentT_unbound (x : Option Code) (c : List Frame) :
    currentT ({ fnRet := x, targ := none } :: c) = currentT c := by simp [currentT, List.findSome?]

@[simp] theorem currentRet_function (R : Code) (t : Option Code) (c : List Frame) :
    currentRet ({ fnRet := some R, targ := t } :: c) = some R := by simp [currentRet, List.findSome?]

@[simp] theorem currentRet_block (t : Option Code) (c : List Frame) :
    currentRet ({ fnRet := none, targ := t } :: c) = currentRet c := by simp [currentRet, List.findSome?]

theorem elabRet_spec {owner : String} {chain : List Frame} {R : Code} {o : Option TyRef} {evs : List Ev}
    (hR : currentRet chain = some R) (h : elabRet owner chain o = .ok evs) :
    evs = [⟨owner, R, o.map (resolveSpec (currentT chain))⟩] := by
  cases o with
  | none =>
    simp only [elabRet, hR] at h
    split at h
    · cases h; rfl
    · cases h
  | some r =>
    simp only [elabRet, hR] at h
    split at h
    · cases h
    · rename_i got hgot
      split at h
      · cases h; simp [resolve_spec hgot]
      · cases h

theorem elabRet_returnable {owner : String} {chain : List Frame} {o : Option TyRef} {evs : List Ev}
    (h : elabRet owner chain o = .ok evs) : ∀ ev ∈ evs, Returnable ev.got ev.want := by
  cases o with
  | none =>
    simp only [elabRet] at h
    split at h
    · cases h
    · split at h
      · rename_i hv; cases h; intro ev hev; simp at hev; subst hev; simpa [Returnable] using hv
      · cases h
  | some r =>
    simp only [elabRet] at h
    split at h
    · cases h
    · split at h
      · cases h
      · split at h
        · rename_i hc; cases h; intro ev hev; simp at hev; subst hev; simpa [Returnable] using hc
        · cases h

/-! ## the invariant: episodes leave the scope chain as they found it, and every return is checked against the type of the
    function node that contains it -/

mutual
theorem elabItem_spec (owner : String) (chain : List Frame) (R : Code) (it : Item) (c : List Frame) (evs : List Ev)
    (hR : currentRet chain = some R) (h : elabItem owner chain it = .ok (c, evs)) :
    c = chain ∧ evs = specItem owner R (currentT chain) it := by
  cases it with
  | ret o =>
    simp only [elabItem] at h
    split at h
    · cases h
    · rename_i evs' he
      cases h
      exact ⟨rfl, by simpa [specItem] using elabRet_spec hR he⟩
  | blk b =>
    simp only [elabItem] at h
    split at h
    · cases h
    · rename_i c1 e1 hb
      have hR' : currentRet (({} : Frame) :: chain) = some R := by simpa using hR
      have ih := elabItems_spec owner (({} : Frame) :: chain) R b c1 e1 hR' hb
      split at h
      · cases h
      · rename_i c' hp
        cases h
        rw [ih.1] at hp
        refine ⟨popScope_cons (currentRet_ne_nil hR) hp, ?_⟩
        rw [ih.2]
        simp [specItem]
  | st decl arg ms =>
    simp only [elabItem] at h
    split at h
    · cases h
    · rename_i a ha
      split at h
      · cases h
      · cases h
      · rename_i c1 e1 hm
        have ih := elabMethods_spec (({ targ := some a } : Frame) :: rootChain) ms c1 e1 (by simp) hm
        split at h
        · cases h
        · cases h
          refine ⟨rfl, ?_⟩
          rw [ih.2]
          simp [specItem, resolve_spec ha]
  | ft name rt arg b =>
    simp only [elabItem] at h
    split at h
    · cases h
    · rename_i a ha
      split at h
      · cases h
      · rename_i r hr
        split at h
        · cases h
        · rename_i c1 e1 hb
          have ih := elabItems_spec name (({ fnRet := some r, targ := some a } : Frame) :: rootChain) r b c1 e1
            (by simp) hb
          split at h
          · cases h
          · split at h
            · cases h
              refine ⟨rfl, ?_⟩
              rw [ih.2]
              have hr' := resolve_spec hr
              simp only [currentT_bound] at hr'
              simp [specItem, resolve_spec ha, hr']
            · cases h
theorem elabItems_spec (owner : String) (chain : List Frame) (R : Code) (b : Items) (c : List Frame) (evs : List Ev)
    (hR : currentRet chain = some R) (h : elabItems owner chain b = .ok (c, evs)) :
    c = chain ∧ evs = specItems owner R (currentT chain) b := by
  cases b with
  | nil => simp only [elabItems] at h; cases h; exact ⟨rfl, by simp [specItems]⟩
  | cons i r =>
    simp only [elabItems] at h
    split at h
    · cases h
    · rename_i c1 e1 hi
      have ih1 := elabItem_spec owner chain R i c1 e1 hR hi
      split at h
      · cases h
      · rename_i c2 e2 hr
        cases h
        rw [ih1.1] at hr
        have ih2 := elabItems_spec owner chain R r _ _ hR hr
        exact ⟨ih2.1, by rw [ih1.2, ih2.2]; simp [specItems]⟩
theorem elabMethods_spec (chain : List Frame) (ms : Methods) (c : List Frame) (evs : List Ev)
    (hne : chain ≠ []) (h : elabMethods chain ms = .ok (c, evs)) :
    c = chain ∧ evs = specMethods (currentT chain) ms := by
  cases ms with
  | nil => simp only [elabMethods] at h; cases h; exact ⟨rfl, by simp [specMethods]⟩
  | cons name rt b r =>
    simp only [elabMethods] at h
    split at h
    · cases h
    · rename_i rr hrr
      split at h
      · cases h
      · rename_i c1 e1 hb
        have ih1 := elabItems_spec name (({ fnRet := some rr } : Frame) :: chain) rr b c1 e1 (by simp) hb
        split at h
        · cases h
        · rename_i c1' hp
          rw [ih1.1] at hp
          have hc1 := popScope_cons hne hp
          subst hc1
          split at h
          · cases h
          · rename_i c2 e2 hr
            cases h
            have ih2 := elabMethods_spec c1' r _ _ hne hr
            refine ⟨ih2.1, ?_⟩
            rw [ih1.2, ih2.2]
            simp [specMethods, resolve_spec hrr]
end

mutual
theorem elabItem_returnable (owner : String) (chain : List Frame) (it : Item) (c : List Frame) (evs : List Ev)
    (h : elabItem owner chain it = .ok (c, evs)) : ∀ ev ∈ evs, Returnable ev.got ev.want := by
  cases it with
  | ret o =>
    simp only [elabItem] at h
    split at h
    · cases h
    · rename_i evs' he; cases h; exact elabRet_returnable he
  | blk b =>
    simp only [elabItem] at h
    split at h
    · cases h
    · rename_i c1 e1 hb
      split at h
      · cases h
      · cases h; exact elabItems_returnable owner _ b _ _ hb
  | st decl arg ms =>
    simp only [elabItem] at h
    split at h
    · cases h
    · split at h
      · cases h
      · cases h
      · rename_i c1 e1 hm
        split at h
        · cases h
        · cases h; exact elabMethods_returnable _ ms _ _ hm
  | ft name rt arg b =>
    simp only [elabItem] at h
    split at h
    · cases h
    · split at h
      · cases h
      · split at h
        · cases h
        · rename_i c1 e1 hb
          split at h
          · cases h
          · split at h
            · cases h; exact elabItems_returnable name _ b _ _ hb
            · cases h
theorem elabItems_returnable (owner : String) (chain : List Frame) (b : Items) (c : List Frame) (evs : List Ev)
    (h : elabItems owner chain b = .ok (c, evs)) : ∀ ev ∈ evs, Returnable ev.got ev.want := by
  cases b with
  | nil => simp only [elabItems] at h; cases h; simp
  | cons i r =>
    simp only [elabItems] at h
    split at h
    · cases h
    · rename_i c1 e1 hi
      split at h
      · cases h
      · rename_i c2 e2 hr
        cases h
        intro ev hev
        rcases List.mem_append.mp hev with h1 | h2
        · exact elabItem_returnable owner chain i c1 e1 hi ev h1
        · exact elabItems_returnable owner c1 r _ _ hr ev h2
theorem elabMethods_returnable (chain : List Frame) (ms : Methods) (c : List Frame) (evs : List Ev)
    (h : elabMethods chain ms = .ok (c, evs)) : ∀ ev ∈ evs, Returnable ev.got ev.want := by
  cases ms with
  | nil => simp only [elabMethods] at h; cases h; simp
  | cons name rt b r =>
    simp only [elabMethods] at h
    split at h
    · cases h
    · split at h
      · cases h
      · rename_i c1 e1 hb
        split at h
        · cases h
        · rename_i c1' hp
          split at h
          · cases h
          · rename_i c2 e2 hr
            cases h
            intro ev hev
            rcases List.mem_append.mp hev with h1 | h2
            · exact elabItems_returnable name _ b c1 e1 hb ev h1
            · exact elabMethods_returnable c1' r _ _ hr ev h2
end

/-- a return written directly in a body appears in the reference semantics with the body's own function and return type -/
theorem directRets_spec (owner : String) (R : Code) (T : Option Code) (b : Items) :
    ∀ o ∈ directRets b, (⟨owner, R, o.map (resolveSpec T)⟩ : Ev) ∈ specItems owner R T b := by
  match b with
  | .nil => intro o ho; simp [directRets] at ho
  | .cons (.ret o') r =>
    intro o ho
    simp only [directRets, List.mem_cons] at ho
    simp only [specItems, specItem, List.mem_append, List.mem_singleton]
    rcases ho with rfl | ho
    · exact Or.inl rfl
    · exact Or.inr (directRets_spec owner R T r o ho)
  | .cons (.blk b') r =>
    intro o ho
    simp only [directRets, List.mem_append] at ho
    simp only [specItems, specItem, List.mem_append]
    rcases ho with ho | ho
    · exact Or.inl (directRets_spec owner R T b' o ho)
    · exact Or.inr (directRets_spec owner R T r o ho)
  | .cons (.st _ _ _) r =>
    intro o ho
    simp only [directRets] at ho
    simp only [specItems, List.mem_append]
    exact Or.inr (directRets_spec owner R T r o ho)
  | .cons (.ft _ _ _ _) r =>
    intro o ho
    simp only [directRets] at ho
    simp only [specItems, List.mem_append]
    exact Or.inr (directRets_spec owner R T r o ho)

/-! ## the property theorems -/

/-- **Main theorem.**  Check the body `b` of a function `name` that returns `R` (its scope, holding `R`, entered from any
    chain of scopes).  If the body is accepted then (1) the scope chain is back where it was, and (2) the checked return
    statements — of this function and of every function checked re-entrantly on the way, struct-template methods and
    function-template instances nested to any depth — are exactly those of the structural reference semantics: each one
    checked against, and converted to, the return type of the function node that textually contains it.  No bound on the number
    of instantiations, of methods, of nesting. -/
theorem return_type_is_enclosing_functions (name : String) (R : Code) (chain : List Frame) (b : Items)
    (c : List Frame) (evs : List Ev)
    (h : elabItems name ({ fnRet := some R } :: chain) b = .ok (c, evs)) :
    c = { fnRet := some R } :: chain ∧ evs = specItems name R (currentT chain) b := by
  have := elabItems_spec name (({ fnRet := some R } : Frame) :: chain) R b c evs (by simp) h
  simpa using this

/-- the direct returns of the function: whatever was instantiated before them, each is recorded for `name` with type `R` -/
theorem direct_returns_get_the_functions_type (name : String) (R : Code) (chain : List Frame) (b : Items)
    (c : List Frame) (evs : List Ev)
    (h : elabItems name ({ fnRet := some R } :: chain) b = .ok (c, evs)) :
    ∀ o ∈ directRets b, (⟨name, R, o.map (resolveSpec (currentT chain))⟩ : Ev) ∈ evs := by
  have hs := (return_type_is_enclosing_functions name R chain b c evs h).2
  intro o ho
  rw [hs]
  exact directRets_spec name R (currentT chain) b o ho

/-- every return statement of an accepted body — at any nesting of instantiations — is returnable from the function that
    contains it: the operand converts to that function's return type, a bare `return` only in a void function -/
theorem accepted_returns_are_returnable (name : String) (R : Code) (chain : List Frame) (b : Items)
    (c : List Frame) (evs : List Ev)
    (h : elabItems name ({ fnRet := some R } :: chain) b = .ok (c, evs)) :
    ∀ ev ∈ specItems name R (currentT chain) b, Returnable ev.got ev.want := by
  have hs := (return_type_is_enclosing_functions name R chain b c evs h).2
  rw [← hs]
  exact elabItems_returnable name _ b c evs h

/-- **Rejection.**  A function returning `R` whose body contains — after any instantiations — a direct `return` of a value
    whose type does not convert to `R` (or a bare `return` although `R` is not void) is never accepted. -/
theorem elab_rejects_unconvertible_return_after_instantiations (name : String) (R : Code) (chain : List Frame) (b : Items)
    (o : Option TyRef) (ho : o ∈ directRets b)
    (hbad : ¬ Returnable (o.map (resolveSpec (currentT chain))) R) :
    ∀ c evs, elabItems name ({ fnRet := some R } :: chain) b ≠ .ok (c, evs) := by
  intro c evs h
  have hmem := directRets_spec name R (currentT chain) b o ho
  exact hbad (accepted_returns_are_returnable name R chain b c evs h _ hmem)

/-- the same for the methods of a struct (template instance or ordinary struct) checked in any non-empty chain -/
theorem methods_return_their_own_types (chain : List Frame) (ms : Methods) (c : List Frame) (evs : List Ev)
    (hne : chain ≠ []) (h : elabMethods chain ms = .ok (c, evs)) :
    c = chain ∧ evs = specMethods (currentT chain) ms :=
  elabMethods_spec chain ms c evs hne h

/-! ## non-vacuity -/

/-- `int2 g() { B<float> b; return gf2; }` with `template<typename T> struct B { T v; T get() { return v; } };`: accepted, the
    function's return is converted to `int2`, the method's to `float` -/
example :
    elabItems "g" ({ fnRet := some .i2 } :: rootChain)
      (.cons (.st true (.lit .f) (.cons "get" .tparam (.cons (.ret (some .tparam)) .nil) .nil)) (.cons (.ret (some (.lit .f2))) .nil))
    = .ok ({ fnRet := some .i2 } :: rootChain, [⟨"get", .f, some .f⟩, ⟨"g", .i2, some .f2⟩]) := by rfl

/-- `float f() { B<S0> b; return gs0; }` (the demonstration of seeded mutant C03-6): rejected, expected type `float` -/
example :
    elabItems "f" ({ fnRet := some .f } :: rootChain)
      (.cons (.st true (.lit .s0) (.cons "get" .tparam (.cons (.ret (some .tparam)) .nil) .nil)) (.cons (.ret (some (.lit .s0))) .nil))
    = .error (.wrongReturn .s0 .f) := by rfl

/-- hypotheses of the rejection theorem are satisfiable: that program has the direct return `gs0`, not returnable from `float` -/
example : (some (.lit .s0) : Option TyRef) ∈ directRets
      (.cons (.st true (.lit .s0) (.cons "get" .tparam (.cons (.ret (some .tparam)) .nil) .nil)) (.cons (.ret (some (.lit .s0))) .nil))
    ∧ ¬ Returnable ((some (.lit .s0) : Option TyRef).map (resolveSpec (currentT rootChain))) .f :=
  ⟨by simp [directRets], by simp [Returnable, resolveSpec, conv, Code.numeric]⟩

/-- nesting: a function template whose body names a struct template with `T`, a void method with a bare return, a return in a block -/
example :
    elabItems "h" ({ fnRet := some .s1 } :: rootChain)
      (.cons (.ft "ft" .tparam (.lit .i2)
          (.cons (.st false .tparam (.cons "m0" (.lit .void) (.cons (.ret none) .nil) (.cons "m1" .tparam (.cons (.ret (some (.lit .b))) .nil) .nil)))
            (.cons (.blk (.cons (.ret (some .tparam)) .nil)) .nil)))
        (.cons (.ret (some (.lit .s1))) .nil))
    = .ok ({ fnRet := some .s1 } :: rootChain,
        [⟨"m0", .void, none⟩, ⟨"m1", .i2, some .b⟩, ⟨"ft", .i2, some .i2⟩, ⟨"h", .s1, some .s1⟩]) := by rfl

end RsslVerif.Thm.C03R

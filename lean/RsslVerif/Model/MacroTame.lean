import RsslVerif.Model.Macro
/-!
# The tame class, decided (C12)

`tameRun fuel env toks` reads a token list the way `Lemmas/MacroTame.lean` describes a *tame* expansion (keep a token,
or invoke an enabled macro: read the arguments, expand each on its own, substitute, expand the replacement list with
the macro disabled, continue behind the result) and checks the side conditions of that description on the way.  It
answers `some out` only for inputs on which rssl's `apply_macros` and the C algorithm provably agree
(`Thm.C12.tame_refines_spec`); `none` means "outside the class" (or not enough fuel).  Executable, core Lean only:
the driver uses it to classify the cases of the correspondence run.
-/
namespace RsslVerif.Model.MacroTame
open RsslVerif.Model.Macro

/-- the first token that is not white space (blank, comment, line end) -/
def firstTok : List PTok → Option Tok
  | [] => none
  | t :: r => if t.tok.isWhitespace then firstTok r else some t.tok

/-- the C reading of "followed by `(`": the next preprocessing token is `(` -/
def startsParen (l : List PTok) : Bool := firstTok l == some .lparen

/-- the last token that is not white space -/
def lastTok : List PTok → Option Tok
  | [] => none
  | t :: r =>
    match lastTok r with
    | some k => some k
    | none => if t.tok.isWhitespace then none else some t.tok

/-- first entry called `n`, with its index -/
def findName (n : String) : List Entry → Nat → Option (Nat × Entry)
  | [], _ => none
  | e :: es, i => if e.m.name = n then some (i, e) else findName n es (i + 1)

/-- the enabled entry an identifier selects -/
def selectIdx (env : List Entry) (n : String) : Option (Nat × Entry) :=
  match findName n env 0 with
  | some (mi, e) => if e.disabled then none else some (mi, e)
  | none => none

/-- `Kept`, decided -/
def keptB (env : List Entry) (t : PTok) (rest : List PTok) : Bool :=
  match t.tok with
  | .concat => false
  | .id n => env.all (fun e => e.m.name != n || e.disabled || (e.m.isFunction && !startsParen rest))
  | _ => true

/-- `OnlyDisabled`, decided -/
def onlyDisabledB (env : List Entry) (l : List PTok) : Bool :=
  l.all (fun t =>
    match t.tok with
    | .id n => env.all (fun e => e.m.name != n || e.disabled)
    | _ => true)

/-- `AllKept`, decided: no token of the list starts an operation where it stands (the list expands to itself) -/
def allKeptB (env : List Entry) : List PTok → Bool
  | [] => true
  | t :: rest => keptB env t rest && allKeptB env rest

/-- the side condition on the arguments of an invocation, decided: what an argument expanded to names disabled
macros only, or the raw argument is kept token by token (e.g. the bare name of a function-like macro that the
replacement list goes on to invoke: `APPLY(NEG, a)`) -/
def argsOKB (env : List Entry) : List (List PTok) → List (List PTok) → Bool
  | a :: as, a' :: as' => (onlyDisabledB env a' || allKeptB env a) && argsOKB env as as'
  | _, _ => true

def noFireFrom (g : String) (mi : Nat) : List Entry → Nat → Bool
  | [], _ => true
  | e :: es, j => (e.m.name != g || !e.m.isFunction || e.disabled || j == mi) && noFireFrom g mi es (j + 1)

/-- `NoFire`, decided -/
def noFireB (env : List Entry) (mi : Nat) (R rest : List PTok) : Bool :=
  if startsParen rest then
    match lastTok R with
    | some (.id g) => noFireFrom g mi env 0
    | _ => true
  else true

def mapO {α β : Type} (f : α → Option β) : List α → Option (List β)
  | [] => some []
  | a :: r =>
    match f a with
    | none => none
    | some b =>
      match mapO f r with
      | none => none
      | some bs => some (b :: bs)

def tameRun : Nat → List Entry → List PTok → Option (List PTok)
  | 0, _, _ => none
  | _ + 1, _, [] => some []
  | f + 1, env, t :: rest =>
    let keep : Option (List PTok) :=
      if keptB env t rest then
        match tameRun f env rest with
        | some out => some (t :: out)
        | none => none
      else none
    match t.tok with
    | .id n =>
      match selectIdx env n with
      | none => keep
      | some (mi, e) =>
        match readArgs e.m rest with
        | .error _ => keep
        | .ok (rest', args) =>
          match mapO (tameRun f env) args with
          | none => none
          | some args' =>
            if argsOKB env args args' then
              match substitute e.m.body args' with
              | .error _ => none
              | .ok body' =>
                match tameRun f (disable env mi) body' with
                | none => none
                | some R =>
                  if noFireB env mi R rest' then
                    match tameRun f env rest' with
                    | some out => some (R ++ out)
                    | none => none
                  else none
            else none
    | _ => keep

/-- what `Macro::parse` guarantees about a replacement list (`WFMacro`, decided), plus "no `##`" -/
def wfB (m : Macro) : Bool :=
  m.body.all (fun t =>
    match t.tok with
    | .hashhash => false
    | .concat => false
    | .id s => s.toList.head? != some '$'
    | .arg i => decide (i < m.numParams) && m.isFunction
    | _ => true)


/-! ## the class with `##`: `tameRunP` decides `Lemmas.MacroTameP.TameP` -/

def dropWs (l : List PTok) : List PTok := l.dropWhile (·.tok.isWhitespace)

/-- `rest` continues a paste: white space, `##`, white space, the right operand, what follows it -/
def splitPaste (rest : List PTok) : Option (PTok × List PTok) :=
  match dropWs rest with
  | ⟨.concat, _⟩ :: r =>
    match dropWs r with
    | t2 :: rest2 => if t2.tok = .concat then none else some (t2, rest2)
    | [] => none
  | _ => none

/-- the parameters that occur next to `##` in a replacement list; `prev`: the last token passed that is not white
space -/
def pasteParams : Option Tok → List PTok → List Nat
  | _, [] => []
  | prev, t :: rest =>
    let more := pasteParams (if t.tok.isWhitespace then prev else some t.tok) rest
    match t.tok with
    | .arg i => if prev == some .concat || firstTok rest == some .concat then i :: more else more
    | _ => more

def noConcatB (l : List PTok) : Bool := l.all (fun t => t.tok != .concat)

def noNamesB (env : List Entry) (l : List PTok) : Bool :=
  l.all (fun t => match t.tok with
    | .id n => env.all (fun e => e.m.name != n || e.disabled)
    | _ => true)

def nonEmptyB (l : List PTok) : Bool := l.any (fun t => !t.tok.isWhitespace)

def tameRunP : Nat → List Entry → List PTok → Option (List PTok)
  | 0, _, _ => none
  | _ + 1, _, [] => some []
  | f + 1, env, t :: rest =>
    match (if t.tok.isWhitespace then none else splitPaste rest) with
    | some (t2, rest2) =>
      -- `t ## t2`: neither operand is expanded, the merged token names no enabled macro
      if keptB env t rest then
        match pasteTokens t t2 with
        | .ok m => if onlyDisabledB env [m] then tameRunP f env (m :: rest2) else none
        | .error _ => none
      else none
    | none =>
      let keep : Option (List PTok) :=
        if keptB env t rest then
          match tameRunP f env rest with
          | some out => some (t :: out)
          | none => none
        else none
      match t.tok with
      | .id n =>
        match selectIdx env n with
        | none => keep
        | some (mi, e) =>
          match readArgs e.m rest with
          | .error _ => keep
          | .ok (rest', args) =>
            if args.all noConcatB &&
                (pasteParams none e.m.body).all (fun i => noNamesB env (args.getD i []) && nonEmptyB (args.getD i [])) then
              match mapO (tameRunP f env) args with
              | none => none
              | some args' =>
                if argsOKB env args args' then
                  match substitute e.m.body args' with
                  | .error _ => none
                  | .ok body' =>
                    match tameRunP f (disable env mi) body' with
                    | none => none
                    | some R =>
                      if noFireB env mi R rest' then
                        match tameRunP f env rest' with
                        | some out => some (R ++ out)
                        | none => none
                      else none
                else none
            else none
      | _ => keep

/-- `WFMacro` without "no `##`" -/
def wfPB (m : Macro) : Bool :=
  m.body.all (fun t =>
    match t.tok with
    | .hashhash => false
    | .id s => s.toList.head? != some '$'
    | .arg i => decide (i < m.numParams) && m.isFunction
    | _ => true)


end RsslVerif.Model.MacroTame

import RsslVerif.Gen.HlslVecTables
import RsslVerif.Model.Ir
import RsslVerif.Model.HlslAst
/-!
# `Model.IrVec` — vector expression layer over the scalar model

`VExpr` mirrors the part of `ir::Expression` that changes *shape*: `Cast` to / from vector types, `Swizzle`,
numeric `Constructor` (with its `ConstructorSlot { arity, expr }`), component-wise `IntrinsicOp`s, `&&` / `||` and
`TernaryConditional` on vectors, references to vector-typed locals / globals.  A maximal sub-expression that
involves no vector at all is a leaf `sc e` holding an expression of the scalar model (`Model.Ir`), so that the
scalar theorems are re-used for it.  `VAExpr` is the corresponding fragment of `rssl_ast::Expression`
(`Identifier`, `Cast`, `Member`, `Call` of a type name, `UnaryOperation`, `BinaryOperation`,
`TernaryConditional`), again with leaves of the scalar syntax model.

Not in this layer (the vector stream of the harness covers them by test only): assignment to vectors and swizzles,
increment / decrement of vectors, matrices, structs, arrays, enums, user calls with vector arguments.
-/
namespace RsslVerif.Model.IrVec
open RsslVerif.Gen.HlslGenTables RsslVerif.Gen.HlslVecTables RsslVerif.Model
open RsslVerif.Model.Ir (Ty)

/-- numeric types of the layer: `TypeLayer::Scalar(t)` / `TypeLayer::Vector(t, n)` -/
inductive VTy where
  | sc (t : Ty)
  | vec (t : Ty) (n : Nat)
  deriving DecidableEq, Repr, Inhabited

def VTy.scalar : VTy → Ty
  | .sc t => t
  | .vec t _ => t

/-- number of components (`TypeLayer::get_num_elements`) -/
def VTy.count : VTy → Nat
  | .sc _ => 1
  | .vec _ n => n

def VTy.withScalar : VTy → Ty → VTy
  | .sc _, k => .sc k
  | .vec _ n, k => .vec k n

mutual
inductive VExpr where
  | sc (e : Ir.Expr)                       -- a sub-expression of the scalar model
  | vvar (id : Nat)                        -- Variable(id) of vector type
  | vglobal (id : Nat)                     -- Global(id) of vector type
  | cast (ty : VTy) (e : VExpr)            -- Cast(type, e)
  | swz (e : VExpr) (sl : List SwizzleSlot) -- Swizzle(e, slots)
  | ctor (ty : VTy) (slots : VSlots)       -- Constructor(type, slots)
  | op (o : IntrinsicOp) (args : VExprs)   -- IntrinsicOp(op, args), component-wise
  | tern (c t f : VExpr)                   -- TernaryConditional (scalar condition)
  deriving Repr, Inhabited
inductive VExprs where
  | nil
  | cons (e : VExpr) (r : VExprs)
  deriving Repr, Inhabited
/-- `Vec<ConstructorSlot>` -/
inductive VSlots where
  | nil
  | cons (arity : Nat) (e : VExpr) (r : VSlots)
  deriving Repr, Inhabited
end

/-- an unsuffixed typed `Int32` constant (printed as a literal int) directly as an operand -/
def VExpr.litlike : VExpr → Bool
  | .sc (.lit (.int32 _)) => true
  | _ => false

mutual
/-- emitted syntax -/
inductive VAExpr where
  | sc (a : HlslAst.Expr)
  | ident (s : String)
  | cast (ty : String) (e : VAExpr)
  | member (e : VAExpr) (m : String)
  | call (f : String) (args : VAExprs)     -- Call(Identifier(type name), [], args): a numeric constructor
  | un (op : UnaryOp) (e : VAExpr)
  | bin (op : BinOp) (a b : VAExpr)
  | tern (c t f : VAExpr)
  deriving Repr, Inhabited
inductive VAExprs where
  | nil
  | cons (e : VAExpr) (r : VAExprs)
  deriving Repr, Inhabited
end

end RsslVerif.Model.IrVec

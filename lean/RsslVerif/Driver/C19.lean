import RsslVerif.Model.Layout
import RsslVerif.Model.LayoutCollect
import RsslVerif.Driver.Util
/-!
Line-protocol front end of the C19 model.

`C19.check \t <use> \t <type>;<type>;…` → the verdict of `Model.Layout.checkAll` in the harness's
observation syntax (see harness/src/c19.rs for the type syntax).
-/
namespace RsslVerif.Driver.C19
open RsslVerif.Gen.LayoutTables RsslVerif.Model.Layout RsslVerif.Driver

def tokens (s : String) : List String :=
  let rec go (cs : List Char) (cur : List Char) (acc : List String) : List String :=
    let flush := if cur.isEmpty then acc else String.ofList cur.reverse :: acc
    match cs with
    | [] => flush.reverse
    | c :: r =>
      if c == '{' || c == '}' || c == '[' || c == ']' then go r [] (String.singleton c :: flush)
      else if c == ' ' then go r [] flush
      else go r (c :: cur) acc
  go s.toList [] []

def scalarOf (c : Char) : Option Scalar :=
  if c == 'h' then some .Float16 else if c == 'i' then some .Int32 else if c == 'u' then some .UInt32
  else if c == 'f' then some .Float32 else if c == 'd' then some .Float64
  else if c == 'b' then some .Bool else none

def digit? (c : Char) : Option Nat :=
  if '0' ≤ c ∧ c ≤ '9' then some (c.toNat - '0'.toNat) else none

def leafOf (w : String) : Option Ty :=
  if w == "ei" then some (.enum .Int32)
  else if w == "eu" then some (.enum .UInt32)
  else if w.startsWith "@" then some (.other .Object)
  else if w == "v" then some (.other .Void)
  else match w.toList with
    | [c] => (scalarOf c).map .scalar
    | [c, n] => do let s ← scalarOf c; let n ← digit? n; pure (.vec s n)
    | [c, _, 'x', _] => (scalarOf c).map fun _ => .other .Matrix
    | [c, _, 'x', _, m] => if m == 'r' || m == 'c' then (scalarOf c).map fun _ => .other .Matrix else none
    | _ => none

def natOfChars (cs : List Char) : Option Nat :=
  if cs.isEmpty then none else cs.foldlM (fun acc c => (digit? c).map fun d => acc * 10 + d) 0

/-- `$k` / `c$k`: the type named by entry `k` of the request's type table; `true` = with `const` in front -/
def refOf? (w : String) : Option (Nat × Bool) :=
  match w.toList with
  | '$' :: r => (natOfChars r).map fun k => (k, false)
  | 'c' :: '$' :: r => (natOfChars r).map fun k => (k, true)
  | _ => none

/- `tab` = the (expanded) earlier entries of the type table: the model's types are structures, a reference is
   replaced by what it names (`get_type_layout` has no state that could tell a shared struct from a copy:
   `Thm.C19.layout_functions_are_pure`). -/
mutual
partial def parseTy (tab : List Ty) : List String → Option (Ty × List String)
  | "{" :: r => do
    let (ms, r) ← parseMembers tab r
    pure (.struct (Tys.ofList ms), r)
  | "[" :: n :: r => do
    let n ← n.toNat?
    let (t, r) ← parseTy tab r
    match r with
    | "]" :: r => pure (.arr t n, r)
    | _ => none
  | w :: r =>
    match refOf? w with
    -- `const` is not a valid modifier of a field: `c$k` only as a whole entry (`parseEntry`)
    | some (k, false) => (tab[k]?).map fun t => (t, r)
    | some (_, true) => none
    | none => (leafOf w).map fun t => (t, r)
  | [] => none
partial def parseMembers (tab : List Ty) : List String → Option (List Ty × List String)
  | "}" :: r => some ([], r)
  | r => do
    let (t, r) ← parseTy tab r
    let (ts, r) ← parseMembers tab r
    pure (t :: ts, r)
end

def parseType (s : String) : Option Ty :=
  match parseTy [] (tokens s) with
  | some (t, []) => some t
  | _ => none

/-- one entry of a `C19.prog` type table, given the earlier entries -/
def parseEntry (tab : List Ty) (s : String) : Option Ty :=
  match tokens s with
  | [w] =>
    match refOf? w with
    | some (k, _) => tab[k]?
    | none => (leafOf w)
  | toks =>
    match parseTy tab toks with
    | some (t, []) => some t
    | _ => none

def parseTable (strs : List String) : Option (List Ty) :=
  let rec go : List String → List Ty → Option (List Ty)
    | [], acc => some acc
    | s :: rest, acc =>
      match parseEntry acc s with
      | some t => go rest (acc ++ [t])
      | none => none
  go strs []

mutual
def mentionsVoid : Ty → Bool
  | .other .Void => true
  | .arr t _ => mentionsVoid t
  | .struct ms => mentionsVoidMembers ms
  | _ => false
def mentionsVoidMembers : Tys → Bool
  | .nil => false
  | .cons t ts => mentionsVoid t || mentionsVoidMembers ts
end

def isStruct : Ty → Bool
  | .struct _ => true
  | _ => false

/-- the diagnostic's location: structured-buffer globals always have one; a typed load/store is
    reported at the struct's definition (`get_type_location`), unknown for other types -/
def showIndex (use : String) (ts : List Ty) (i : Nat) : String :=
  if use == "sb" || use == "rwsb" then toString i
  else match ts[i]? with
    | some t => if isStruct t then toString i else "?"
    | none => "?"

def showVerdict (use : String) (ts : List Ty) : Verdict → String
  | .ok => "ok"
  | .unknown i => "unknown@" ++ showIndex use ts i
  | .mismatch i h m =>
    "mismatch@" ++ showIndex use ts i ++ " hlsl=" ++ toString h.size ++ "/" ++ toString h.align ++
      " metal=" ++ toString m.size ++ "/" ++ toString m.align
  | .panic msg => "panic:" ++ msg

def uses : List String := ["sb", "rwsb", "bload", "rwbload", "rwbstore", "baload", "rwbaload", "rwbastore"]

/-! ### whole programs (`C19.prog`) -/
open RsslVerif.Model.LayoutCollect

/-- does the type mention a struct or an enum (whose every spelling is a fresh definition)? -/
def mentionsDefinition (toks : List String) : Bool :=
  toks.any fun w => w == "{" || w == "ei" || w == "eu"

def constKey (key : String) : String := if key.startsWith "c" then key else "c" ++ key

/-- the key under which the type registry interns a type of the request: its position for anything that
    defines a struct / enum, its (modifier-free) spelling otherwise (a `$j` inside stands for entry `j`'s key);
    an entry that is just `$j` is another name of entry `j` (a typedef: the same type id), `c$j` is the
    const-qualified entry `j` (a type id of its own, the same for every spelling of it); `keys` = the keys of the earlier entries -/
def typeKey (keys : List String) (k : Nat) (s : String) : String :=
  let toks := tokens s
  let whole : Option String :=
    match toks with
    | [w] => (refOf? w).map fun (j, c) => let kj := keys.getD j "?"; if c then constKey kj else kj
    | _ => none
  match whole with
  | some key => key
  | none =>
    if mentionsDefinition toks then "#" ++ toString k
    else " ".intercalate (toks.map fun w =>
      match refOf? w with
      | some (j, _) => "(" ++ keys.getD j "?" ++ ")"
      | none =>
        match w.toList with
        | [a, b, 'x', d, _] => String.ofList [a, b, 'x', d]
        | _ => w)

def tableKeys (strs : List String) : List String :=
  let rec go : List String → Nat → List String → List String
    | [], _, acc => acc
    | s :: rest, k, acc => go rest (k + 1) (acc ++ [typeKey acc k s])
  go strs 0 []

def constIdBase : Nat := 1000000

/-- type id of the `k`-th type of the request: the first position with the same key; a const-qualified type
    gets `constIdBase +` the id of the type below the qualifier -/
def typeId (keys : List String) (k : Nat) : Nat :=
  match keys[k]? with
  | none => k
  | some key =>
    if key.startsWith "c" then
      let base := String.ofList (key.toList.drop 1)
      constIdBase + (keys.findIdx? (· == base)).getD k
    else (keys.findIdx? (· == key)).getD k

def constId (id : Nat) : Nat := if id ≥ constIdBase then id else id + constIdBase

/-- `T<id>` of a const-qualified type is the location of the struct below the qualifier (`get_type_location`
    removes the modifier) -/
def fixLoc (loc : String) : String :=
  match loc.toList with
  | 'T' :: r =>
    match natOfChars r with
    | some n => if n ≥ constIdBase then "T" ++ toString (n - constIdBase) else loc
    | none => loc
  | _ => loc

structure PSite where
  kind : String
  wrap : String
  ty : Nat

def parseSite (s : String) : Option PSite :=
  match s.splitOn "@" with
  | [lhs, k] => do
    let k ← k.toNat?
    match lhs.splitOn "." with
    | [kind] => pure ⟨kind, "", k⟩
    | [kind, wrap] => pure ⟨kind, wrap, k⟩
    | _ => none
  | _ => none

def globalKinds : List String :=
  ["sb", "rwsb", "sbc", "sbtd", "sbreg", "sbarr", "rwsbarr", "sbarr2", "sbarru", "sbbl", "sbtdarr", "sbarrtd", "sbarrtd2", "sbmem",
   "sbparam", "cb", "cbuf", "gv", "gs", "st", "sbmulti", "sbns", "sbst", "sbex", "sblocal", "cbmem", "sbtwo", "decoy"]
def modes : List String := ["np", "pipe", "npo", "pname"]
/-- wrappers that only exist for the plain typed loads -/
def plainLoadWraps : List String := ["gi", "da", "dt", "dta", "pd", "sl"]
def fnKinds : List String :=
  ["bload", "bload2", "rwbload", "rwbload2", "rwbstore", "rwbstoret", "baload", "rwbaload", "rwbastore", "rwbastoret"]
def wraps : List String :=
  ["m", "u", "t", "t0", "me", "p", "a", "gi", "da", "ex", "dt", "dta",
   "pd", "pf", "ns", "lp", "tt", "two", "tm", "mt", "sl", "hb"]

/-- what the type checker makes of a global declaration of the given kind (`none`: no entry in the global
    registry that matters).  An extern global's *base* type is made `const` before the declarator's array
    dimensions are applied (`parse_globaltype`: "all extern variables are implicitly const"), so `T g[4]` is
    `Array(Modifier(const, T))` and, with `typedef T A[2]`, `A g[3]` is `Array(Modifier(const, Array(T)))`. -/
def globalOf (kind : String) (r : TyRef) (i : Nat) : List GTy :=
  let one (x : GTy) : List GTy := [x]
  let sb := GTy.modifier (.object "StructuredBuffer" (some r))
  let rwsb := GTy.modifier (.object "RWStructuredBuffer" (some r))
  if kind == "sb" || kind == "sbtd" || kind == "sbreg" then one sb
  else if kind == "rwsb" then one rwsb
  -- `const StructuredBuffer<const S>`: the element is the type id of `const S`, not of `S`
  else if kind == "sbc" then one (.modifier (.object "StructuredBuffer" (some ⟨constId r.id, r.ty⟩)))
  else if kind == "sbarr" || kind == "sbarru" || kind == "sbbl" then one (.array sb)
  else if kind == "rwsbarr" then one (.array rwsb)
  else if kind == "sbarr2" then one (.array (.array sb))
  else if kind == "sbtdarr" then one (.modifier (.array (.object "StructuredBuffer" (some r))))
  else if kind == "sbarrtd" then one (.array (.modifier (.array (.object "StructuredBuffer" (some r)))))
  else if kind == "sbarrtd2" then
    one (.array (.modifier (.array (.modifier (.array (.object "StructuredBuffer" (some r)))))))
  else if kind == "cb" then one (.modifier (.object "ConstantBuffer" (some r)))
  -- two declarators of one declaration: two entries of the global registry (both named at the same line)
  else if kind == "sbmulti" then [.array sb, sb]
  -- a namespace does not change the type; `extern` is what a global is anyway
  else if kind == "sbns" || kind == "sbex" then one sb
  -- a `static` global is not extern: its type is not made const
  else if kind == "sbst" then one (.object "StructuredBuffer" (some r))
  -- a local variable is not in the global registry
  else if kind == "sblocal" then []
  -- one struct template `WT<T> { T m; }` instantiated with `float` and with the site's type: two struct types of their own
  else if kind == "sbtwo" then
    [.modifier (.object "StructuredBuffer" (some ⟨6000000 + i, .struct (Tys.ofList [.scalar .Float32])⟩)),
     .modifier (.object "StructuredBuffer" (some ⟨5000000 + i, .struct (Tys.ofList [r.ty])⟩))]
  -- resources of other kinds, plain variables, and structured buffers of scalars (8 / 8, they agree)
  else if kind == "decoy" then
    [.modifier (.object "Buffer" none), .modifier (.object "RWBuffer" none), .modifier (.object "Texture2D" none),
     .modifier (.object "RWTexture2D" none), .modifier (.object "SamplerState" none),
     .modifier (.object "ByteAddressBuffer" none), .other, .other, .other, .modifier (.object "RWByteAddressBuffer" none),
     .modifier (.object "StructuredBuffer" (some ⟨7000000, .scalar .Float32⟩)),
     .modifier (.object "RWStructuredBuffer" (some ⟨7000001, .scalar .UInt32⟩))]
  -- `ConstantBuffer<H>` where `H` has a structured-buffer member: an object the loop does not match
  else if kind == "cbmem" then one (.modifier (.object "ConstantBuffer" none))
  else if kind == "sbparam" then []
  else one .other

def intrinsicOf (kind : String) : String :=
  if kind == "bload" || kind == "bload2" then "ByteAddressBufferLoadT"
  else if kind == "rwbload" || kind == "rwbload2" then "RWByteAddressBufferLoadT"
  else if kind == "rwbstore" || kind == "rwbstoret" then "RWByteAddressBufferStore"
  else if kind == "baload" then "BufferAddressLoad"
  else if kind == "rwbaload" then "RWBufferAddressLoad"
  else "RWBufferAddressStore"

/-- the module the front end builds from the request's sites: globals in source order; intrinsic
    instantiations in the order the bodies are type checked (functions before `main`, then the statements of
    `main`, a function template being instantiated where it is called, never when it is not) -/
def moduleOf (refs : List TyRef) (sites : List PSite) : Module :=
  let indexed := sites.zipIdx
  let refOf (s : PSite) : TyRef := refs.getD s.ty ⟨0, .other .Void⟩
  let globals := indexed.flatMap fun (s, i) =>
    if s.wrap == "" then (globalOf s.kind (refOf s) i).map fun g => (⟨g, "G" ++ toString i⟩ : Global) else []
  -- `dt` / `dta`: the type argument is the template parameter itself / an array of it (a type of its own)
  let fnOf (si : PSite × Nat) : List Fn :=
    let s := si.1
    let r : TyRef :=
      if s.wrap == "dt" then ⟨2000000 + si.2, .other .TemplateParam⟩
      else if s.wrap == "dta" then ⟨2000000 + si.2, .arr (.other .TemplateParam) 2⟩
      else refOf s
    let f : Fn := ⟨some (intrinsicOf s.kind), some [.type r]⟩
    -- `two`: the function template is first instantiated with the wrapper's own struct `Z { float z; }`
    if s.wrap == "two" then
      [⟨some (intrinsicOf s.kind), some [.type ⟨3000000 + si.2, .struct (Tys.ofList [.scalar .Float32])⟩]⟩, f]
    else [f]
  let early := indexed.filter fun (s, _) => ["u", "p", "me", "gi", "da", "dt", "dta", "pd", "ns", "lp"].contains s.wrap
  -- instantiated from main, in statement order: function templates (also through another template, also twice), the
  -- methods of a struct template when `W<S>` is named, method templates; a static local; a buffer member of a global
  let late := indexed.filter fun (s, _) => ["m", "a", "t", "ex", "tt", "two", "tm", "mt", "sl", "hb"].contains s.wrap
  -- a body that follows main is type checked after it (the prototype before main has no body)
  let post := indexed.filter fun (s, _) => s.wrap == "pf"
  ⟨globals, (early ++ late ++ post).flatMap fnOf⟩

def showProgVerdict (entries : List Entry) : Verdict → String
  | .ok => "ok"
  | .unknown i => "unknown@" ++ fixLoc (((entries[i]?).map (·.loc)).getD "?")
  | .mismatch i h m =>
    "mismatch@" ++ fixLoc (((entries[i]?).map (·.loc)).getD "?") ++ " hlsl=" ++ toString h.size ++ "/" ++ toString h.align ++
      " metal=" ++ toString m.size ++ "/" ++ toString m.align
  | .panic msg => "panic:" ++ msg

def handleProg (head tys sites : String) : String :=
  match head.splitOn ":" with
  | [target, mode, style] =>
    if !(["vk", "dx", "msl"].contains target && modes.contains mode && style.toNat?.isSome) then "bad-request"
    else
      let tyStrs := tys.splitOn ";"
      -- a type name the language does not have: the front end reports it
      if tyStrs.any fun s => (tokens s).any fun w => w.startsWith "?" then "error" else
      match parseTable tyStrs, sequenceOpt ((sites.splitOn ",").map parseSite) with
      | some ts, some ss =>
        if ss.any fun s => s.ty ≥ ts.length ||
            !(if s.wrap == "" then globalKinds.contains s.kind else fnKinds.contains s.kind && wraps.contains s.wrap) ||
            (plainLoadWraps.contains s.wrap && !["bload", "rwbload", "baload", "rwbaload"].contains s.kind) ||
            (s.wrap == "ex" && !["bload", "bload2", "rwbload", "rwbload2", "baload", "rwbaload"].contains s.kind)
        then "bad-request"
        -- `void` only as the whole type argument of a typed load that is type checked
        else if (tyStrs.zip ts).zipIdx.any fun ((str, t), k) =>
            mentionsVoid t &&
              !(tokens str == ["v"] && (ss.filter fun s => s.ty == k).all fun s =>
                  ["bload", "bload2", "rwbload", "rwbload2", "baload", "rwbaload"].contains s.kind &&
                  ["m", "u", "me", "p", "a"].contains s.wrap)
        then "bad-request"
        else
          let keys := tableKeys tyStrs
          let refs := ts.zipIdx.map fun (t, k) => (⟨typeId keys k, t⟩ : TyRef)
          let m := moduleOf refs ss
          match collect m with
          | .ok entries => showProgVerdict entries (checkAll (entries.map (·.ref.ty)))
          | .error (.panic msg) => "panic:" ++ msg
          | .error .unknown => "panic:model"
      | _, _ => "bad-request"
  | _ => "bad-request"

def handle (op : String) (args : List String) : String :=
  match op, args with
  | "C19.check", [use, tys] =>
    if !uses.contains use || (tokens tys).contains "v" then "bad-request" else
    match sequenceOpt ((tys.splitOn ";").map parseType) with
    | some ts => showVerdict use ts (checkAll ts)
    | none => "bad-request"
  | "C19.prog", [head, tys, sites] => handleProg head tys sites
  | _, _ => "unsupported-op"

end RsslVerif.Driver.C19

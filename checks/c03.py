"""C03 — accepted programs elaborate to well-typed IR; ill-typed programs are rejected."""
import re

T = "RsslVerif.Thm.C03."
TX = "RsslVerif.Thm.C03X."
TD = "RsslVerif.Thm.C03D."
TR = "RsslVerif.Thm.C03R."

NONCONST = set("vrkun")


def nontrivial(req, obs):
    f = req.split("\t")
    if f[0] == "C03.conv":
        return True
    if f[0] in ("C03.type", "C03.typex"):
        return obs.count(" ") >= 1            # at least two typed nodes
    if f[0] == "C03.ret":
        # a template instantiated inside a function body, or more than one function, and at least one return statement
        return len(f) == 2 and ("(st " in f[1] or "(ft " in f[1] or "(sm " in f[1]) and "(ret " in f[1]
    if f[0] == "C03.decl":
        # a named type carrying a modifier, or a modifier at the use site, and a declaration the checker accepts
        return len(f) == 7 and (f[3] not in ("-", "0") or f[4] != "-") and obs.startswith("decl ")
    if f[0] == "C03.progx":
        return len(f) >= 7 and any(k in f[5] for k in ("(un ", "(bin ", "(tern ", "(call ", "(icall ", "(mem ", "(idx ", "(ctor ",
                                                       "(ret ", "(decl ", "(if ", "(for ", "(while "))
    # a statement with at least one operator / call / conversion
    return len(f) >= 5 and any(k in f[4] for k in ("(un ", "(bin ", "(tern ", "(call ", "(ret ", "(init "))


def _mods(ety):
    p = ety.split("/")
    return set(p[1]) - {"-"} if len(p) == 3 else set()


def finding_key(req, obs, detail):
    """class of the failing input, decided from the innermost failing node *by the types of its operands* (the
    harness localises a panic to the smallest sub-expression that still panics): specific enough that a panic of
    the same assert for another reason is not matched"""
    d = detail or ""
    f = req.split("\t")
    m = re.match(r"FAIL:panic ([^:]+):\d+: (.*) @ \((\w+) ?(.*)\)$", d)
    if m:
        path, msg, kind, rest = m.groups()
        file = path.rsplit("/", 1)[-1]
        parts = rest.split(" ")
        if kind == "bin" and len(parts) == 3 and parts[0].endswith("Assignment") and file == "intrinsics.rs" \
                and "assertion `left == right`" in msg and parts[1].startswith("L/") \
                and _mods(parts[1]) & NONCONST and "c" not in _mods(parts[1]) and parts[1][2:] != parts[2][2:]:
            return "panic intrinsics.rs: assignment family, left operand is an lvalue with a non-const modifier and the right operand has another type"
        if kind == "un" and len(parts) == 2 and parts[0] in ("PostfixIncrement", "PostfixDecrement") and file == "expressions.rs" \
                and "Rvalue] != [" in msg and _mods(parts[1]) & NONCONST:
            return "panic expressions.rs: postfix ++/-- on an lvalue with a non-const modifier"
        if kind == "tern" and len(parts) == 3 and file == "expressions.rs" and "assertion `left == right`" in msg \
                and _mods(parts[1]) & set("rk"):
            return "panic expressions.rs: ?: whose second operand is row_major/column_major and needs a numeric conversion"
        if kind == "un" and len(parts) == 2 and parts[0] == "LogicalNot" and "/m." in parts[1]:
            if "/m.Bool." in parts[1] and file == "intrinsics.rs" and "invalid logical not intrinsic" in msg:
                return "panic intrinsics.rs: ! on a bool matrix"
            if "/m.Bool." not in parts[1] and file == "expressions.rs" and "unwrap()" in msg:
                return "panic expressions.rs: ! on a non-bool matrix"
        return "panic %s: %s @ (%s %s)" % (file, re.sub(r"\d+", "N", msg)[:80], kind, rest)
    m = re.match(r"FAIL:panic ([^:]+):\d+: (.*)$", d)
    if m:
        return "panic %s: %s" % (m.group(1), re.sub(r"\d+", "N", m.group(2))[:80])
    m = re.match(r"FAIL:inexact return: requires (\S+) but receives (\S+) \(modifier-only\)$", d)
    if m and "c" in m.group(1).split("/")[0] and m.group(2).split("/")[0] == "-":
        return "inexact return (modifier-only): const-qualified return type"
    m = re.match(r"FAIL:rvalue passed to out/inout parameter: Cast of lvalue (\S+) to (\S+)$", d)
    if m:
        (ma, la), (mb, lb) = (x.split("/") for x in m.groups())
        pa, pb = la.split("."), lb.split(".")
        one = (pa[0] == "v" and pb[0] == "s" and pa[2] == "1" and pa[1] == pb[1]) or \
              (pa[0] == "s" and pb[0] == "v" and pb[2] == "1" and pa[1] == pb[1])
        if (one or la == lb) and "c" not in ma:
            return "rvalue passed to out/inout parameter: T <-> T1 or modifier-only conversion of an lvalue argument"
    if re.match(r"FAIL:swizzle with \d+ components$", d):
        return "scalar / vector swizzle with more than four components"
    if re.match(r"FAIL:inexact default argument: requires (\S+) but receives (\S+)", d):
        return "default argument is neither checked against nor converted to the parameter type"
    m = re.match(r"FAIL:(assignment|increment|out/inout argument) writes to a const object per the declarations: (\S+)$", d)
    if m:
        path = m.group(2)
        # the last const mark of the access path is followed by a struct member projection: the checker types a member of a
        # const struct with the member's declared type alone (`const` of the object is lost)
        # a member of a constant buffer: its type is registered without const (unlike extern globals)
        if path.startswith("cbuffer") and not re.search(r"^cbuffer(\[a\])?:c.*:c", path):
            return "write to a member of a constant buffer (cbuffer members are not registered as const)"
        if re.search(r":c[^:]*>mem", path):
            return "write through a struct member of a const object (StructMember drops the object's const)"
        # a whole array whose elements are const: the array type itself carries no modifier
        if re.fullmatch(r"(var|global)\[a\]:c(>assigned)*", path):
            return "assignment to a whole array of const elements (the array type carries no const)"
        return "write to const per the declarations: %s" % path
    m = re.match(r"FAIL:(assignment|increment|out/inout argument) writes to a non-lvalue per the declarations: (\S+)$", d)
    if m:
        path = m.group(2)
        # an element of a value that is not an lvalue (function result, a + b, constructor, cast, a swizzle naming a
        # component twice): ArraySubscript is typed
        # as an lvalue whatever its operand is
        if re.search(r"(^(call|op|ctor|cast|tern|lit)|\[dup\])(>mem|>swz|>mswz)*>idx\[[avm]\]", path):
            return "write through a subscript of an rvalue (ArraySubscript is always typed as an lvalue)"
        return "write to a non-lvalue per the declarations: %s" % path
    m = re.match(r"FAIL:increment of a non-numeric operand: (\S+)$", d)
    if m and m.group(1).split("/")[1].split(".")[0] in ("o", "e"):
        return "increment of a non-numeric operand: struct / enum / object"
    m = re.match(r"FAIL:conv target (\S+) -> (\S+) produces (\S+) \(modifier-only\)$", d)
    if m:
        s, t, got = (x.split("/") for x in m.groups())
        if s[1] == t[1] != "-" and got[1] == "-" and t[0] == "R":
            return "conv: the target type drops the modifier shared by source and destination (numeric conversion to an rvalue)"
    return req


def shrink(req):
    """replace the statement's expression by one of its sub-expressions (as an expression statement)"""
    f = req.split("\t")
    if f[0] == "C03.ret" and len(f) == 2:
        # drop one parenthesised node (a statement, a method, a root definition) at a time
        s = f[1]
        starts = []
        for i, c in enumerate(s):
            if c == "(":
                starts.append(i)
            elif c == ")":
                j = starts.pop()
                if len(starts) >= 1:
                    yield "C03.ret\t" + (s[:j].rstrip() + s[i + 1:]).replace("( ", "(")
        return
    if f[0] == "C03.decl" and len(f) == 7:
        layers = [] if f[3] == "-" else f[3].split(",")
        for i in range(len(layers)):
            rest = layers[:i] + layers[i + 1:]
            yield "\t".join(f[:3] + [",".join(rest) if rest else "-"] + f[4:])
            if len(layers[i]) > 1:
                for j in range(len(layers[i])):
                    yield "\t".join(f[:3] + [",".join(layers[:i] + [layers[i][:j] + layers[i][j + 1:]] + layers[i + 1:])] + f[4:])
        if f[4] != "-":
            for j in range(len(f[4])):
                yield "\t".join(f[:4] + [(f[4][:j] + f[4][j + 1:]) or "-"] + f[5:])
        if f[2] != "td":
            yield "\t".join(f[:2] + ["td"] + f[3:])
        if f[5] != "local":
            yield "\t".join(f[:5] + ["local", f[6]])
        if f[1] != "s.Float32":
            yield "\t".join([f[0], "s.Float32"] + f[2:])
        return
    if f[0] == "C03.progx" and len(f) == 7:
        s = f[5]
        starts = []
        for i, c in enumerate(s):
            if c == "(":
                starts.append(i)
            elif c == ")":
                j = starts.pop()
                sub = s[j:i + 1]
                if len(starts) >= 2 and sub.split(" ")[0] in ("(un", "(bin", "(tern", "(call", "(icall", "(cast", "(mem", "(idx", "(ctor"):
                    yield "\t".join(f[:5] + ["(block (expr %s))" % sub, "any"])
        return
    if f[0] != "C03.prog" or len(f) != 6:
        return
    s = f[4]
    depth, starts = 0, []
    for i, c in enumerate(s):
        if c == "(":
            starts.append(i)
        elif c == ")":
            j = starts.pop()
            sub = s[j:i + 1]
            if len(starts) >= 1 and sub.split(" ")[0] in ("(un", "(bin", "(tern", "(call", "(cast") and sub != s:
                yield "\t".join(f[:4] + ["(expr %s)" % sub, "any"])
    _ = depth


VARS = ["-/s.Bool", "-/s.Int32", "-/s.UInt32", "-/s.Float16", "-/s.Float32", "-/s.Float64", "-/v.Float32.3", "-/v.Int32.2",
        "-/m.Float32.2.2", "-/m.Bool.2.2", "-/o.0", "c/s.Int32", "c/s.Float32", "v/s.Int32", "v/s.Float32", "r/m.Float32.2.2",
        "r/m.Int32.2.2", "cv/s.Int32"]
FUNCS = "0:1:-/s.Int32:in/-/s.Int32;0:1:-/s.Float32:in/-/s.Float32;1:1:-/s.Int32:out/-/s.Int32;" \
        "2:1:-/v.Float32.3:inout/-/v.Float32.3,in/-/s.Float32;3:1:-/o.0:in/-/o.0"
UN = ["PrefixIncrement", "PrefixDecrement", "PostfixIncrement", "PostfixDecrement", "Plus", "Minus", "LogicalNot", "BitwiseNot"]
BIN = ["Add", "Modulus", "LeftShift", "BitwiseAnd", "BooleanAnd", "LessThan", "Equality", "Assignment", "SumAssignment",
       "LeftShiftAssignment", "Sequence"]


def search(ctx):
    """witness search after a broken obligation: every unary operator on every variable kind, the binary / assignment
    operators and ?: on every pair, one-argument calls, returns and initialisers; replayed on the implementation"""
    env = ",".join(VARS) + "\t" + FUNCS
    n = len(VARS)
    ops = ["(var %d)" % i for i in range(n)] + ["(lit IntLiteral)", "(lit Float32)", "(lit Bool)"]
    reqs = []
    for u in UN:
        for x in ops:
            reqs.append("C03.prog\t%s\t-/s.Float32\t(expr (un %s %s))\tany" % (env, u, x))
    for b in BIN:
        for x in ops:
            for y in ops:
                reqs.append("C03.prog\t%s\t-/s.Float32\t(expr (bin %s %s %s))\tany" % (env, b, x, y))
    for x in ops:
        for y in ops:
            reqs.append("C03.prog\t%s\t-/s.Float32\t(expr (tern (var 0) %s %s))\tany" % (env, x, y))
        for name in range(4):
            reqs.append("C03.prog\t%s\t-/s.Float32\t(expr (call %d %s))\tany" % (env, name, x))
        for ret in ("-/s.Float32", "c/s.Float32", "-/o.0", "void"):
            reqs.append("C03.prog\t%s\t%s\t(ret %s)\tany" % (env, ret, x))
        for t in VARS:
            reqs.append("C03.prog\t%s\t-/s.Float32\t(init %s %s)\tany" % (env, t, x))
    reqs += search_ext()
    reqs += search_decl()
    reqs += search_ret()
    return reqs


def search_ret():
    """returns after an instantiation episode: every function return type x every type the last method / the function
    template returns x episode form x a value of every type (and a bare return), directly after the episode and in a block"""
    reqs = []
    types = ["f", "i", "b", "f2", "i2", "s0", "s1", "v"]
    vals = ["f", "i2", "s0", "s1", "-"]
    for outer in types:
        for last in types + ["T"]:
            lv = "-" if last == "v" else last
            for v in vals:
                for form in ("local", "cast", "sizeof", "init"):
                    reqs.append("C03.ret\t(prog (fn %s (st %s s0 (m %s (ret %s))) (ret %s)))" % (outer, form, last, lv, v))
                reqs.append("C03.ret\t(prog (fn %s (st local f (m i (ret i)) (m %s (ret %s))) (if (ret %s))))" % (outer, last, lv, v))
                reqs.append("C03.ret\t(prog (fn %s (ft %s s1 (ret %s)) (ret %s)))" % (outer, last, lv, v))
                reqs.append("C03.ret\t(prog (fn %s (ft f i (st cast T (m %s (ret %s))) (ret i)) (ret %s)))" % (outer, last, lv, v))
    return reqs


def search_decl():
    """declared types: every keyword carried by a typedef / a typedef of a typedef / a template argument x every single
    keyword and `const volatile` at the use site x storage x write form, on a float scalar, a float matrix and a struct"""
    reqs = []
    kws = ["c", "v", "r", "k", "u", "n"]
    for base in ("s.Float32", "m.Float32.2.2", "o.0"):
        for chain in ["-"] + kws + [k + ",0" for k in kws] + ["0," + k for k in kws] + ["c,v", "v,c", "c,r", "c,u"]:
            for use in ["-"] + kws + ["cv", "vc"]:
                for storage in ("local", "param", "static", "member", "elem"):
                    for write in ("assign", "inc", "out", "comp"):
                        reqs.append("C03.decl\t%s\ttd\t%s\t%s\t%s\t%s" % (base, chain, use, storage, write))
                    if storage != "static":
                        reqs.append("C03.decl\t%s\ttp\t%s\t%s\t%s\tassign" % (base, chain, use, storage))
    return reqs


XOTHERS = "S(q:-/s.Int32,v:-/v.Float32.3,a:-/o.1,m:-/m.Float32.2.2);A(-/s.Float32,2);A(c/s.Float32,2);A(-/v.Float32.3,2)"
XVARS = ["-/s.Float32", "-/v.Float32.3", "-/m.Float32.2.2", "-/o.0", "-/o.1", "-/o.3", "c/s.Float32", "c/v.Float32.3", "c/m.Float32.2.2",
         "c/o.0", "-/o.2", "g:c/v.Float32.3", "g:c/m.Float32.2.2", "g:c/o.0", "p:c/m.Float32.2.2", "s:-/o.0", "-/s.Int32", "-/s.Bool"]
XFUNCS = "0:0:-/v.Float32.3:;1:0:-/o.0:;2:1:-/s.Int32:out/-/s.Float32;3:1:-/s.Int32:inout/-/v.Float32.2;4:0:-/m.Float32.2.2:"
XPROJ = ["(mem %s x)", "(mem %s xy)", "(mem %s xx)", "(mem %s q)", "(mem %s v)", "(mem %s a)", "(mem %s m)", "(mem %s _m00)",
         "(mem %s _m00_m11)", "(mem %s _m00_m00)", "(idx %s (lit IntLiteral))"]


def search_ext():
    """the extended language: reads and writes (assignment, compound assignment, ++, out / inout arguments of a user and of an
    intrinsic function) through projection chains of length 1 and 2 on every kind of base, constructors, aggregates"""
    env = XOTHERS + "\t" + ",".join(XVARS) + "\t" + XFUNCS
    bases = ["(var %d)" % i for i in range(len(XVARS))] + ["(call 0)", "(call 1)", "(call 4)", "(bin Add (var 1) (var 1))",
                                                          "(ctor -/v.Float32.3 (var 1))", "(cast -/v.Float32.3 (var 1))"]
    chains = []
    for b in bases:
        one = [p % b for p in XPROJ]
        chains += one
        for c in one:
            chains += [p % c for p in XPROJ[:1] + XPROJ[-1:]]
    reqs = []
    for c in chains:
        for body in ("(expr %s)" % c, "(expr (bin Assignment %s (lit IntLiteral)))" % c,
                     "(expr (un PrefixIncrement %s))" % c, "(expr (call 2 %s))" % c,
                     "(expr (icall sincos (var 0) %s (var 0)))" % c):
            reqs.append("C03.progx\t%s\tvoid\t(block %s)\tany" % (env, body))
    for t in ("-/s.Float32", "-/v.Float32.3", "-/m.Float32.2.2", "-/o.0"):
        for a in ("(var 0)", "(var 1)", "(var 2)", "(var 3)", "(mem (var 1) xy)"):
            reqs.append("C03.progx\t%s\tvoid\t(block (expr (ctor %s %s)))\tany" % (env, t, a))
            reqs.append("C03.progx\t%s\tvoid\t(block (expr (ctor %s %s %s)))\tany" % (env, t, a, a))
            reqs.append("C03.progx\t%s\tvoid\t(block (decl %s (agg %s %s)))\tany" % (env, t, a, a))
            reqs.append("C03.progx\t%s\tvoid\t(block (decl %s (agg %s %s %s)))\tany" % (env, t, a, a, a))
            reqs.append("C03.progx\t%s\t%s\t(block (if (var 17) (ret %s)))\tany" % (env, t, a))
    return reqs


SPEC = {
    "id": "C03",
    "gens": ["RankTable", "TypingTables", "IntrinsicSigs", "ElabTables", "TypeMods", "RetScope"],
    "lean_modules": ["RsslVerif.Thm.C03", "RsslVerif.Thm.C03X", "RsslVerif.Thm.C03D", "RsslVerif.Thm.C03R"],
    "theorems": [T + n for n in [
        "find_sound", "find_rejects_rvalue_to_lvalue", "find_keeps_const",
        "elab_sound", "elab_debug_check_redundant", "elabStmt_sound", "ids_in_range",
        "elab_rejects_assign_to_const", "elab_rejects_assign_to_rvalue", "elab_rejects_increment",
        "elab_rejects_call", "elab_rejects_arity", "elab_rejects_unconvertible", "elab_rejects_out_arg_rvalue",
        "elab_rejects_out_arg_const", "elab_rejects_return_type", "elab_rejects_return_void",
        "elab_rejects_assign_to_rvalue_form", "elab_rejects_increment_of_rvalue_form",
        "assignment_operands", "binary_operands_equal", "binop_rules",
        "elab_assign_exact", "elab_arith_exact", "elab_call_args_exact",
        "elab_out_args_are_lvalues", "out_arg_not_converted", "elab_arith_vector_kind_concrete", "elab_tern_vector_kind_concrete"]] + [TX + n for n in [
        # the extended language (swizzles, members, subscripts, constructors, intrinsic functions, statements)
        "elab_sound", "elab_debug_check_redundant", "elab_stmt_sound", "ids_in_range",
        "elab_rejects_const_write", "elab_rejects_rvalue_write", "elab_rejects_rvalue_out_arg",
        "elab_rejects_assign_to_const", "elab_rejects_assign_to_rvalue", "elab_rejects_increment",
        "elab_rejects_call", "elab_rejects_arity", "elab_rejects_unconvertible", "elab_rejects_out_arg_rvalue",
        "elab_rejects_out_arg_const", "elab_rejects_assign_to_rvalue_form", "elab_rejects_increment_of_rvalue_form",
        "elab_rejects_return_type", "elab_rejects_return_in_void", "elab_rejects_return_void", "elab_rejects_init_type",
        "elab_rejects_aggregate_dimension", "elab_rejects_aggregate_matrix",
        "elab_rejects_ctor_count", "elab_rejects_ctor_of_non_numeric", "elab_ctor_exact",
        "elab_rejects_index_type", "elab_index_exact", "elab_rejects_write_to_repeated_swizzle",
        "matrix_swizzle_at_most_four", "elab_rejects_swizzle_longer_than_four", "elab_swizzle_at_most_four",
        "elab_rejects_const_write_chain", "elab_rejects_const_increment_chain", "elab_rejects_const_array_write_chain",
        "elab_rejects_const_out_arg_chain", "elab_rejects_readonly_resource_write_chain",
        # fix batch 2: every object on the way to the written part must be a mutable lvalue
        "elab_rejects_write_chain", "elab_rejects_increment_chain", "elab_rejects_out_arg_chain",
        "elab_rejects_const_struct_write_chain", "elab_rejects_const_array_assignment",
        "elab_rejects_rvalue_write_chain", "elab_rejects_rvalue_out_arg_chain",
        "elab_assign_target_is_place", "elab_increment_operand_is_place", "elab_out_args_are_places",
        "place_is_not_a_conversion",
        "assignment_operands", "binary_operands_equal", "binop_rules",
        "elab_assign_exact", "elab_arith_exact", "elab_call_args_exact", "elab_intrinsic_call_exact",
        "resource_index_widths", "resource_element_constness",
        "swizzle_in_range", "matrix_swizzle_in_range", "member_of_struct", "ctor_slots_exact"]] + [TD + n for n in [
        # declared types: the modifiers of a typedef / template parameter and the modifiers written at the use site
        "parse_type_for_usage_as_modelled", "mergeModifiers_flag", "declared_modifier_is_union_of_layers",
        "typedef_const_survives_use_site_modifiers", "typedef_modifiers_survive_use_site_modifiers",
        "struct_member_const_comes_from_the_type", "declared_modifier_consistent", "conflicting_modifiers_rejected",
        "typedef_const_write_rejected", "mutant_discipline_drops_typedef_const"]] + [TR + n for n in [
        # a return is checked against the return type of the function that contains it, whatever was instantiated before it
        "returnTypeComesFromTheScopeChain", "return_type_is_enclosing_functions", "direct_returns_get_the_functions_type",
        "accepted_returns_are_returnable", "elab_rejects_unconvertible_return_after_instantiations",
        "methods_return_their_own_types"]],
    "harness": "c03",
    "nontrivial": nontrivial,
    "finding_key": finding_key,
    "shrink": shrink,
    "search": search,
    "level_text": "Proof: for the model of elaboration — expressions (literals, variables, unary / binary / assignment operators, ?:, "
                  "calls of user functions and of the intrinsic functions of the re-extracted signature table with overload "
                  "resolution and in/out/inout parameters, casts, member access / vector, scalar and matrix swizzles, subscripts of "
                  "arrays / vectors / matrices / buffers / textures, numeric constructors) and statements (expression, return, definitions with "
                  "expression and aggregate initialisers, blocks, if / for / while / do / switch with their scopes) — it is proved "
                  "by mutual structural induction over all expressions and statements, for debug and release builds, that an "
                  "accepted expression has the computed type under the IR's own typing judgment (get_type / get_return_type with "
                  "their asserts as premises, strengthened for the new nodes: swizzle slots in range and at most four, struct member taken from that "
                  "struct, constructor slot contract), that every expression on every path of an accepted statement list is typed, "
                  "returns / initialisers (every leaf of an aggregate) have exactly the required type, and that writes (assignment "
                  "family, ++/--, out/inout arguments of user and intrinsic functions) to const or rvalue expressions — including "
                  "through projection chains of any length (struct members, swizzles, matrix swizzles, subscripts) on any object "
                  "that is const (scalar / vector / matrix / struct / array of const elements), read-only (elements of read-only "
                  "resources) or not an lvalue, as long as no buffer / texture is subscripted on the way (its elements are not part "
                  "of the handle's value) —, wrong arity, unconvertible arguments, wrong return / initialiser types, wrong constructor "
                  "component counts and non-integer subscripts are never accepted. Positively: the target of every accepted "
                  "assignment, the operand of every accepted ++/-- and every out/inout argument of an accepted call is a mutable "
                  "place (itself and every object on the way to the variable is a non-const lvalue under the IR's typing judgment), "
                  "hence never the result of a conversion; vector / matrix operators are never done in an untyped literal kind. "
                  "Declared types: for the model of parse_type_for_usage's modifier handling (parse_type_modifier's keyword "
                  "loop with its conflict / matrix / float / position checks, TypeModifier::combine, typedef chains of any "
                  "length, struct-template type arguments, every declaration position) the declared type carries a modifier "
                  "iff some typedef layer, the template argument or the use site writes it — a typedef's const (row_major, "
                  "unorm, ...) survives whatever else is written at the use site —, no accepted declaration is both row_major "
                  "and column_major or both unorm and snorm wherever the two keywords meet, and composed with the write "
                  "theorems: an object declared through a const typedef is never an accepted assignment / ++ / -- target. The "
                  "source statements that merge the named type's modifier with the written one, the fields of combine and "
                  "the keyword arms are re-extracted (Gen.TypeMods) and re-decided against the model's behaviour "
                  "(parse_type_for_usage_as_modelled); the discipline of seeded mutant C03-5 is a decide-checked negation witness. "
                  "A swizzle of a scalar or a vector names at most four components (fix c805c03: the former negation witness is "
                  "now the rejection theorem elab_rejects_swizzle_longer_than_four; the judgment demands at most four slots of every "
                  "swizzle node, so elab_sound gives it for every accepted program); no negation witness against the code is left. "
                  "Return statements and re-entrant body checking (Model/RetScope, Thm.C03R): the return type lives in the scope "
                  "pushed for the function (ScopeData::function_return_type) and a return asks the scope chain for the innermost one; "
                  "naming a struct template with new arguments, or calling a function template, in the middle of a function body "
                  "checks the method bodies / the instance body right there (save current_scope, jump to the template's scope, push / "
                  "re-enter, pop, restore). Proved by mutual structural induction over statements, bodies and method lists, for any "
                  "number of instantiations, methods and nesting depth: an accepted body leaves the scope chain as it found it and "
                  "its checked returns are exactly those of a purely structural reference semantics in which a return belongs to the "
                  "function node that textually contains it (return_type_is_enclosing_functions); every direct return of a function "
                  "is converted to that function's type whatever was instantiated before it; every accepted return is returnable from "
                  "its own function; a body with an unconvertible direct return after any episodes is never accepted. The source facts "
                  "(get_current_return_type = search_scopes over function_return_type, search_scopes walks parents, revisit_function "
                  "only re-enters the scope, the two writers and the one caller of set_function_return_type, both return arms ask "
                  "get_current_return_type, the field list of Context, both instantiation paths restore current_scope) are re-extracted "
                  "(Gen.RetScope) and decided in returnTypeComesFromTheScopeChain; seeded mutant C03-6 falsifies it.",
    "rule": "C03.conv = one row of the exhaustive find/get_target_type table over 8 scalar kinds x {scalar, vec1-4, 2 matrices} "
            "+ enums + structs x modifier sets x {lvalue,rvalue}. C03.prog = (local variable types, function prototypes, return "
            "type, one statement) compiled as an RSSL program through the real type_check: every unary operator on every "
            "operand, binary/assignment/ternary operators on operand pairs, calls, returns, initialisers, templates that are "
            "well-typed by construction, the same with ONE injected violation, a stream over volatile / row_major / "
            "column_major variables and random expressions of depth 1-3 (each also run through the extended model: the two "
            "models must agree). C03.progx = (type definitions: structs with named members, arrays; variables of kind local / "
            "extern global / static global / parameter; prototypes; return type; a statement list) through the real type_check: "
            "every member name on every operand; reads, assignments, compound assignments, ++/--, user and intrinsic out/inout "
            "arguments through access paths and through all type-directed projection chains up to depth 3 on const and non-const "
            "bases of every kind and on non-lvalue bases; subscripts; constructors with 0-4 arguments; 64 intrinsic names at "
            "their arities with every operand kind; injected violations; definitions with expression and aggregate initialisers "
            "(right / wrong counts, nesting, wrong item types); conditions of every type in every statement kind; scopes; "
            "returns at several nesting depths; random statement trees and expressions. Accepted modules are walked node by "
            "node (get_type under guard + exactness oracle + declaration-based write oracle). C03.type / C03.typex = the typed "
            "expression the real checker produced, re-typed node by node by the real get_type and by the model's typeOf. "
            "C03.decl = (type below the modifiers, typedef chain or struct-template parameter over a typedef chain with a keyword "
            "list per layer, keyword list at the use site, storage: local / parameter / static global / struct member / array "
            "element, write form: none / read / = / += / ++ / out argument / component / element) spelled as an RSSL program; "
            "observation = declaration verdict, modifier of the registered type of the object, verdict of the write; the oracle "
            "decides constness from the keywords of the request alone (const on any layer or at the use site) and fails every "
            "accepted write to such an object: each keyword carried by a typedef x 8 use-site sets x 5 storages x 4 write forms on "
            "6 base types, 37 chains x 20 use-site sets with both carriers, and random points of the whole product. "
            "C03.ret = a program tree (free functions, ordinary structs with methods, and inside bodies: return of a value of "
            "each of 7 types or bare, nested blocks, struct templates with 0-3 methods named for the first time as a local "
            "declaration / twice / with initialiser / in a cast / in sizeof, function templates called with explicit arguments, "
            "template argument and return types possibly the enclosing template's T, nested to depth 3) spelled as an RSSL "
            "program; observation = per function the types of its Return expressions, or the diagnostic with got / want types; the "
            "oracle decides from the request alone which function a return belongs to and whether its operand is returnable: an "
            "ill-typed program must be rejected, every Return of an accepted program has exactly its own function's declared "
            "type: 4 (thorough 8) function types x 5 (9) last-method types x 5 forms x arguments x well- and ill-typed operands "
            "directly after the episode and in a block, function-template and ordinary-struct controls, two-level nestings with "
            "the ill-typed return at each level, 1 500 (12 000) random trees. "
            "C03.src = a raw program (reproducers with buffers / cbuffers), oracle only. non-trivial = a statement containing an "
            "operator, call, projection, constructor, definition or control statement.",
    "trusted_base": [
        "Lean 4.33 kernel; axioms propext / Classical.choice / Quot.sound only (audited by #print axioms)",
        "tools/gens/c16.py (RankTable) and tools/gens/c03.py (TypingTables: IntrinsicOp, the asserts and result shape of every "
        "arm of get_return_type, ast BinOp/UnaryOp, the operator maps / classes / require_integer / short-circuit lists of "
        "parse_expr_binop, get_non_vector_conversion_rank, most_sig_scalar::get_order, is_integer_or_bool_or_enum, the "
        "literal re-tagging tables of ImplicitConversion::apply, the literal-kind remap of vector / matrix operators, the pinned call "
        "sites and bodies of check_mutable_place / check_output_arguments; IntrinsicSigs: the INTRINSICS table expanded as add_intrinsics "
        "registers it; ElabTables: the swizzle character tables, the slot-count limits of the scalar / vector / matrix swizzle readers "
        "and the arm lists of member access / subscript / aggregate "
        "initialiser; TypeMods: the statements of parse_type_for_usage around the modifier merge, the fields and operator of "
        "TypeModifier::combine, per keyword arm of parse_type_modifier the field set, the conflicting fields, the requirement, "
        "the denying positions and the errors) — re-run on /repo's working tree every time",
        "hand-written Model/TypeMods.lean (parse_type_modifier, the merge, typedef chains, the const denial of parse_struct) — "
        "tied by Thm.C03D.parse_type_for_usage_as_modelled (the re-extracted rows equal the rows obtained by probing the model) "
        "and by the C03.decl correspondence; the write verdict of a C03.decl request is the extended elaboration model's on the "
        "equivalent C03.progx program whose variable has the merged type",
        "hand-written Model/Conv.lean (find, get_target_type), Model/Ty.lean, Model/IrTyping.lean + IrTypingX.lean (get_type), "
        "Model/Elab.lean + ElabX.lean (parse_expr_*, apply, member access, read_matrix_subscript, subscripts, constructors, "
        "check_mutable_place / check_output_arguments / TypeRegistry::is_const: written from source copies the translator pins "
        "verbatim together with their call sites), "
        "Model/StmtX.lean (parse_statement, parse_initializer, scopes), Model/Intrinsics.lean — tied to the code by the "
        "correspondence run only",
        "Spec/ElabX.lean (StmtsTyped, InitTyped, RetExact, projection chains; MutablePlace / ConstTy / ProjOf) is our reading of "
        "'every initialiser, return ... receives operands of exactly the types it requires' and of 'write to const or non-lvalue "
        "expressions'",
        "tools/gens/c03.py RetScope: pinned bodies of get_current_return_type / search_scopes / revisit_function / revisit_scope / "
        "set_function_return_type, the writers of function_return_type and the callers of set_function_return_type / "
        "get_current_return_type over typer/src/**, the fields of struct Context, the save / jump / restore statements of "
        "ensure_struct_template and build_function_template_body, parse_function_body's revisit / pop",
        "hand-written Model/RetScope.lean (the scope arena seen as the chain search_scopes walks; frames carry "
        "function_return_type and the binding of T; instantiation episodes; the declaration-or-expression fallback; conversion "
        "restricted to float / int / bool / float2 / int2 / two structs / void) — tied by the C03.ret correspondence; "
        "Thm.C03R.specItems (a return belongs to the function node that contains it) is our reading of 'every return receives an "
        "operand of exactly the type it requires'; the C03.ret oracle (harness/src/c03/ret.rs) decides ownership and "
        "returnability from the request tree, never from the module's signatures",
        "the C03.decl oracle (harness/src/c03/decl.rs) reads constness off the keywords written in the request (typedef layers, "
        "template argument, use site), never off a type the checker registered",
        "the harness oracle (harness/src/c03.rs: check rules of Walk::expr, the declaration-based write oracle Walk::place) is "
        "our reading of 'exactly the types it requires' and of 'write to const or non-lvalue expressions'",
    ],
    "assumptions": [
        "TypeId equality is structural equality of types (the type registry hash-conses layers); a request does not define the "
        "same array type twice",
        "the harness is a debug build (parse_expr_internal re-derives the type of every node); the theorems cover both build "
        "modes and prove that this query never fires",
        "outside the model (answered `unsupported`, reached by the IR walk only): objects other than the subscript of "
        "buffers / textures (ConstantBuffer, samplers, `.mips`, RayDesc), methods, templates (DispatchMesh), enums inside operators, sizeof, case labels that are not literals",
        "declared types: typedefs of array types (`typedef const float CA[2]`), function-template type arguments (they are "
        "stripped of all modifiers by normalize_template_type: `w<const float>()` instantiates `w<float>`), storage-class / "
        "in-out / interpolation / precise keywords next to type modifiers, cbuffer members and return types are not generated "
        "by C03.decl; Walk::place still reads the registered type of a variable for programs of the other streams (they "
        "declare every type directly, where registered type = written type is what C03.decl checks with an empty chain)",
        "C03.ret: templates are declared at the root scope (no namespaces), one type parameter, methods without parameters, "
        "function templates called with explicit template arguments; the operand of a return is a global / the member v / the "
        "parameter x (its elaboration is the other streams' business); method signatures are parsed before the bodies (an "
        "unresolvable T in a later signature is outside the model: `unsupported`)",
        "variables of the generated programs have unique names v<i>; a definition declares one variable; user function "
        "parameters are not arrays",
        "signature parameter types carry no modifier: strip_param_type is mirrored by ElabX.stripParamType (applied by the "
        "driver to the declared parameter types of the extended requests; the old C03.prog requests declare none)",
    ],
}

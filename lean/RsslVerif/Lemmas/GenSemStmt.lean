import RsslVerif.Lemmas.GenSemExpr
/-! Statements: executing the emitted statement equals executing the typed statement, for every fuel. -/
namespace RsslVerif.Lemmas.GenSem
open RsslVerif.Gen.HlslGenTables RsslVerif.Model RsslVerif.Model.GenHlsl RsslVerif.Spec.Sem
open RsslVerif.Model.Ir (Ty Var Const Dir)
set_option linter.unusedSimpArgs false

theorem typeName_tyOfName' {ty : Ty} {n : String} (h : typeName ty = .ok n) : Ast.tyOfName n = some ty := by
  cases ty <;> simp [typeName, scalarKey, scalarTypeName] at h <;> first | contradiction | (subst h; rfl)

theorem Sim.drop {W : World} {env : Ast.Env} {e : Ir.Expr} {a : HlslAst.Expr} {t : Ty}
    (h : Sim W env e a t) (σ : Store) : dropVal (Ast.eval W env a σ) = dropVal (Ir.eval W e σ) := by
  rw [h.2 σ]; cases Ir.eval W e σ <;> simp [dropVal]

theorem Sim.cond {W : World} {env : Ast.Env} {e : Ir.Expr} {a : HlslAst.Expr} {t : Ty}
    (h : Sim W env e a t) (σ : Store) :
    condOfB W.P (Ast.eval W env a σ) = condOfB W.P (Ir.eval W e σ) := by
  by_cases hl : Ir.litlike e = true
  · obtain ⟨v, rfl⟩ := litlike_cases hl
    simp [h.lit.2 σ, Ir.eval, Ir.constVal, condOfB, castVal_lit_int]
  · have hl' : Ir.litlike e = false := by simpa using hl
    rw [(h.plain hl').2 σ]

/-- every accepted expression is simulated by what the exporter emits for it -/
theorem sim_ok {W : World} {env : Ast.Env} {cx : Ctx} (hag : Agree cx env) {e : Ir.Expr} {a : HlslAst.Expr}
    (hg : genExpr cx e = .ok a) (hok : Ir.okExpr W.sig cx.vty e = true) :
    ∃ t, Ir.typeOf W.sig cx.vty e = some t ∧ Sim W env e a t := by
  simp only [Ir.okExpr, Bool.and_eq_true] at hok
  obtain ⟨t, ht⟩ := Option.isSome_iff_exists.mp hok.1
  exact ⟨t, ht, sim_expr hag e a t hg ht hok.2⟩

theorem sim_okT {W : World} {env : Ast.Env} {cx : Ctx} (hag : Agree cx env) {e : Ir.Expr} {a : HlslAst.Expr} {t : Ty}
    (hg : genExpr cx e = .ok a) (hok : Ir.okExprT W.sig cx.vty t e = true) :
    Ir.typeOf W.sig cx.vty e = some t ∧ Sim W env e a t := by
  simp only [Ir.okExprT, Bool.and_eq_true] at hok
  cases ht : Ir.typeOf W.sig cx.vty e with
  | none => simp [ht] at hok
  | some t' =>
    simp [ht] at hok
    obtain ⟨rfl, hl⟩ := hok
    exact ⟨rfl, sim_expr hag e a t' hg ht hl⟩

theorem cond_fn_eq {W : World} {env : Ast.Env} {cx : Ctx} (hag : Agree cx env)
    {c : Option Ir.Expr} {c' : Option HlslAst.Expr}
    (hg : genOptExpr cx c = .ok c') (hok : Ir.okOpt W.sig cx.vty c = true) :
    Ast.condFn W env c' = Ir.condFn W c := by
  cases c with
  | none => simp [genOptExpr] at hg; subst hg; rfl
  | some e =>
    cases hge : genExpr cx e with
    | error err => simp [genOptExpr, hge, Except.map] at hg
    | ok a =>
      simp [genOptExpr, hge, Except.map] at hg; subst hg
      obtain ⟨t, _, hs⟩ := sim_ok hag hge (by simpa [Ir.okOpt] using hok)
      funext σ
      simp [Ast.condFn, Ir.condFn, Ast.condE, hs.1, hs.cond σ]

theorem inc_fn_eq {W : World} {env : Ast.Env} {cx : Ctx} (hag : Agree cx env)
    {c : Option Ir.Expr} {c' : Option HlslAst.Expr}
    (hg : genOptExpr cx c = .ok c') (hok : Ir.okOpt W.sig cx.vty c = true) :
    Ast.incFn W env c' = Ir.incFn W c := by
  cases c with
  | none => simp [genOptExpr] at hg; subst hg; rfl
  | some e =>
    cases hge : genExpr cx e with
    | error err => simp [genOptExpr, hge, Except.map] at hg
    | ok a =>
      simp [genOptExpr, hge, Except.map] at hg; subst hg
      obtain ⟨t, _, hs⟩ := sim_ok hag hge (by simpa [Ir.okOpt] using hok)
      funext σ
      simp [Ast.incFn, Ir.incFn, hs.drop σ]

theorem vardef_eq {W : World} {env : Ast.Env} {cx : Ctx} (hag : Agree cx env)
    {id : Nat} {init : Option Ir.Expr} {tn name : String} {i : Option HlslAst.Expr}
    (hg : genVarDef cx id init = .ok (tn, name, i)) (hok : Ir.okVarDef W.sig cx.vty id init = true) :
    Ast.tyOfName tn = some (cx.vty (.loc id)) ∧
    ∀ σ, Ast.execVarDef W env (cx.vty (.loc id)) name i σ = Ir.execVarDef W id init σ := by
  simp only [genVarDef] at hg
  cases htn : typeName (cx.vty (.loc id)) with
  | error e => simp [htn] at hg
  | ok tn' =>
    cases hgi : genOptExpr cx init with
    | error e => simp [htn, hgi] at hg
    | ok i' =>
      simp [htn, hgi] at hg
      obtain ⟨rfl, rfl, rfl⟩ := hg
      refine ⟨typeName_tyOfName' htn, fun σ => ?_⟩
      have hr := hag.res (.loc id)
      simp only [Ctx.name] at hr
      cases init with
      | none => simp [genOptExpr] at hgi; subst hgi; simp [Ast.execVarDef, Ir.execVarDef, hr]
      | some e =>
        cases hge : genExpr cx e with
        | error err => simp [genOptExpr, hge, Except.map] at hgi
        | ok a =>
          simp [genOptExpr, hge, Except.map] at hgi; subst hgi
          obtain ⟨ht, hs⟩ := sim_okT hag hge (by simpa [Ir.okVarDef] using hok)
          have := hs.conv ht σ
          simp [Ast.execVarDef, Ir.execVarDef, hr, hs.1, this]

theorem fordefs_eq {W : World} {env : Ast.Env} {cx : Ctx} (hag : Agree cx env) (T : Ty) (tn : String) :
    ∀ (ds : List (Nat × Option Ir.Expr)) (ds' : List (String × Option HlslAst.Expr)),
      genForDefs cx tn ds = .ok ds' → (ds.all fun d => Ir.okVarDef W.sig cx.vty d.1 d.2) = true →
      (∀ d ∈ ds, ∀ n, typeName (cx.vty (.loc d.1)) = .ok n → n = tn → cx.vty (.loc d.1) = T) →
      ∀ σ, Ast.execForDefs W env T ds' σ = Ir.execForDefs W ds σ
  | [], ds', hg, _, _ => by simp [genForDefs] at hg; subst hg; intro σ; rfl
  | (id, init) :: r, ds', hg, hok, hT => by
    simp only [List.all_cons, Bool.and_eq_true] at hok
    simp only [genForDefs] at hg
    cases hv : genVarDef cx id init with
    | error e => simp [hv] at hg
    | ok v =>
      obtain ⟨tn', name, i⟩ := v
      simp only [hv] at hg
      by_cases hne : tn' ≠ tn
      · simp [hne] at hg
      · have heq : tn' = tn := by simpa using hne
        simp only [heq, ne_eq, not_true_eq_false, if_false] at hg
        cases hr : genForDefs cx tn r with
        | error e => simp [hr] at hg
        | ok ds2 =>
          simp [hr] at hg; subst hg
          have hvd := vardef_eq (W := W) hag hv hok.1
          have hTy : cx.vty (.loc id) = T := by
            have htn : typeName (cx.vty (.loc id)) = .ok tn' := by
              simp only [genVarDef] at hv
              cases h1 : typeName (cx.vty (.loc id)) with
              | error e => simp [h1] at hv
              | ok n1 =>
                cases h2 : genOptExpr cx init with
                | error e => simp [h1, h2] at hv
                | ok i2 => simp [h1, h2] at hv; simp [hv.1]
            exact hT (id, init) (by simp) tn' htn heq
          have ih := fordefs_eq hag T tn r ds2 hr hok.2 (fun d hd => hT d (by simp [hd]))
          intro σ
          simp only [Ast.execForDefs, Ir.execForDefs, ← hTy, hvd.2 σ]
          cases Ir.execVarDef W id init σ with
          | none => rfl
          | some σ1 => simp [hTy, ih σ1]

theorem typeName_inj {a b : Ty} {n : String} (ha : typeName a = .ok n) (hb : typeName b = .ok n) : a = b := by
  have h1 := typeName_tyOfName' ha
  have h2 := typeName_tyOfName' hb
  rw [h1] at h2
  exact Option.some.inj h2

theorem forinit_eq {W : World} {env : Ast.Env} {cx : Ctx} (hag : Agree cx env)
    {init : Ir.ForInit} {init' : HlslAst.ForInit}
    (hg : genForInit cx init = .ok init') (hok : Ir.okForInit W.sig cx.vty init = true) :
    ∀ σ, Ast.execForInit W env init' σ = Ir.execForInit W init σ := by
  cases init with
  | empty => simp [genForInit] at hg; subst hg; intro σ; rfl
  | expr e =>
    cases hge : genExpr cx e with
    | error err => simp [genForInit, hge, Except.map] at hg
    | ok a =>
      simp [genForInit, hge, Except.map] at hg; subst hg
      obtain ⟨t, _, hs⟩ := sim_ok hag hge (by simpa [Ir.okForInit] using hok)
      intro σ
      simp [Ast.execForInit, Ir.execForInit, hs.drop σ]
  | defs ds =>
    cases ds with
    | nil => simp [genForInit] at hg
    | cons d r =>
      obtain ⟨id, i0⟩ := d
      simp only [Ir.okForInit, List.all_cons, Bool.and_eq_true] at hok
      simp only [genForInit] at hg
      cases hv : genVarDef cx id i0 with
      | error e => simp [hv] at hg
      | ok v =>
        obtain ⟨tn, name, i⟩ := v
        simp only [hv] at hg
        cases hr : genForDefs cx tn r with
        | error e => simp [hr] at hg
        | ok ds2 =>
          simp [hr] at hg; subst hg
          have hvd := vardef_eq (W := W) hag hv hok.1
          have htn : typeName (cx.vty (.loc id)) = .ok tn := by
            simp only [genVarDef] at hv
            cases h1 : typeName (cx.vty (.loc id)) with
            | error e => simp [h1] at hv
            | ok n1 =>
              cases h2 : genOptExpr cx i0 with
              | error e => simp [h1, h2] at hv
              | ok i2 => simp [h1, h2] at hv; simp [hv.1]
          have ih := fordefs_eq (W := W) hag (cx.vty (.loc id)) tn r ds2 hr hok.2
            (fun d _ n hn hnt => typeName_inj (by rw [hn, hnt]) htn)
          intro σ
          simp only [Ast.execForInit, hvd.1, Ast.execForDefs, Ir.execForInit, Ir.execForDefs, hvd.2 σ]
          cases Ir.execVarDef W id i0 σ with
          | none => rfl
          | some σ1 => simp [ih σ1]

/-- what the induction proves about a statement / a statement list -/
def SimS (W : World) (env : Ast.Env) (rt : Ty) (s : Ir.Stmt) (s' : HlslAst.Stmt) : Prop :=
  ∀ fuel σ, Ast.exec W env rt fuel s' σ = Ir.exec W fuel s σ
def SimSs (W : World) (env : Ast.Env) (rt : Ty) (b : Ir.Stmts) (b' : HlslAst.Stmts) : Prop :=
  ∀ fuel σ, Ast.execs W env rt fuel b' σ = Ir.execs W fuel b σ

mutual
theorem sim_stmt {W : World} {env : Ast.Env} {cx : Ctx} (hag : Agree cx env) (rt : Ty) :
    ∀ (s : Ir.Stmt) (s' : HlslAst.Stmt),
      genStmt cx s = .ok s' → Ir.wtStmt W.sig cx.vty rt s = true → SimS W env rt s s'
  | .expr e, s', hg, hwt => by
    cases hge : genExpr cx e with
    | error err => simp [genStmt, hge, Except.map] at hg
    | ok a =>
      simp [genStmt, hge, Except.map] at hg; subst hg
      obtain ⟨t, _, hs⟩ := sim_ok hag hge (by simpa [Ir.wtStmt] using hwt)
      intro fuel σ
      simp [Ast.exec, Ir.exec, hs.drop σ]
  | .var id init, s', hg, hwt => by
    cases hv : genVarDef cx id init with
    | error err => simp [genStmt, hv] at hg
    | ok v =>
      obtain ⟨tn, name, i⟩ := v
      simp [genStmt, hv] at hg; subst hg
      have hvd := vardef_eq (W := W) hag hv (by simpa [Ir.wtStmt] using hwt)
      intro fuel σ
      simp [Ast.exec, Ir.exec, hvd.1, hvd.2 σ]
  | .block b, s', hg, hwt => by
    cases hb : genStmts cx b with
    | error err => simp [genStmt, hb, Except.map] at hg
    | ok b' =>
      simp [genStmt, hb, Except.map] at hg; subst hg
      have ih := sim_stmts hag rt b b' hb (by simpa [Ir.wtStmt] using hwt)
      intro fuel σ
      simp [Ast.exec, Ir.exec, ih fuel σ]
  | .ifThen c b, s', hg, hwt => by
    simp only [Ir.wtStmt, Bool.and_eq_true] at hwt
    cases hgc : genExpr cx c with
    | error err => simp [genStmt, hgc] at hg
    | ok c' =>
      cases hb : genStmts cx b with
      | error err => simp [genStmt, hgc, hb] at hg
      | ok b' =>
        simp [genStmt, hgc, hb] at hg; subst hg
        obtain ⟨t, _, hs⟩ := sim_ok hag hgc hwt.1
        have ih := sim_stmts hag rt b b' hb hwt.2
        intro fuel σ
        simp only [Ast.exec, Ir.exec, Ast.condE, hs.1, hs.cond σ]
        cases condOfB W.P (Ir.eval W c σ) with
        | none => rfl
        | some r => obtain ⟨bv, σ1⟩ := r; cases bv <;> simp [ih fuel σ1]
  | .ifElse c t f, s', hg, hwt => by
    simp only [Ir.wtStmt, Bool.and_eq_true] at hwt
    cases hgc : genExpr cx c with
    | error err => simp [genStmt, hgc] at hg
    | ok c' =>
      cases hb : genStmts cx t with
      | error err => simp [genStmt, hgc, hb] at hg
      | ok t' =>
        cases hb2 : genStmts cx f with
        | error err => simp [genStmt, hgc, hb, hb2] at hg
        | ok f' =>
          simp [genStmt, hgc, hb, hb2] at hg; subst hg
          obtain ⟨ty, _, hs⟩ := sim_ok hag hgc hwt.1.1
          have ih1 := sim_stmts hag rt t t' hb hwt.1.2
          have ih2 := sim_stmts hag rt f f' hb2 hwt.2
          intro fuel σ
          simp only [Ast.exec, Ir.exec, Ast.condE, hs.1, hs.cond σ]
          cases condOfB W.P (Ir.eval W c σ) with
          | none => rfl
          | some r => obtain ⟨bv, σ1⟩ := r; cases bv <;> simp [ih1 fuel σ1, ih2 fuel σ1]
  | .for init cond inc b, s', hg, hwt => by
    simp only [Ir.wtStmt, Bool.and_eq_true] at hwt
    obtain ⟨⟨⟨hwi, hwc⟩, hwn⟩, hwb⟩ := hwt
    cases hgi : genForInit cx init with
    | error err => simp [genStmt, hgi] at hg
    | ok init' =>
      cases hgc : genOptExpr cx cond with
      | error err => simp [genStmt, hgi, hgc] at hg
      | ok cond' =>
        cases hgn : genOptExpr cx inc with
        | error err => simp [genStmt, hgi, hgc, hgn] at hg
        | ok inc' =>
          cases hb : genStmts cx b with
          | error err => simp [genStmt, hgi, hgc, hgn, hb] at hg
          | ok b' =>
            simp [genStmt, hgi, hgc, hgn, hb] at hg; subst hg
            have ih := sim_stmts hag rt b b' hb hwb
            intro fuel σ
            have hbody : (fun s => Ast.execs W env rt fuel b' s) = (fun s => Ir.execs W fuel b s) := by
              funext s; exact ih fuel s
            simp only [Ast.exec, Ir.exec, forinit_eq hag hgi hwi σ, cond_fn_eq hag hgc hwc, inc_fn_eq hag hgn hwn]
            cases Ir.execForInit W init σ with
            | none => rfl
            | some σ0 => simp only []; rw [hbody]
  | .while c b, s', hg, hwt => by
    simp only [Ir.wtStmt, Bool.and_eq_true] at hwt
    cases hgc : genExpr cx c with
    | error err => simp [genStmt, hgc] at hg
    | ok c' =>
      cases hb : genStmts cx b with
      | error err => simp [genStmt, hgc, hb] at hg
      | ok b' =>
        simp [genStmt, hgc, hb] at hg; subst hg
        have ih := sim_stmts hag rt b b' hb hwt.2
        have hc : Ast.condFn W env (some c') = Ir.condFn W (some c) :=
          cond_fn_eq hag (by simp [genOptExpr, hgc, Except.map]) (by simpa [Ir.okOpt] using hwt.1)
        intro fuel σ
        have hbody : (fun s => Ast.execs W env rt fuel b' s) = (fun s => Ir.execs W fuel b s) := by
          funext s; exact ih fuel s
        simp only [Ast.exec, Ir.exec, hc, hbody]
  | .doWhile b c, s', hg, hwt => by
    simp only [Ir.wtStmt, Bool.and_eq_true] at hwt
    cases hb : genStmts cx b with
    | error err => simp [genStmt, hb] at hg
    | ok b' =>
      cases hgc : genExpr cx c with
      | error err => simp [genStmt, hgc, hb] at hg
      | ok c' =>
        simp [genStmt, hgc, hb] at hg; subst hg
        have ih := sim_stmts hag rt b b' hb hwt.1
        have hc : Ast.condFn W env (some c') = Ir.condFn W (some c) :=
          cond_fn_eq hag (by simp [genOptExpr, hgc, Except.map]) (by simpa [Ir.okOpt] using hwt.2)
        intro fuel σ
        have hbody : (fun s => Ast.execs W env rt fuel b' s) = (fun s => Ir.execs W fuel b s) := by
          funext s; exact ih fuel s
        simp only [Ast.exec, Ir.exec, hc, hbody]
  | .break, s', hg, _ => by
    simp [genStmt] at hg; subst hg; intro fuel σ; rfl
  | .continue, s', hg, _ => by
    simp [genStmt] at hg; subst hg; intro fuel σ; rfl
  | .ret none, s', hg, _ => by
    simp [genStmt, genOptExpr, Except.map] at hg; subst hg; intro fuel σ; rfl
  | .ret (some e), s', hg, hwt => by
    cases hge : genExpr cx e with
    | error err => simp [genStmt, genOptExpr, hge, Except.map] at hg
    | ok a =>
      simp [genStmt, genOptExpr, hge, Except.map] at hg; subst hg
      obtain ⟨ht, hs⟩ := sim_okT hag hge (by simpa [Ir.wtStmt] using hwt)
      intro fuel σ
      simp [Ast.exec, Ir.exec, hs.1, hs.conv ht σ]
theorem sim_stmts {W : World} {env : Ast.Env} {cx : Ctx} (hag : Agree cx env) (rt : Ty) :
    ∀ (b : Ir.Stmts) (b' : HlslAst.Stmts),
      genStmts cx b = .ok b' → Ir.wtStmts W.sig cx.vty rt b = true → SimSs W env rt b b'
  | .nil, b', hg, _ => by
    simp [genStmts] at hg; subst hg; intro fuel σ; rfl
  | .cons s r, b', hg, hwt => by
    simp only [Ir.wtStmts, Bool.and_eq_true] at hwt
    cases hs : genStmt cx s with
    | error err => simp [genStmts, hs] at hg
    | ok s' =>
      cases hr : genStmts cx r with
      | error err => simp [genStmts, hs, hr] at hg
      | ok r' =>
        simp [genStmts, hs, hr] at hg; subst hg
        have h1 := sim_stmt hag rt s s' hs hwt.1
        have h2 := sim_stmts hag rt r r' hr hwt.2
        intro fuel σ
        simp only [Ast.execs, Ir.execs, h1 fuel σ]
        cases Ir.exec W fuel s σ with
        | none => rfl
        | some p => obtain ⟨fl, σ1⟩ := p; cases fl <;> simp [h2 fuel σ1]
end

theorem params_eq {env : Ast.Env} {cx : Ctx} (hag : Agree cx env) :
    ∀ (ps : List (Nat × Dir × Ty)) (ps' : List (String × Dir × String)), genParams cx ps = .ok ps' →
      ps'.length = ps.length ∧
      (∀ vals σ, Ast.bindParams env ps' vals σ = some (Ir.bindParams ps vals σ)) ∧
      (∀ σ, Ast.finalParams env σ ps' = some (ps.map fun p => σ (.loc p.1))) ∧
      Ast.paramSig ps' = some (ps.map fun p => (p.2.1, p.2.2))
  | [], ps', hg => by
    simp [genParams] at hg; subst hg
    refine ⟨rfl, ?_, ?_, rfl⟩
    · intro vals σ; cases vals <;> simp [Ast.bindParams, Ir.bindParams]
    · intro σ; simp [Ast.finalParams]
  | (id, d, t) :: r, ps', hg => by
    simp only [genParams] at hg
    cases htn : typeName t with
    | error e => simp [htn] at hg
    | ok tn =>
      cases hr : genParams cx r with
      | error e => simp [htn, hr] at hg
      | ok r' =>
        simp [htn, hr] at hg; subst hg
        obtain ⟨h1, h2, h3, h4⟩ := params_eq hag r r' hr
        have hres := hag.res (.loc id)
        simp only [Ctx.name] at hres
        refine ⟨by simp [h1], ?_, ?_, ?_⟩
        · intro vals σ
          cases vals with
          | nil => simp [Ast.bindParams, Ir.bindParams]
          | cons v vs => simp [Ast.bindParams, Ir.bindParams, hres, h2]
        · intro σ; simp [Ast.finalParams, hres, h3 σ]
        · simp [Ast.paramSig, typeName_tyOfName' htn, h4]

/-- **function level**: running the emitted definition equals running the typed function -/
theorem sim_func {W : World} {env : Ast.Env} {cx : Ctx} (hag : Agree cx env)
    {fn : Ir.Func} {afn : HlslAst.Func}
    (hg : genFunc cx fn = .ok afn) (hwt : Ir.wtStmts W.sig cx.vty fn.ret fn.body = true) :
    ∀ fuel vals σ, Ast.callFunc W env fuel afn vals σ = Ir.callFunc W fuel fn vals σ := by
  simp only [genFunc] at hg
  cases hrt : typeName fn.ret with
  | error e => simp [hrt] at hg
  | ok rt =>
    cases hps : genParams cx fn.params with
    | error e => simp [hrt, hps] at hg
    | ok ps' =>
      cases hb : genStmts cx fn.body with
      | error e => simp [hrt, hps, hb] at hg
      | ok b' =>
        simp [hrt, hps, hb] at hg; subst hg
        obtain ⟨h1, h2, h3, _⟩ := params_eq hag fn.params ps' hps
        have ih := sim_stmts hag fn.ret fn.body b' hb hwt
        intro fuel vals σ
        simp only [Ast.callFunc, Ir.callFunc, h1, typeName_tyOfName' hrt, h2 vals σ]
        by_cases hlen : vals.length ≠ fn.params.length
        · simp [hlen]
        · simp only [hlen, if_false, ih fuel]
          cases Ir.execs W fuel fn.body (Ir.bindParams fn.params vals σ) with
          | none => rfl
          | some r => obtain ⟨fl, σ1⟩ := r; simp [h3 σ1]

theorem genFunc_facts {env : Ast.Env} {cx : Ctx} (hag : Agree cx env) {fn : Ir.Func} {afn : HlslAst.Func}
    (hg : genFunc cx fn = .ok afn) :
    afn.name = cx.funcName fn.id ∧ Ast.tyOfName afn.ret = some fn.ret ∧
    Ast.paramSig afn.params = some (fn.params.map fun p => (p.2.1, p.2.2)) := by
  simp only [genFunc] at hg
  cases hrt : typeName fn.ret with
  | error e => simp [hrt] at hg
  | ok rt =>
    cases hps : genParams cx fn.params with
    | error e => simp [hrt, hps] at hg
    | ok ps' =>
      cases hb : genStmts cx fn.body with
      | error e => simp [hrt, hps, hb] at hg
      | ok b' =>
        simp [hrt, hps, hb] at hg; subst hg
        exact ⟨rfl, typeName_tyOfName' hrt, (params_eq hag fn.params ps' hps).2.2.2⟩

theorem find_corr {env : Ast.Env} {cx : Ctx} (hag : Agree cx env) (f : Nat) :
    ∀ (prog : List Ir.Func) (astProg : List HlslAst.Func), genProg cx prog = .ok astProg →
      match prog.find? (fun fn => fn.id == f) with
      | none => astProg.find? (fun a => env.fres a.name == some f) = none
      | some fn => ∃ afn, astProg.find? (fun a => env.fres a.name == some f) = some afn ∧ genFunc cx fn = .ok afn
  | [], astProg, hg => by simp [genProg] at hg; subst hg; simp
  | fn :: r, astProg, hg => by
    simp only [genProg] at hg
    cases hf : genFunc cx fn with
    | error e => simp [hf] at hg
    | ok a =>
      cases hr : genProg cx r with
      | error e => simp [hf, hr] at hg
      | ok as =>
        simp [hf, hr] at hg; subst hg
        have hn := (genFunc_facts hag hf).1
        have hfr : env.fres a.name = some fn.id := by rw [hn]; exact hag.fres fn.id
        have ih := find_corr hag f r as hr
        by_cases hid : fn.id = f
        · subst hid
          simp [List.find?, hfr, hf]
        · have h1 : (fn.id == f) = false := by simpa using hid
          have h2 : (env.fres a.name == some f) = false := by simp [hfr, hid]
          simp only [List.find?, h1, h2]
          exact ih

theorem sig_eq {env : Ast.Env} {cx : Ctx} (hag : Agree cx env) {prog : List Ir.Func} {astProg : List HlslAst.Func}
    (hg : genProg cx prog = .ok astProg) : Ast.sigOf env astProg = Ir.sigOf prog := by
  funext f
  have := find_corr hag f prog astProg hg
  simp only [Ast.sigOf, Ir.sigOf]
  cases hp : prog.find? (fun fn => fn.id == f) with
  | none => rw [hp] at this; simp only [] at this; rw [this]
  | some fn =>
    rw [hp] at this; simp only [] at this
    obtain ⟨afn, h1, h2⟩ := this
    obtain ⟨_, h3, h4⟩ := genFunc_facts hag h2
    simp [h1, h3, h4]

/-- **program level**: the callable functions of the emitted program are those of the typed program, at every call depth -/
theorem sim_phi {env : Ast.Env} {cx : Ctx} (hag : Agree cx env) {prog : List Ir.Func} {astProg : List HlslAst.Func}
    (hg : genProg cx prog = .ok astProg)
    (hwt : ∀ fn ∈ prog, Ir.wtStmts (Ir.sigOf prog) cx.vty fn.ret fn.body = true) (P : Prim) (fuel : Nat) :
    ∀ d, Ast.phi P env astProg fuel d = Ir.phi P prog fuel d
  | 0 => rfl
  | d + 1 => by
    funext f vals σ
    have ih := sim_phi hag hg hwt P fuel d
    have hc := find_corr hag f prog astProg hg
    simp only [Ast.phi, Ir.phi, sig_eq hag hg, ih]
    cases hp : prog.find? (fun fn => fn.id == f) with
    | none => rw [hp] at hc; simp only [] at hc; rw [hc]
    | some fn =>
      rw [hp] at hc; simp only [] at hc
      obtain ⟨afn, h1, h2⟩ := hc
      simp only [h1]
      exact sim_func (W := { P := P, phi := Ir.phi P prog fuel d, sig := Ir.sigOf prog }) hag h2
        (hwt fn (List.mem_of_find?_eq_some hp)) fuel vals σ

end RsslVerif.Lemmas.GenSem

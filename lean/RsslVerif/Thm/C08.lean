import RsslVerif.Gen.PanicSites
import RsslVerif.Model.Progress
import RsslVerif.Lemmas.Progress
import RsslVerif.Lemmas.ProgressChain
import RsslVerif.Lemmas.PanicClasses
import RsslVerif.Gen.ArithSites
import RsslVerif.Model.DefinedLoc
import RsslVerif.Lemmas.DefinedLoc
import RsslVerif.Lemmas.ArithClasses
import RsslVerif.Gen.PipelineProps
import RsslVerif.Model.PipelineProps
import RsslVerif.Lemmas.PipelineProps
import RsslVerif.Gen.UsageLoop
import RsslVerif.Model.UsageDfs
import RsslVerif.Lemmas.Usage
/-!
# C08 — compilation is total

What a proof can say about totality of a 50 kLoC compiler is (1) *which* explicit panic sites exist and
that each one has been looked at (`panic_sites_classified`, tied to the source by the regenerated
inventory), and (2) that the loops whose termination is a progress argument do terminate within a bound
that is linear in the input (`parse_list_progress`, `root_loop_progress`, `lex_progress`,
`cond_chain_total`), for *every* input and every element parser / single-token lexer satisfying the stated
progress condition — together with the witness that the condition is necessary
(`parse_multiple_diverges_without_progress`).  Stack depth, allocation failure and wall-clock time are
runtime facts: they are observed by the supervised harness run, never claimed here.
-/
namespace RsslVerif.Thm.C08
open RsslVerif.Model.Progress RsslVerif.Lemmas.Progress
open RsslVerif.Gen.PanicSites

variable {τ ε α γ : Type}

/-! ## the parser's list combinators -/

/-- Tie to the source: `parse_list_base`, `parse_optional` and the loop of `parse_internal` have the
    shape the model mirrors (continue only after separator and element succeeded, on the element's
    remaining input; stop without consuming on an unconsumed failure; fail on a consumed failure). -/
theorem parser_loops_as_modelled : parserLoopShape = ⟨true, true, true, true, true, true, true⟩ := by decide

/-- **parse_list_base terminates within `|input| + 1` loop iterations** for every element parser that
    does not grow its input and every separator/element pair of which one consumes a token on success;
    the values it returns plus the input it leaves never exceed the input it was given plus one
    (the first element is parsed without a separator). -/
theorem parse_list_progress (sep : Parser τ ε γ) (elem : Parser τ ε α) (allowEmpty : Bool)
    (hp : Productive sep elem) (hn : NonIncreasing elem) (input : List τ) :
    ∃ r, parseListBase sep elem allowEmpty (input.length + 1) input = some r ∧
      ∀ rest vs, r = .ok (rest, vs) → vs.length + rest.length ≤ input.length + 1 := by
  unfold parseListBase
  cases he : elem input with
  | error e =>
    obtain ⟨rest, err⟩ := e
    simp only
    split
    · refine ⟨_, rfl, ?_⟩
      intro rest vs h
      simp only [Except.ok.injEq, Prod.mk.injEq] at h
      obtain ⟨rfl, rfl⟩ := h
      simp
    · refine ⟨_, rfl, ?_⟩
      intro rest vs h
      cases h
  | ok w =>
    obtain ⟨rest, e⟩ := w
    simp only
    have hr := hn input rest e he
    obtain ⟨r, hr'⟩ := listLoop_terminates hp (input.length + 1) rest [e] (by omega)
    refine ⟨r, hr', ?_⟩
    intro rest' vs h
    subst h
    have := listLoop_count hp _ _ _ _ _ hr'
    simp only [List.length_cons, List.length_nil] at this
    omega

/-- The result does not depend on the fuel once there is enough of it (the model's `none` really means
    "the Rust loop is still running", not an artefact of the bound). -/
theorem parse_list_fuel_irrelevant (sep : Parser τ ε γ) (elem : Parser τ ε α) (n k : Nat)
    (input : List τ) (acc : List α) (r : PR τ ε (List α))
    (h : listLoop sep elem n input acc = some r) : listLoop sep elem (n + k) input acc = some r := by
  induction k with
  | zero => exact h
  | succ k ih => exact listLoop_fuel_mono (n + k) input acc r ih

/-- `parse_multiple` (no separator) terminates whenever the element parser consumes on success. -/
theorem parse_multiple_progress (elem : Parser τ ε α) (he : Consuming elem) (input : List τ) :
    ∃ r, parseMultiple elem (input.length + 1) input = some r ∧
      ∀ rest vs, r = .ok (rest, vs) → vs.length + rest.length ≤ input.length + 1 := by
  unfold parseMultiple
  apply parse_list_progress
  · apply productive_of_elem_consuming _ he
    intro i rest a h
    simp only [Except.ok.injEq, Prod.mk.injEq] at h
    rw [← h.1]
    exact Nat.le_refl _
  · intro i rest a h
    exact Nat.le_of_lt (he i rest a h)

/-- **The progress condition is necessary**: the combinator has no consumed-check of its own on the
    success path.  With an element parser that succeeds without consuming, `parse_multiple` never
    returns (for every amount of fuel the loop is still running). -/
theorem parse_multiple_diverges_without_progress (input : List τ) (a : α) (fuel : Nat) :
    parseMultiple (ε := ε) (fun i => .ok (i, a)) fuel input = none := by
  unfold parseMultiple parseListBase
  simp only
  suffices h : ∀ (n : Nat) (acc : List α),
      listLoop (τ := τ) (ε := ε) (γ := Unit) (fun i => .ok (i, ())) (fun i => .ok (i, a)) n input acc = none from h fuel [a]
  intro n
  induction n with
  | zero => intro acc; rfl
  | succ n ih => intro acc; unfold listLoop; exact ih (a :: acc)

/-- `parse_optional` is total and keeps the input when it reports `None`. -/
theorem parse_optional_total (elem : Parser τ ε α) (input : List τ) :
    (∃ rest a, elem input = .ok (rest, a) ∧ parseOptional elem input = .ok (rest, some a)) ∨
    parseOptional elem input = .ok (input, none) ∨
    (∃ rest err, elem input = .error (rest, err) ∧ rest.length ≠ input.length ∧
      parseOptional elem input = .error (rest, err)) := by
  unfold parseOptional
  cases he : elem input with
  | ok w => obtain ⟨rest, a⟩ := w; exact Or.inl ⟨rest, a, rfl, rfl⟩
  | error e =>
    obtain ⟨rest, err⟩ := e
    simp only
    by_cases hl : rest.length = input.length
    · right; left; simp [hl]
    · right; right; exact ⟨rest, err, rfl, hl, by simp [hl]⟩

/-- The root-definition loop of `parse_internal` terminates within `|input| + 1` iterations when a root
    definition consumes at least one token. -/
theorem root_loop_progress (root : Parser τ ε α) (isEof : τ → Bool) (hc : Consuming root) :
    ∀ (n : Nat) (input : List τ) (acc : List α), input.length < n →
      ∃ r, rootLoop root isEof n input acc = some r := by
  intro n
  induction n with
  | zero => intro input acc h; omega
  | succ n ih =>
    intro input acc hlt
    unfold rootLoop
    cases hr : root input with
    | ok w =>
      obtain ⟨remaining, r⟩ := w
      simp only
      have := hc input remaining r hr
      exact ih remaining (r :: acc) (by omega)
    | error e =>
      simp only
      split
      · split <;> exact ⟨_, rfl⟩
      · exact ⟨_, rfl⟩

/-- Tie to the source: every call of `parse_list` / `parse_list_nonempty` / `parse_multiple` in the
    parser is a reviewed one (see `Lemmas/PanicClasses.lean: reviewedListUses` for who consumes). -/
theorem list_uses_reviewed :
    listUses.all (fun u => (RsslVerif.Lemmas.PanicClasses.reviewedListUses.map (·.1)).contains u) = true := by
  decide +kernel

/-! ## TokenStream -/

/-- Tie to the source: `TokenStream::{new, next, end_of_stream, read_to_end}` have the modelled shape and
    every caller of `next` sits under a `while !end_of_stream()` head. -/
theorem lex_shape_as_modelled :
    lexShape = ⟨true, true, true, true, true, true, true, true, true⟩ ∧
    lexNextCallers.all (fun c => c.2.2 == "guarded") = true := by decide

theorem readToEnd_gen (lex : Lex) :
    ∀ (n : Nat) (s : Stream) (acc : List Span), s.off ≤ s.len → s.addTrailing = true →
      (∀ off nl e, lex off = some (nl, e) → nl ≤ s.len) → potential s < n →
      ∃ r, readToEnd lex n s acc = some r ∧ r ≠ .panicAssertEndline ∧
        ((∀ off nl e, lex off = some (nl, e) → off < nl) → r ≠ .panicNoProgress) ∧
        ∀ l, r = .tokens l → l.length ≤ acc.length + potential s := by
  intro n
  induction n with
  | zero => intro s acc _ _ _ h; omega
  | succ n ih =>
    intro s acc hr ht hlex hpot
    unfold readToEnd
    by_cases heos : s.endOfStream = true
    · simp only [heos, if_true]
      refine ⟨_, rfl, by simp, fun _ => by simp, ?_⟩
      intro l h
      simp only [ReadResult.tokens.injEq] at h
      subst h
      simp
    · simp only [heos]
      cases hn : s.next lex with
      | token sp s' =>
        simp only
        obtain ⟨hdec, hlen, hr', ht'⟩ := next_potential_decreases lex s s' sp hr ht hlex hn
        obtain ⟨r, h1, h2, h3, h4⟩ := ih s' (sp :: acc) hr' ht' (by rw [hlen]; exact hlex) (by omega)
        refine ⟨r, h1, h2, h3, ?_⟩
        intro l hl
        have := h4 l hl
        simp only [List.length_cons] at this
        omega
      | lexError => exact ⟨_, rfl, by simp, fun _ => by simp, fun l h => by cases h⟩
      | panicNoProgress =>
        refine ⟨_, rfl, by simp, ?_, fun l h => by cases h⟩
        intro hprod
        exfalso
        unfold Stream.next at hn
        split at hn
        · split at hn <;> cases hn
        · split at hn
          · cases hn
          · rename_i nl endl hlx
            have := hprod s.off nl endl hlx
            simp [this] at hn
      | panicAssertEndline =>
        exfalso
        unfold Stream.next at hn
        split at hn
        · rename_i hc
          split at hn
          · rename_i hl
            simp only [Bool.and_eq_true, beq_iff_eq] at hc
            have : s.endOfStream = true := by
              simp [Stream.endOfStream, hc.2, hl]
            exact heos this
          · cases hn
        · split at hn
          · cases hn
          · split at hn <;> cases hn

/-- **`read_to_end` terminates on every byte string and every single-token lexer** (whose results stay
    inside the input): within `len + 2` iterations it returns at most `len + 1` tokens or a lexer error;
    the `assert!(!self.last_was_endline)` of the synthetic-endline branch can never fire under the
    `end_of_stream` guard; and the progress `debug_assert` can only fire if the single-token lexer
    returns without consuming a byte. -/
theorem lex_progress (lex : Lex) (len : Nat)
    (hrange : ∀ off nl e, lex off = some (nl, e) → nl ≤ len) :
    ∃ r, readToEnd lex (len + 2) (Stream.new len) [] = some r ∧ r ≠ .panicAssertEndline ∧
      ((∀ off nl e, lex off = some (nl, e) → off < nl) → r ≠ .panicNoProgress) ∧
      ∀ l, r = .tokens l → l.length ≤ len + 1 := by
  have hpot : potential (Stream.new len) ≤ len + 1 := by
    unfold potential Stream.new
    by_cases h : 0 < len
    · simp [h]
    · simp [h]
  obtain ⟨r, h1, h2, h3, h4⟩ := readToEnd_gen lex (len + 2) (Stream.new len) []
    (by simp [Stream.new]) rfl hrange (by omega)
  refine ⟨r, h1, h2, h3, ?_⟩
  intro l hl
  have := h4 l hl
  simp only [List.length_nil] at this
  omega

/-! ## ConditionChain -/

section CondChain
open RsslVerif.Lemmas.ProgressChain

/-- Tie to the source: `ConditionChain::{switch, pop, is_active, push}`, the per-file bracket of
    `preprocess_included_file` and their users in `preprocess_command` have the modelled shape. -/
theorem cond_shape_as_modelled :
    condShape = ⟨true, true, true, true, true, true, true, true, true, true, true, true, true, true, true, true, true, true, true, true⟩ ∧
    chainBaseWrites = 2 := by
  decide

/-- **The condition chain is total, for every tree of files.**  (1) No state of the chain panics: the unchecked
    slice `&mut self.0[self.1..]` of `switch` is always in range, because `self.1 ≤ self.0.len()` is kept by every
    directive and by the save / set / check / restore bracket around an included file — so a run ends in the
    emitted text or in one of the six rendered diagnostics.  (2) For a file without `#include` and without
    malformed directive lines, *which* of them is decided by the nesting shape alone — the number of open `#if`s
    and whether the innermost one has had its `#else` (fix 03ca601: a second `#else`, or an `#elif` after it, is
    an error) — never by the values of the conditions: an `#else`/`#elif`/`#endif` without open block is the
    matching error, an open block at the end of the file is `ConditionChainNotFinished`. -/
theorem cond_chain_total (f : Lines) :
    runFile f ≠ .error .panicSlice ∧
    (f.plain = true →
      (match runFile f with | .ok _ => Except.ok () | .error e => .error e) =
        (match shapeSpec f [] with
         | .error e => .error e
         | .ok [] => .ok ()
         | .ok (_ :: _) => .error .notFinished)) := by
  constructor
  · have h := (step_keeps (.incl f) ⟨[], 0⟩ (Nat.le_refl 0)).1
    unfold runFile
    cases hs : step ⟨[], 0⟩ (.incl f) with
    | error e => rw [hs] at h; simpa using h
    | ok w =>
      obtain ⟨c, out⟩ := w
      simp only
      split <;> simp
  · intro hp
    have h := run_shape f [] [] hp
    simp only [List.map_nil] at h
    rw [← h]
    unfold runFile step
    have hact : Chain.isActive ⟨[], 0⟩ = true := rfl
    rw [if_pos hact]
    simp only [List.length_nil]
    have hk := run_keeps f ⟨[], 0⟩ [] (Nat.le_refl 0)
    cases hr : run f ⟨[], 0⟩ [] with
    | error e => simp
    | ok w =>
      obtain ⟨c2, o⟩ := w
      have hb : c2.base = 0 := (hk.2 c2 o hr).1
      simp only [hb, elses]
      cases hbl : c2.blocks with
      | nil => simp
      | cons b rest => simp

/-- **An included file cannot touch the `#if` blocks of the files that include it** (fix 115a619): whatever
    the file contains, if the `#include` succeeds the chain is exactly what it was — same blocks, same `self.1`;
    so an `#else` / `#elif` / `#endif` of the included file never switches or closes an outer block, and a block
    the file leaves open is `ConditionChainNotFinished` at the end of that file. -/
theorem cond_include_isolated (f : Lines) (c c' : Chain) (o : List Nat)
    (hs : step c (.incl f) = .ok (c', o)) : c'.blocks = c.blocks ∧ c'.base = c.base := by
  unfold step at hs
  by_cases hact : c.isActive = true
  · rw [if_pos hact] at hs
    have hk := run_keeps f { c with base := c.blocks.length } [] (Nat.le_refl _)
    cases hr : run f { c with base := c.blocks.length } [] with
    | error e => rw [hr] at hs; cases hs
    | ok w =>
      obtain ⟨c2, o2⟩ := w
      rw [hr] at hs
      simp only at hs
      by_cases hlen : c2.blocks.length = c2.base
      · rw [if_neg (by simpa using hlen)] at hs
        simp only [Except.ok.injEq, Prod.mk.injEq] at hs
        obtain ⟨hb, _, hbot⟩ := hk.2 c2 o2 hr
        simp only at hb hbot
        have hl : c2.blocks.length = c.blocks.length := by rw [hlen, hb]
        rw [← hl, bottom_all, hl, bottom_all] at hbot
        rw [← hs.1]
        exact ⟨hbot, rfl⟩
      · rw [if_pos (by simpa using hlen)] at hs
        cases hs
  · rw [if_neg hact] at hs
    simp only [Except.ok.injEq, Prod.mk.injEq] at hs
    rw [← hs.1]
    exact ⟨rfl, rfl⟩

/-- the chain never gets deeper than the number of lines seen -/
theorem cond_depth_bounded : ∀ (f : Lines) (st st' : List Bool), shapeSpec f st = .ok st' →
    st'.length ≤ st.length + f.size
  | .nil, st, st', h => by
    simp only [shapeSpec, Except.ok.injEq] at h
    simp [h, Lines.size]
  | .cons d r, st, st', h => by
    cases d with
    | ifD a =>
      have := cond_depth_bounded r _ _ h
      simp only [List.length_cons, Lines.size] at this ⊢; omega
    | elif a =>
      cases st with
      | nil => simp [shapeSpec] at h
      | cons b st0 =>
        cases b with
        | true => simp [shapeSpec] at h
        | false =>
          have := cond_depth_bounded r _ _ h
          simp only [List.length_cons, Lines.size] at this ⊢; omega
    | els =>
      cases st with
      | nil => simp [shapeSpec] at h
      | cons b st0 =>
        cases b with
        | true => simp [shapeSpec] at h
        | false =>
          have := cond_depth_bounded r _ _ h
          simp only [List.length_cons, Lines.size] at this ⊢; omega
    | endif =>
      cases st with
      | nil => simp [shapeSpec] at h
      | cons b st0 =>
        have := cond_depth_bounded r _ _ h
        simp only [List.length_cons, Lines.size] at this ⊢; omega
    | text id =>
      have := cond_depth_bounded r _ _ h
      simp only [Lines.size] at this ⊢; omega
    | junk =>
      have := cond_depth_bounded r _ _ h
      simp only [Lines.size] at this ⊢; omega
    | incl g =>
      have := cond_depth_bounded r _ _ h
      simp only [Lines.size] at this ⊢; omega

end CondChain

/-! ## recursion guard of the macro expander, rendering of errors -/

/-- Tie to the source: the recursive expansion of a macro body is bracketed by disabling that macro,
    arguments are expanded under the caller's disabled set (fix d00f5aa), disabled macros are skipped. -/
theorem macro_guard_as_modelled : macroShape = ⟨true, true, true, true⟩ := by decide

/-- Tie to the source: every stage error in `compile()`/`build_pipeline()` is mapped to
    `CompileError::Text(format!("{}", err.display(..)))` (5 stage arms + the layout check). -/
theorem stage_errors_rendered : renderedErrorArms = 5 ∧ layoutErrorRendered = true := by decide

/-! ## the panic-site inventory -/

open RsslVerif.Lemmas.PanicClasses in
/-- **Every explicit panic site of the current tree is a reviewed one** with a class in
    {unreachable-by-invariant, reachable-known-finding, internal-assert}.  Both lists are sorted, so the
    check is a linear sub-list test; a new `panic!/todo!/unimplemented!/unreachable!/assert*/unwrap/expect`
    (or an existing one that moved to another function or changed its text) breaks the obligation. -/
theorem panic_sites_classified :
    List.isSublist sites (reviewed.map (·.1)) = true ∧
    reviewed.all (fun r => classNames.contains r.2.1) = true := by
  constructor <;> decide +kernel


/-! ## implicit panic sites: unchecked arithmetic, casts, indexing and slicing in the preprocessor / lexer core -/

open RsslVerif.Lemmas.ArithClasses in
/-- **Every unchecked `+ - *`, `as` cast, index and slice inside the non-test functions of `preprocess.rs`,
    `lexer.rs`, `condition_parser.rs` and `location.rs` is a reviewed one**, with the invariant that makes it safe
    (`Lemmas/ArithClasses.lean`).  The inventory is regenerated from the source on every run; a new operation, or
    an inventoried one whose operands change, breaks the obligation (both lists are sorted: linear sub-list test).
    None is classified reachable. -/
theorem arith_sites_classified :
    List.isSublist RsslVerif.Gen.ArithSites.sites (reviewed.map (·.1)) = true ∧
    reviewed.all (fun r => classNames.contains r.2.1) = true ∧
    reviewed.all (fun r => r.2.1 != "reachable-known-finding") = true ∧
    RsslVerif.Gen.ArithSites.files = ["preprocess/src/preprocess.rs", "preprocess/src/lexer.rs",
      "preprocess/src/condition_parser.rs", "text/src/location.rs"] := by
  refine ⟨?_, ?_, ?_, ?_⟩ <;> decide +kernel

/-! ## the location arithmetic of `defined` -/

section DefinedLocation
open RsslVerif.Model.DefinedLoc RsslVerif.Lemmas.DefinedLoc RsslVerif.Gen.ArithSites

/-- Tie to the source: `find_single_macro` reports `defined` only at or after `next_pos` and only under
    `apply_defined`; the `Defined` arm takes the start from `tokens[pos]`, the end from the last consumed token and
    subtracts the raw values; the scan positions after each operation are the modelled ones; only `#if` and `#elif`
    scan with `apply_defined = true`; `Token::Concat` / `Token::MacroArg` are made in `Macro::parse` only; since
    f08088c the `(` of an invocation is looked for after blanks *and line ends* (in `split_macro_args` and in the
    function check of `find_single_macro`) and an empty argument list may hold a line end; since 3c81ed5 an API
    define whose value contains a line end is rejected before `Macro::parse`. -/
theorem defined_shape_as_modelled :
    definedShape = ⟨true, true, true, true, true, true, true, true, true, true, true, true, true, true, true, true,
      true, true, true, true, true, true⟩ ∧
    recursiveScanCalls = 2 ∧ scansWithDefined = 2 ∧ concatConstructions = 1 ∧ macroArgConstructions = 1 := by
  decide

/-- **`end_location.get_raw() - start_location.get_raw()` cannot overflow on the current code**, for every macro
    table (bodies with arbitrary locations: other files, API defines, scratch files), every `##` oracle that does
    not invent `Concat` tokens, every command line whose tokens come from one lexer run (`Mono`) and carry no
    `Concat` (the lexer makes `HashHash`), with or without `apply_defined`, and every amount of fuel.
    The proof uses the flags the *current source* passes to the two recursive scans (`Gen.ArithSites.bodyRescanFlag`,
    `argExpandFlag`, re-extracted on every run): both are the constant `false`, hence `defined` only fires in the
    outermost scan, at or after `next_pos`, where the tokens are an untouched suffix of the command line. -/
theorem defined_location_safe (paste : Tok → Tok → Option Tok)
    (hpaste : ∀ a b t, paste a b = some t → t.k ≠ .concat)
    (defs : List Macro) (cmd : List Tok) (hmono : Mono cmd) (hnc : NoConcat cmd) (ad : Bool) (fuel : Nat) :
    applyMacros paste bodyRescanFlag argExpandFlag fuel defs cmd ad ≠ .error .subOverflow := by
  have hb : bodyRescanFlag = .constFalse := by decide
  have ha : argExpandFlag = .constFalse := by decide
  rw [hb, ha]
  unfold applyMacros
  exact applyLoop_no_subOverflow paste hpaste cmd hmono fuel _ cmd SearchPos.start ad
    (fun _ => ⟨hnc, 0, rfl⟩)

/-- the header `#define ENABLED(x) (defined x)` registered after the file that says `#if ENABLED(FOO)` -/
def witnessDefs : List Macro :=
  [⟨1, true, 1, [⟨.lparen, 120, 121⟩, ⟨.id definedName, 121, 128⟩, ⟨.blank, 128, 129⟩, ⟨.arg 0, 129, 130⟩, ⟨.rparen, 130, 131⟩]⟩]
def witnessCmd : List Tok := [⟨.id 1, 20, 27⟩, ⟨.lparen, 27, 28⟩, ⟨.id 2, 28, 31⟩, ⟨.rparen, 31, 32⟩]

/-- **The flag is what makes it safe** (negation witness): if the rescan of the substituted body ran with the
    caller's `apply_defined`, a function-like macro whose body says `defined x`, defined in a file registered
    after the one with the `#if`, subtracts a larger start from a smaller end. -/
theorem defined_location_needs_plain_rescan :
    Mono witnessCmd ∧ NoConcat witnessCmd ∧
    applyMacros (fun _ _ => none) .caller .constFalse 10 witnessDefs witnessCmd true = .error .subOverflow ∧
    applyMacros (fun _ _ => none) bodyRescanFlag argExpandFlag 10 witnessDefs witnessCmd true =
      .ok [⟨.lparen, 120, 121⟩, ⟨.id definedName, 121, 128⟩, ⟨.blank, 128, 129⟩, ⟨.id 2, 28, 31⟩, ⟨.rparen, 130, 131⟩] := by
  refine ⟨mono_of_tiled _ (by decide), ?_, by rfl, by rfl⟩
  intro t ht
  simp only [witnessCmd, List.mem_cons, List.mem_nil_iff, or_false] at ht
  rcases ht with rfl | rfl | rfl | rfl <;> simp

/-- **The two index computations of the `Defined` arm stay in range**: whenever the operand of `defined` was read
    (`definedRest`), `tokens.len() - remaining.len() - 1` does not underflow and is an index after `pos`, so
    `definedToken` never reports one of its index panics. -/
theorem defined_indices_in_range (toks : List Tok) (env : List Entry) (p : Nat) (rem : List Tok) (op : Option Nat)
    (hp : p < toks.length) (hrem : definedRest (toks.drop (p + 1)) = .ok rem) :
    rem.length + 1 ≤ toks.length ∧ p + 1 ≤ toks.length - rem.length - 1 ∧ toks.length - rem.length - 1 < toks.length ∧
    ∀ s, definedToken toks env p rem op ≠ .error (.panic s) := by
  have hlen := definedRest_length _ _ hrem
  simp only [List.length_drop] at hlen
  refine ⟨by omega, by omega, by omega, ?_⟩
  intro s h
  unfold definedToken at h
  split at h
  · rename_i hn
    rw [List.getElem?_eq_none_iff] at hn
    omega
  · split at h
    · split at h
      · rename_i hn
        rw [List.getElem?_eq_none_iff] at hn
        omega
      · split at h <;> cases h
    · omega

/-- A completed scan leaves no `Concat` token in its output, whatever the flags (so the `continue` without
    progress in `find_single_macro`, which needs a `Concat` before `next_pos`, is not reached from a spliced result). -/
theorem scan_output_has_no_concat (paste : Tok → Tok → Option Tok)
    (hpaste : ∀ a b t, paste a b = some t → t.k ≠ .concat) (bf af : FlagSrc)
    (defs : List Macro) (toks out : List Tok) (ad : Bool) (fuel : Nat)
    (h : applyMacros paste bf af fuel defs toks ad = .ok out) : NoConcat out :=
  applyLoop_noConcat paste bf af hpaste fuel _ toks SearchPos.start ad out
    (by intro i t hi; simp [SearchPos.start] at hi) h

end DefinedLocation

/-! ## property blocks: the duplicate check that keeps four asserts of `parse_pipeline` unreachable -/

section PipelineProps
open RsslVerif.Model.PipelineProps RsslVerif.Lemmas.PipelineProps RsslVerif.Gen.PipelineProps

/-- Tie to the source (`typer/src/typer/pipelines.rs`, re-extracted on every run): both duplicate checks
    (`parse_pipeline`, `parse_static_sampler`) are the all-pairs loop and compare the property **names as text**
    (`.as_str()`), not the `Located<String>` values; the check precedes the stage loop and the state loop; the state
    loop walks exactly the properties the stage loop left, matching the name as text; each of the four flags / slots
    an `assert!` tests is written by the arm of its own name only; on a compute pipeline the gated arms return
    before they write.  The tables of the arms are the ones the model and the generators use. -/
theorem pipeline_duplicates_as_modelled :
    pipelineShape = ⟨true, true, true, true, true, true, true, true, true, true⟩ ∧
    pipelineDupCompare = .text ∧ samplerDupCompare = .text ∧
    stageProps = ["VertexShader", "PixelShader", "ComputeShader", "TaskShader", "MeshShader"] ∧
    stateArms = [
      (["RenderTargetFormat0", "RenderTargetFormat1", "RenderTargetFormat2", "RenderTargetFormat3", "RenderTargetFormat4",
        "RenderTargetFormat5", "RenderTargetFormat6", "RenderTargetFormat7"], true, true),
      (["DepthTargetFormat"], true, true), (["DefaultBindGroup"], false, false), (["CullMode"], true, true),
      (["WindingOrder"], true, true), (["BlendState"], false, false),
      (["BlendState0", "BlendState1", "BlendState2", "BlendState3", "BlendState4", "BlendState5", "BlendState6", "BlendState7"], false, false)] ∧
    blendProps = ["BlendEnabled", "SrcBlend", "DstBlend", "BlendOp", "SrcBlendAlpha", "DstBlendAlpha", "BlendOpAlpha", "WriteMask"] ∧
    samplerProps = ["Filter", "AddressU", "AddressV", "AddressW", "CompareFunc", "MaxAnisotropy", "MinLOD", "MaxLOD", "BorderColor"] := by
  decide

/-- **A repeated property is always reported, and only a repeated one**: for every table of arms, every pipeline kind
    and every property list (names and locations arbitrary, no bound on the length), the modelled `parse_pipeline` —
    with the comparison the current source uses — answers `PipelinePropertyDuplicate` iff some name occurs twice. -/
theorem pipeline_duplicate_reported_iff (arms : List (List String × Bool × Bool)) (stage : List String) (isCompute : Bool) (ps : List PProp) :
    (∃ loc, runAs pipelineDupCompare arms stage isCompute ps = some (.dup loc)) ↔ ¬ (names ps).Nodup := by
  have hc : pipelineDupCompare = .text := by decide
  rw [hc]
  have h := firstDup_text_none_iff ps []
  simp only [names, List.map_nil, List.not_mem_nil, not_false_eq_true, implies_true, true_and] at h
  simp only [runAs, runPipe, Option.some.injEq]
  cases hf : firstDup textEq ps [] with
  | none =>
    have := h.1 hf
    simp only [names, this, not_true_eq_false, iff_false, not_exists]
    intro loc hh
    exact stateLoop_no_dup arms isCompute _ [] loc hh
  | some loc =>
    constructor
    · intro _ hn
      rw [h.2 hn] at hf
      cases hf
    · intro _
      exact ⟨loc, by simp⟩

/-- **The four "not set before" asserts of `parse_pipeline` are unreachable**: for every table of arms, every pipeline
    kind and every property list, the modelled function — duplicate check with the comparison the current source uses
    (`Gen.PipelineProps.pipelineDupCompare`, re-extracted on every run), then the state loop — never ends in an assert.
    The proof starts from `pipelineDupCompare = .text` (`decide`): with the `Located` comparison the statement is false
    (`pipeline_located_compare_reaches_asserts`), so a source that compares locations falsifies this theorem itself. -/
theorem pipeline_state_asserts_unreachable (arms : List (List String × Bool × Bool)) (stage : List String) (isCompute : Bool) (ps : List PProp) :
    ∃ out, runAs pipelineDupCompare arms stage isCompute ps = some out ∧ ∀ n, out ≠ .panic n := by
  have hc : pipelineDupCompare = .text := by decide
  rw [hc]
  refine ⟨runPipe textEq arms stage isCompute ps, rfl, fun n => ?_⟩
  unfold runPipe
  cases hf : firstDup textEq ps [] with
  | some loc => simp
  | none =>
    have h := (firstDup_text_none_iff ps []).1 hf
    exact stateLoop_no_panic arms isCompute _ [] (remaining_nodup stage ps h.2) (fun _ _ => by simp) n

/-- **Negation witness**: with the `Located<String>` comparison (name *and* source location) the duplicate check
    accepts every block a parser can produce — the locations of two properties always differ — and each of the four
    asserts is reached by a graphics pipeline that sets the property twice (the arms are the current source's). -/
theorem pipeline_located_compare_reaches_asserts :
    (∀ ps : List PProp, (ps.map (·.2)).Nodup → firstDup locatedEq ps [] = none) ∧
    runAs .located stateArms stageProps false [("VertexShader", 10), ("CullMode", 40), ("PixelShader", 50), ("CullMode", 60)] = some (.panic "CullMode") ∧
    runAs .located stateArms stageProps false [("WindingOrder", 40), ("DefaultBindGroup", 50), ("WindingOrder", 60)] = some (.panic "WindingOrder") ∧
    runAs .located stateArms stageProps false [("DepthTargetFormat", 40), ("DepthTargetFormat", 60)] = some (.panic "DepthTargetFormat") ∧
    runAs .located stateArms stageProps false [("RenderTargetFormat3", 40), ("RenderTargetFormat0", 50), ("RenderTargetFormat3", 60)] =
      some (.panic "RenderTargetFormat3") ∧
    -- the same blocks under the text comparison: the later occurrence is reported
    runAs pipelineDupCompare stateArms stageProps false [("CullMode", 40), ("CullMode", 60)] = some (.dup 60) ∧
    runAs pipelineDupCompare stateArms stageProps false [("RenderTargetFormat3", 40), ("RenderTargetFormat0", 50), ("RenderTargetFormat3", 60)] = some (.dup 60) ∧
    -- and on a compute pipeline the gated arm answers before anything is written
    runAs pipelineDupCompare stateArms stageProps true [("DefaultBindGroup", 40), ("CullMode", 60)] = some (.other 60) := by
  refine ⟨fun ps h => firstDup_located_none ps [] (fun _ _ _ hb => by cases hb) h, ?_, ?_, ?_, ?_, ?_, ?_, ?_⟩ <;> decide

open RsslVerif.Lemmas.PanicClasses in
/-- value of a fact a class reason may cite (`[fact: <name>]`); an unknown name counts as false -/
def factHolds (name : String) : Bool :=
  if name = "Gen.PipelineProps.pipelineShape.duplicatePropertyCheckComparesText" then
    pipelineShape.duplicatePropertyCheckComparesText && pipelineShape.duplicateCheckIsThePairwiseLoop &&
    pipelineShape.duplicateCheckPrecedesPropertyLoops && pipelineShape.stateLoopWalksRemainingProperties &&
    pipelineShape.cullFlagWrittenByItsArmOnly && pipelineShape.windingFlagWrittenByItsArmOnly &&
    pipelineShape.depthSlotWrittenByItsArmOnly && pipelineShape.renderTargetSlotIsTheNameDigit
  else if name = "Gen.PipelineProps.pipelineShape.computeClosingAssertsFollowGatedWrites" then
    pipelineShape.computeClosingAssertsFollowGatedWrites && pipelineShape.isComputeIsFirstStage &&
    (stateArms.all fun a => !a.2.2 || a.2.1)
  else false

open RsslVerif.Lemmas.PanicClasses in
/-- **A class reason that names a regenerated fact fails when the fact is false.**  (1) every reviewed site whose
    reason is one of the citing reasons (`Lemmas.PanicClasses.citingReasons`: the reasons carrying a `[fact: ..]`
    marker; the maintenance script tools/gens/_c08_review.py lists every reason with a marker) has its fact true in the
    current `Gen` tables — stated as: every cited fact holds; (2) the six assert sites of `parse_pipeline` that are
    unreachable only because of the duplicate check / the compute gate do carry such a reason. -/
theorem panic_class_reasons_hold :
    citingReasons.all (fun c => factHolds c.1) = true ∧
    (["!cull_mode_set", "!winding_order_set", "gpo.depth_target_format.is_none()", "gpo.render_target_formats[index].is_none()"].all fun t =>
      reviewed.any fun r => r.1 == ("typer/src/typer/pipelines.rs", "parse_pipeline", "assert!", t) && r.2.1 == "unreachable-by-invariant" &&
        citingReasons.any fun c => c.1 == "Gen.PipelineProps.pipelineShape.duplicatePropertyCheckComparesText" && c.2 == r.2.2) = true ∧
    (["gpo.depth_target_format.is_none() #2", "gpo.render_target_formats.is_empty()"].all fun t =>
      reviewed.any fun r => r.1 == ("typer/src/typer/pipelines.rs", "parse_pipeline", "assert!", t) && r.2.1 == "unreachable-by-invariant" &&
        citingReasons.any fun c => c.1 == "Gen.PipelineProps.pipelineShape.computeClosingAssertsFollowGatedWrites" && c.2 == r.2.2) = true := by
  refine ⟨?_, ?_, ?_⟩ <;> decide +kernel

-- non-vacuity: a block without a repeat is walked to the end, one with a repeat is reported at the later occurrence,
-- an unknown name and a graphics property on a compute pipeline stop the walk with their diagnostic
example : runAs pipelineDupCompare stateArms stageProps false [("CullMode", 1), ("RenderTargetFormat0", 2), ("BlendState", 3), ("RenderTargetFormat1", 4)] = some .done := by decide
example : runAs pipelineDupCompare stateArms stageProps false [("BlendState", 1), ("CullMode", 2), ("BlendState", 3), ("CullMode", 4)] = some (.dup 3) := by decide
example : runAs pipelineDupCompare stateArms stageProps false [("CullMode", 1), ("Foo", 2)] = some (.other 2) := by decide
example : ¬ (names [("CullMode", 1), ("BlendState", 2), ("CullMode", 3)]).Nodup := by decide

end PipelineProps

/-! ## non-vacuity -/

/-- a consuming element parser: one token per element -/
def oneTok : Parser Nat Unit Nat := fun i => match i with | [] => .error ([], ()) | t :: r => .ok (r, t)

example : Consuming oneTok := by
  intro i rest a h
  cases i with
  | nil => cases h
  | cons t r => simp only [oneTok, Except.ok.injEq, Prod.mk.injEq] at h; rw [← h.1]; simp

example : parseMultiple oneTok 4 [7, 8, 9] = some (.ok ([], [7, 8, 9])) := rfl

example : readToEnd (fun off => if off < 3 then some (off + 1, off == 1) else none) 5 (Stream.new 3) [] =
    some (.tokens [⟨0, 1, false⟩, ⟨1, 2, true⟩, ⟨2, 3, false⟩, ⟨3, 3, true⟩]) := by decide

example : runFile (.ofList [.ifD false, .text 1, .elif true, .text 2, .els, .text 3, .endif, .text 4]) = .ok [2, 4] := rfl
example : runFile (.ofList [.ifD true, .els, .endif, .endif]) = .error .endIfNotMatched := rfl
example : runFile (.ofList [.ifD true, .ifD false]) = .error .notFinished := rfl
-- fix 03ca601: the `#else` branch is the last one
example : runFile (.ofList [.ifD false, .els, .text 1, .els, .text 2, .endif]) = .error .elseAfterElse := rfl
example : runFile (.ofList [.ifD false, .els, .text 1, .elif true, .text 2, .endif]) = .error .elifAfterElse := rfl
-- fix 115a619: the blocks of an included file start and end inside it
example : runFile (.ofList [.ifD true, .text 1, .incl (.ofList [.els]), .text 2, .endif]) = .error .elseNotMatched := rfl
example : runFile (.ofList [.incl (.ofList [.ifD true, .text 1]), .text 2, .endif]) = .error .notFinished := rfl
example : runFile (.ofList [.ifD true, .incl (.ofList [.ifD false, .text 1, .els, .text 2, .endif, .text 3]), .els, .text 4, .endif]) = .ok [2, 3] := rfl
-- a skipped `#include` does not load the file; fix ed75afa: a malformed directive line is ignored in a skipped block
example : runFile (.ofList [.ifD false, .incl (.ofList [.endif, .endif]), .junk, .endif, .text 1]) = .ok [1] := rfl
example : runFile (.ofList [.junk]) = .error .unknownCommand := rfl
example : (Lines.ofList [.ifD false, .text 1, .elif true, .els, .endif]).plain = true := rfl

section
open RsslVerif.Model.DefinedLoc RsslVerif.Lemmas.DefinedLoc RsslVerif.Gen.ArithSites
/-- `#if defined FOO && HAS(BAR)` with `#define HAS(x) defined(x)`: the bare `defined` fires in the outer scan, the one
    from the body does not -/
example : applyMacros (fun _ _ => none) bodyRescanFlag argExpandFlag 10
    [⟨3, true, 1, [⟨.id definedName, 200, 207⟩, ⟨.lparen, 207, 208⟩, ⟨.arg 0, 208, 209⟩, ⟨.rparen, 209, 210⟩]⟩]
    [⟨.id definedName, 4, 11⟩, ⟨.blank, 11, 12⟩, ⟨.id 2, 12, 15⟩, ⟨.blank, 15, 16⟩, ⟨.id 3, 16, 19⟩, ⟨.lparen, 19, 20⟩, ⟨.id 4, 20, 23⟩, ⟨.rparen, 23, 24⟩] true =
    .ok [⟨.lit 0, 4, 15⟩, ⟨.blank, 15, 16⟩, ⟨.id definedName, 200, 207⟩, ⟨.lparen, 207, 208⟩, ⟨.id 4, 20, 23⟩, ⟨.rparen, 209, 210⟩] := by rfl
example : tiled [⟨.id definedName, 4, 11⟩, ⟨.blank, 11, 12⟩, ⟨.id 2, 12, 15⟩] = true := by decide
end


/-! ## the closure of the usage relation (`ir/src/usage_analysis.rs`, runs for every exported module) -/

section usage
open RsslVerif.Gen.UsageLoop RsslVerif.Model.Usage RsslVerif.Spec.Usage RsslVerif.Lemmas.Usage RsslVerif.Model.UsageDfs

/-- Tie to the source: `GlobalUsageAnalysis::recurse` is the sweep the model `Model.Usage.recurseFuel` mirrors
    (snapshot of the keys; `loop { modified = false; for key in &keys {..}; if !modified { break } }` with a single
    `break` and no `continue` / `return`; a key's new set starts from its current one and adds the sets of its members;
    `modified` is raised exactly when the set grew), it calls no function of usage_analysis.rs, the impl block consists
    of the four reviewed functions and none of them calls itself: the closure is computed by ITERATION, the call graph
    is never walked recursively.  A depth-first helper (seeded C08-6) falsifies five of the nine facts. -/
theorem usage_loop_as_modelled :
    usageLoopShape = ⟨true, true, true, true, true, true, true, true, true⟩ ∧ usageClosureIsIterative = true ∧
    implCalls = [("calculate", ["calculate_local", "recurse"]),
                 ("calculate_local", ["calculate_for_function", "gather_usage_for_init_opt"]),
                 ("recurse", []), ("get_usage_for_function", [])] := by decide

/-- **The usage closure terminates on every call graph, cycles included.**  For every table in which each mentioned
    symbol has an entry (`calculate_local` makes one per function, global and constant buffer) and every iteration
    order of the keys: (1) the loop as the source writes it (`usageClosureIsIterative`, re-extracted on every run — the
    proof starts from it, so a recursive rewrite falsifies the theorem) returns a table within `n² + 1` sweeps, `n` =
    number of symbols, and with every larger fuel; it never reaches the `unwrap()` of a missing entry, whatever the
    fuel; (2) the termination measure: the sum of the set sizes is at most `n²`, never decreases in a sweep and
    strictly increases in a sweep that reports `modified`. -/
theorem usage_closure_terminates :
    usageClosureIsIterative = true ∧
    ∀ {t₀ : Table}, WF t₀ → ∀ {keys : List Sym}, (∀ k ∈ keys, k ∈ keysOf t₀) →
      (∃ t', recurse keys t₀ = .ok (some t')) ∧
      (∀ fuel, t₀.length * t₀.length < fuel → ∃ t', recurseFuel fuel keys t₀ = .ok (some t')) ∧
      (∀ fuel, ∃ r, recurseFuel fuel keys t₀ = .ok r) ∧
      (∀ t, Inv t₀ t → total t ≤ t₀.length * t₀.length ∧ total t ≤ total (sweepP t false keys).1 ∧
        ((sweepP t false keys).2 = true → total t < total (sweepP t false keys).1)) := by
  refine ⟨by decide, ?_⟩
  intro t₀ hwf keys hk
  have hfuel : ∀ fuel, t₀.length * t₀.length < fuel → ∃ t', recurseFuel fuel keys t₀ = .ok (some t') := by
    intro fuel hf
    obtain ⟨t', h⟩ := recP_some (keys := keys) fuel t₀ (Inv.init hwf) (by omega)
    exact ⟨t', by rw [recurseFuel_eq hk _ _ (Inv.init hwf), h]⟩
  refine ⟨?_, hfuel, ?_, ?_⟩
  · exact hfuel (fuelBound t₀) (by unfold fuelBound; omega)
  · intro fuel
    exact ⟨_, recurseFuel_eq hk fuel t₀ (Inv.init hwf)⟩
  · intro t hinv
    exact ⟨total_le_of_inv hinv, (total_sweep t false).1, fun h => (total_sweep t false).2 h rfl⟩

/-- **What it returns is reachability**: after the loop, `g` is in `f`'s set iff `g` is mentioned by some symbol
    reachable from `f` (reflexive-transitive closure of "mentions" in the table of `calculate_local`) — the least
    fixpoint over the call graph, for every key order; keys unchanged, sets duplicate free (so
    `get_usage_for_function(..).unwrap()` of the exporters finds its entry). -/
theorem usage_closure_is_reachability {t₀ t' : Table} (hwf : WF t₀) {keys : List Sym}
    (hk : ∀ k, k ∈ keys ↔ k ∈ keysOf t₀) (h : recurse keys t₀ = .ok (some t')) :
    (∀ f g : Sym, g ∈ val t' f ↔ ∃ h, Reach (Mentions t₀) f h ∧ g ∈ val t₀ h) ∧
    keysOf t' = keysOf t₀ ∧ ∀ k, (val t' k).Nodup := by
  unfold recurse at h
  rw [recurseFuel_eq (fun k hk' => (hk k).1 hk') _ _ (Inv.init hwf)] at h
  have h' : recP (fuelBound t₀) keys t₀ = some t' := by
    injection h
  obtain ⟨hinv, hs⟩ := recP_spec _ _ _ (Inv.init hwf) h'
  exact ⟨fun f g => closure_of_stable hinv (fun k hk' => hs k ((hk k).2 hk')) f g, hinv.keys, hinv.nodup⟩

private theorem resolve_step_err {d : Table} {n : Nat} {s o : Sym} (hs : d.lookup s = some [o]) (hne : o ≠ s)
    (h : resolve d n [] o = .error .stackExhausted) : resolve d (n + 1) [] s = .error .stackExhausted := by
  simp [resolve, keysOf, hs, resolveAll, hne, h]

private theorem dfs_two (n : Nat) :
    resolve twoCycle n [] (.fn 0) = .error .stackExhausted ∧ resolve twoCycle n [] (.fn 1) = .error .stackExhausted := by
  induction n with
  | zero => exact ⟨rfl, rfl⟩
  | succ n ih => exact ⟨resolve_step_err rfl (by decide) ih.2, resolve_step_err rfl (by decide) ih.1⟩

private theorem dfs_three (n : Nat) :
    resolve threeCycle n [] (.fn 0) = .error .stackExhausted ∧ resolve threeCycle n [] (.glob 0) = .error .stackExhausted ∧
    resolve threeCycle n [] (.fn 1) = .error .stackExhausted := by
  induction n with
  | zero => exact ⟨rfl, rfl, rfl⟩
  | succ n ih =>
    exact ⟨resolve_step_err rfl (by decide) ih.2.1, resolve_step_err rfl (by decide) ih.2.2, resolve_step_err rfl (by decide) ih.1⟩

/-- negation witness (why the loop shape matters): the memoised depth-first walk without an in-progress marker
    (`Model.UsageDfs`, the seeded rewrite C08-6) exhausts EVERY call depth on `is_even` / `is_odd` and on a cycle
    function → global initialiser → function → function — the real process dies with a stack overflow — although it
    handles a directly self-calling function; the loop of the current source closes the same three tables. -/
theorem usage_memo_dfs_overflows_on_cycle :
    (∀ depth keys, keys ≠ [] → (∀ k ∈ keys, k ∈ keysOf twoCycle) → recurseDfs twoCycle depth keys [] = .error .stackExhausted) ∧
    (∀ depth, recurseDfs threeCycle depth (keysOf threeCycle) [] = .error .stackExhausted) ∧
    recurseDfs selfLoop 3 (keysOf selfLoop) [] = .ok [(.fn 1, []), (.fn 0, [.fn 0, .fn 1])] ∧
    recurse (keysOf twoCycle) twoCycle = .ok (some [(.fn 0, [.fn 1, .fn 0]), (.fn 1, [.fn 0, .fn 1])]) ∧
    recurse (keysOf threeCycle) threeCycle =
      .ok (some [(.fn 0, [.glob 0, .fn 1, .fn 0]), (.glob 0, [.fn 1, .fn 0, .glob 0]), (.fn 1, [.fn 0, .glob 0, .fn 1])]) := by
  refine ⟨?_, ?_, by rfl, by rfl, by rfl⟩
  · intro depth keys hne hk
    cases keys with
    | nil => exact absurd rfl hne
    | cons k ks =>
      have hk0 : k = .fn 0 ∨ k = .fn 1 := by
        have := hk k (List.mem_cons_self ..)
        simpa [twoCycle, keysOf] using this
      rcases hk0 with rfl | rfl
      · simp [recurseDfs, (dfs_two depth).1]
      · simp [recurseDfs, (dfs_two depth).2]
  · intro depth
    have h : recurseDfs threeCycle depth (keysOf threeCycle) [] =
      (match resolve threeCycle depth [] (.fn 0) with
        | .error e => .error e
        | .ok r' => recurseDfs threeCycle depth [.glob 0, .fn 1] r') := rfl
    rw [h, (dfs_three depth).1]

/-- non-vacuity: cyclic tables are well formed (the hypothesis of the two theorems above holds for them) -/
example : WF twoCycle := wf_of_check (by decide)
example : WF threeCycle := wf_of_check (by decide)
/-- a ring of five with a chord and a self loop: every set ends with all five symbols, well inside the bound of 26 sweeps -/
example : (((recurse [.fn 0, .fn 1, .fn 2, .fn 3, .fn 4]
    [(.fn 0, [.fn 1]), (.fn 1, [.fn 2, .fn 1]), (.fn 2, [.fn 3]), (.fn 3, [.fn 4, .fn 1]), (.fn 4, [.fn 0])]).toOption.bind id).map
    (fun t => t.map (fun e => e.2.length))) = some [5, 5, 5, 5, 5] := by decide
end usage

end RsslVerif.Thm.C08

import RsslVerif.Model.Meta
import RsslVerif.Model.Names
/-!
# Where the stage records and the reported names come from

* `typer/src/typer/pipelines.rs` `parse_pipeline` / `add_stage`: how a `Pipeline` block becomes an
  `ir::PipelineDefinition` (stage list in *property* order, entry function found by its source name among **all**
  functions of the module, thread group size = the last `numthreads` attribute of that function, default
  bind group, graphics state only for non-compute pipelines), and the errors that refuse the file;
* `ir/src/name_generator.rs` `NameMap::build` (the C15 model `Model.Names.build`) as used by both exporters for
  the names they print *and* report: HLSL reports `context.get_function_name(stage.entry_point)` and
  `context.get_global_name(id)` — lookups in the same map the definitions are printed from — while a cbuffer
  block keeps its source name (`get_constant_buffer_name` reads the registry, not the map); Metal names every
  binding through the map, after `simplify_cbuffers` appended one global (and one `<name>Type` struct) per
  cbuffer at the end of the registries.

Core Lean only.  Errors of the Rust code are explicit.
-/
namespace RsslVerif.Model.MetaFront
open RsslVerif.Gen.CompileTables RsslVerif.Model.Meta

/-- a function definition as `add_stage` sees it -/
structure FnSrc where
  name : String
  /-- evaluated `NumThreads` attributes in source order -/
  attrs : List (Nat × Nat × Nat)
  hasBody : Bool
  isTemplate : Bool
  deriving DecidableEq, Repr, Inhabited

/-- a `Pipeline` block: stage properties in source order, the other properties summarised -/
structure PipeSrc where
  name : String
  /-- `<Stage>Shader = <identifier>;` properties in source order -/
  stages : List (Stage × String)
  /-- evaluated `DefaultBindGroup`, if written -/
  dflt : Option Nat
  /-- some property that only a graphics pipeline may carry is written -/
  graphicsProps : Bool
  deriving DecidableEq, Repr, Inhabited

inductive FrontErr where
  | StaticSamplerUnexpectedBindingIndex
  | FunctionAttributeDuplicate
  | PipelineAlreadyDefined
  | PipelinePropertyDuplicate
  | PipelineEntryPointFunctionUnknown
  | PipelineNoEntryPoint
  | PipelineInvalidStageCombination
  | PipelinePropertyRequiresGraphicsPipeline
  deriving DecidableEq, Repr, Inhabited

def FrontErr.name : FrontErr → String
  | .StaticSamplerUnexpectedBindingIndex => "StaticSamplerUnexpectedBindingIndex"
  | .FunctionAttributeDuplicate => "FunctionAttributeDuplicate"
  | .PipelineAlreadyDefined => "PipelineAlreadyDefined"
  | .PipelinePropertyDuplicate => "PipelinePropertyDuplicate"
  | .PipelineEntryPointFunctionUnknown => "PipelineEntryPointFunctionUnknown"
  | .PipelineNoEntryPoint => "PipelineNoEntryPoint"
  | .PipelineInvalidStageCombination => "PipelineInvalidStageCombination"
  | .PipelinePropertyRequiresGraphicsPipeline => "PipelinePropertyRequiresGraphicsPipeline"

/-- `ir::PipelineStage` -/
structure StageRec where
  stage : Stage
  entry : Nat
  threadGroupSize : Option (Nat × Nat × Nat)
  deriving DecidableEq, Repr, Inhabited

/-- `ir::PipelineDefinition` (graphics state: only whether it is present) -/
structure PipeDef where
  name : String
  dflt : Nat
  stages : List StageRec
  graphics : Bool
  deriving DecidableEq, Repr, Inhabited

/-- `typer/functions.rs` `parse_function_attributes` restricted to the `numthreads` attributes (the only kind the
    model carries; all of one discriminant): `acc` = the attributes accepted so far.  Since fix "a function attribute
    can be given only once" an attribute of a kind the function already has is refused. -/
def parseFunctionAttributes : List (Nat × Nat × Nat) → List (Nat × Nat × Nat) → Except FrontErr (List (Nat × Nat × Nat))
  | acc, [] => .ok acc
  | acc, a :: r => if !acc.isEmpty then .error .FunctionAttributeDuplicate else parseFunctionAttributes (acc ++ [a]) r

/-- indices of the functions called `n` (the `for id in function_registry.iter()` loop of `add_stage`) -/
def fnIndices : List FnSrc → String → Nat → List Nat
  | [], _, _ => []
  | f :: r, n, i => if f.name == n then i :: fnIndices r n (i + 1) else fnIndices r n (i + 1)

/-- `add_stage` -/
def addStage (funcs : List FnSrc) (st : Stage) (n : String) : Except FrontErr StageRec :=
  match fnIndices funcs n 0 with
  | [i] =>
    match funcs[i]? with
    | none => .error .PipelineEntryPointFunctionUnknown
    | some f =>
      if f.isTemplate then .error .PipelineEntryPointFunctionUnknown
      else if !f.hasBody then .error .PipelineEntryPointFunctionUnknown
      else .ok { stage := st, entry := i, threadGroupSize := lastNumThreads f.attrs }
  | _ => .error .PipelineEntryPointFunctionUnknown

def addStages (funcs : List FnSrc) : List (Stage × String) → Except FrontErr (List StageRec)
  | [] => .ok []
  | (st, n) :: r =>
    match addStage funcs st n with
    | .error e => .error e
    | .ok s =>
      match addStages funcs r with
      | .error e => .error e
      | .ok rest => .ok (s :: rest)

/-- the "Check for duplicate properties" loop, restricted to the stage properties (one property name per stage
    kind; every other property of a generated block is written at most once) -/
def hasDupStage : List (Stage × String) → Bool
  | [] => false
  | (st, _) :: r => r.any (fun q => q.1 == st) || hasDupStage r

/-- `parse_pipeline`; `earlier` = names of the pipelines already in the module -/
def parsePipeline (funcs : List FnSrc) (earlier : List String) (p : PipeSrc) : Except FrontErr PipeDef :=
  if earlier.contains p.name then .error .PipelineAlreadyDefined
  else if hasDupStage p.stages then .error .PipelinePropertyDuplicate
  else
    match addStages funcs p.stages with
    | .error e => .error e
    | .ok [] => .error .PipelineNoEntryPoint
    | .ok (s :: rest) =>
      let isCompute := s.stage == .Compute
      if isCompute && !rest.isEmpty then .error .PipelineInvalidStageCombination
      else if !isCompute && rest.any (fun q => q.stage == .Compute) then .error .PipelineInvalidStageCombination
      else if isCompute && p.graphicsProps then .error .PipelinePropertyRequiresGraphicsPipeline
      else .ok { name := p.name, dflt := p.dflt.getD 0, stages := s :: rest, graphics := !isCompute }

/-- all `Pipeline` blocks of a file in source order -/
def parsePipelines (funcs : List FnSrc) : List String → List PipeSrc → Except FrontErr (List PipeDef)
  | _, [] => .ok []
  | earlier, p :: r =>
    match parsePipeline funcs earlier p with
    | .error e => .error e
    | .ok d =>
      match parsePipelines funcs (earlier ++ [p.name]) r with
      | .error e => .error e
      | .ok rest => .ok (d :: rest)

/-- what the front end meets in file order, as far as the model follows it: a function declaration / definition
    (its attributes are parsed each time) or a `Pipeline` block -/
inductive Item where
  | fn (f : FnSrc)
  | pipe (p : PipeSrc)
  deriving DecidableEq, Repr, Inhabited

/-- the root definitions of a file in source order; the first error refuses the file.  `funcs` = the function
    registry `add_stage` searches. -/
def parseFile (funcs : List FnSrc) : List String → List Item → Except FrontErr (List PipeDef)
  | _, [] => .ok []
  | earlier, .fn f :: r =>
    match parseFunctionAttributes [] f.attrs with
    | .error e => .error e
    | .ok _ => parseFile funcs earlier r
  | earlier, .pipe p :: r =>
    match parsePipeline funcs earlier p with
    | .error e => .error e
    | .ok d =>
      match parseFile funcs (earlier ++ [p.name]) r with
      | .error e => .error e
      | .ok rest => .ok (d :: rest)

/-- the `Pipeline` blocks / the functions among the items -/
def itemPipes : List Item → List PipeSrc
  | [] => []
  | .fn _ :: r => itemPipes r
  | .pipe p :: r => p :: itemPipes r

def itemFns : List Item → List FnSrc
  | [] => []
  | .fn f :: r => f :: itemFns r
  | .pipe _ :: r => itemFns r

/-- the stage list `build_pipeline` walks -/
def stageDefs (p : PipeDef) : List StageDef := p.stages.map fun s => { stage := s.stage, entry := s.entry }

/-! ## names -/

/-- what the exporters' `NameMap::build` receives of a module: namespaces, structs, globals, functions (each list
    in registry order, with the enclosing namespace) -/
structure NameSrc where
  nss : List (Option Nat × String)
  structs : List (Option Nat × String)
  globals : List (Option Nat × String)
  funcs : List (Option Nat × String)
  deriving Repr, Inhabited

def number (k : Names.Kind) : List (Option Nat × String) → Nat → List Names.Entry
  | [], _ => []
  | (sc, n) :: r, i => { sym := ⟨k, i⟩, scope := sc, name := n } :: number k r (i + 1)

/-- push order of `build`: namespaces (separately), structs, (no enums here), globals, functions -/
def NameSrc.input (s : NameSrc) : Names.Input :=
  { nss := s.nss, entries := number .struct s.structs 0 ++ number .global s.globals 0 ++ number .func s.funcs 0,
    used := [], locals := [] }

/-- leaf name the map gives to a symbol (`get_name_leaf`; a missing symbol is a panic) -/
def leaf (names : List Names.Named) (k : Names.Kind) (i : Nat) : Except String String :=
  match Names.lookup names ⟨k, i⟩ with
  | some n => .ok n.name
  | none => .error "panic:No name for symbol"

/-- leaf names of symbols `0 .. n-1` of kind `k` -/
def leaves (names : List Names.Named) (k : Names.Kind) : Nat → Except String (List String)
  | 0 => .ok []
  | n + 1 =>
    match leaves names k n, leaf names k n with
    | .ok r, .ok x => .ok (r ++ [x])
    | .error e, _ => .error e
    | _, .error e => .error e

end RsslVerif.Model.MetaFront

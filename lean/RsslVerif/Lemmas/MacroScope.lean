import RsslVerif.Model.Include
import RsslVerif.Spec.CPreMacro
/-!
Lemmas about the macro list kept by the directive loop: names stay pairwise distinct, and looking a name up in the
list gives the latest `#define` not followed by an `#undef` (`Spec.CPreMacro.lookup`).
-/
namespace RsslVerif.Lemmas.MacroScope
open RsslVerif.Model.Macro RsslVerif.Model.Include RsslVerif.Spec.CPreMacro

def names (ms : List Macro) : List String := ms.map (·.name)

/-- what `find_single_macro` finds for a name when nothing is disabled: the first entry of that name -/
def lookupList : List Macro → String → Option Macro
  | [], _ => none
  | m :: r, n => if m.name = n then some m else lookupList r n

/-- the effect of a `#define` / `#undef` on the macro list, after its tokens have been parsed -/
def applyEvent (ms : List Macro) : Event Macro → List Macro
  | .define _ m => removeNamed m.name ms ++ [m]
  | .undef n => removeNamed n ms

def applyEvents (ms : List Macro) (evs : List (Event Macro)) : List Macro := evs.foldl applyEvent ms

/-- events are well formed when a `define` event carries the macro's own name -/
def WellNamed : Event Macro → Prop
  | .define n m => m.name = n
  | .undef _ => True

theorem mem_removeNamed {n : String} {ms : List Macro} {x : Macro} :
    x ∈ removeNamed n ms ↔ x ∈ ms ∧ x.name ≠ n := by
  induction ms with
  | nil => simp [removeNamed]
  | cons a as ih =>
    simp only [removeNamed]
    split
    · rename_i h
      rw [ih]
      constructor
      · rintro ⟨h1, h2⟩; exact ⟨List.mem_cons_of_mem _ h1, h2⟩
      · rintro ⟨h1, h2⟩
        rcases List.mem_cons.mp h1 with rfl | h1
        · exact absurd h h2
        · exact ⟨h1, h2⟩
    · rename_i h
      simp only [List.mem_cons, ih]
      constructor
      · rintro (rfl | ⟨h1, h2⟩)
        · exact ⟨Or.inl rfl, h⟩
        · exact ⟨Or.inr h1, h2⟩
      · rintro ⟨rfl | h1, h2⟩
        · exact Or.inl rfl
        · exact Or.inr ⟨h1, h2⟩

theorem removeNamed_sublist (n : String) (ms : List Macro) : (removeNamed n ms).Sublist ms := by
  induction ms with
  | nil => exact List.Sublist.slnil
  | cons a as ih =>
    simp only [removeNamed]
    split
    · exact List.Sublist.cons _ ih
    · exact List.Sublist.cons_cons _ ih

theorem names_removeNamed_nodup {ms : List Macro} (h : (names ms).Nodup) (n : String) :
    (names (removeNamed n ms)).Nodup := by
  unfold names at *
  exact List.Nodup.sublist (List.Sublist.map _ (removeNamed_sublist n ms)) h

theorem nodup_applyEvent {ms : List Macro} (h : (names ms).Nodup) (e : Event Macro) :
    (names (applyEvent ms e)).Nodup := by
  cases e with
  | undef n => exact names_removeNamed_nodup h _
  | define n m =>
    simp only [applyEvent, names, List.map_append, List.map_cons, List.map_nil]
    rw [List.nodup_append]
    refine ⟨names_removeNamed_nodup h _, by simp, ?_⟩
    intro a ha b hb
    simp only [List.mem_map] at ha
    obtain ⟨x, hx, rfl⟩ := ha
    simp only [List.mem_singleton] at hb
    subst hb
    exact (mem_removeNamed.mp hx).2

theorem nodup_applyEvents {ms : List Macro} (h : (names ms).Nodup) (evs : List (Event Macro)) :
    (names (applyEvents ms evs)).Nodup := by
  induction evs generalizing ms with
  | nil => exact h
  | cons e es ih => exact ih (nodup_applyEvent h e)

theorem lookupList_removeNamed_ne (ms : List Macro) (k n : String) (h : k ≠ n) :
    lookupList (removeNamed k ms) n = lookupList ms n := by
  induction ms with
  | nil => rfl
  | cons a as ih =>
    simp only [removeNamed]
    split
    · rename_i hk
      have : a.name ≠ n := by rw [hk]; exact h
      simp [lookupList, this, ih]
    · simp only [lookupList, ih]

theorem lookupList_removeNamed_eq (ms : List Macro) (n : String) :
    lookupList (removeNamed n ms) n = none := by
  induction ms with
  | nil => rfl
  | cons a as ih =>
    simp only [removeNamed]
    split
    · exact ih
    · rename_i h
      simp [lookupList, h, ih]

theorem lookupList_append (a b : List Macro) (n : String) :
    lookupList (a ++ b) n = (lookupList a n).or (lookupList b n) := by
  induction a with
  | nil => simp [lookupList]
  | cons x xs ih =>
    simp only [List.cons_append, lookupList]
    split
    · simp
    · exact ih

/-- one event, seen from the lookup side -/
theorem lookupList_applyEvent (ms : List Macro) (e : Event Macro) (he : WellNamed e) (n : String) :
    lookupList (applyEvent ms e) n =
      match e with
      | .define k m => if k = n then some m else lookupList ms n
      | .undef k => if k = n then none else lookupList ms n := by
  cases e with
  | undef k =>
    simp only [applyEvent]
    by_cases h : k = n
    · subst h; simp [lookupList_removeNamed_eq]
    · simp [h, lookupList_removeNamed_ne _ _ _ h]
  | define k m =>
    have hm : m.name = k := he
    simp only [applyEvent]
    rw [lookupList_append]
    by_cases h : k = n
    · subst h
      rw [hm, lookupList_removeNamed_eq]
      simp [lookupList, hm]
    · have h' : m.name ≠ n := by rw [hm]; exact h
      rw [hm, lookupList_removeNamed_ne _ _ _ h]
      simp [h, lookupList, h']

/-- the lookup result after one more event -/
def stepLookup (n : String) (cur : Option Macro) : Event Macro → Option Macro
  | .define k m => if k = n then some m else cur
  | .undef k => if k = n then none else cur

theorem lookupNewestFirst_reverse_append (evs acc : List (Event Macro)) (n : String) :
    lookupNewestFirst (evs.reverse ++ acc) n = evs.foldl (stepLookup n) (lookupNewestFirst acc n) := by
  induction evs generalizing acc with
  | nil => rfl
  | cons e es ih =>
    simp only [List.reverse_cons, List.append_assoc, List.singleton_append, List.foldl_cons]
    rw [ih (e :: acc)]
    congr 1
    cases e <;> simp [lookupNewestFirst, stepLookup]

theorem lookupList_applyEvents_from (ms : List Macro) (evs : List (Event Macro))
    (hw : ∀ e ∈ evs, WellNamed e) (n : String) :
    lookupList (applyEvents ms evs) n = evs.foldl (stepLookup n) (lookupList ms n) := by
  induction evs generalizing ms with
  | nil => rfl
  | cons e es ih =>
    have he : WellNamed e := hw e (by simp)
    simp only [applyEvents, List.foldl_cons]
    have := ih (applyEvent ms e) (fun x hx => hw x (by simp [hx]))
    simp only [applyEvents] at this
    rw [this, lookupList_applyEvent _ _ he]
    congr 1
    cases e <;> simp [stepLookup]

/-- the macro list, looked up by name, is the latest define not followed by an undef -/
theorem lookupList_applyEvents (evs : List (Event Macro)) (hw : ∀ e ∈ evs, WellNamed e) (n : String) :
    lookupList (applyEvents [] evs) n = lookup evs n := by
  rw [lookupList_applyEvents_from [] evs hw n]
  unfold lookup
  have := lookupNewestFirst_reverse_append evs [] n
  simp only [List.append_nil] at this
  rw [this]
  rfl

/-- `doDefine` is the `define` event of the parsed macro -/
theorem doDefine_eq {ms ms' : List Macro} {cmd : List PTok} (h : doDefine ms cmd = .ok ms') :
    ∃ m, parseDefine cmd = .ok m ∧ ms' = applyEvent ms (.define m.name m) := by
  unfold doDefine at h
  split at h
  · cases h
  · rename_i m hm
    cases h
    exact ⟨m, hm, rfl⟩

/-- `doUndef`, when it does not panic, is the `undef` event -/
theorem doUndef_eq {ms ms' : List Macro} {cmd : List PTok} (h : doUndef ms cmd = .ok ms') :
    ∃ n b, trim cmd = [⟨.id n, b⟩] ∧ ms' = applyEvent ms (.undef n) := by
  unfold doUndef at h
  split at h
  · rename_i s b heq
    refine ⟨s, b, heq, ?_⟩
    simp only at h
    split at h
    · cases h; rfl
    · split at h
      · cases h; rfl
      · cases h
  · cases h

theorem removeNamed_length_nodup {ms : List Macro} (hn : (names ms).Nodup) (s : String) :
    (removeNamed s ms).length = ms.length ∨ (removeNamed s ms).length + 1 = ms.length := by
  induction ms with
  | nil => left; rfl
  | cons a as ih =>
    have hn' : (names as).Nodup := by
      unfold names at *; simp only [List.map_cons, List.nodup_cons] at hn; exact hn.2
    simp only [removeNamed]
    split
    · rename_i ha
      right
      -- nothing else is called `s`
      have hall : ∀ x ∈ as, x.name ≠ s := by
        intro x hx hxs
        unfold names at hn
        simp only [List.map_cons, List.nodup_cons, List.mem_map, not_exists, not_and] at hn
        exact hn.1 x hx (by rw [hxs, ha])
      have : removeNamed s as = as := by
        clear ih hn hn'
        induction as with
        | nil => rfl
        | cons b bs ihb =>
          simp only [removeNamed]
          have hb := hall b (by simp)
          simp only [hb, if_false]
          rw [ihb (fun x hx => hall x (List.mem_cons_of_mem _ hx))]
      simp [this]
    · rcases ih hn' with h | h
      · left; simp [h]
      · right; simp [h]

/-- with pairwise distinct names `#undef` removes at most one entry: its assertion cannot fail -/
theorem doUndef_no_panic {ms : List Macro} (hn : (names ms).Nodup) (cmd : List PTok) (site : String) :
    doUndef ms cmd ≠ .error (.panic site) := by
  unfold doUndef
  split
  · rename_i s b heq
    simp only
    rcases removeNamed_length_nodup hn s with h | h
    · simp [h]
    · split
      · simp
      · simp [h]
  · simp

end RsslVerif.Lemmas.MacroScope

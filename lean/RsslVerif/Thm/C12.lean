import RsslVerif.Lemmas.MacroScope
import RsslVerif.Lemmas.Include
import RsslVerif.Lemmas.MacroSubst
import RsslVerif.Lemmas.MacroApi
import RsslVerif.Lemmas.SpecInert
import RsslVerif.Lemmas.MacroHang
import RsslVerif.Lemmas.MacroTameSpec
import RsslVerif.Lemmas.MacroTameRun
import RsslVerif.Lemmas.MacroPaste
import RsslVerif.Lemmas.MacroParseWF
import RsslVerif.Lemmas.MacroTamePSpec
import RsslVerif.Lemmas.MacroTamePRun
/-!
# C12 — macro expansion and inclusion equal reference textual substitution

Theorems about `Model.Macro` / `Model.Include` (the model of `preprocess/src/preprocess.rs`), for token lists, macro
tables, include graphs of any size.  The model is tied to the code by `Gen.MacroTables` (re-extracted every run) and
by the correspondence run on generated macro programs.
-/
namespace RsslVerif.Thm.C12
open RsslVerif.Gen.MacroTables RsslVerif.Model.Macro RsslVerif.Model.Include RsslVerif.Spec.CPreMacro
open RsslVerif.Lemmas.MacroScope RsslVerif.Lemmas.Include RsslVerif.Lemmas.MacroTerm RsslVerif.Lemmas.MacroSubst
open RsslVerif.Lemmas.MacroApi RsslVerif.Lemmas.SpecInert RsslVerif.Lemmas.MacroHang
open RsslVerif.Model.MacroTame RsslVerif.Lemmas.MacroTame RsslVerif.Lemmas.MacroTameSpec RsslVerif.Lemmas.MacroTameRun
open RsslVerif.Lemmas.SpecExpand RsslVerif.Lemmas.MacroPaste
open RsslVerif.Lemmas.MacroTameP RsslVerif.Lemmas.MacroTamePSpec RsslVerif.Lemmas.MacroTamePRun

/-- Tie to the source: the shapes of `preprocess_command`, `apply_single_macro`, `preprocess_initial_file`,
`Token::is_whitespace`, `compile()`, of every `MacroSearchPosition`, of the trimming loops and their uses, and of
`FileLoader::load` the model was written against. -/
theorem source_shape :
    definingDirectives = ["define", "undef"] ∧ defineRetainsThenPushes = true ∧ undefRetains = true ∧
    argsShareDisabled = true ∧ initialDefinesUseDefinePath = true ∧
    pragmas = ["once", "warning"] ∧
    whitespaceTokens = ["Endline", "PhysicalEndline", "Whitespace", "Comment"] ∧
    (∀ t, (compileDefines t).map (·.1) = ["__HLSL_VERSION", "RSSL_TARGET_HLSL", "RSSL_TARGET_MSL"]) ∧
    userDefinesAppended = true ∧
    -- where the scan resumes (`SearchPos` in the model): start; after an invocation (`applyLoop`, `user` arm: the
    -- early region is the whole replaced region, `early_function_pos = pos`); after `defined`; after `##`; at the end
    searchPositions =
      [["0", "0", "usize::MAX"],
       ["new_end", "pos", "if macro_def.is_function { macro_index } else { usize::MAX }"],
       ["pos + 1", "pos + 1", "usize::MAX"],
       ["left_token_pos", "left_token_pos", "usize::MAX"],
       ["tokens.len()", "tokens.len()", "usize::MAX"]] ∧
    userArmLets = ["output.len()", "pos + tokens_added", "tokens.len() - remaining.len()"] ∧
    -- from substitution to splice (`applyLoop`, `user` arm: `substitute`, then `applyLoop (disable env mi) body'` on
    -- EVERY path, then `splice`): no guard around the rescan of the substituted replacement list (seeded mutant C12-3)
    userArmStatements =
      ["let mut output = Vec::with_capacity(macro_def.tokens.len())",
       "for token in &macro_def.tokens { if let Token::MacroArg(i) = token.0 { output.extend_from_slice(&args[i as usize]) } else { output.push(token.clone()); } }",
       "assert!(!macro_disabled[macro_index])", "macro_disabled[macro_index] = true",
       "let output = apply_macros_internal(output, macro_defs, macro_disabled, false, source_manager)?",
       "assert!(macro_disabled[macro_index])", "macro_disabled[macro_index] = false",
       "assert!(end > pos)", "let tokens_added = output.len()", "tokens.splice(pos..end, output)"] ∧
    bodyAlwaysRescanned = true ∧
    -- `##` joins the source spellings of its operands: both through `unlex`, no rendering by token kind
    concatArmSpelling =
      ["let left_string = unlex(std::slice::from_ref(left_token), source_manager)",
       "let right_string = unlex(std::slice::from_ref(right_token), source_manager)",
       "let new_fragment = format!(\"{left_string}{right_string}\")",
       "let file_id = source_manager.add_file(FileName(\"<scratch space>\".to_string()), new_fragment)"] ∧
    concatUsesSourceSpelling = true ∧
    searchPositionUses =
      ["search_pos.early_function_pos",
       "search_pos.last_macro_function_index == macro_index && i < search_pos.next_pos",
       "activate_pos < search_pos.next_pos", "activate_pos = tokens.len() - trimmed.len()",
       "trimmed = trim_whitespace_and_endlines_start(&tokens[i + 1..])", "pos.next_pos < tokens.len()"] ∧
    -- which white space is skipped where (fix f08088c): `trimStart`/`trimEnd` leave line ends, `trimStartAll` does not;
    -- `splitArgs` reaches the `(` with `trimStartAll`, trims every argument with `trim`; `readArgs`: the arity tests
    trimLoops =
      [["trim_whitespace_start", "split_first", "tok.is_whitespace() && *tok != Token::Endline"],
       ["trim_whitespace_end", "split_last", "tok.is_whitespace() && *tok != Token::Endline"],
       ["trim_whitespace_and_endlines_start", "split_first", "tok.is_whitespace()"]] ∧
    argumentReading =
      ["remaining = trim_whitespace_and_endlines_start(remaining)", "arg = trim_whitespace(&remaining[..pos])",
       "!(args.len() == 1 && trim_whitespace_and_endlines_start(args[0]).is_empty())",
       "args.len() as u64 != macro_def.num_params"] ∧
    -- the nesting limit of #include: `includeFile` with fuel `maxIncludeDepth` answers `Err.includeFuel` exactly
    -- where the code answers `IncludeDepthExceeded` (the driver runs the model with this fuel)
    maxIncludeDepth = 200 ∧ includeDepthCheckedBeforeLoad = true ∧
    -- what identifies a file (fix d66a6d7; `includeFile`: the once-set is keyed by the real name the handler reports)
    fileIdentity =
      ["self.file_name_remap.get(file_name)", "self.include_handler.load(file_name, parent_name)",
       "self.real_name_remap.get(&file_data.real_name)", "self.real_name_remap.insert(real_name, id)",
       "self.file_name_remap.insert(file_name.to_string(), id)", "self.pragma_once_files.contains(&id)",
       "self.source_manager.get_contents(id)", "self.pragma_once_files.insert(file_id)"] ∧
    -- fix 3c81ed5 (`initialMacros`: `hasLineBreak`)
    apiDefineLineBreakRejected = true := by
  refine ⟨by decide, by decide, by decide, by decide, by decide, by decide, by decide, ?_, by decide, by decide,
    by decide, by decide +kernel, by decide, by decide, by decide, by decide, by decide, by decide, by decide, by decide⟩
  intro t; cases t <;> decide

/-- Tie to the source (wave 5): the line state machine of `preprocess_included_file` (what is a line, what is a directive:
a `#` met at the start of a line, blanks skipped between `#` and the directive name, a line end met before a directive name
-- the null directive -- goes to `active_tokens`), the operand forms of `#include` (`Line.incl` for a string literal AND a
header name), and the arms that reject a directive whatever the state (`Line.rejected`). -/
theorem source_shape_directive_forms :
    lineStateArms =
      ["(Token::Endline, CommandParseState::CommandContents)",
       "(Token::Endline, _) => { command_state = CommandParseState::StartOfLine; active_tokens.push(next) }",
       "(Token::Hash, CommandParseState::StartOfLine)",
       "(tok, CommandParseState::CommandStart) if !tok.is_whitespace()",
       "(tok, CommandParseState::StartOfLine)",
       "_ => active_tokens.push(next)"] ∧
    includeOperand =
      "[PreprocessToken(Token::LiteralString(s), _)] => s.clone(), [PreprocessToken(Token::HeaderName(s), _)] => s.clone(), _ => return Err(PreprocessError::InvalidInclude(command_location))," ∧
    rejectingArms =
      ["_ if skip => return Ok(()), _ => return Err(PreprocessError::UnknownCommand(command_location)),",
       "_ => Err(PreprocessError::UnknownPragma(ext.get_location())),",
       "else { Err(PreprocessError::UnknownPragma( pragma_command.first().get_location(), )) }",
       "_ if skip => Ok(()), _ => Err(PreprocessError::UnknownCommand(command_location)),"] := by
  refine ⟨by decide +kernel, by decide +kernel, by decide +kernel⟩

/-! ## Termination -/

/-- **expand_terminates.** `applyLoop` -- the `while` loop of `apply_macros_internal` together with the recursive
expansion of every argument (with the current disabled flags, as in the fixed code) and of every substituted body
(with the invoked macro disabled) -- is a total function: Lean accepts it by well-founded recursion on the
lexicographic measure (number of enabled macros, number of tokens right of `next_pos`)
(`termination_by` in `Model/Macro.lean`).  The three inequalities the measure needs are tested at run time in the
model; this theorem shows that none of the tests can fail, for any macro list (self- and mutually referential ones
included), token list and search position, at any depth of the recursion. -/
theorem expand_terminates (env : List Entry) (toks : List PTok) (sp : SearchPos) :
    ∃ r, applyLoop env toks sp = r ∧ ∀ w, r ≠ .error (.guard w) :=
  ⟨_, rfl, fun w => applyLoop_no_guard env toks sp w⟩

/-- **expand_never_hangs.** `find_single_macro` has a `continue` that does not advance its index (taken for a
`Concat` token left of `next_pos`): it would spin forever.  It is unreachable: started the way `apply_macros` starts
it (`next_pos = 0`), the loop never has a `Concat` token left of `next_pos`, at any depth of the recursion -- and the
token list it returns contains no `Concat` token at all (every `##` of a macro body is carried out or reported as an
error before the expansion is handed back).  Together with `expand_terminates`: every call of `apply_macros` returns. -/
theorem expand_never_hangs (defs : List Macro) (toks : List PTok) :
    applyMacros defs toks ≠ .error .hang ∧
    ∀ out, applyMacros defs toks = .ok out → ∀ t ∈ out, t.tok ≠ .concat := by
  have := applyLoop_hang_free (defs.map (⟨·, false⟩)) toks SearchPos.start
    (by simpa [SearchPos.start] using noConcat_nil)
  exact this

/-- non-vacuity: the macro table that overflowed the stack before the d00f5aa fix, `#define A B(A)`,
`#define B(x) x`, on the text `A` (the run itself is in corpus/C12.txt, line 1) -/
example : ∃ r, applyMacros [⟨"A", false, 0, [⟨.id "B", true⟩, ⟨.lparen, true⟩, ⟨.id "A", true⟩, ⟨.rparen, true⟩]⟩,
    ⟨"B", true, 1, [⟨.arg 0, true⟩]⟩] [⟨.id "A", true⟩] = r ∧ ∀ w, r ≠ .error (.guard w) :=
  expand_terminates _ _ _

/-! ## Substitution -/

/-- **object_like_is_substitution.** Invoking an object-like macro yields its body: in a text whose other tokens
start no macro operation, the name is replaced by the replacement list, nothing else changes.  (`pre`, `post`: the
other entries of the macro list, any number, in any state; the entry is the first of its name.  The body and the
surrounding text are `Inert`: they contain no macro name and no `##`; bodies that invoke further macros are covered by
`expand_refines_spec_partial` below only through the one-step lemma.) -/
theorem object_like_is_substitution (pre post : List Entry) (m : Macro) (before after : List PTok) (b : Bool)
    (hpre : ∀ e ∈ pre, e.m.name ≠ m.name) (hobj : m.isFunction = false)
    (hnoarg : ∀ t ∈ m.body, ∀ i, t.tok ≠ .arg i)
    (hbody : Inert (pre ++ ⟨m, false⟩ :: post) m.body)
    (hbefore : Inert (pre ++ ⟨m, false⟩ :: post) before)
    (hafter : Inert (pre ++ ⟨m, false⟩ :: post) after) :
    applyLoop (pre ++ ⟨m, false⟩ :: post) (before ++ ⟨.id m.name, b⟩ :: after) SearchPos.start =
      .ok (before ++ m.body ++ after) := by
  have htoks : before ++ ⟨.id m.name, b⟩ :: after = before ++ [⟨.id m.name, b⟩] ++ after := by simp
  have hf : findSingle (before ++ ⟨.id m.name, b⟩ :: after) SearchPos.start (pre ++ ⟨m, false⟩ :: post) =
      .ok (.user pre.length before.length) := by
    have hm := matchMacro_object (before ++ ⟨.id m.name, b⟩ :: after) before.length SearchPos.start 0 pre post m
      hpre hobj (Nat.zero_le _)
    rw [Nat.zero_add] at hm
    exact findSingle_at _ before after _ m.name b pre.length rfl hbefore hm
  have hmi : (pre ++ (⟨m, false⟩ : Entry) :: post)[pre.length]? = some ⟨m, false⟩ := by simp
  have hra : readArgs m ((before ++ ⟨.id m.name, b⟩ :: after).drop (before.length + 1)) = .ok (after, []) := by
    have : (before ++ ⟨.id m.name, b⟩ :: after).drop (before.length + 1) = after := by
      rw [htoks, ← List.length_singleton (a := (⟨.id m.name, b⟩ : PTok)), ← List.length_append, List.drop_left]
    simp [readArgs, hobj, this]
  have hstep := applyLoop_user_step (pre ++ ⟨m, false⟩ :: post) (before ++ ⟨.id m.name, b⟩ :: after)
    SearchPos.start pre.length before.length ⟨m, false⟩ after [] [] m.body m.body
    (by simp only [SearchPos.start, List.length_append, List.length_cons]; omega) hf hmi hra rfl (substitute_noargs _ _ hnoarg)
    (applyLoop_inert _ _ _ (Nat.le_refl _) (by simpa [SearchPos.start] using inert_disable _ hbody))
  rw [hstep, htoks, splice_middle]
  apply applyLoop_inert
  · simp
  · simp only [List.append_assoc, List.drop_left]
    exact inert_append hbody hafter

/-- non-vacuity: `#define N 4 + P`, text `Q N ;` -/
example : applyLoop [⟨⟨"N", false, 0, [⟨.int "4", true⟩, ⟨.punct "+", true⟩, ⟨.id "P", true⟩]⟩, false⟩]
    ([⟨.id "Q", true⟩, ⟨.ws, true⟩] ++ ⟨.id "N", true⟩ :: [⟨.punct ";", true⟩]) SearchPos.start =
    .ok ([⟨.id "Q", true⟩, ⟨.ws, true⟩] ++ [⟨.int "4", true⟩, ⟨.punct "+", true⟩, ⟨.id "P", true⟩] ++
      [⟨.punct ";", true⟩]) := by
  apply object_like_is_substitution [] [] ⟨"N", false, 0, _⟩ _ _ true
  case hpre => intro e he; cases he
  case hobj => rfl
  case hnoarg => intro t ht i; simp at ht; rcases ht with rfl | rfl | rfl <;> simp
  case hbody => intro t ht; simp at ht; rcases ht with rfl | rfl | rfl <;> simp [InertTok]
  case hbefore => intro t ht; simp at ht; rcases ht with rfl | rfl <;> simp [InertTok]
  case hafter => intro t ht; simp at ht; subst ht; simp [InertTok]

/-- **function_like_is_substitution** (no self reference). Invoking a function-like macro with `n ≥ 1` parameters on
arguments `a₁ , … , aₙ` -- each with balanced parentheses and commas only inside them (`IsArg`), possibly preceded by
white space before the `(`: blanks, comments and (since fix f08088c) line ends, the invocation may continue on the next
line -- yields its body with every parameter replaced by the corresponding argument, trimmed of
surrounding blanks: nested parentheses and commas inside them do not split arguments. -/
theorem function_like_is_substitution (pre post : List Entry) (m : Macro) (before blanks after : List PTok)
    (as : List (List PTok)) (b b2 b3 : Bool)
    (hpre : ∀ e ∈ pre, e.m.name ≠ m.name) (hfn : m.isFunction = true)
    (hne : as ≠ []) (harity : m.numParams = as.length)
    (hblanks : ∀ t ∈ blanks, t.tok.isWhitespace = true)
    (hargs : ∀ a ∈ as, IsArg a ∧ Inert (pre ++ ⟨m, false⟩ :: post) a)
    (hbody : ∀ t ∈ m.body, (∃ i, t.tok = .arg i ∧ i < m.numParams) ∨
      ((∀ i, t.tok ≠ .arg i) ∧ InertTok (pre ++ ⟨m, false⟩ :: post) t))
    (hbefore : Inert (pre ++ ⟨m, false⟩ :: post) before)
    (hafter : Inert (pre ++ ⟨m, false⟩ :: post) after) :
    ∃ out, substitute m.body (as.map trim) = .ok out ∧
      applyLoop (pre ++ ⟨m, false⟩ :: post)
        (before ++ ⟨.id m.name, b⟩ :: (blanks ++ ⟨.lparen, b2⟩ :: (joinArgs as ++ ⟨.rparen, b3⟩ :: after)))
        SearchPos.start = .ok (before ++ out ++ after) := by
  -- the substitution is defined: every parameter index is in range
  obtain ⟨out, hout⟩ := substitute_ok m.body (as.map trim) (by
    intro t ht i hi
    rcases hbody t ht with ⟨j, hj, hlt⟩ | ⟨hno, _⟩
    · rw [hi] at hj; cases hj; simpa [harity] using hlt
    · exact absurd hi (hno i))
  refine ⟨out, hout, ?_⟩
  let env := pre ++ (⟨m, false⟩ : Entry) :: post
  let call := ⟨.id m.name, b⟩ :: (blanks ++ ⟨.lparen, b2⟩ :: (joinArgs as ++ [⟨.rparen, b3⟩]))
  have htoks : before ++ ⟨.id m.name, b⟩ :: (blanks ++ ⟨.lparen, b2⟩ :: (joinArgs as ++ ⟨.rparen, b3⟩ :: after)) =
      before ++ call ++ after := by simp [call]
  have hdrop : (before ++ call ++ after).drop (before.length + 1) =
      blanks ++ ⟨.lparen, b2⟩ :: (joinArgs as ++ ⟨.rparen, b3⟩ :: after) := by
    simp [call, List.append_assoc]
  have htrim : trimStartAll ((before ++ call ++ after).drop (before.length + 1)) =
      ⟨.lparen, b2⟩ :: (joinArgs as ++ ⟨.rparen, b3⟩ :: after) := by
    rw [hdrop]; exact trimStartAll_whitespace _ _ hblanks _ rfl
  have hargsInert : ∀ a ∈ as.map trim, Inert env a := by
    intro a ha
    obtain ⟨x, hx, rfl⟩ := List.mem_map.mp ha
    exact inert_trim (hargs x hx).2
  have hf : findSingle (before ++ call ++ after) SearchPos.start env = .ok (.user pre.length before.length) := by
    have hpa : parenAfter (before ++ call ++ after) before.length =
        some ((before ++ call ++ after).length - ((joinArgs as ++ ⟨.rparen, b3⟩ :: after).length + 1)) := by
      unfold parenAfter; rw [htrim]
    have hm := matchMacro_function (before ++ call ++ after) before.length SearchPos.start 0 pre post m hpre hfn rfl _
      hpa (Nat.zero_le _)
    rw [Nat.zero_add] at hm
    exact findSingle_at (before ++ call ++ after) before
      (blanks ++ ⟨.lparen, b2⟩ :: (joinArgs as ++ ⟨.rparen, b3⟩ :: after)) env m.name b pre.length
      (by simp [call]) hbefore hm
  have hmi : env[pre.length]? = some ⟨m, false⟩ := by simp [env]
  have hra : readArgs m ((before ++ call ++ after).drop (before.length + 1)) = .ok (after, as.map trim) := by
    have hs : splitArgs m.name ((before ++ call ++ after).drop (before.length + 1)) = .ok (after, as.map trim) := by
      unfold splitArgs
      rw [htrim]
      have := scanArgs_join as hne (fun a ha => (hargs a ha).1) b3 after []
      simpa using this
    have hn0 : m.numParams ≠ 0 := by
      rw [harity]; cases as with
      | nil => exact absurd rfl hne
      | cons _ _ => simp
    unfold readArgs
    simp only [hfn, if_true, hs, hn0, if_false]
    simp [harity]
  have hinertOut : Inert env out := by
    apply substitute_inert m.body (as.map trim) out _ hargsInert hout
    intro t ht
    rcases hbody t ht with ⟨j, hj, _⟩ | ⟨_, hin⟩
    · exact Or.inl ⟨j, hj⟩
    · exact Or.inr hin
  have hstep := applyLoop_user_step env (before ++ call ++ after) SearchPos.start pre.length before.length
    ⟨m, false⟩ after (as.map trim) (as.map trim) out out
    (by simp only [SearchPos.start, List.length_append, call, List.length_cons]; omega) hf hmi hra
    (mapE_inert env _ hargsInert) hout
    (applyLoop_inert _ _ _ (Nat.le_refl _) (by simpa [SearchPos.start] using inert_disable _ hinertOut))
  rw [htoks, hstep, splice_middle]
  apply applyLoop_inert
  · simp
  · simp only [List.append_assoc, List.drop_left]
    exact inert_append hinertOut hafter

/-- non-vacuity: `#define F(X,Y) X + Y`, text `F ((1,2), G(3,4)) ;` -- the commas inside the nested parentheses do
not split the arguments -/
example : ∃ out, substitute [⟨.arg 0, true⟩, ⟨.punct "+", true⟩, ⟨.arg 1, true⟩]
      ([[⟨.lparen, true⟩, ⟨.int "1", true⟩, ⟨.comma, true⟩, ⟨.int "2", true⟩, ⟨.rparen, true⟩],
        [⟨.ws, true⟩, ⟨.id "G", true⟩, ⟨.lparen, true⟩, ⟨.int "3", true⟩, ⟨.comma, true⟩, ⟨.int "4", true⟩,
          ⟨.rparen, true⟩]].map trim) = .ok out ∧
    applyLoop ([] ++ [⟨⟨"F", true, 2, [⟨.arg 0, true⟩, ⟨.punct "+", true⟩, ⟨.arg 1, true⟩]⟩, false⟩])
      ([] ++ ⟨.id "F", true⟩ :: ([⟨.ws, true⟩] ++ ⟨.lparen, true⟩ ::
        (joinArgs [[⟨.lparen, true⟩, ⟨.int "1", true⟩, ⟨.comma, true⟩, ⟨.int "2", true⟩, ⟨.rparen, true⟩],
          [⟨.ws, true⟩, ⟨.id "G", true⟩, ⟨.lparen, true⟩, ⟨.int "3", true⟩, ⟨.comma, true⟩, ⟨.int "4", true⟩,
            ⟨.rparen, true⟩]] ++ ⟨.rparen, true⟩ :: [⟨.punct ";", true⟩])))
      SearchPos.start = .ok ([] ++ out ++ [⟨.punct ";", true⟩]) := by
  apply function_like_is_substitution [] [] ⟨"F", true, 2, _⟩ [] _ _ _ true true true
  case hpre => intro e he; cases he
  case hfn => rfl
  case hne => simp
  case harity => rfl
  case hblanks => intro t ht; simp at ht; subst ht; rfl
  case hargs =>
    intro a ha
    simp at ha
    rcases ha with rfl | rfl
    · refine ⟨by unfold IsArg; decide, ?_⟩
      intro t ht; simp at ht; rcases ht with rfl | rfl | rfl | rfl | rfl <;> simp [InertTok]
    · refine ⟨by unfold IsArg; decide, ?_⟩
      intro t ht; simp at ht; rcases ht with rfl | rfl | rfl | rfl | rfl | rfl | rfl <;> simp [InertTok]
  case hbody =>
    intro t ht; simp at ht
    rcases ht with rfl | rfl | rfl
    · exact Or.inl ⟨0, rfl, by decide⟩
    · exact Or.inr ⟨by simp, by simp [InertTok]⟩
    · exact Or.inl ⟨1, rfl, by decide⟩
  case hbefore => intro t ht; cases ht
  case hafter => intro t ht; simp at ht; subst ht; simp [InertTok]

/-! ## Scope of definitions -/

/-- **define_undef_scoping.** Starting from a macro list with pairwise distinct names (in particular the empty
one; `macro_names_always_distinct` shows every list reached in a run is such), any sequence of `#define` / `#undef` directives keeps the names
pairwise distinct -- the list never holds two entries of one name -- the `assert_eq!` in the `undef` arm never fails,
and, starting from the empty list, looking a name up gives the latest `#define` of that name that is not followed by
an `#undef` of it. -/
theorem define_undef_scoping :
    (∀ (ms : List Macro) (evs : List (Event Macro)), (names ms).Nodup → (names (applyEvents ms evs)).Nodup) ∧
    (∀ (ms ms' : List Macro) cmd, doDefine ms cmd = .ok ms' →
        ∃ m, parseDefine cmd = .ok m ∧ ms' = applyEvent ms (.define m.name m)) ∧
    (∀ (ms ms' : List Macro) cmd, doUndef ms cmd = .ok ms' →
        ∃ n b, trim cmd = [⟨.id n, b⟩] ∧ ms' = applyEvent ms (.undef n)) ∧
    (∀ (ms : List Macro) cmd site, (names ms).Nodup → doUndef ms cmd ≠ .error (.panic site)) ∧
    (∀ (evs : List (Event Macro)) n, (∀ e ∈ evs, WellNamed e) →
        lookupList (applyEvents [] evs) n = lookup evs n) :=
  ⟨fun _ evs h => nodup_applyEvents h evs, fun _ _ _ h => doDefine_eq h, fun _ _ _ h => doUndef_eq h,
   fun _ cmd site h => doUndef_no_panic h cmd site, fun evs n h => lookupList_applyEvents evs h n⟩

/-- non-vacuity: define, redefine, undefine, define again -/
example :
    let a1 : Macro := ⟨"A", false, 0, [⟨.int "1", true⟩]⟩
    let a2 : Macro := ⟨"A", false, 0, [⟨.int "2", true⟩]⟩
    let b : Macro := ⟨"B", true, 1, [⟨.arg 0, true⟩]⟩
    let evs : List (Event Macro) := [.define "A" a1, .define "B" b, .define "A" a2, .undef "B"]
    applyEvents [] evs = [a2] ∧ lookup evs "A" = some a2 ∧ lookup evs "B" = none := by
  decide


/-- **directive_takes_effect_from_its_line.** Redefinition and `#undef` take effect from their line onward: the text
lines before a `#define` / `#undef` line (collected in `active_tokens`) are expanded with the macro list as it was
before the directive (`flush`), the directive edits the list (`doDefine` / `doUndef`: `define_undef_scoping`), and
every line after it is processed with the edited list and an empty `active_tokens`. -/
theorem directive_takes_effect_from_its_line (inc : String → State → Except Err State) (cur : String)
    (s : State × List PTok) (pre post : List Line) (cmd : List PTok) :
    (foldLines inc cur s (pre ++ Line.define cmd :: post) =
      match foldLines inc cur s pre with
      | .error e => .error e
      | .ok (st, active) =>
        match flush st active with
        | .error e => .error e
        | .ok st' =>
          match doDefine st'.macros cmd with
          | .error e => .error e
          | .ok ms => foldLines inc cur ({ st' with macros := ms }, []) post) ∧
    (foldLines inc cur s (pre ++ Line.undef cmd :: post) =
      match foldLines inc cur s pre with
      | .error e => .error e
      | .ok (st, active) =>
        match flush st active with
        | .error e => .error e
        | .ok st' =>
          match doUndef st'.macros cmd with
          | .error e => .error e
          | .ok ms => foldLines inc cur ({ st' with macros := ms }, []) post) := by
  constructor
  · rw [foldLines_append]
    cases foldLines inc cur s pre with
    | error e => rfl
    | ok s1 =>
      obtain ⟨st, active⟩ := s1
      simp only [foldLines, stepLine]
      cases flush st active with
      | error e => rfl
      | ok st' =>
        simp only
        cases doDefine st'.macros cmd with
        | error e => rfl
        | ok ms => rfl
  · rw [foldLines_append]
    cases foldLines inc cur s pre with
    | error e => rfl
    | ok s1 =>
      obtain ⟨st, active⟩ := s1
      simp only [foldLines, stepLine]
      cases flush st active with
      | error e => rfl
      | ok st' =>
        simp only
        cases doUndef st'.macros cmd with
        | error e => rfl
        | ok ms => rfl

/-! ## API-level defines -/

/-- **api_defines_equal_file_defines.** Defines passed through the API behave exactly like `#define` lines placed
before the first line of the entry file: processing the entry file after installing the API list gives the same
result -- same output tokens, same macro list, same once-set, or the same error (e.g. `InvalidDefine` for a name that
is not an identifier) -- as processing the file with the lines `#define name value` put in front of it.
Any API list (repeated names, values with `##`, blanks, empty values, names that are not single identifiers) whose
entries are single lines (`hline`: no line end among the tokens -- a `#define` line cannot hold one; an entry with a line
break is rejected since fix 3c81ed5: `api_define_with_line_break_is_rejected`).
"Modulo locations": since the 9f7cdb8 fix the tokens of an API define carry a real location (the file `<define>`), so the
only location fact the model tracks -- has one / has none -- is the same on both sides; the locations themselves
differ (that is C14's subject).
Notes. (1) A name such as `F(x)` is lexed and parsed like the text after `#define`, so it defines a *function-like*
macro, as `-DF(x)=..` does for a C compiler.  (2) `lines ≠ []`: for an empty entry file the lexer's end-of-file line
end is emitted on the left side only -- a white-space token, invisible after `prepare_tokens`.  (3) The lines are put
in front of this processing of the entry file; a nested `#include` of the entry file itself sees the file as the
handler delivers it, on both sides. -/
theorem api_defines_equal_file_defines (inc : String → State → Except Err State) (entry : String)
    (api : List ApiDefine) (lines : List Line) (hne : lines ≠ []) (hline : ∀ d ∈ api, hasLineBreak d = false) :
    runInitial inc entry api lines =
      runFile inc entry { macros := [], out := [], once := [] } (api.map defineLineOf ++ lines) := by
  have hne' : api.map defineLineOf ++ lines ≠ [] := by
    intro h; exact hne (List.append_eq_nil_iff.mp h).2
  unfold runInitial runFile
  rw [fileStart_of_ne_nil hne', foldLines_defines _ _ _ _ _ _ _ hline]
  cases initialMacros [] api with
  | error e => rfl
  | ok ms => simp only [fileStart_of_ne_nil hne]


/-- **api_defines_equal_file_defines_tokens.** The same for *every* entry file, the empty one included, on what the
rest of the compiler sees: the macro list, the once-set and the tokens after `prepare_tokens` (which drops white
space -- the only difference for an empty entry file is the line end the lexer adds to an empty file). -/
theorem api_defines_equal_file_defines_tokens (inc : String → State → Except Err State) (entry : String)
    (api : List ApiDefine) (lines : List Line) (hline : ∀ d ∈ api, hasLineBreak d = false) :
    (runInitial inc entry api lines).map (fun st => (st.macros, st.once, prepare st.out)) =
      (runFile inc entry { macros := [], out := [], once := [] } (api.map defineLineOf ++ lines)).map
        (fun st => (st.macros, st.once, prepare st.out)) := by
  cases lines with
  | cons l ls => rw [api_defines_equal_file_defines inc entry api (l :: ls) (by simp) hline]
  | nil =>
    cases api with
    | nil => rfl
    | cons d ds =>
      unfold runInitial runFile
      rw [fileStart_of_ne_nil (by simp : (d :: ds).map defineLineOf ++ [] ≠ []), foldLines_defines _ _ _ _ _ _ _ hline]
      cases initialMacros [] (d :: ds) with
      | error e => rfl
      | ok ms =>
        simp only [foldLines, fileStart, flush, applyMacros_eol, applyMacros_nil, Except.map]
        rfl

/-- **api_define_with_line_break_is_rejected** (fix 3c81ed5).  A define is a single line: an API list with an entry
whose name or value holds a line end is rejected with `InvalidDefine` as soon as that entry is reached (the entries
before it are single lines that parse) -- whatever the entry file and the later entries are.  (Before the fix the
line end stayed in the replacement list.) -/
theorem api_define_with_line_break_is_rejected (inc : String → State → Except Err State) (entry : String)
    (pre post : List ApiDefine) (d : ApiDefine) (lines : List Line) (ms : List Macro)
    (hpre : initialMacros [] pre = .ok ms) (hd : hasLineBreak d = true) :
    runInitial inc entry (pre ++ d :: post) lines = .error .invalidDefine := by
  have key : ∀ (pre : List ApiDefine) (m0 ms : List Macro), initialMacros m0 pre = .ok ms →
      initialMacros m0 (pre ++ d :: post) = .error .invalidDefine := by
    intro pre
    induction pre with
    | nil => intro m0 ms _; simp [initialMacros, hd]
    | cons x xs ih =>
      intro m0 ms h
      simp only [initialMacros, List.cons_append] at h ⊢
      split at h
      · cases h
      · rename_i hx
        simp only [hx, if_false]
        cases hdx : doDefine m0 (apiCommand x) with
        | error e => simp [hdx] at h
        | ok m1 =>
          simp only [hdx] at h ⊢
          exact ih m1 ms h
  unfold runInitial
  rw [key pre [] ms hpre]

/-- **rejected_directive_rejects_the_file** (wave 5).  A directive line that `preprocess_command` rejects whatever the
state -- `#pragma` with an unknown or missing name, a directive name that is none, `#include` whose operand is not one
string literal / header name -- makes the file fail, wherever it stands and whatever follows it: the lines in front of
it are processed as usual, the text pending in front of it is expanded first (the line state machine flushes when it
meets the `#`), and if that succeeds the error of the directive is the result -- nothing behind the line is looked at. -/
theorem rejected_directive_rejects_the_file (inc : String → State → Except Err State) (cur : String) (st0 : State)
    (pre post : List Line) (e : Err) :
    runFile inc cur st0 (pre ++ .rejected e :: post) =
      (match foldLines inc cur (st0, fileStart (pre ++ .rejected e :: post)) pre with
       | .error e' => .error e'
       | .ok (st, active) =>
         match flush st active with
         | .error e' => .error e'
         | .ok _ => .error e) := by
  unfold runFile
  rw [RsslVerif.Lemmas.Include.foldLines_append]
  cases hp : foldLines inc cur (st0, fileStart (pre ++ .rejected e :: post)) pre with
  | error e' => rfl
  | ok s =>
    obtain ⟨st, active⟩ := s
    simp only [foldLines, stepLine]
    cases hf : flush st active with
    | error e' => rfl
    | ok st1 => rfl

/-- non-vacuity: `#pragma foo` in front of a line that is never reached (here a malformed `#define`), for every includer
state; an unknown directive as the only line of a file -/
example (inc : String → State → Except Err State) (st : State) :
    runFile inc "main" st [.rejected .unknownPragma, .define (located [])] = .error .unknownPragma := by
  simp [runFile, foldLines, stepLine, fileStart, flush, applyMacros_nil]
example (inc : String → State → Except Err State) (st : State) :
    runFile inc "f1" st [.pragmaOnce, .rejected .unknownCommand] = .error .unknownCommand := by
  simp [runFile, foldLines, stepLine, fileStart, flush, applyMacros_nil]

/-- **null_directive_is_boundary_and_empty_line** (wave 5).  The null directive (`#` alone on its line, C11 6.10.7) has no
effect of its own: in every file, at every place, it is worth a directive without effect (a block boundary: the text in
front of it is expanded on its own, like in front of `#pragma warning`) followed by an empty line -- same macro table,
same `#pragma once` set, same output, same error. -/
theorem null_directive_is_boundary_and_empty_line (inc : String → State → Except Err State) (cur : String) (st0 : State)
    (pre post : List Line) :
    runFile inc cur st0 (pre ++ .null :: post) = runFile inc cur st0 (pre ++ .pragmaWarning :: .text [] :: post) := by
  have hstart : fileStart (pre ++ Line.null :: post) = fileStart (pre ++ Line.pragmaWarning :: Line.text [] :: post) := by
    cases pre <;> rfl
  unfold runFile
  rw [hstart, RsslVerif.Lemmas.Include.foldLines_append, RsslVerif.Lemmas.Include.foldLines_append]
  cases foldLines inc cur (st0, fileStart (pre ++ Line.pragmaWarning :: Line.text [] :: post)) pre with
  | error e => rfl
  | ok s =>
    obtain ⟨st, active⟩ := s
    simp only [foldLines, stepLine]
    cases flush st active with
    | error e => rfl
    | ok st1 => simp

/-- non-vacuity: a file that is a null directive only yields what a `#pragma warning` line and an empty line yield -/
example (inc : String → State → Except Err State) (st : State) :
    runFile inc "main" st [.null] = runFile inc "main" st [.pragmaWarning, .text []] :=
  null_directive_is_boundary_and_empty_line inc "main" st [] []

/-- non-vacuity: `A=1` then `B=2⏎` -/
example : initialMacros [] [⟨[.id "A"], [.int "1"]⟩, ⟨[.id "B"], [.int "2", .endline]⟩] = .error .invalidDefine := by
  rfl

/-- examples of the fixed behaviour (these were defects of the tree before 9f7cdb8, see notes/C12.md):
a name listed twice -- the later entry replaces the earlier one; `##` in a value is the paste operator;
a name `F(X)` defines a function-like macro. -/
example : initialMacros [] [⟨[.id "A"], [.int "1"]⟩, ⟨[.id "A"], [.int "2"]⟩] =
    .ok [⟨"A", false, 0, [⟨.int "2", true⟩]⟩] := by rfl
example : initialMacros [] [⟨[.id "A"], [.id "P", .ws, .hashhash, .ws, .id "Q"]⟩] =
    .ok [⟨"A", false, 0, [⟨.id "P", true⟩, ⟨.ws, true⟩, ⟨.concat, true⟩, ⟨.ws, true⟩, ⟨.id "Q", true⟩]⟩] := by rfl
example : initialMacros [] [⟨[.id "F", .lparen, .id "X", .rparen], [.id "X", .punct "+", .int "1"]⟩] =
    .ok [⟨"F", true, 1, [⟨.arg 0, true⟩, ⟨.punct "+", true⟩, ⟨.int "1", true⟩]⟩] := by rfl

/-- **macro_names_always_distinct.** Through a whole run of `preprocess` -- API defines, `#define`, `#undef`, nested
includes to any depth -- the macro list never holds two entries of one name (so the `assert_eq!` of the `undef` arm
cannot fail, by `define_undef_scoping`). -/
theorem macro_names_always_distinct (h : Handler) (fuel : Nat) (entry : String) (api : List ApiDefine)
    (lines : List Line) (st : State) (hrun : runInitial (includeFile h fuel) entry api lines = .ok st) :
    (names st.macros).Nodup := by
  unfold runInitial at hrun
  cases hi : initialMacros [] api with
  | error e => simp [hi] at hrun
  | ok ms =>
    simp only [hi] at hrun
    exact runFile_nodup (includeFile_keepsNodup h fuel) entry _ st lines hrun
      (initialMacros_nodup api (by simp [names]) hi)

/-! ## Refinement of the reference -/

theorem find_specTable (pre post : List Entry) (m : Macro) (hpre : ∀ e ∈ pre, e.m.name ≠ m.name) :
    find (specTable (pre ++ ⟨m, false⟩ :: post)) m.name = some (ofMacro m) := by
  induction pre with
  | nil => simp [specTable, find, ofMacro]
  | cons e es ih =>
    have he : e.m.name ≠ m.name := hpre e (by simp)
    have := ih (fun x hx => hpre x (by simp [hx]))
    have hb : ((ofMacro e.m).name == m.name) = false := by simpa [ofMacro] using he
    simp only [specTable, find, List.cons_append, List.map_cons, List.find?_cons, hb] at this ⊢
    exact this

theorem sinert_of_inert (env : List Entry) (ts : List PTok) (hs : List String) (h : Inert env ts) :
    SInert (specTable env) ((ppTokens ts).map fun t => ⟨t, hs⟩) := by
  intro t ht
  simp only [ppTokens, List.mem_map, List.mem_filter] at ht
  obtain ⟨k, ⟨p, ⟨hp, _⟩, rfl⟩, rfl⟩ := ht
  have := h p hp
  unfold InertTok at this
  unfold SInertTok
  simp only
  split
  · rename_i n hn
    simp only [hn] at this
    simp only [find, specTable, List.find?_eq_none, List.mem_map, beq_iff_eq]
    rintro x ⟨e, he, rfl⟩
    simpa [ofMacro] using this e he
  · trivial

/-- **expand_refines_spec_partial.** The model's expansion equals the reference algorithm (`Spec.CPreMacro.expand`,
Prosser's hide-set algorithm, for some fuel) on the invocation of an object-like macro whose replacement list, like
the surrounding text, contains no macro name and no `##`: both yield the surrounding tokens with the name replaced
by the replacement list (white space aside, which is not a token for the reference).
*Missing for the full rescanning equivalence `applyLoop = expand`:* (1) replacement lists and arguments that contain
further invocations (needs the invariant relating the set of disabled entries to the hide sets of the tokens being
rescanned; by `argument-repainted` above the equivalence is in fact false when an argument's expansion leaves a
painted name), (2) function-like macros on the reference side (`function_like_is_substitution` is proved for the
model only), (3) `##` (false for empty arguments: `empty-argument-next-to-paste`).  These are covered by the
correspondence run against the harness's implementation of the same reference algorithm. -/
theorem expand_refines_spec_partial (pre post : List Entry) (m : Macro) (before after : List PTok) (b : Bool)
    (hpre : ∀ e ∈ pre, e.m.name ≠ m.name) (hobj : m.isFunction = false)
    (hnoarg : ∀ t ∈ m.body, ∀ i, t.tok ≠ .arg i) (hnohash : ∀ t ∈ m.body, t.tok ≠ .hashhash)
    (hbody : Inert (pre ++ ⟨m, false⟩ :: post) m.body)
    (hbefore : Inert (pre ++ ⟨m, false⟩ :: post) before)
    (hafter : Inert (pre ++ ⟨m, false⟩ :: post) after) :
    ∃ out fuel r,
      applyLoop (pre ++ ⟨m, false⟩ :: post) (before ++ ⟨.id m.name, b⟩ :: after) SearchPos.start = .ok out ∧
      expand (specTable (pre ++ ⟨m, false⟩ :: post)) fuel
        (plain (ppTokens (before ++ ⟨.id m.name, b⟩ :: after))) = .ok r ∧
      r.map (·.tok) = ppTokens out := by
  have hmodel := object_like_is_substitution pre post m before after b hpre hobj hnoarg hbody hbefore hafter
  -- the reference body is the model body without white space
  have hsb : (ofMacro m).body = ppTokens m.body := by
    simp only [ofMacro, ppTokens, List.map_map]
    apply List.map_congr_left
    intro t ht
    have htm : t ∈ m.body := (List.mem_filter.mp ht).1
    simp only [Function.comp]
    unfold specBodyTok
    split
    · rename_i i hi; exact absurd hi (hnoarg t htm i)
    · rename_i hc
      have := hbody t htm
      simp [InertTok, hc] at this
    · rfl
  have hnh : Tok.hashhash ∉ (ofMacro m).body := by
    rw [hsb]
    simp only [ppTokens, List.mem_map, List.mem_filter, not_exists, not_and]
    intro t ⟨ht, _⟩ heq
    exact hnohash t ht heq
  obtain ⟨fuel, hfuel⟩ := expand_object (specTable (pre ++ ⟨m, false⟩ :: post)) (ofMacro m)
    (plain (ppTokens before)) (plain (ppTokens after))
    (by simpa [ofMacro] using find_specTable pre post m hpre)
    (by simp [ofMacro, hobj]) hnh
    (sinert_of_inert _ before [] hbefore) (sinert_of_inert _ after [] hafter)
    (fun hs => by rw [hsb]; exact sinert_of_inert _ m.body hs hbody)
  refine ⟨_, fuel, plain (ppTokens before) ++
    (ofMacro m).body.map (fun t => ⟨t, [(ofMacro m).name]⟩) ++ plain (ppTokens after), hmodel, ?_, ?_⟩
  · have hpp : plain (ppTokens (before ++ ⟨.id m.name, b⟩ :: after)) =
        plain (ppTokens before) ++ ⟨.id (ofMacro m).name, []⟩ :: plain (ppTokens after) := by
      simp [plain, ppTokens, ofMacro, Tok.isWhitespace]
    rw [hpp]
    exact hfuel
  · simp only [List.map_append, List.map_map, plain, ppTokens_append, hsb]
    simp [Function.comp_def]


/-! ## Refinement of the reference on the tame class -/

/-- all entries enabled, as `apply_macros` starts -/
def allEnabled (defs : List Macro) : List Entry := defs.map (⟨·, false⟩)

theorem specTable_allEnabled (defs : List Macro) : specTable (allEnabled defs) = defs.map ofMacro := by
  simp [specTable, allEnabled, List.map_map, Function.comp_def]

theorem rel_plain (defs : List Macro) (toks : List PTok) : Rel (allEnabled defs) (plain (ppTokens toks)) toks := by
  refine ⟨by simp [plain, List.map_map, Function.comp_def], ?_, ?_⟩
  · intro t _ x hx
    obtain ⟨e, he, hd, _⟩ := mem_disabledNames.mp hx
    simp only [allEnabled, List.mem_map] at he
    obtain ⟨m, _, rfl⟩ := he
    cases hd
  · intro t ht n _ _ x hx
    simp only [plain, List.mem_map] at ht
    obtain ⟨k, _, rfl⟩ := ht
    cases hx

/-- **expand_refines_spec.** *The refinement theorem.*  Whenever a token list has a tame expansion `out` under a
macro table (`Lemmas.MacroTame.Tame`: macros are object-like or function-like with any number of parameters,
refer to themselves and to each other, invocations nest inside arguments and replacement lists, arguments contain
parenthesised commas, span lines, are empty), then
* the model of `apply_macros` returns `out`, and
* the reference C algorithm (`Spec.CPreMacro.expand`, Prosser's algorithm with per-token hide sets, rescanning the
  replacement list together with the rest of the source) returns, for some fuel, the same tokens -- white space aside,
  which is no token for the reference.
The relation between the two bookkeepings is `Lemmas.MacroTameSpec.Rel`: in the list rssl is scanning, every
token's hide set contains the names of the disabled entries, and the tokens that name enabled macros have exactly
that hide set.  A derivation exists exactly for the inputs accepted by the decision procedure `tameRun`
(`tame_class_is_decided`), in particular for every input over a table of object-like macros (`object_like_refines_spec`); the
side conditions of `Tame` exclude the deviation classes `differs_*` below, and only those were found necessary:
replacement lists without `##` (`WFMacro.noConcat`; `paste_*` treat `##`), what an argument expands to names no enabled
macro (`OnlyDisabled`) -- or nothing is expanded in the argument at all (`AllKept`: the bare name of a function-like
macro that the replacement list goes on to invoke, `APPLY(NEG, a)`, `LIST(DECL)`: `agrees_on_higher_order_invocation`;
its token carries exactly the hide set of the invocation, `Lemmas.MacroTameSpec.Exact`) --, no invocation spans the end
of an expanded replacement list (`NoFire`), a function-like name that is not invoked is not followed by `(` (`Kept`). -/
theorem expand_refines_spec (defs : List Macro) (toks out : List PTok) (hwf : ∀ m ∈ defs, WFMacro m)
    (h : Tame (allEnabled defs) toks out) :
    applyMacros defs toks = .ok out ∧
    ∃ fuel r, expand (defs.map ofMacro) fuel (plain (ppTokens toks)) = .ok r ∧ r.map (·.tok) = ppTokens out := by
  constructor
  · have := tame_model h toks SearchPos.start 0 rfl (Nat.le_refl _) (Nat.le_refl _) (passes_start _ _)
    simpa [applyMacros, allEnabled] using this
  · have hwf' : ∀ e ∈ allEnabled defs, WFMacro e.m := by
      intro e he
      simp only [allEnabled, List.mem_map] at he
      obtain ⟨m, hm, rfl⟩ := he
      exact hwf m hm
    obtain ⟨r, hs, hro⟩ := tame_spec h hwf' (plain (ppTokens toks)) (rel_plain defs toks)
    obtain ⟨f, hf⟩ := sexp_complete hs
    rw [specTable_allEnabled] at hf
    exact ⟨f, r, hf f (Nat.le_refl _), hro.toks⟩

/-- **expand_refines_spec_decided.** Membership in the class of `expand_refines_spec` is decidable: if `tameRun`
(executable, `Model/MacroTame.lean`) accepts a token list under a table with pairwise distinct names, rssl's expansion
and the reference C algorithm both yield what it returns.  (The driver classifies every case of the correspondence run
with `tameRun`: a case it accepts on which the real preprocessor differs from the harness's independent reference
preprocessor is reported as a broken obligation.) -/
theorem expand_refines_spec_decided (defs : List Macro) (toks out : List PTok) (fuel : Nat)
    (hwf : ∀ m ∈ defs, WFMacro m) (hnd : (defs.map (·.name)).Nodup)
    (h : tameRun fuel (allEnabled defs) toks = some out) :
    applyMacros defs toks = .ok out ∧
    ∃ fuel' r, expand (defs.map ofMacro) fuel' (plain (ppTokens toks)) = .ok r ∧ r.map (·.tok) = ppTokens out :=
  expand_refines_spec defs toks out hwf
    (tameRun_sound fuel _ _ _ (by simpa [entryNames, allEnabled, List.map_map, Function.comp_def] using hnd) h)


/-- **tame_class_is_decided.** The class of `expand_refines_spec` is exactly what `tameRun` accepts: for a table with
pairwise distinct names, a token list has a tame expansion `out` iff `tameRun` returns `out` for some fuel. -/
theorem tame_class_is_decided (defs : List Macro) (toks out : List PTok) (hnd : (defs.map (·.name)).Nodup) :
    Tame (allEnabled defs) toks out ↔ ∃ fuel, tameRun fuel (allEnabled defs) toks = some out := by
  constructor
  · intro h
    obtain ⟨f, hf⟩ := tameRun_complete h
    exact ⟨f, hf f (Nat.le_refl _)⟩
  · rintro ⟨f, hf⟩
    exact tameRun_sound f _ _ _ (by simpa [entryNames, allEnabled, List.map_map, Function.comp_def] using hnd) hf

/-- **object_like_refines_spec.** Object-like macros in full: for every table of object-like macros (pairwise
distinct names, replacement lists without `##`) -- with replacement lists that mention other macros and themselves,
nested to any depth, self- and mutually referential -- and every token list, rssl's expansion equals the reference C
algorithm: expansion of a self- or mutually referential macro stops exactly where the C rule ("a macro name found
during the rescan of its own replacement is not replaced, and is no longer available for further replacement") says.
rssl rescans a replacement list in isolation with the macro's flag set, C rescans it together with the rest of the
source with the name in the hide set of every token of the list: with object-like macros only, no invocation spans
the end of a replacement list, so the two coincide. -/
theorem object_like_refines_spec (defs : List Macro) (toks : List PTok) (hnd : (defs.map (·.name)).Nodup)
    (hobj : ∀ m ∈ defs, m.isFunction = false) (hwf : ∀ m ∈ defs, WFMacro m) (hnc : NoConcat toks) :
    ∃ out fuel r, applyMacros defs toks = .ok out ∧
      expand (defs.map ofMacro) fuel (plain (ppTokens toks)) = .ok r ∧ r.map (·.tok) = ppTokens out := by
  have htab : ObjTable (allEnabled defs) := by
    refine ⟨by simpa [entryNames, allEnabled, List.map_map, Function.comp_def] using hnd, ?_, ?_, ?_⟩
    · intro e he
      simp only [allEnabled, List.mem_map] at he
      obtain ⟨m, hm, rfl⟩ := he
      exact hobj m hm
    · intro e he
      simp only [allEnabled, List.mem_map] at he
      obtain ⟨m, hm, rfl⟩ := he
      exact (hwf m hm).noConcat
    · intro e he t ht i hi
      simp only [allEnabled, List.mem_map] at he
      obtain ⟨m, hm, rfl⟩ := he
      have := ((hwf m hm).argRange t ht i hi).2
      rw [hobj m hm] at this
      cases this
  obtain ⟨out, hT⟩ := tame_object_total _ (allEnabled defs) rfl htab toks hnc
  obtain ⟨h1, fuel, r, h2, h3⟩ := expand_refines_spec defs toks out hwf hT
  exact ⟨out, fuel, r, h1, h2, h3⟩


section Examples
/-- located tokens -/
private def L (ks : List Tok) : List PTok := ks.map (⟨·, true⟩)

/-- non-vacuity of `object_like_refines_spec`: `#define A A B`, `#define B A C`, `#define C B` (self- and mutually
referential), text `A B C` -/
example : ∃ out fuel r,
    applyMacros [⟨"A", false, 0, L [.id "A", .ws, .id "B"]⟩, ⟨"B", false, 0, L [.id "A", .ws, .id "C"]⟩,
      ⟨"C", false, 0, L [.id "B"]⟩] (L [.id "A", .ws, .id "B", .ws, .id "C"]) = .ok out ∧
    expand ([⟨"A", false, 0, L [.id "A", .ws, .id "B"]⟩, ⟨"B", false, 0, L [.id "A", .ws, .id "C"]⟩,
      ⟨"C", false, 0, L [.id "B"]⟩].map ofMacro) fuel (plain (ppTokens (L [.id "A", .ws, .id "B", .ws, .id "C"]))) = .ok r ∧
    r.map (·.tok) = ppTokens out := by
  apply object_like_refines_spec
  · decide
  · decide
  · intro m hm; exact wfMacro_of_wfB m (by revert m; decide)
  · unfold NoConcat; decide

/-- what the expansion is: `A` gives `A A B`, `B` gives `A B B`, `C` gives `A B C`: each name stops at its own
repetition -/
example : tameRun 12 (allEnabled [⟨"A", false, 0, L [.id "A", .ws, .id "B"]⟩, ⟨"B", false, 0, L [.id "A", .ws, .id "C"]⟩,
      ⟨"C", false, 0, L [.id "B"]⟩]) (L [.id "A", .ws, .id "B", .ws, .id "C"]) =
    some (L [.id "A", .ws, .id "A", .ws, .id "B", .ws, .id "A", .ws, .id "B", .ws, .id "B", .ws, .id "A", .ws, .id "B",
      .ws, .id "C"]) := by decide

/-- non-vacuity of `expand_refines_spec_decided`: `#define F(X,Y) X + Y`, `#define G(X) F(X, (X,2)) G(X)`; text
`G ( F(1,3) ) ;` -- a nested invocation inside an argument, an argument with a parenthesised comma, a blank before
the `(`, a self-reference -/
example : tameRun 20 (allEnabled [⟨"F", true, 2, L [.arg 0, .ws, .punct "+", .ws, .arg 1]⟩,
      ⟨"G", true, 1, L [.id "F", .lparen, .arg 0, .comma, .ws, .lparen, .arg 0, .comma, .int "2", .rparen, .rparen,
        .ws, .id "G", .lparen, .arg 0, .rparen]⟩])
      (L [.id "G", .ws, .lparen, .ws, .id "F", .lparen, .int "1", .comma, .int "3", .rparen, .ws, .rparen, .ws, .punct ";"]) =
    some (L [.int "1", .ws, .punct "+", .ws, .int "3", .ws, .punct "+", .ws, .lparen, .int "1", .ws, .punct "+", .ws,
      .int "3", .comma, .int "2", .rparen, .ws, .id "G", .lparen, .int "1", .ws, .punct "+", .ws, .int "3", .rparen,
      .ws, .punct ";"]) := by decide
end Examples


/-- **trailing_function_name_is_invoked.** An invocation that is completed by the text *after* an expansion
(`early_function_pos` / `last_macro_function_index`).  After an invocation was replaced by its expansion
`R0 ++ g :: blanks` (`P`: the tokens before it; `next_pos` behind the expansion, `early_function_pos` at its start,
`lastFn`: the macro just applied if it is function-like): if `g` is the name of an enabled function-like macro other
than the one just applied, only white space (blanks, comments, line ends) follows it inside the expansion -- e.g. what
is left of an empty argument or of a macro with an empty replacement list -- and the next token of the text behind the
expansion that is not white space is `(` (`startsParen`: since fix f08088c line ends are skipped here too), then `find_single_macro` reports an invocation of that macro at the position of `g`; whatever
precedes `g` in the expansion cannot be invoked (its `(` would lie inside the expansion).  The loop then reads the
arguments from the text behind the expansion (`applyLoop_user_step`).
Whether C does the same depends on the hide set of `g` and on what followed `g` when C looked at it:
`differs_painted_function_name_reinvoked`, `differs_function_name_before_vanished_macro` (Thm/C12Boundary.lean) are
inputs where it does not, `agrees_on_invocation_completed_after_expansion` inputs where it does. -/
theorem trailing_function_name_is_invoked (env : List Entry) (P R0 blanks rest : List PTok) (g : String) (b : Bool)
    (mj : Nat) (e : Entry) (lastFn : Option Nat)
    (hsel : Selects env g mj e) (hfn : e.m.isFunction = true) (hlast : lastFn ≠ some mj)
    (hnc : NoConcat R0) (hblank : ∀ t ∈ blanks, t.tok.isWhitespace = true)
    (hparen : startsParen rest = true) :
    findSingle (P ++ (R0 ++ ⟨.id g, b⟩ :: blanks) ++ rest)
      ⟨P.length + (R0 ++ ⟨.id g, b⟩ :: blanks).length, P.length, lastFn⟩ env =
      .ok (.user mj (P.length + R0.length)) :=
  early_scan_finds_trailing_name env P R0 blanks rest g b mj e lastFn hsel hfn hlast hnc hblank
    (trimStartAll_of_startsParen rest hparen)



theorem scanArgs_error (ts cur : List PTok) (args : List (List PTok)) (d : Nat) (e : Err)
    (h : scanArgs ts cur args d = .error e) : e = .macroArgumentsNeverEnd := by
  induction ts generalizing cur args d with
  | nil => simp only [scanArgs, Except.error.injEq] at h; exact h.symm
  | cons t ts ih =>
    unfold scanArgs at h
    split at h
    · split at h <;> exact ih _ _ _ h
    · exact ih _ _ _ h
    · split at h
      · cases h
      · exact ih _ _ _ h
    · exact ih _ _ _ h

/-- **invocation_may_continue_on_next_line** (fix f08088c; the positive form of the former deviation
`line-end-before-parenthesis`).  Both places that look for the `(` of a function-like macro invocation read it the way
C does -- "the next token that is not white space is `(`", where white space is blanks, comments *and line ends*
(`startsParen`, the reference's reading): `find_single_macro` finds an `activate_pos` behind the name at `i` exactly
then, and `split_macro_args` answers `MacroRequiresArguments` exactly when it is not so.  For every token list. -/
theorem invocation_may_continue_on_next_line (toks : List PTok) (i : Nat) (name : String) :
    (parenAfter toks i).isSome = startsParen (toks.drop (i + 1)) ∧
    (splitArgs name (toks.drop (i + 1)) = .error (.macroRequiresArguments name) ↔
      startsParen (toks.drop (i + 1)) = false) := by
  refine ⟨parenAfter_iff_startsParen toks i, ?_⟩
  constructor
  · intro h
    cases hsp : startsParen (toks.drop (i + 1)) with
    | false => rfl
    | true =>
      obtain ⟨b, tail, ht⟩ := trimStartAll_of_startsParen _ hsp
      unfold splitArgs at h
      rw [ht] at h
      have := scanArgs_error _ _ _ _ _ h
      cases this
  · intro h
    unfold splitArgs
    split
    · rename_i b tail ht
      have := startsParen_of_trimStartAll _ _ _ ht
      rw [h] at this; cases this
    · rfl

/-- non-vacuity: `F` blank, line end, line end, `(` -/
example : (parenAfter [⟨.id "F", true⟩, ⟨.ws, true⟩, ⟨.endline, true⟩, ⟨.endline, true⟩, ⟨.lparen, true⟩,
    ⟨.int "1", true⟩, ⟨.rparen, true⟩] 0) = some 4 := by decide

/-- **parse_yields_wellformed_macro.** The hypothesis `WFMacro` of the refinement theorems is what `Macro::parse`
guarantees: for a `#define` (or API define) whose tokens are as the lexer produces them (no `MacroArg`, no `Concat`;
no identifier spelled `$…`, the reference's name of a parameter) and contain no `##`, the parsed macro is well formed:
parameter indices are in range and occur only in function-like macros, `##` would have become `Concat`. -/
theorem parse_yields_wellformed_macro (cmd : List PTok) (m : Macro) (h : parseDefine cmd = .ok m)
    (hlex : RsslVerif.Lemmas.MacroParseWF.LexerTokens cmd) (hnohash : ∀ t ∈ cmd, t.tok ≠ .hashhash) : WFMacro m :=
  RsslVerif.Lemmas.MacroParseWF.parseDefine_wf cmd m h hlex hnohash

/-! ## `##` -/

/-- **paste_is_single_token.** `##` pastes its neighbours into one token: in a text whose other tokens start no
operation, the two tokens next to the operator (white space -- blanks, comments, line ends -- on either side of it
aside) are replaced, together with the operator and that white space, by one token, and that token is spelled like
the two operands joined (`spell`: what `unlex` writes).  Which joined spellings are one token is decided by
`pasteTokens`; `paste_matches_lexer` compares that with the lexer. -/
theorem paste_is_single_token (env : List Entry) (before w1 w2 after : List PTok) (lt c rt m : PTok)
    (hc : c.tok = .concat) (hw1 : ∀ t ∈ w1, t.tok.isWhitespace = true) (hw2 : ∀ t ∈ w2, t.tok.isWhitespace = true)
    (hlt : lt.tok.isWhitespace = false) (hrt : rt.tok.isWhitespace = false)
    (hpre : Inert env (before ++ lt :: w1)) (hpaste : pasteTokens lt rt = .ok m)
    (hpost : Inert env (m :: after)) :
    applyLoop env (before ++ lt :: (w1 ++ c :: (w2 ++ rt :: after))) SearchPos.start = .ok (before ++ m :: after) ∧
    spell m.tok = spell lt.tok ++ spell rt.tok :=
  ⟨paste_step env before w1 w2 after lt c rt m hc hw1 hw2 hlt hrt hpre hpaste hpost,
   (pasteTokens_spelling lt rt m hpaste).1⟩

/-- non-vacuity: `P ## 1 ;` (as left by the substitution of `#define CAT(X,Y) X ## Y` in `CAT(P,1);`) gives `P1 ;` -/
example : applyLoop [] ([] ++ ⟨.id "P", true⟩ :: ([⟨.ws, true⟩] ++ ⟨.concat, true⟩ :: ([⟨.ws, true⟩] ++
      ⟨.int "1", true⟩ :: [⟨.punct ";", true⟩]))) SearchPos.start = .ok ([] ++ ⟨.id "P1", true⟩ :: [⟨.punct ";", true⟩]) ∧
    spell (Tok.id "P1") = spell (Tok.id "P") ++ spell (Tok.int "1") := by
  apply paste_is_single_token [] [] _ _ _ ⟨.id "P", true⟩ ⟨.concat, true⟩ ⟨.int "1", true⟩ ⟨.id "P1", true⟩
  · rfl
  · intro t ht; simp at ht; subst ht; rfl
  · intro t ht; simp at ht; subst ht; rfl
  · rfl
  · rfl
  · intro t ht; simp at ht; rcases ht with rfl | rfl <;> simp [InertTok]
  · rfl
  · intro t ht; simp at ht; rcases ht with rfl | rfl <;> simp [InertTok]

/-- **paste_matches_lexer.** `pasteTokens` against the lexer (C10's model `Model.Lexer`, itself tied to lexer.rs):
(1) the model's keyword list is the union of the lexer's keyword table and its reserved words; (2) for an identifier
pasted with an identifier or a number whose joined spelling is identifier-shaped and no keyword, `pasteTokens` yields
the identifier of the joined spelling, and the lexer reads the joined text as exactly that identifier followed by the
line end it appends (the `[token, Endline]` shape `apply_single_macro` accepts) -- for every such pair of spellings;
(3) for the one-character operators of the model, `pasteTokens` merges a pair exactly when the lexer reads the two
characters as one token (all 49 pairs); (4) for a number pasted with a number whose joined spelling is a decimal
number without leading `0` of at most 18 digits, `pasteTokens` yields the integer token of the joined spelling and the
lexer reads the joined text as one integer literal with the value the digits denote (`lex_digits`, using C10's
`digitsWith_closed`).  Outside these shapes (`1 ## x`, octal, 19+ digits, keywords) the model answers `unsupported`. -/
theorem paste_matches_lexer :
    ((∀ s ∈ keywords, s ∈ RsslVerif.Gen.LexTables.keywords.map (·.1) ∨ s ∈ RsslVerif.Gen.LexTables.reservedWords) ∧
      (∀ s ∈ RsslVerif.Gen.LexTables.keywords.map (·.1), s ∈ keywords) ∧
      (∀ s ∈ RsslVerif.Gen.LexTables.reservedWords, s ∈ keywords)) ∧
    (∀ (a b : String) (k : String → Tok), (k = Tok.id ∨ k = Tok.int) →
      IdentText (RsslVerif.Model.Lexer.str (a ++ b)) → keywords.contains (a ++ b) = false →
      pasteTokens ⟨.id a, true⟩ ⟨k b, true⟩ = .ok ⟨.id (a ++ b), true⟩ ∧
      RsslVerif.Model.Lexer.readToEnd (RsslVerif.Model.Lexer.str (a ++ b)) =
        .ok [⟨.id (RsslVerif.Model.Lexer.str (a ++ b)), 0, (RsslVerif.Model.Lexer.str (a ++ b)).length⟩,
             ⟨.simple .Endline, (RsslVerif.Model.Lexer.str (a ++ b)).length,
               (RsslVerif.Model.Lexer.str (a ++ b)).length⟩]) ∧
    (∀ a ∈ modelOperators, ∀ b ∈ modelOperators,
      punctMerges.contains (a, b) = lexesToOneToken (RsslVerif.Model.Lexer.str (a ++ b))) ∧
    (∀ (a b : String),
      NumberText (RsslVerif.Model.Lexer.str (a ++ b)) →
      pasteTokens ⟨.int a, true⟩ ⟨.int b, true⟩ = .ok ⟨.int (a ++ b), true⟩ ∧
      RsslVerif.Model.Lexer.readToEnd (RsslVerif.Model.Lexer.str (a ++ b)) =
        .ok [⟨.litInt (RsslVerif.Spec.Dec2Bin.ofDigits 10
                (RsslVerif.Model.Lexer.digitRun RsslVerif.Model.Lexer.decDigit? (RsslVerif.Model.Lexer.str (a ++ b)))),
              0, (RsslVerif.Model.Lexer.str (a ++ b)).length⟩,
             ⟨.simple .Endline, (RsslVerif.Model.Lexer.str (a ++ b)).length,
               (RsslVerif.Model.Lexer.str (a ++ b)).length⟩]) :=
  ⟨keywords_agree, fun a b k hk hs hkw => paste_identifiers_matches_lexer a b k hk hs hkw,
   paste_operators_match_lexer, fun a b hs => paste_numbers_matches_lexer a b hs⟩


/-- **paste_joins_source_spellings.** `##` of two numbers in any spelling (hex, octal, leading zeros, suffixes), for
all operands: the model joins the two SOURCE SPELLINGS (`Tok.int` carries the spelling, as the real token carries its
span and `unlex` reads the text under it -- pinned by `source_shape`: `concatUsesSourceSpelling`) and the result is
decided by the lexer model of C10 on the joined spelling: (1) the paste succeeds, with the integer token spelled
`a ++ b`, iff the lexer reads `a ++ b` as one integer literal; (2) it is `ConcatFailed` iff the lexer does not read
exactly one token; (3) a successful paste never yields anything but the token spelled `a ++ b`; (4) with an identifier
on the left the result is the identifier spelled `a ++ b` whatever number spelling stands on the right.
Concrete instances that a rendering of the operand's VALUE gets wrong follow as `example`s. -/
theorem paste_joins_source_spellings (a b : String) :
    (pasteTokens ⟨.int a, true⟩ ⟨.int b, true⟩ = .ok ⟨.int (a ++ b), true⟩ ↔
      ∃ t, lexOne (a ++ b) = some t ∧ isIntLiteral t = true) ∧
    (pasteTokens ⟨.int a, true⟩ ⟨.int b, true⟩ = .error .concatFailed ↔ lexOne (a ++ b) = none) ∧
    (∀ m, pasteTokens ⟨.int a, true⟩ ⟨.int b, true⟩ = .ok m → m = ⟨.int (a ++ b), true⟩) ∧
    (keywords.contains (a ++ b) = false → pasteTokens ⟨.id a, true⟩ ⟨.int b, true⟩ = .ok ⟨.id (a ++ b), true⟩) := by
  obtain ⟨h1, h2, h3⟩ := paste_number_spellings_match_lexer a b
  refine ⟨h1, h2, h3, ?_⟩
  intro hk
  have hk' : ¬ (a ++ b) ∈ keywords := by
    intro hm
    have : keywords.contains (a ++ b) = true := by simpa using hm
    rw [hk] at this; cases this
  simp [pasteTokens, hk']

-- non-vacuity, and the instances a value rendering gets wrong: `0x1 ## 0` is `0x10` = 16 (not `10`), `00 ## 7` is
-- `007` = 7, `v ## 0x10` is `v0x10` (not `v16`), `slot_ ## 007` is `slot_007` (not `slot_7`), `1u ## 2` is no token
example : pasteTokens ⟨.int "0x1", true⟩ ⟨.int "0", true⟩ = .ok ⟨.int "0x10", true⟩ ∧
    lexOne "0x10" = some (.litInt 16) :=
  have h : lexOne "0x10" = some (.litInt 16) := by decide +kernel
  ⟨(paste_joins_source_spellings "0x1" "0").1.mpr ⟨_, h, rfl⟩, h⟩
example : pasteTokens ⟨.int "00", true⟩ ⟨.int "7", true⟩ = .ok ⟨.int "007", true⟩ ∧
    lexOne "007" = some (.litInt 7) :=
  have h : lexOne "007" = some (.litInt 7) := by decide +kernel
  ⟨(paste_joins_source_spellings "00" "7").1.mpr ⟨_, h, rfl⟩, h⟩
example : pasteTokens ⟨.int "1", true⟩ ⟨.int "2u", true⟩ = .ok ⟨.int "12u", true⟩ ∧
    lexOne "12u" = some (.litIntU32 12) :=
  have h : lexOne "12u" = some (.litIntU32 12) := by decide +kernel
  ⟨(paste_joins_source_spellings "1" "2u").1.mpr ⟨_, h, rfl⟩, h⟩
example : pasteTokens ⟨.id "v", true⟩ ⟨.int "0x10", true⟩ = .ok ⟨.id "v0x10", true⟩ :=
  (paste_joins_source_spellings "v" "0x10").2.2.2 (by decide +kernel)
example : pasteTokens ⟨.id "slot_", true⟩ ⟨.int "007", true⟩ = .ok ⟨.id "slot_007", true⟩ :=
  (paste_joins_source_spellings "slot_" "007").2.2.2 (by decide +kernel)
example : pasteTokens ⟨.int "1u", true⟩ ⟨.int "2", true⟩ = .error .concatFailed :=
  (paste_joins_source_spellings "1u" "2").2.1.mpr (by decide +kernel)

/-! ## Refinement of the reference on the tame class with `##` -/

theorem relP_plain (defs : List Macro) (toks : List PTok) (hnc : NoConcat toks) :
    RelP (allEnabled defs) (plain (ppTokens toks)) toks := by
  refine ⟨?_, ?_, ?_⟩
  · have : (plain (ppTokens toks)).map (·.tok) = ppTokens toks := by
      simp [plain, List.map_map, Function.comp_def]
    rw [this]
    exact pn_of_noConcat _ toks hnc
  · intro t _ x hx
    obtain ⟨e, he, hd, _⟩ := mem_disabledNames.mp hx
    simp only [allEnabled, List.mem_map] at he
    obtain ⟨m, _, rfl⟩ := he
    cases hd
  · intro t ht n _ _ x hx
    simp only [plain, List.mem_map] at ht
    obtain ⟨k, _, rfl⟩ := ht
    cases hx

/-- **expand_refines_spec_with_paste.** The refinement theorem for macro tables with `##`: whenever a token list
(text: no `Concat` token, the lexer produces `HashHash`) has a tame expansion `out` in the sense of
`Lemmas.MacroTameP.TameP` -- `Tame` plus: a token next to `##` is pasted with its neighbour without either being
expanded, the merged token names no enabled macro and is read again; the arguments of an invocation contain no `##`;
an argument whose parameter stands next to `##` contains no enabled macro name and is not empty -- the model of
`apply_macros` returns `out` and the reference C algorithm returns the same tokens.
rssl pastes while it rescans a replacement list (left to right, interleaved with expansions), C pastes the whole
replacement list inside `subst` before it rescans: the proof goes through the *paste normal form* of the list rssl is
scanning (`PN`: every paste carried out, white space dropped), which is what the reference's list spells (`RelP`),
`doPastes_pn` (the reference's `doPastes` carries out exactly the pastes of the normal form) and `replaceParams_paste`
(raw arguments next to `##`, expanded ones elsewhere).  The side conditions are the ones of `expand_refines_spec` plus
the three above; `differs_empty_argument_next_to_paste` shows the last one necessary. -/
theorem expand_refines_spec_with_paste (defs : List Macro) (toks out : List PTok) (hwf : ∀ m ∈ defs, WFMacroP m)
    (hnc : NoConcat toks) (h : TameP (allEnabled defs) toks out) :
    applyMacros defs toks = .ok out ∧
    ∃ fuel r, expand (defs.map ofMacro) fuel (plain (ppTokens toks)) = .ok r ∧ r.map (·.tok) = ppTokens out := by
  constructor
  · have := tameP_model h toks SearchPos.start 0 rfl (Nat.le_refl _) (Nat.le_refl _) (passes_start _ _)
    simpa [applyMacros, allEnabled] using this
  · have hwf' : ∀ e ∈ allEnabled defs, WFMacroP e.m := by
      intro e he
      simp only [allEnabled, List.mem_map] at he
      obtain ⟨m, hm, rfl⟩ := he
      exact hwf m hm
    obtain ⟨r, hs, hro⟩ := tameP_spec h hwf' (plain (ppTokens toks)) (relP_plain defs toks hnc)
    obtain ⟨f, hf⟩ := sexp_complete hs
    rw [specTable_allEnabled] at hf
    exact ⟨f, r, hf f (Nat.le_refl _), hro.toks⟩

/-- **expand_refines_spec_with_paste_decided.** The class with `##` is decided by `tameRunP`
(`Model/MacroTame.lean`): what it accepts (table with pairwise distinct names) is what rssl and the reference C
algorithm both yield.  The driver classifies every program of the correspondence run with it (`C12.tame`): about half
of the generated programs lie in the class. -/
theorem expand_refines_spec_with_paste_decided (defs : List Macro) (toks out : List PTok) (fuel : Nat)
    (hwf : ∀ m ∈ defs, WFMacroP m) (hnd : (defs.map (·.name)).Nodup) (hnc : NoConcat toks)
    (h : tameRunP fuel (allEnabled defs) toks = some out) :
    applyMacros defs toks = .ok out ∧
    ∃ fuel' r, expand (defs.map ofMacro) fuel' (plain (ppTokens toks)) = .ok r ∧ r.map (·.tok) = ppTokens out :=
  expand_refines_spec_with_paste defs toks out hwf hnc
    (tameRunP_sound fuel _ _ _ (by simpa [entryNames, allEnabled, List.map_map, Function.comp_def] using hnd) h)


/-- **tame_class_is_part_of_class_with_paste.** Every `Tame` derivation over a table whose replacement lists contain
no `##` is a `TameP` derivation: `expand_refines_spec` is the `##`-free special case of
`expand_refines_spec_with_paste`. -/
theorem tame_class_is_part_of_class_with_paste (defs : List Macro) (toks out : List PTok)
    (hb : ∀ m ∈ defs, NoConcat m.body) (h : Tame (allEnabled defs) toks out) : TameP (allEnabled defs) toks out :=
  tame_to_tameP h (by
    intro e he
    simp only [allEnabled, List.mem_map] at he
    obtain ⟨m, hm, rfl⟩ := he
    exact hb m hm)

section ExamplesP
private def LP (ks : List Tok) : List PTok := ks.map (⟨·, true⟩)

/-- non-vacuity: `#define CAT(X,Y) X ## Y`, `#define V(X) CAT(v_, X) + CAT(X, 1)`, `#define ID(X) X`;
text `ID(V(a)) CAT(+, +)`: both operands parameters, a paste inside a nested invocation, an operator paste -/
example : tameRunP 30 (allEnabled [⟨"CAT", true, 2, LP [.arg 0, .ws, .concat, .ws, .arg 1]⟩,
      ⟨"V", true, 1, LP [.id "CAT", .lparen, .id "v_", .comma, .ws, .arg 0, .rparen, .ws, .punct "+", .ws,
        .id "CAT", .lparen, .arg 0, .comma, .ws, .int "1", .rparen]⟩,
      ⟨"ID", true, 1, LP [.arg 0]⟩])
      (LP [.id "ID", .lparen, .id "V", .lparen, .id "a", .rparen, .rparen, .ws, .id "CAT", .lparen, .punct "+", .comma,
        .ws, .punct "+", .rparen]) =
    some (LP [.id "v_a", .ws, .punct "+", .ws, .id "a1", .ws, .punct "++"]) := by decide
end ExamplesP

/-! ## Inclusion -/

/-- **include_is_paste.** If `#include "f"` succeeds (the file loads -- `real`: the real name the include handler
reports for it, which is the file's identity since fix d66a6d7 --, is not marked `#pragma once`, and has no
top-level `#pragma once` line of its own), then replacing the directive by the lines of `f`, placed between two
directives without effect (`#pragma warning`: they stand for the two block boundaries the inclusion creates --
macro invocations do not span the start or the end of an included file), gives exactly the same state: same output
tokens, same macro list, same once-set.  (`pre`, `post`: the lines before and after the directive; nested
includes inside `f` are processed by the same recursive call on both sides.) -/
theorem include_is_paste (h : Handler) (fuel : Nat) (cur f real : String) (lines pre post : List Line)
    (s r : State × List PTok)
    (hload : h f = some (real, lines))
    (hnot : ∀ s' : State × List PTok,
        foldLines (includeFile h (fuel + 1)) cur s pre = .ok s' → s'.1.once.contains real = false)
    (hne : lines ≠ []) (hno : Line.pragmaOnce ∉ lines)
    (hrun : foldLines (includeFile h (fuel + 1)) cur s (pre ++ [.incl f] ++ post) = .ok r) :
    foldLines (includeFile h (fuel + 1)) cur s
      (pre ++ [.pragmaWarning] ++ lines ++ [.pragmaWarning] ++ post) = .ok r := by
  simp only [List.append_assoc] at hrun ⊢
  rw [foldLines_append] at hrun ⊢
  cases hpre : foldLines (includeFile h (fuel + 1)) cur s pre with
  | error e => simp [hpre] at hrun
  | ok s1 =>
    obtain ⟨st1, act1⟩ := s1
    simp only [hpre] at hrun ⊢
    simp only [List.cons_append, List.nil_append, foldLines, stepLine] at hrun ⊢
    cases hfl : flush st1 act1 with
    | error e => simp [hfl] at hrun
    | ok st2 =>
      simp only [hfl] at hrun ⊢
      have honce : st2.once.contains real = false := by
        have := hnot _ hpre
        simpa [flush_once hfl] using this
      simp only [includeFile, hload, honce, Bool.false_eq_true, if_false] at hrun
      have hstart : fileStart lines = [] := by
        cases lines with
        | nil => exact absurd rfl hne
        | cons _ _ => rfl
      simp only [runFile, hstart] at hrun
      rw [foldLines_append]
      cases hin : foldLines (includeFile h fuel) real (st2, []) lines with
      | error e => simp [hin] at hrun
      | ok s3 =>
        obtain ⟨st3, act3⟩ := s3
        simp only [hin] at hrun
        -- the same lines, read as part of the including file and with one more unit of fuel
        have h1 : foldLines (includeFile h (fuel + 1)) cur (st2, []) lines = .ok (st3, act3) := by
          rw [foldLines_cur_irrelevant _ cur real _ _ hno]
          exact foldLines_mono (includeFile_fuel_mono h fuel) real _ lines _ hin
        simp only [h1, foldLines, stepLine]
        cases hfl3 : flush st3 act3 with
        | error e => simp [hfl3] at hrun
        | ok st4 =>
          simp only [hfl3] at hrun ⊢
          exact hrun


/-- **include_of_empty_file.** The case `include_is_paste` leaves out: a file without lines contributes exactly the
line end the lexer adds to an empty file (white space: nothing after `prepare_tokens`), no macro, no once-mark. -/
theorem include_of_empty_file (h : Handler) (fuel : Nat) (f real : String) (st : State)
    (hload : h f = some (real, [])) :
    includeFile h (fuel + 1) f st = .ok { st with out := st.out ++ [eol] } := by
  simp only [includeFile, hload, runFile, fileStart, foldLines, flush, applyMacros_eol, ite_self]

/-- **pragma_once_once.** Once a file with a top-level `#pragma once` line has been processed, it -- the file the
include handler says it really is (`real`, fix d66a6d7: the once-set holds file identities, not include names) -- is in
the once-set, it stays there for the rest of the compilation (the set only grows, through every nested include), and
every later `#include` that reaches this file, *under the same or any other include name `g`*, contributes nothing but
the line end the lexer adds to an empty file: no macro is defined or removed and no other token is emitted.
(The positive form of the former deviation `pragma-once-by-include-name`.) -/
theorem pragma_once_once (h : Handler) (fuel : Nat) (f real : String) (lines : List Line) (st st1 : State)
    (hload : h f = some (real, lines)) (hmem : Line.pragmaOnce ∈ lines) (hfresh : st.once.contains real = false)
    (hrun : includeFile h (fuel + 1) f st = .ok st1) :
    real ∈ st1.once ∧
    (∀ (fuel' : Nat) (g : String) (st2 : State), includeFile h fuel' g st1 = .ok st2 → real ∈ st2.once) ∧
    (∀ (fuel' : Nat) (g : String) (lines' : List Line) (st2 : State), h g = some (real, lines') → real ∈ st2.once →
      includeFile h (fuel' + 1) g st2 = .ok { st2 with out := st2.out ++ [eol] }) := by
  have h1 : real ∈ st1.once := by
    simp only [includeFile, hload, hfresh, Bool.false_eq_true, if_false, runFile] at hrun
    cases hin : foldLines (includeFile h fuel) real (st, fileStart lines) lines with
    | error e => simp [hin] at hrun
    | ok s3 =>
      obtain ⟨st3, act3⟩ := s3
      simp only [hin] at hrun
      have := foldLines_marks (includeFile_onceGrows h fuel) real _ _ lines hmem hin
      simpa [flush_once hrun] using this
  refine ⟨h1, ?_, ?_⟩
  · intro fuel' g st2 hr
    exact includeFile_onceGrows h fuel' g st1 st2 hr real h1
  · intro fuel' g lines' st2 hg hin
    have hc : st2.once.contains real = true := by simpa using hin
    simp only [includeFile, hg, hc, if_true, runFile, fileStart, foldLines, flush, applyMacros_eol]

/-- non-vacuity of the alias case: `h.h` = `#pragma once`, reached as `h.h` and as `dir/../h.h`: processing it under
the first name marks the real file, under the second name it then contributes one line end (before fix d66a6d7 it was
processed again) -/
example :
    let hh : Handler := fun n => if n = "h.h" ∨ n = "dir/../h.h" then some ("h.h", [.pragmaOnce]) else none
    includeFile hh 1 "h.h" ⟨[], [], []⟩ = .ok ⟨[], [], ["h.h"]⟩ ∧
    includeFile hh 1 "dir/../h.h" ⟨[], [], ["h.h"]⟩ = .ok ⟨[], [eol], ["h.h"]⟩ := by
  intro hh
  constructor
  · simp [hh, includeFile, runFile, fileStart, foldLines, stepLine, flush_nil]
  · simp [hh, includeFile, runFile, fileStart, foldLines, flush, applyMacros_eol]

end RsslVerif.Thm.C12

//! Real `rssl_ir` / `rssl_ast` structures → s-expressions (ids resolved through the public registries).
#![allow(dead_code)]
use super::sx::*;
use crate::util::Hist;
use rssl::ir;
use rssl_ast as ast;

pub fn ir_type(m: &ir::Module, id: ir::TypeId) -> Option<T> {
    let id = m.type_registry.remove_modifier(id);
    match m.type_registry.get_type_layer(id) {
        ir::TypeLayer::Void => Some(T::Void),
        ir::TypeLayer::Scalar(st) => match st {
            ir::ScalarType::Bool => Some(T::Bool),
            ir::ScalarType::Int32 => Some(T::Int),
            ir::ScalarType::UInt32 => Some(T::Uint),
            ir::ScalarType::Float32 => Some(T::Float),
            ir::ScalarType::IntLiteral => Some(T::Lit),
            ir::ScalarType::FloatLiteral => Some(T::Flit),
            _ => None,
        },
        _ => None,
    }
}

fn unsup(what: &str) -> Sx {
    node("unsupported", vec![a(what)])
}

pub struct IrConv<'m> {
    pub m: &'m ir::Module,
    pub vars: std::collections::BTreeSet<u32>,
    pub globs: std::collections::BTreeSet<u32>,
}

impl<'m> IrConv<'m> {
    pub fn new(m: &'m ir::Module) -> Self {
        IrConv { m, vars: Default::default(), globs: Default::default() }
    }

    pub fn constant(&self, c: &ir::Constant) -> Sx {
        match c {
            ir::Constant::Bool(b) => node("lit", vec![a("bool"), a(if *b { "1" } else { "0" })]),
            ir::Constant::IntLiteral(v) => node("lit", vec![a("intlit"), a(&v.to_string())]),
            ir::Constant::Int32(v) => node("lit", vec![a("i32"), a(&format!("{:08x}", *v as u32))]),
            ir::Constant::UInt32(v) => node("lit", vec![a("u32"), a(&format!("{:08x}", v))]),
            ir::Constant::Float32(f) => node("lit", vec![a("f32"), a(&format!("{:08x}", f.to_bits()))]),
            ir::Constant::FloatLiteral(f) => node("lit", vec![a("flit"), a(&format!("{:016x}", f.to_bits()))]),
            _ => unsup("Constant"),
        }
    }

    pub fn expr(&mut self, e: &ir::Expression, hist: &mut Hist) -> Sx {
        match e {
            ir::Expression::Literal(c) => {
                hist.add("ir:Literal");
                self.constant(c)
            }
            ir::Expression::Variable(id) => {
                hist.add("ir:Variable");
                self.vars.insert(id.0);
                node("var", vec![a(&id.0.to_string())])
            }
            ir::Expression::Global(id) => {
                hist.add("ir:Global");
                self.globs.insert(id.0);
                node("glob", vec![a(&id.0.to_string())])
            }
            ir::Expression::TernaryConditional(c, t, f) => {
                hist.add("ir:Ternary");
                let v = vec![self.expr(c, hist), self.expr(t, hist), self.expr(f, hist)];
                node("tern", v)
            }
            ir::Expression::Sequence(es) => {
                hist.add("ir:Sequence");
                let v = es.iter().map(|x| self.expr(x, hist)).collect();
                node("seq", v)
            }
            ir::Expression::Cast(ty, inner) => {
                hist.add("ir:Cast");
                match ir_type(self.m, *ty) {
                    Some(t) => {
                        let i = self.expr(inner, hist);
                        node("cast", vec![a(t.name()), i])
                    }
                    None => unsup("CastType"),
                }
            }
            ir::Expression::IntrinsicOp(op, args) => {
                hist.add(&format!("op:{:?}", op));
                let mut v = vec![a(&format!("{:?}", op))];
                for x in args {
                    v.push(self.expr(x, hist));
                }
                node("op", v)
            }
            ir::Expression::Call(id, ir::CallType::FreeFunction, args)
                if self.m.function_registry.get_intrinsic_data(*id).is_some() =>
            {
                // intrinsic function with its resolved signature: (intr Name ret (types...) args...)
                let fr = &self.m.function_registry;
                let intr = fr.get_intrinsic_data(*id).as_ref().unwrap();
                let sig = fr.get_function_signature(*id);
                let name = format!("{:?}", intr);
                if name.contains('(') || name.contains(' ') {
                    return unsup("IntrinsicWithPayload");
                }
                if !is_modelled_intrinsic(&name) {
                    return unsup("IntrinsicNotModelled");
                }
                let ret = match ir_type(self.m, sig.return_type.return_type) {
                    Some(t) => t,
                    None => return unsup("IntrinsicReturnType"),
                };
                let mut tys = Vec::new();
                for p in &sig.param_types {
                    if p.input_modifier != ir::InputModifier::In {
                        return unsup("IntrinsicOutParam");
                    }
                    match ir_type(self.m, p.type_id) {
                        Some(t) => tys.push(a(t.name())),
                        None => return unsup("IntrinsicParamType"),
                    }
                }
                if tys.is_empty() || tys.iter().any(|t| t != &tys[0]) {
                    // e.g. `float min(float, int)`: a mixed signature has no single operand type
                    return unsup("IntrinsicMixedParams");
                }
                // the IR's declared result type must be the one both evaluators (and `Ast.builtinRet` of the Lean model, hypothesis
                // of `Ir.typeOf`) read for the HLSL built-in of that name.  rssl declares `M firstbithigh(M)` / `M firstbitlow(M)`
                // also for int (result int); the evaluators read them as uint for every integer operand (DXC's table), the
                // documentation says "same as the operand".  Which one HLSL means cannot be decided here: outside the modelled
                // subset, counted (reached through `firstbitlow(max(2u, x))`: max / min / clamp have no uint overload in rssl).
                if T::parse(tys[0].atom()).map(|t0| builtin_ret(&name, t0)) != Some(ret) {
                    return unsup("IntrinsicRetReading");
                }
                hist.add(&format!("intr:{}", name));
                let mut v = vec![a(&name), a(ret.name()), l(tys)];
                for x in args {
                    v.push(self.expr(x, hist));
                }
                node("intr", v)
            }
            ir::Expression::Call(id, ir::CallType::FreeFunction, args) => {
                let fr = &self.m.function_registry;
                if fr.get_intrinsic_data(*id).is_some()
                    || fr.get_template_instantiation_data(*id).is_some()
                    || fr.get_function_implementation(*id).is_none()
                {
                    return unsup("CallIntrinsicOrTemplate");
                }
                hist.add("ir:Call");
                let mut v = vec![a(&id.0.to_string())];
                for x in args {
                    v.push(self.expr(x, hist));
                }
                node("call", v)
            }
            other => {
                let d = format!("{:?}", other);
                unsup(d.split('(').next().unwrap_or("Expr"))
            }
        }
    }

    fn vardef(&mut self, d: &ir::VarDef, hist: &mut Hist) -> Sx {
        self.vars.insert(d.id.0);
        let lv = self.m.variable_registry.get_local_variable(d.id);
        if lv.storage_class != ir::LocalStorage::Local || lv.precise {
            return unsup("LocalStorage");
        }
        let mut v = vec![a(&d.id.0.to_string())];
        match &d.init {
            None => {}
            Some(ir::Initializer::Expression(e)) => v.push(self.expr(e, hist)),
            Some(_) => return unsup("AggregateInit"),
        }
        l(v)
    }

    pub fn block(&mut self, b: &ir::ScopeBlock, hist: &mut Hist) -> Sx {
        let v = b.0.iter().map(|s| self.stmt(s, hist)).collect();
        node("b", v)
    }

    pub fn stmt(&mut self, s: &ir::Statement, hist: &mut Hist) -> Sx {
        // statement attributes ([branch], [flatten], [unroll(n)], [loop], [fastopt], [allow_uav_condition]) are hints without
        // meaning: both evaluators and the Lean model see the statement without them; that the exporter keeps them on the
        // same statements in the same order is checked separately (`ir_stmt_attrs` / `ast_stmt_attrs`)
        for at in &s.attributes {
            hist.add(&format!("stmt-attr:{}", ir_attr_name(at)));
        }
        match &s.kind {
            ir::StatementKind::Expression(e) => {
                hist.add("stmt:Expression");
                node("expr", vec![self.expr(e, hist)])
            }
            ir::StatementKind::Var(d) => {
                hist.add("stmt:Var");
                match self.vardef(d, hist) {
                    Sx::L(v) if v.first().map(|x| x.atom()) != Some("unsupported") => node("var", v),
                    other => other,
                }
            }
            ir::StatementKind::Block(b) => {
                hist.add("stmt:Block");
                node("block", vec![self.block(b, hist)])
            }
            ir::StatementKind::If(c, b) => {
                hist.add("stmt:If");
                let v = vec![self.expr(c, hist), self.block(b, hist)];
                node("if", v)
            }
            ir::StatementKind::IfElse(c, t, f) => {
                hist.add("stmt:IfElse");
                let v = vec![self.expr(c, hist), self.block(t, hist), self.block(f, hist)];
                node("ifelse", v)
            }
            ir::StatementKind::For(init, cond, inc, b) => {
                hist.add("stmt:For");
                let i = match init {
                    ir::ForInit::Empty => node("none", vec![]),
                    ir::ForInit::Expression(e) => node("e", vec![self.expr(e, hist)]),
                    ir::ForInit::Definitions(ds) => {
                        let mut v = Vec::new();
                        for d in ds {
                            match self.vardef(d, hist) {
                                Sx::L(items) if items.first().map(|x| x.atom()) != Some("unsupported") => v.push(node("d", items)),
                                other => return other,
                            }
                        }
                        node("defs", v)
                    }
                };
                let c = match cond {
                    None => node("none", vec![]),
                    Some(e) => self.expr(e, hist),
                };
                let n = match inc {
                    None => node("none", vec![]),
                    Some(e) => self.expr(e, hist),
                };
                let body = self.block(b, hist);
                node("for", vec![i, c, n, body])
            }
            ir::StatementKind::While(c, b) => {
                hist.add("stmt:While");
                let v = vec![self.expr(c, hist), self.block(b, hist)];
                node("while", v)
            }
            ir::StatementKind::DoWhile(b, c) => {
                hist.add("stmt:DoWhile");
                let v = vec![self.block(b, hist), self.expr(c, hist)];
                node("dowhile", v)
            }
            ir::StatementKind::Switch(c, b) => {
                hist.add("stmt:Switch");
                let t = match c.get_type(self.m) {
                    Ok(et) => ir_type(self.m, et.0),
                    Err(_) => None,
                };
                match t {
                    // a controlling expression the type checker left as IntLiteral (`switch (1 + 2)`): what its
                    // run-time type is, is not defined by the IR; outside the model
                    Some(T::Lit) | Some(T::Flit) => unsup("SwitchOnLiteral"),
                    Some(t) => {
                        let v = vec![a(t.name()), self.expr(c, hist), self.block(b, hist)];
                        node("switch", v)
                    }
                    None => unsup("SwitchType"),
                }
            }
            ir::StatementKind::CaseLabel(c) => {
                hist.add("stmt:CaseLabel");
                node("case", vec![self.constant(c)])
            }
            ir::StatementKind::DefaultLabel => {
                hist.add("stmt:DefaultLabel");
                node("default", vec![])
            }
            ir::StatementKind::Break => {
                hist.add("stmt:Break");
                node("break", vec![])
            }
            ir::StatementKind::Continue => {
                hist.add("stmt:Continue");
                node("continue", vec![])
            }
            ir::StatementKind::Return(None) => {
                hist.add("stmt:Return");
                node("ret", vec![])
            }
            ir::StatementKind::Return(Some(e)) => {
                hist.add("stmt:Return");
                node("ret", vec![self.expr(e, hist)])
            }
            other => {
                let d = format!("{:?}", other);
                unsup(d.split('(').next().unwrap_or("Stmt"))
            }
        }
    }

    /// `(fn <id> <ret> (params (p id dir ty)...) (b ...))`
    pub fn func(&mut self, id: ir::FunctionId, hist: &mut Hist) -> Option<Sx> {
        let fr = &self.m.function_registry;
        let imp = fr.get_function_implementation(id).as_ref()?;
        let sig = fr.get_function_signature(id);
        let ret = match ir_type(self.m, sig.return_type.return_type) {
            Some(t) => a(t.name()),
            None => unsup("ReturnType"),
        };
        let mut ps = Vec::new();
        for p in &imp.params {
            self.vars.insert(p.id.0);
            let dir = match p.param_type.input_modifier {
                ir::InputModifier::In => "in",
                ir::InputModifier::Out => "out",
                ir::InputModifier::InOut => "inout",
            };
            let t = match ir_type(self.m, p.param_type.type_id) {
                Some(t) if p.default_expr.is_none() && p.semantic.is_none() => a(t.name()),
                _ => unsup("Param"),
            };
            ps.push(node("p", vec![a(&p.id.0.to_string()), a(dir), t]));
        }
        let attrs = if imp.attributes.is_empty() && sig.template_params.is_empty() { vec![] } else { vec![unsup("FunctionAttribute")] };
        let body = self.block(&imp.scope_block, hist);
        let mut items = vec![a(&id.0.to_string()), ret, node("params", ps), body];
        items.extend(attrs);
        Some(node("fn", items))
    }
}

// ------------------------------------------------------------------------------------------------ ast
fn ident(id: &ast::ScopedIdentifier) -> Option<String> {
    if id.identifiers.len() == 1 && id.base == ast::ScopedIdentifierBase::Relative {
        Some(id.identifiers[0].node.clone())
    } else {
        None
    }
}

fn is_builtin_type(s: &str) -> bool {
    for base in ["bool", "int", "uint", "float", "half", "double", "dword"] {
        if let Some(rest) = s.strip_prefix(base) {
            let r: Vec<char> = rest.chars().collect();
            let dim = |c: &char| ('1'..='4').contains(c);
            if r.is_empty() || (r.len() == 1 && dim(&r[0])) || (r.len() == 3 && dim(&r[0]) && r[1] == 'x' && dim(&r[2])) {
                return true;
            }
        }
    }
    s == "void"
}

/// scalar type name of an `ast::Type` plus its modifiers (in/out/inout/static/const)
pub fn ast_type(t: &ast::Type) -> Option<(String, Vec<ast::TypeModifier>)> {
    if !t.layout.1.is_empty() {
        return None;
    }
    let n = ident(&t.layout.0)?;
    Some((n, t.modifiers.modifiers.iter().map(|m| m.node).collect()))
}

pub fn ast_expr(e: &ast::Expression) -> Sx {
    match e {
        ast::Expression::Literal(lit) => match lit {
            ast::Literal::Bool(b) => node("lit", vec![a("bool"), a(if *b { "1" } else { "0" })]),
            ast::Literal::IntUntyped(n) => node("lit", vec![a("int"), a(&n.to_string())]),
            ast::Literal::IntUnsigned32(n) => node("lit", vec![a("uint"), a(&n.to_string())]),
            ast::Literal::Float32(f) => node("lit", vec![a("f32"), a(&format!("{:08x}", f.to_bits()))]),
            ast::Literal::FloatUntyped(f) => node("lit", vec![a("flt"), a(&format!("{:016x}", f.to_bits()))]),
            _ => unsup("Literal"),
        },
        ast::Expression::Identifier(id) => match ident(id) {
            Some(n) => node("id", vec![a(&n)]),
            None => unsup("ScopedIdentifier"),
        },
        ast::Expression::UnaryOperation(op, x) => node("un", vec![a(&format!("{:?}", op)), ast_expr(&x.node)]),
        ast::Expression::BinaryOperation(op, x, y) => {
            node("bin", vec![a(&format!("{:?}", op)), ast_expr(&x.node), ast_expr(&y.node)])
        }
        ast::Expression::TernaryConditional(c, t, f) => {
            node("tern", vec![ast_expr(&c.node), ast_expr(&t.node), ast_expr(&f.node)])
        }
        ast::Expression::Cast(ty, x) => {
            if ty.abstract_declarator != ast::Declarator::Empty {
                return unsup("CastDeclarator");
            }
            match ast_type(&ty.base) {
                Some((n, mods)) if mods.is_empty() => node("cast", vec![a(&n), ast_expr(&x.node)]),
                _ => unsup("CastType"),
            }
        }
        ast::Expression::Call(f, targs, args) => {
            if !targs.is_empty() {
                return unsup("TemplateArgs");
            }
            match &f.node {
                ast::Expression::Identifier(id) => match ident(id) {
                    Some(n) => {
                        let mut v = vec![a(&n)];
                        v.extend(args.iter().map(|x| ast_expr(&x.node)));
                        node("call", v)
                    }
                    None => unsup("CallTarget"),
                },
                _ => unsup("CallTarget"),
            }
        }
        ast::Expression::AmbiguousParseBranch(branches) => {
            // as the type checker does: the first branch (but the last) whose expected names are all types, else the
            // last one; the programs of this subset declare no types, so only built-in names are types
            let (last, main) = match branches.split_last() {
                Some(x) => x,
                None => return unsup("AmbiguousParseBranch"),
            };
            for b in main {
                if b.expected_type_names.iter().all(|n| ident(n).map(|s| is_builtin_type(&s)).unwrap_or(false)) {
                    return ast_expr(&b.expr.node);
                }
            }
            ast_expr(&last.expr.node)
        }
        _ => unsup("Expression"),
    }
}

fn declarator_name(d: &ast::Declarator) -> Option<String> {
    match d {
        ast::Declarator::Identifier(id, attrs) if attrs.is_empty() => ident(id),
        _ => None,
    }
}

/// `(<type> (d name init?)...)` items of a VarDef
fn ast_vardef(d: &ast::VarDef) -> Option<Vec<Sx>> {
    let (tn, mods) = ast_type(&d.local_type)?;
    if !mods.is_empty() {
        return None;
    }
    let mut v = vec![a(&tn)];
    for def in &d.defs {
        let name = declarator_name(&def.declarator)?;
        if !def.location_annotations.is_empty() {
            return None;
        }
        let mut items = vec![a(&name)];
        match &def.init {
            None => {}
            Some(ast::Initializer::Expression(e)) => items.push(ast_expr(&e.node)),
            Some(_) => return None,
        }
        v.push(node("d", items));
    }
    Some(v)
}

pub fn ir_attr_name(at: &ir::StatementAttribute) -> String {
    match at {
        ir::StatementAttribute::Branch => "branch".into(),
        ir::StatementAttribute::Flatten => "flatten".into(),
        ir::StatementAttribute::Unroll(None) => "unroll".into(),
        ir::StatementAttribute::Unroll(Some(v)) => format!("unroll({})", v),
        ir::StatementAttribute::Loop => "loop".into(),
        ir::StatementAttribute::Fastopt => "fastopt".into(),
        ir::StatementAttribute::AllowUavCondition => "allow_uav_condition".into(),
    }
}

/// attributes of the statements of a block in pre-order, each with the kind of statement it sits on (`IfElse:branch`)
pub fn ir_stmt_attrs(b: &ir::ScopeBlock, out: &mut Vec<String>) {
    for s in &b.0 {
        let d = format!("{:?}", s.kind);
        let kind = d.split(|c: char| !c.is_alphanumeric()).next().unwrap_or("").to_string();
        for at in &s.attributes {
            out.push(format!("{}:{}", kind, ir_attr_name(at)));
        }
        match &s.kind {
            ir::StatementKind::Block(b) | ir::StatementKind::If(_, b) | ir::StatementKind::While(_, b) | ir::StatementKind::DoWhile(b, _) | ir::StatementKind::Switch(_, b) | ir::StatementKind::For(_, _, _, b) => ir_stmt_attrs(b, out),
            ir::StatementKind::IfElse(_, t, f) => {
                ir_stmt_attrs(t, out);
                ir_stmt_attrs(f, out);
            }
            _ => {}
        }
    }
}

pub fn ast_stmt_attrs(s: &ast::Statement, out: &mut Vec<String>) {
    let d = format!("{:?}", s.kind);
    let kind = d.split(|c: char| !c.is_alphanumeric()).next().unwrap_or("").to_string();
    for at in &s.attributes {
        let name = at.name.iter().map(|n| n.node.clone()).collect::<Vec<_>>().join("::");
        let args: Vec<String> = at
            .arguments
            .iter()
            .map(|e| match &e.node {
                ast::Expression::Literal(ast::Literal::IntUntyped(v)) => v.to_string(),
                _ => "?".to_string(),
            })
            .collect();
        out.push(if args.is_empty() { format!("{}:{}", kind, name) } else { format!("{}:{}({})", kind, name, args.join(",")) });
    }
    match &s.kind {
        ast::StatementKind::Block(b) => b.iter().for_each(|x| ast_stmt_attrs(x, out)),
        ast::StatementKind::If(_, b) | ast::StatementKind::While(_, b) | ast::StatementKind::DoWhile(b, _) | ast::StatementKind::Switch(_, b) | ast::StatementKind::For(_, _, _, b) => ast_stmt_attrs_body(b, out),
        ast::StatementKind::IfElse(_, t, f) => {
            ast_stmt_attrs_body(t, out);
            ast_stmt_attrs_body(f, out);
        }
        ast::StatementKind::CaseLabel(_, st) | ast::StatementKind::DefaultLabel(st) => ast_stmt_attrs(st, out),
        _ => {}
    }
}

/// the body of a control statement: the exporter wraps the IR's scope block into an (attribute-free) Block statement
fn ast_stmt_attrs_body(s: &ast::Statement, out: &mut Vec<String>) {
    match &s.kind {
        ast::StatementKind::Block(b) if s.attributes.is_empty() => b.iter().for_each(|x| ast_stmt_attrs(x, out)),
        _ => ast_stmt_attrs(s, out),
    }
}

pub fn ast_stmt(s: &ast::Statement) -> Sx {
    // attributes: see IrConv::stmt
    match &s.kind {
        ast::StatementKind::Expression(e) => node("expr", vec![ast_expr(e)]),
        ast::StatementKind::AmbiguousDeclarationOrExpression(_, e) => node("expr", vec![ast_expr(e)]),
        ast::StatementKind::Var(d) => match ast_vardef(d) {
            // one statement per VarDef: (var type (d name init?)...)
            Some(v) => node("var", v),
            None => unsup("VarDef"),
        },
        ast::StatementKind::Block(b) => node("block", b.iter().map(ast_stmt).collect()),
        ast::StatementKind::If(c, b) => node("if", vec![ast_expr(&c.node), ast_stmt(b)]),
        ast::StatementKind::IfElse(c, t, f) => node("ifelse", vec![ast_expr(&c.node), ast_stmt(t), ast_stmt(f)]),
        ast::StatementKind::For(init, cond, inc, b) => {
            let i = match init {
                ast::InitStatement::Empty => node("none", vec![]),
                ast::InitStatement::Expression(e) => node("e", vec![ast_expr(&e.node)]),
                ast::InitStatement::Declaration(d) => match ast_vardef(d) {
                    Some(v) => node("decl", v),
                    None => unsup("VarDef"),
                },
            };
            let c = match cond {
                None => node("none", vec![]),
                Some(e) => ast_expr(&e.node),
            };
            let n = match inc {
                None => node("none", vec![]),
                Some(e) => ast_expr(&e.node),
            };
            node("for", vec![i, c, n, ast_stmt(b)])
        }
        ast::StatementKind::While(c, b) => node("while", vec![ast_expr(&c.node), ast_stmt(b)]),
        ast::StatementKind::DoWhile(b, c) => node("dowhile", vec![ast_stmt(b), ast_expr(&c.node)]),
        ast::StatementKind::Break => node("break", vec![]),
        ast::StatementKind::Continue => node("continue", vec![]),
        ast::StatementKind::Return(None) => node("ret", vec![]),
        ast::StatementKind::Return(Some(e)) => node("ret", vec![ast_expr(&e.node)]),
        ast::StatementKind::Empty => node("empty", vec![]),
        ast::StatementKind::Switch(c, b) => node("switch", vec![ast_expr(&c.node), ast_stmt(b)]),
        ast::StatementKind::CaseLabel(e, st) => node("case", vec![ast_expr(&e.node), ast_stmt(st)]),
        ast::StatementKind::DefaultLabel(st) => node("default", vec![ast_stmt(st)]),
        _ => unsup("Statement"),
    }
}

/// `(fn name ret (params (p name dir ty)...) (block ...))`
pub fn ast_func(f: &ast::FunctionDefinition) -> Sx {
    let ret = match ast_type(&f.returntype.return_type) {
        Some((n, mods)) if mods.is_empty() => a(&n),
        _ => unsup("ReturnType"),
    };
    let mut ps = Vec::new();
    for p in &f.params {
        let (tn, mods) = match ast_type(&p.param_type) {
            Some(x) => x,
            None => {
                ps.push(unsup("ParamType"));
                continue;
            }
        };
        let mut dir = "in";
        let mut bad = false;
        for m in mods {
            match m {
                ast::TypeModifier::In => dir = "in",
                ast::TypeModifier::Out => dir = "out",
                ast::TypeModifier::InOut => dir = "inout",
                _ => bad = true,
            }
        }
        match declarator_name(&p.declarator) {
            Some(n) if !bad && p.default_expr.is_none() && p.location_annotations.is_empty() => {
                ps.push(node("p", vec![a(&n), a(dir), a(&tn)]))
            }
            _ => ps.push(unsup("Param")),
        }
    }
    let body = match &f.body {
        Some(b) => node("block", b.iter().map(ast_stmt).collect()),
        None => unsup("NoBody"),
    };
    let mut items = vec![a(&f.name.node), ret, node("params", ps), body];
    if !f.attributes.is_empty() || !f.template_params.0.is_empty() {
        items.push(unsup("FunctionAttribute"));
    }
    node("fn", items)
}

/// all functions and static globals of a module: `(fn ...)` and `(global name type const? init?)`
pub fn ast_module(m: &ast::Module) -> Vec<Sx> {
    let mut out = Vec::new();
    for rd in &m.root_definitions {
        match rd {
            ast::RootDefinition::Function(f) => out.push(ast_func(f)),
            ast::RootDefinition::GlobalVariable(g) => match ast_type(&g.global_type) {
                Some((tn, mods)) if g.attributes.is_empty() => {
                    let is_const = mods.contains(&ast::TypeModifier::Const);
                    for def in &g.defs {
                        match declarator_name(&def.declarator) {
                            Some(n) => {
                                let mut items = vec![a(&n), a(&tn), a(if is_const { "const" } else { "mut" })];
                                match &def.init {
                                    None => {}
                                    Some(ast::Initializer::Expression(e)) => items.push(ast_expr(&e.node)),
                                    Some(_) => items.push(unsup("Init")),
                                }
                                out.push(node("global", items));
                            }
                            None => out.push(unsup("GlobalDeclarator")),
                        }
                    }
                }
                _ => out.push(unsup("GlobalType")),
            },
            _ => out.push(unsup("RootDefinition")),
        }
    }
    out
}

#!/usr/bin/env python3
"""Maintenance of known_findings.jsonl: a `known` record must describe a defect that still reproduces on the current tree,
otherwise it would hide the defect's return (a `fixed` record suppresses nothing; a stale `known` record would).

  prune_known.py list    known records whose key was reproduced by neither the committed quick evidence nor the thorough
                         evidence copies under build/logs (run the thorough tier first)
  prune_known.py apply   drop every `known` record listed in notes/known_pruned.jsonl (the reviewed list: each line names the
                         record and the fixing commit / reason); idempotent, run after every merge
"""
import glob, json, os, sys
ROOT = os.path.dirname(os.path.dirname(os.path.abspath(__file__)))
KF = os.path.join(ROOT, "known_findings.jsonl")
PR = os.path.join(ROOT, "notes", "known_pruned.jsonl")

def rows():
    return [json.loads(l) for l in open(KF) if l.strip()]

def find(d):
    if isinstance(d, dict):
        if "known_findings_reproduced" in d:
            return d["known_findings_reproduced"]
        for v in d.values():
            r = find(v)
            if r is not None:
                return r
    return None

def main():
    mode = sys.argv[1] if len(sys.argv) > 1 else "list"
    if mode == "list":
        rep = {}
        for f in glob.glob(os.path.join(ROOT, "evidence", "C*.json")) + glob.glob(os.path.join(ROOT, "build", "logs", "C*.thorough.evidence.json")):
            e = json.load(open(f))
            rep.setdefault(e["property_id"], set()).update(find(e) or [])
        for r in rows():
            if r["kind"] == "known" and r["key"] not in rep.get(r["property"], set()):
                print(json.dumps({"property": r["property"], "key": r["key"], "what": r.get("what", "")[:160]}))
        return 0
    drop = set()
    if os.path.exists(PR):
        for l in open(PR):
            if l.strip():
                d = json.loads(l)
                drop.add((d["property"], d["key"]))
    # a `known` record whose (property, key) also has a `fixed` record is stale by construction (union merges of worker
    # branches can bring such a line back): the defect was repaired, its return has to be reported
    for r in rows():
        if r.get("kind") == "fixed" and r.get("key"):
            drop.add((r["property"], r["key"]))
    kept, n = [], 0
    for l in open(KF):
        if not l.strip():
            continue
        r = json.loads(l)
        if r.get("kind") == "known" and (r["property"], r.get("key")) in drop:
            n += 1
            continue
        kept.append(l if l.endswith("\n") else l + "\n")
    open(KF, "w").writelines(kept)
    print(f"dropped {n} stale known records, {len(kept)} records remain")
    return 0

if __name__ == "__main__":
    sys.exit(main())

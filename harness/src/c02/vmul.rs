//! `mul` and `transpose`: `c01/vconv.rs` (unchanged) serialises a call of a built-in outside its table as `(unsupported
//! CallIntrinsic)`.  For the Metal property the matrix built-ins matter (orientation), so those nodes are replaced here by
//! `(intr Mul <ret> (<types>) args…)` / `(intr Transpose …)`, the form `c01/virev.rs` already evaluates as an uninterpreted
//! function of the *logical* (row-major) components.  The replacement walks the real IR in exactly the order `VConv` emits
//! its nodes and substitutes the k-th unsupported-intrinsic node; if the two walks disagree on the count nothing is changed.
#![allow(dead_code)]
use super::sx::*;
use super::vconv::*;
use crate::util::Hist;
use rssl::ir;

const PATCHED: [&str; 2] = ["Mul", "Transpose"];

fn is_unsupported_intrinsic(s: &Sx) -> bool {
    s.head() == "unsupported" && s.args().first().map(|x| x.atom()) == Some("CallIntrinsic")
}

struct Walk<'m> {
    m: &'m ir::Module,
    /// per unsupported-intrinsic node in emission order: its replacement, if it is one of the patched built-ins
    found: Vec<Option<Sx>>,
}

impl<'m> Walk<'m> {
    fn expr(&mut self, e: &ir::Expression) {
        match e {
            ir::Expression::TernaryConditional(c, t, f) => {
                self.expr(c);
                self.expr(t);
                self.expr(f);
            }
            ir::Expression::Sequence(es) => es.iter().for_each(|x| self.expr(x)),
            ir::Expression::Cast(_, inner) => self.expr(inner),
            ir::Expression::Swizzle(o, _) | ir::Expression::MatrixSwizzle(o, _) | ir::Expression::StructMember(o, _, _) => self.expr(o),
            ir::Expression::ArraySubscript(o, i) => {
                self.expr(o);
                self.expr(i);
            }
            ir::Expression::Constructor(_, slots) => slots.iter().for_each(|s| self.expr(&s.expr)),
            ir::Expression::IntrinsicOp(_, args) => args.iter().for_each(|x| self.expr(x)),
            ir::Expression::Call(id, ct, args) => {
                let fr = &self.m.function_registry;
                if let Some(intr) = fr.get_intrinsic_data(*id) {
                    let name = format!("{:?}", intr);
                    let unsupported = *ct != ir::CallType::FreeFunction || name.contains('(') || name.contains(' ') || !super::vval::is_vector_builtin(&name);
                    if unsupported {
                        let rep = if PATCHED.contains(&name.as_str()) && *ct == ir::CallType::FreeFunction { self.replacement(&name, *id, args) } else { None };
                        self.found.push(rep);
                        return;
                    }
                    let sig = fr.get_function_signature(*id);
                    if sig.param_types.iter().any(|p| p.input_modifier != ir::InputModifier::In) {
                        // `(unsupported IntrinsicOutParam)`: no children emitted
                        return;
                    }
                    args.iter().for_each(|x| self.expr(x));
                    return;
                }
                if fr.get_function_implementation(*id).is_none() {
                    return;
                }
                args.iter().for_each(|x| self.expr(x));
            }
            _ => {}
        }
    }

    /// `(intr Name ret (types…) args…)` with the arguments converted by `VConv` and patched in turn
    fn replacement(&mut self, name: &str, id: ir::FunctionId, args: &[ir::Expression]) -> Option<Sx> {
        let fr = &self.m.function_registry;
        let sig = fr.get_function_signature(id);
        let ret = ir_vtype(self.m, sig.return_type.return_type);
        let mut tys = Vec::new();
        for p in &sig.param_types {
            if p.input_modifier != ir::InputModifier::In {
                return None;
            }
            tys.push(ir_vtype(self.m, p.type_id));
        }
        let mut v = vec![a(name), ret, l(tys)];
        for x in args {
            let mut sx = VConv::new(self.m).expr(x, &mut Hist::default());
            let mut inner = Walk { m: self.m, found: Vec::new() };
            inner.expr(x);
            if !substitute(&mut sx, &inner.found) {
                return None;
            }
            v.push(sx);
        }
        Some(node("intr", v))
    }

    fn init(&mut self, i: &ir::Initializer) {
        match i {
            ir::Initializer::Expression(e) => self.expr(e),
            ir::Initializer::Aggregate(items) => items.iter().for_each(|x| self.init(x)),
        }
    }

    fn vardef_ok(&self, d: &ir::VarDef) -> bool {
        let lv = self.m.variable_registry.get_local_variable(d.id);
        lv.storage_class == ir::LocalStorage::Local && !lv.precise
    }

    fn block(&mut self, b: &ir::ScopeBlock) {
        b.0.iter().for_each(|s| self.stmt(s));
    }

    fn stmt(&mut self, s: &ir::Statement) {
        if !s.attributes.is_empty() {
            return;
        }
        match &s.kind {
            ir::StatementKind::Expression(e) => self.expr(e),
            ir::StatementKind::Var(d) => {
                if self.vardef_ok(d) {
                    if let Some(i) = &d.init {
                        self.init(i);
                    }
                }
            }
            ir::StatementKind::Block(b) => self.block(b),
            ir::StatementKind::If(c, b) => {
                self.expr(c);
                self.block(b);
            }
            ir::StatementKind::IfElse(c, t, f) => {
                self.expr(c);
                self.block(t);
                self.block(f);
            }
            ir::StatementKind::For(init, cond, inc, b) => {
                match init {
                    ir::ForInit::Empty => {}
                    ir::ForInit::Expression(e) => self.expr(e),
                    ir::ForInit::Definitions(ds) => {
                        // a definition outside the subset replaces the whole statement
                        let before = self.found.len();
                        for d in ds {
                            if !self.vardef_ok(d) {
                                self.found.truncate(before);
                                return;
                            }
                            if let Some(i) = &d.init {
                                self.init(i);
                            }
                        }
                    }
                }
                if let Some(e) = cond {
                    self.expr(e);
                }
                if let Some(e) = inc {
                    self.expr(e);
                }
                self.block(b);
            }
            ir::StatementKind::While(c, b) => {
                self.expr(c);
                self.block(b);
            }
            ir::StatementKind::DoWhile(b, c) => {
                self.block(b);
                self.expr(c);
            }
            ir::StatementKind::Switch(c, b) => {
                let lit = match c.get_type(self.m) {
                    Ok(et) => matches!(ir_vtype(self.m, et.0).atom(), "lit" | "flit"),
                    Err(_) => false,
                };
                if lit {
                    return;
                }
                self.expr(c);
                self.block(b);
            }
            ir::StatementKind::Return(Some(e)) => self.expr(e),
            _ => {}
        }
    }
}

/// replace the unsupported-intrinsic nodes of `sx`, in preorder, by `found`; false if the counts differ
fn substitute(sx: &mut Sx, found: &[Option<Sx>]) -> bool {
    fn go(sx: &mut Sx, found: &[Option<Sx>], k: &mut usize) -> bool {
        if is_unsupported_intrinsic(sx) {
            let i = *k;
            *k += 1;
            return match found.get(i) {
                Some(Some(rep)) => {
                    *sx = rep.clone();
                    true
                }
                Some(None) => true,
                None => false,
            };
        }
        if let Sx::L(items) = sx {
            for it in items.iter_mut() {
                if !go(it, found, k) {
                    return false;
                }
            }
        }
        true
    }
    let mut k = 0;
    let mut copy = sx.clone();
    if go(&mut copy, found, &mut k) && k == found.len() {
        *sx = copy;
        true
    } else {
        false
    }
}

/// patch every `(fn <id> …)` item of the serialised program
pub fn patch_program(m: &ir::Module, prog: &mut [Sx], hist: &mut Hist) {
    for item in prog.iter_mut() {
        if item.head() != "fn" || !item.contains_head("unsupported") {
            continue;
        }
        let id: u32 = match item.args()[0].atom().parse() {
            Ok(i) => i,
            Err(_) => continue,
        };
        let imp = match m.function_registry.get_function_implementation(ir::FunctionId(id)).as_ref() {
            Some(i) => i,
            None => continue,
        };
        let mut w = Walk { m, found: Vec::new() };
        for p in &imp.params {
            if let Some(d) = &p.default_expr {
                w.expr(d);
            }
        }
        w.block(&imp.scope_block);
        let n = w.found.iter().filter(|f| f.is_some()).count();
        if n > 0 && substitute(item, &w.found) {
            hist.add("v:matrix-intrinsic-calls-restored");
        }
    }
}

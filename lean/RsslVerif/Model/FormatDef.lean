import RsslVerif.Model.FormatStmt
/-!
# C09 model, printing half: function and struct definitions

`format_function`, `format_function_param`, `format_location_annotations` (semantics), `format_struct` of
`formatter/src/formatter.rs`.  Line breaks are spaces (see `Model/FormatStmt.lean`).

Not in the tree types (the driver answers `unsupported`): template parameter lists, `const` / `volatile` methods,
register / packoffset annotations and more than one annotation per position, enums, constant buffers, globals,
namespaces.  Struct base types are in the tree type since the formatter prints them (2e907a1).
A semantic is its printed spelling (`SV_Position`, `TEXCOORD0`, …).
-/
namespace RsslVerif.Model.FormatDef
open RsslVerif.Gen.FmtTables RsslVerif.Gen.ParseTables RsslVerif.Gen.SyntaxTables RsslVerif.Model.Format
open RsslVerif.Model.FormatFull RsslVerif.Model.FormatStmt

/-- `ast::FunctionParam` with at most one annotation, a semantic -/
structure Param where
  mods : List TypeMod
  name : String
  targs : TArgs
  decl : Decl
  sem : Option String
  dflt : Option XExpr

/-- `ast::FunctionDefinition` without template parameters -/
structure FnDef where
  attrs : List Attr
  rmods : List TypeMod
  rname : String
  rtargs : TArgs
  name : String
  params : List Param
  sem : Option String
  body : Option Stmts

/-- `ast::StructEntry` -/
inductive Member where
  | var (attrs : List Attr) (v : VarDef)
  | method (f : FnDef)

/-- a base type of a struct: an `ast::Type` (modifiers, name, template arguments) -/
abbrev BaseTy := List TypeMod × String × TArgs

/-- `ast::StructDefinition` without template parameters -/
structure StructDef where
  name : String
  bases : List BaseTy
  members : List Member

/-- `format_location_annotations` on at most one semantic: ` : NAME` -/
def fmtSem : Option String → List Piece
  | none => []
  | some n => [.sp, pp .Colon, .sp, .t (.id n) n]

/-- `format_function_param` -/
def fmtParam (p : Param) : List Piece :=
  let d := fmtDecl p.decl true
  fmtTy p.mods p.name p.targs (startsTok d false) ++ (d ++ (fmtSem p.sem ++
    (match p.dflt with
     | none => []
     | some e => .sp :: pp .Equals :: .sp :: fmtSubX e paramDefaultPrec paramDefaultSide)))

def fmtParams : List Param → List Piece
  | [] => []
  | [p] => fmtParam p
  | p :: q :: r => fmtParam p ++ (comma :: .sp :: fmtParams (q :: r))

/-- `format_function` -/
def fmtFn (f : FnDef) : List Piece :=
  fmtAttrs f.attrs ++ (fmtTy f.rmods f.rname f.rtargs false ++ (.sp :: .t (.id f.name) f.name :: pp .LeftParen ::
    (fmtParams f.params ++ (pp .RightParen :: (fmtSem f.sem ++
      (match f.body with
       | none => [semi]
       | some .nil => [.sp, pp .LeftBrace, pp .RightBrace]
       | some b => .sp :: pp .LeftBrace :: (fmtStmts b ++ [.sp, pp .RightBrace])))))))

def fmtMember : Member → List Piece
  | .var attrs v => .sp :: (fmtAttrs attrs ++ (fmtVarDef v ++ [semi]))
  | .method f => .sp :: .sp :: fmtFn f

def fmtMembers : List Member → List Piece
  | [] => []
  | m :: r => fmtMember m ++ fmtMembers r

/-- the base types after ` : `: `A, B` (a closing `>` of the last one is followed by the line break) -/
def fmtBaseList : List BaseTy → List Piece
  | [] => []
  | [b] => fmtTy b.1 b.2.1 b.2.2 false
  | b :: c :: r => fmtTy b.1 b.2.1 b.2.2 true ++ (comma :: .sp :: fmtBaseList (c :: r))

/-- ` : A, B` between the name and the opening brace (2e907a1; nothing when there are no base types, and nothing at all
when the formatter does not print them: `structPrintsBaseTypes`) -/
def fmtBases (bs : List BaseTy) : List Piece :=
  if structPrintsBaseTypes && !bs.isEmpty then .sp :: pp .Colon :: .sp :: fmtBaseList bs else []

/-- `format_struct` -/
def fmtStruct (s : StructDef) : List Piece :=
  kw .Struct "struct" :: .sp :: .t (.id s.name) s.name :: (fmtBases s.bases ++ (.sp :: pp .LeftBrace ::
    (fmtMembers s.members ++ [.sp, pp .RightBrace, semi])))

end RsslVerif.Model.FormatDef

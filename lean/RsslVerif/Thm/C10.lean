import RsslVerif.Lemmas.LexerStream
/-!
# C10 — lexing is lossless and numeric literals are exact

Statements are about the executable model `Model/Lexer.lean` of `preprocess/src/lexer.rs` (tied to the
source by `Gen.LexTables` and the correspondence run) and the exact rounding reference `Spec/Dec2Bin.lean`.
All quantifiers are unbounded: every byte string, every flag combination.
-/
namespace RsslVerif.Thm.C10
open RsslVerif.Model.Lexer RsslVerif.Spec.Lexer RsslVerif.Gen.LexTables

/-! ## Part 1 — the token spans tile the file -/

/-- **Progress**: every token `token_intermediate` produces consumes at least one byte and leaves a suffix
of its input (the `debug_assert!(self.current_offset < next_location)` of `TokenStream::next` can never
fire; lexing cannot loop). -/
theorem token_progress {inp rest : Bytes} {inc : Bool} {tok : Token}
    (h : tokenIntermediate inp inc = .ok (rest, tok)) : ∃ pre, pre ≠ [] ∧ inp = pre ++ rest := by
  have hg := tokenIntermediate_good inp inc
  have hs := tokenIntermediate_strict inp inc
  rw [h] at hg hs
  obtain ⟨pre, hp⟩ := hg
  refine ⟨pre, ?_, hp.symm⟩
  intro hnil
  subst hnil
  simp only [Strict] at hs
  simp at hp
  subst hp
  omega

/-- A lexing error of `token_intermediate` points into its input (or is the `&[]` of `end_of_stream()`). -/
theorem token_error_in_input {inp r : Bytes} {inc : Bool} {k : Reason}
    (h : tokenIntermediate inp inc = .error (.lex (.rest r) k)) : r <:+ inp := by
  have hg := tokenIntermediate_good inp inc
  rw [h] at hg
  exact hg

/-- None of the `debug_assert_eq!(input.len(), rest.len())` sites of `choose` / `token_intermediate` is
reachable. -/
theorem token_no_panic (inp : Bytes) (inc : Bool) (site : String) :
    tokenIntermediate inp inc ≠ .error (.panic site) := by
  intro h
  have hg := tokenIntermediate_good inp inc
  rw [h] at hg
  exact hg

theorem readAll_post (s : Bytes) (trailing debug inc : Bool) :
    LoopPost s debug 0 (readAll s trailing debug inc) :=
  readLoop_spec inc (s.length + 2) (Stream.new s trailing debug) [] 0 (Nat.zero_le _) rfl
    (fun _ h => absurd h (List.not_mem_nil))

/-- **spans_tile**: the tokens of a successful `read_to_end` partition `[0, |s|)` — contiguous, in order,
covering every byte; the only empty token is the synthetic `Endline` at the very end. -/
theorem spans_tile {s : Bytes} {trailing debug : Bool} {ts : List PTok}
    (h : readToEnd s trailing debug = .ok ts) : Tiles s ts := by
  unfold readToEnd at h
  have hp := readAll_post s trailing debug false
  split at h
  · rename_i ts' hr
    simp at h; subst h
    rw [hr] at hp
    exact ⟨hp.2, hp.1⟩
  · cases h

/-- **Losslessness**: concatenating the slices of the file named by the token spans reproduces the file. -/
theorem reemit_reproduces_input {s : Bytes} {trailing debug : Bool} {ts : List PTok}
    (h : readToEnd s trailing debug = .ok ts) : reemit s ts = s := by
  have := reemit_chain s (spans_tile h).chain (Nat.le_refl _)
  simpa using this

/-- **error_pos_in_range**: every diagnostic of the lexer is positioned inside the file
(`0 ≤ offset ≤ |s|`; `|s|` is the end-of-file slot every file owns in `SourceManager`). -/
theorem error_pos_in_range {s : Bytes} {trailing debug : Bool} {k : Reason} {off : Nat}
    (h : readToEnd s trailing debug = .error (.lexer k off)) : off ≤ s.length := by
  unfold readToEnd at h
  have hp := readAll_post s trailing debug false
  split at h
  · cases h
  · rename_i ts' e hr
    simp at h; subst h
    rw [hr] at hp
    obtain ⟨p, _, _, h3⟩ := hp.2
    exact h3

/-- The tokens read before a diagnostic tile the file up to a point not after the diagnostic. -/
theorem tokens_before_error_tile {s : Bytes} {trailing debug inc : Bool} {k : Reason} {off : Nat}
    (h : (readAll s trailing debug inc).2 = .error (.lexer k off)) :
    ∃ p, Chain 0 (readAll s trailing debug inc).1 p ∧ p ≤ off ∧ off ≤ s.length := by
  have hp := (readAll_post s trailing debug inc).2
  rw [h] at hp
  exact hp

/-- **Termination**: `read_to_end` needs at most `|s| + 2` iterations (the model's fuel never runs out). -/
theorem lexing_terminates (s : Bytes) (trailing debug : Bool) :
    readToEnd s trailing debug ≠ .error .outOfFuel := by
  unfold readToEnd
  have hf := readLoop_fuel false (s.length + 2) (Stream.new s trailing debug) [] (Nat.zero_le _)
    (.inl (by simp [Stream.new]))
  split
  · simp
  · rename_i ts e hr
    unfold readAll at hr
    rw [hr] at hf
    simpa using hf

/-- The only panic `read_to_end` can reach is the pointer-range `debug_assert!` on the `&[]` that
`end_of_stream()` returns, and only in builds with debug assertions. -/
theorem read_panics_only_static_rest {s : Bytes} {trailing debug : Bool} {site : String}
    (h : readToEnd s trailing debug = .error (.panic site)) : site = "static-rest" ∧ debug = true := by
  unfold readToEnd at h
  have hp := readAll_post s trailing debug false
  split at h
  · cases h
  · rename_i ts' e hr
    simp at h; subst h
    rw [hr] at hp
    exact ⟨hp.2.1, hp.2.2.1⟩

/-- Release builds (no debug assertions): lexing never panics. -/
theorem release_build_never_panics (s : Bytes) (trailing : Bool) (site : String) :
    readToEnd s trailing false ≠ .error (.panic site) := by
  intro h
  have := (read_panics_only_static_rest h).2
  cases this

/-- … and the debug-build panic is real: an unterminated block comment (`/*`). Replayed on the real code by
the corpus (`known_findings.jsonl`). -/
theorem debug_build_panics_on_unterminated_comment :
    (match readToEnd [47, 42] true true with | .error (.panic site) => some site | _ => none)
      = some "static-rest" := by decide

/-- non-vacuity of `spans_tile`: `a<b // c⏎` followed by a line splice lexes to seven tokens + synthetic endline -/
example : (readToEnd [97, 60, 98, 32, 47, 47, 99, 10, 92, 10]).toOption.map (·.map fun t => (t.start, t.stop))
    = some [(0, 1), (1, 2), (2, 3), (3, 4), (4, 7), (7, 8), (8, 10), (10, 10)] := by decide

end RsslVerif.Thm.C10

import RsslVerif.Spec.Roundtrip
import RsslVerif.Lemmas.FmtParseTables
import RsslVerif.Lemmas.RoundtripThm
import RsslVerif.Lemmas.RoundtripFull7
import RsslVerif.Lemmas.TArgClosed
import RsslVerif.Lemmas.StmtRT4
import RsslVerif.Lemmas.DefRT2
import RsslVerif.Lemmas.LiteralText
/-!
# C09 — printing a syntax tree and parsing it back are inverse (expression level)

Every statement below is about `Gen.FmtTables` / `Gen.ParseTables`, re-extracted from
`formatter.rs`, `parser/expressions.rs`, `lexer.rs`, `tokens.rs` on every run.
-/
set_option linter.unusedSimpArgs false
namespace RsslVerif.Thm.C09
open RsslVerif.Gen.FmtTables RsslVerif.Gen.ParseTables RsslVerif.Model.Format RsslVerif.Model.Parse
open RsslVerif.Lemmas.FmtParseTables RsslVerif.Lemmas.Roundtrip RsslVerif.Spec.Roundtrip

/-- Spelling ↔ tokens: lexing the characters `format_bin_op` prints (followed by the space the formatter
always prints) with the lexer's own symbol tables gives exactly the token list the model uses. -/
theorem binToks_lexes : ∀ op : BinOp, lexSyms 8 (binSpellChars op ++ [' ']) = some (binToks op) := by
  intro op; cases op <;> decide

/-- Same for `format_unary_op`, whatever non-operator character follows. -/
theorem unTok_lexes : ∀ op : UnOp, lexSyms 8 (unSpellChars op) = some [unTok op] := by
  intro op; cases op <;> decide

/-- **tables_agree** (levels). For every binary operator: the parser loop of the level that corresponds to
its formatter precedence reads the printed tokens as that operator, and no tighter-binding loop takes them.
(`rest` = the operand that follows; `TermOk` = the terminators under which the parser accepts the operator at all.) -/
theorem tables_agree (op : BinOp) (term : Terminator) (rest : List Tok)
    (hr : OperandStart rest) (ht : TermOk op term) :
    parseOpAt (levelOfPrec (binPrec op)) term (binToks op ++ rest) = some (op, rest) ∧
    ∀ k, k < levelOfPrec (binPrec op) → parseOpAt k term (binToks op ++ rest) = none :=
  ⟨parseOpAt_own op term rest hr ht, fun k hk => parseOpAt_lower op term rest k hr hk⟩

/-- **tables_agree** (associativity). The formatter calls a precedence left-to-right exactly when the parser
level is one of the left-associative loops, and right-to-left exactly when it is the assignment level. -/
theorem assoc_agrees : ∀ op : BinOp,
    (assoc (binPrec op) = .LeftToRight ↔ leftAssocLevels.contains (levelOfPrec (binPrec op)) = true) ∧
    (assoc (binPrec op) = .RightToLeft ↔ levelOfPrec (binPrec op) = assignLevel) := by
  intro op; cases op <;> decide

/-- the conditional has the assignment precedence in the formatter and its own, tighter level in the parser -/
theorem ternary_level : precTernaryConditional = 16 ∧ assoc precTernaryConditional = .RightToLeft ∧
    ternaryLevel < assignLevel := by decide

/-- prefix operators: the parser's `unaryop_prefix` reads the printed token as the operator;
postfix operators print the tokens the postfix loop of `expr_p1` tests for. -/
theorem unary_tables_agree : ∀ op : UnOp,
    (isPostfix op = false → prefixOp (unTok op) = some op ∧ unPrec op = 3) ∧
    (isPostfix op = true → unPrec op = 2 ∧
      ((op = .PostfixIncrement ∧ unTok op = .p .PlusPlus) ∨ (op = .PostfixDecrement ∧ unTok op = .p .MinusMinus))) := by
  intro op; cases op <;> decide

/-- **glue_safe** for operator characters, part 1: a prefix operator directly followed by an operand that starts
with another prefix operator. The formatter separates exactly the pairs the lexer would merge into another token. -/
theorem glue_prefix_prefix : ∀ a b : UnOp, isPostfix a = false → isPostfix b = false →
    let glued := lexSyms 8 (unSpellChars a ++ unSpellChars b)
    let spaced := lexSyms 8 (unSpellChars a ++ [' '] ++ unSpellChars b)
    spaced = some [unTok a, unTok b] ∧
    (unSign a ≠ (unSpellChars b).head? → glued = some [unTok a, unTok b]) := by
  intro a b; cases a <;> cases b <;> decide

/-- **glue_safe**, part 2: a postfix operator is followed by a space or one of `) ] , . [ ( ;` or another postfix
operator; none of these merges with `++`/`--`. -/
theorem glue_postfix_next : ∀ a : UnOp, isPostfix a = true → ∀ c ∈ [')', ']', ',', '.', '[', '(', ';', '?'],
    lexSyms 8 (unSpellChars a ++ [c]) = (lexSyms 8 [c]).map (unTok a :: ·) := by
  intro a; cases a <;> decide

/-- the sign rule of the formatter is needed: without the space the text reads as another operator -/
theorem glue_needs_space : lexSyms 8 (unSpellChars .Minus ++ unSpellChars .Minus) = some [.p .MinusMinus] ∧
    lexSyms 8 (unSpellChars .Plus ++ unSpellChars .Plus) = some [.p .PlusPlus] ∧
    lexSyms 8 (unSpellChars .AddressOf ++ unSpellChars .AddressOf) = some [.p .AmpersandAmpersand] := by decide

/-! ## Level consistency: where the formatter omits parentheses, the parser reads that position at a covering level -/

/-- **paren_rule_matches_grammar.** For every child position of unary, binary and conditional nodes: if
`format_subexpression` prints the child without parentheses, the child's production level is at most the level
at which the parser reads that position (the levels of the conditional's operands are the ones extracted from
`ternary_right`: the middle operand is read at the assignment level since f3b64c8).  The children include negative
literals, whose text (`-5l`) is read by the prefix production (`Expr.lvl` = 2): since e7611e2 they have the precedence of a
prefix operation, so they are parenthesised under every postfix construct — with `precNegLiteral = precLiteral` (the
code before the fix) the second conjunct is false. -/
theorem paren_rule_matches_grammar :
    (∀ op (x : Expr), isPostfix op = false → needParen x.prec (unPrec op) prefixOperandSide = false → x.lvl ≤ prefixLevel) ∧
    (∀ op (x : Expr), isPostfix op = true → needParen x.prec (unPrec op) postfixOperandSide = false → x.lvl ≤ postfixLevel) ∧
    (∀ op (x : Expr), needParen x.prec (binPrec op) binLeftSide = false →
      (binLevel op ≠ assignLevel → x.lvl ≤ binLevel op) ∧ (binLevel op = assignLevel → x.lvl ≤ ternaryLevel - 1)) ∧
    (∀ op (x : Expr), needParen x.prec (binPrec op) binRightSide = false →
      (binLevel op ≠ assignLevel → x.lvl ≤ binLevel op - 1) ∧ (binLevel op = assignLevel → x.lvl ≤ assignLevel)) ∧
    (∀ x : Expr, needParen x.prec precTernaryConditional ternCondSide = false → x.lvl ≤ ternaryLevel - 1) ∧
    (∀ x : Expr, needParen x.prec precTernaryConditional ternTrueSide = false → x.lvl ≤ ternMiddleLevel) ∧
    (∀ x : Expr, needParen x.prec precTernaryConditional ternFalseSide = false → falseIsAssignment x = false →
      x.lvl ≤ ternLastLevel) :=
  ⟨pos_prefix, pos_postfix, fun op x h => ⟨fun h14 => ((pos_binL op x h).1 h14).1, (pos_binL op x h).2⟩,
   pos_binR, pos_ternC, pos_ternA, fun x h hf => by
     have := pos_ternB x h
     show x.lvl ≤ 13
     rcases Nat.lt_or_ge x.lvl 14 with h1 | h1
     · omega
     · have := this.2 (by omega); rw [hf] at this; cases this⟩

/-! ## The round trip -/

/-- what may follow a complete expression: nothing, or `)`, `]`, `:`, `;` -/
def Stops (rest : List Tok) : Prop :=
  rest = [] ∨ ∃ t r, rest = t :: r ∧ Closes .Standard t

/-- **roundtrip_expr_partial.** For every tree over literals, identifiers, all 10 unary and all 30 binary operators,
the conditional, member access, array subscript and calls (without template arguments), nested to any depth: the tokens of the printed text, followed by anything that ends an
expression, are read by the parser model at the top level (`expr_p15`, terminator `Standard`) as exactly the tree.

Partial, because `WF` excludes literals that do not print as one token reading back as themselves (negative values,
`-0.0`, NaN, … — `LitOk`, see `literal_roundtrip_partial` / `negative_literals_break`) — for those the full statement is
false on the real code (known findings; what *is* true of negative literals since e7611e2 is
`negative_literal_binds_like_minus`). An integer literal as the object of a member access is covered (`(1).m`, 07e6b1c:
`member_of_int_literal_roundtrips`). Casts, `sizeof`, template
arguments and braced initialisers are not in the model at all (so neither is `expr_p1_call`'s attempt to read
`<…>(` as template arguments, which breaks `a < b > (c)` on the real code — a known finding). -/
theorem roundtrip_expr_partial (e : Expr) (hwf : WF e) (rest : List Tok) (hrest : Stops rest) :
    ReadsBack e rest := by
  have hno : NoLow 15 .Standard rest := by
    rcases hrest with rfl | ⟨t, r, rfl, ht⟩
    · exact noLow_nil _ _
    · exact noLow_closes _ _ _ _ ht
  have hin : Inert 15 .Standard rest := by
    rcases hrest with rfl | ⟨t, r, rfl, ht⟩
    · exact inert_nil _ _
    · exact inert_closes _ _ _ _ ht
  obtain ⟨N, h⟩ := rt e hwf 15 .Standard rest (e, rest) (by decide) (lvl_le e) (Nat.le_refl _) (fun _ => rfl) hno
    (fin_self e e.lvl 15 .Standard rest (lvl_le e) (fun _ => hin))
  exact ⟨N, h N (Nat.le_refl _)⟩

/-- the same at any sub-expression position: printed under `(outer, side)` and read at a level that covers it -/
theorem roundtrip_subexpr_partial (e : Expr) (hwf : WF e) (outer : Nat) (side : Side) (k : Nat) (term : Terminator)
    (rest : List Tok) (hterm : term ≠ .TypeList) (hk : k ≤ 15)
    (hpos : needParen e.prec outer side = false → e.lvl ≤ k ∧ (e.lvl = 15 → term = .Standard))
    (hno : NoLow k term rest) (hin : k ≠ 0 → Inert k term rest) :
    ∃ fuel, parseLvl fuel k term (toks (fmtSub e outer side) ++ rest) = some (e, rest) := by
  obtain ⟨N, h⟩ := rts_self (rt e hwf) outer side k term rest hterm hk hpos hno hin
  exact ⟨N, h N (Nat.le_refl _)⟩

/-- **roundtrip_comma_positions_partial.** Initialiser expressions (d76894a), array sizes (a83e0d0), call arguments and —
since 2a6da39 — attribute arguments, default values of parameters and enum values are
printed at `(17, CommaList)` and read with the `Sequence` terminator (`parse_expression_no_seq`): in front of `,`, `;`,
`]` or `)` the printed tokens read back as the tree — a comma expression there is printed in parentheses. -/
theorem roundtrip_comma_positions_partial (e : Expr) (hwf : WF e) (t : Tok) (rest : List Tok)
    (ht : Closes .Sequence t) :
    (initPrec = 17 ∧ initSide = .CommaList ∧ arraySizePrec = 17 ∧ arraySizeSide = .CommaList ∧
     callArgPrec = 17 ∧ callArgSide = .CommaList ∧ initTerminator = .Sequence ∧ arraySizeTerminator = .Sequence ∧
     callArgTerminator = .Sequence ∧
     RsslVerif.Gen.SyntaxTables.attrArgPrec = 17 ∧ RsslVerif.Gen.SyntaxTables.attrArgSide = .CommaList ∧
     RsslVerif.Gen.SyntaxTables.paramDefaultPrec = 17 ∧ RsslVerif.Gen.SyntaxTables.paramDefaultSide = .CommaList ∧
     RsslVerif.Gen.SyntaxTables.enumValuePrec = 17 ∧ RsslVerif.Gen.SyntaxTables.enumValueSide = .CommaList) ∧
    ∃ fuel, parseLvl fuel 15 .Sequence (toks (fmtSub e 17 .CommaList) ++ t :: rest) = some (e, t :: rest) := by
  refine ⟨by decide, ?_⟩
  apply roundtrip_subexpr_partial e hwf 17 .CommaList 15 .Sequence (t :: rest) (by decide) (Nat.le_refl _)
  · intro hp
    have := pos_arg e hp
    exact ⟨by omega, fun h => by omega⟩
  · exact noLow_closes 15 _ _ _ ht
  · exact fun _ => inert_closes 15 _ _ _ ht

/-! ## Literals -/

/-- **literal_roundtrip_partial** (token level). Every non-negative integer literal of every kind (within the range
the suffix admits) and both booleans
print as one token carrying the same kind and value; so does every non-negative float in the modelled (dyadic) subset.
What is *not* proved here: that the printed digits are the value (Rust `Display`, trusted) and that the lexer reads
digits back exactly (C10 `int_value_exact` / `lex_float_nearest`); `decimal_roundtrip` below is the digit-level core. -/
theorem literal_roundtrip_partial :
    (∀ v, LitOk ⟨.IntUntyped, false, v⟩ = true ∧ (v < 2 ^ 32 → LitOk ⟨.IntUnsigned32, false, v⟩ = true) ∧
          LitOk ⟨.IntUnsigned64, false, v⟩ = true ∧ (v < 2 ^ 63 → LitOk ⟨.IntSigned64, false, v⟩ = true)) ∧
    LitOk ⟨.Bool, false, 0⟩ = true ∧ LitOk ⟨.Bool, false, 1⟩ = true ∧
    (∀ bits q, eighths? 11 52 bits = some q → LitOk ⟨.FloatUntyped, false, bits⟩ = true ∧ LitOk ⟨.Float64, false, bits⟩ = true) ∧
    (∀ bits q, eighths? 8 23 bits = some q → LitOk ⟨.Float32, false, bits⟩ = true ∧ LitOk ⟨.Float16, false, bits⟩ = true) := by
  refine ⟨fun v => ⟨?_, ?_, ?_, ?_⟩, ?_, ?_, fun bits q h => ⟨?_, ?_⟩, fun bits q h => ⟨?_, ?_⟩⟩ <;>
    (try intro hv) <;> simp [LitOk, litPieces, floatPieces, litTooLarge, *] <;> omega

/-- **Negation for negative literals, all of them.** A negative 64-bit integer literal and a float literal with the
sign bit set — negative zero included since 1157dad — print as `-` followed by the non-negative literal: two tokens,
which the parser reads as `UnaryOperation(Minus, …)`. (Real code: known findings.) -/
theorem negative_literals_break :
    (∀ v, v ≠ 0 → (litPieces ⟨.IntSigned64, true, v⟩).map toks = some [.p .Minus, .lit ⟨.IntSigned64, false, v⟩]) ∧
    (∀ bits q, eighths? 8 23 bits = some q →
      (litPieces ⟨.Float32, true, bits⟩).map toks = some [.p .Minus, .lit ⟨.Float32, false, bits⟩] ∧
      (litPieces ⟨.Float16, true, bits⟩).map toks = some [.p .Minus, .lit ⟨.Float16, false, bits⟩]) ∧
    (∀ bits q, eighths? 11 52 bits = some q →
      (litPieces ⟨.FloatUntyped, true, bits⟩).map toks = some [.p .Minus, .lit ⟨.FloatUntyped, false, bits⟩] ∧
      (litPieces ⟨.Float64, true, bits⟩).map toks = some [.p .Minus, .lit ⟨.Float64, false, bits⟩]) ∧
    (litPieces ⟨.Float32, true, 0⟩).map toks = some [.p .Minus, .lit ⟨.Float32, false, 0⟩] ∧
    LitOk ⟨.IntSigned64, true, 5⟩ = false ∧ LitOk ⟨.Float32, true, 0⟩ = false := by
  refine ⟨fun v hv => ?_, fun bits q h => ⟨?_, ?_⟩, fun bits q h => ⟨?_, ?_⟩, ?_, ?_, ?_⟩
  · simp [litPieces, hv, minusPiece]
  · simp [litPieces, floatPieces, h, minusPiece]
  · simp [litPieces, floatPieces, h, minusPiece]
  · simp [litPieces, floatPieces, h, minusPiece]
  · simp [litPieces, floatPieces, h, minusPiece]
  · decide
  · decide
  · decide

/-- **negative_literal_binds_like_minus** (fix e7611e2).  At every position `(outer, side)` a negative literal prints exactly
the tokens of the unary minus applied to the literal of its magnitude: it is parenthesised wherever that prefix operation
is — so the reading differs from the tree in the node kind only (`Literal(-v)` ↦ `Minus(Literal(v))`, the remaining known
finding), never in the grouping (`-5l.m` used to read as `Minus(Member(5l, m))`; `negative_literal_member_groups`). -/
theorem negative_literal_binds_like_minus :
    (∀ v, v ≠ 0 → ∀ outer side, toks (fmtSub (.lit ⟨.IntSigned64, true, v⟩) outer side) =
      toks (fmtSub (.un .Minus (.lit ⟨.IntSigned64, false, v⟩)) outer side)) ∧
    (∀ bits q, eighths? 8 23 bits = some q → ∀ outer side,
      toks (fmtSub (.lit ⟨.Float32, true, bits⟩) outer side) =
        toks (fmtSub (.un .Minus (.lit ⟨.Float32, false, bits⟩)) outer side) ∧
      toks (fmtSub (.lit ⟨.Float16, true, bits⟩) outer side) =
        toks (fmtSub (.un .Minus (.lit ⟨.Float16, false, bits⟩)) outer side)) ∧
    (∀ bits q, eighths? 11 52 bits = some q → ∀ outer side,
      toks (fmtSub (.lit ⟨.FloatUntyped, true, bits⟩) outer side) =
        toks (fmtSub (.un .Minus (.lit ⟨.FloatUntyped, false, bits⟩)) outer side) ∧
      toks (fmtSub (.lit ⟨.Float64, true, bits⟩) outer side) =
        toks (fmtSub (.un .Minus (.lit ⟨.Float64, false, bits⟩)) outer side)) := by
  have key : ∀ (l : Lit) (tok : Piece), litNegative l = true → litNegative { l with neg := false } = false →
      litPieces l = some [minusPiece, tok] → litPieces { l with neg := false } = some [tok] →
      ∀ outer side, toks (fmtSub (.lit l) outer side) = toks (fmtSub (.un .Minus (.lit { l with neg := false })) outer side) := by
    intro l tok hn hp h1 h2 outer side
    have e1 : litPrec l = 3 := by simp [litPrec, hn, precNegLiteral]
    have e2 : litPrec { l with neg := false } = 0 := by simp [litPrec, hp, precLiteral]
    have e3 : needParen 0 3 prefixOperandSide = false := by decide
    simp only [fmtSub, e1, e2, show unPrec .Minus = 3 from rfl, show isPostfix .Minus = false from rfl, if_false,
      Bool.false_eq_true, litPiecesT, h1, h2, Option.getD_some, e3, wrap_false]
    cases needParen 3 outer side <;> simp [wrap, minusPiece, unPiece, unTok, lp, rp, pp] <;> split <;> (cases tok <;> simp [toks])
  refine ⟨fun v hv outer side => ?_, fun bits q h outer side => ⟨?_, ?_⟩, fun bits q h outer side => ⟨?_, ?_⟩⟩
  · exact key ⟨.IntSigned64, true, v⟩ (.t (.lit ⟨.IntSigned64, false, v⟩) (toString v ++ "l"))
      (by simp [litNegative, negLiteralKinds]) (by simp [litNegative])
      (by simp [litPieces, hv]) (by simp [litPieces]) outer side
  · exact key ⟨.Float32, true, bits⟩ (.t (.lit ⟨.Float32, false, bits⟩) (floatText q "f")) (by simp [litNegative, negLiteralKinds]) (by simp [litNegative])
      (by simp [litPieces, floatPieces, h]) (by simp [litPieces, floatPieces, h]) outer side
  · exact key ⟨.Float16, true, bits⟩ (.t (.lit ⟨.Float16, false, bits⟩) (floatText q "h")) (by simp [litNegative, negLiteralKinds]) (by simp [litNegative])
      (by simp [litPieces, floatPieces, h]) (by simp [litPieces, floatPieces, h]) outer side
  · exact key ⟨.FloatUntyped, true, bits⟩ (.t (.lit ⟨.FloatUntyped, false, bits⟩) (floatText q "")) (by simp [litNegative, negLiteralKinds]) (by simp [litNegative])
      (by simp [litPieces, floatPieces, h]) (by simp [litPieces, floatPieces, h]) outer side
  · exact key ⟨.Float64, true, bits⟩ (.t (.lit ⟨.Float64, false, bits⟩) (floatText q "L")) (by simp [litNegative, negLiteralKinds]) (by simp [litNegative])
      (by simp [litPieces, floatPieces, h]) (by simp [litPieces, floatPieces, h]) outer side

/-- `(-5l).m` (was `-5l.m`): the tokens, and what the parser model makes of them — the member access of the negated literal -/
theorem negative_literal_member_groups :
    toks (fmtExpr (.mem (.lit ⟨.IntSigned64, true, 5⟩) "m")) =
      [.p .LeftParen, .p .Minus, .lit ⟨.IntSigned64, false, 5⟩, .p .RightParen, .p .Period, .id "m"] ∧
    parseAll .Standard (toks (fmtExpr (.mem (.lit ⟨.IntSigned64, true, 5⟩) "m"))) =
      some (.mem (.un .Minus (.lit ⟨.IntSigned64, false, 5⟩)) "m", []) ∧
    parseAll .Standard (toks (fmtExpr (.un .PostfixIncrement (.lit ⟨.Float32, true, 0x3fc00000⟩)))) =
      some (.un .PostfixIncrement (.un .Minus (.lit ⟨.Float32, false, 0x3fc00000⟩)), []) := by
  refine ⟨by decide, by rfl, by rfl⟩

/-- **member_of_int_literal_roundtrips** (fix 07e6b1c; was the known finding `1.m`: rejected by the lexer).  An integer
literal that is the object of a member access is printed in parentheses — `(1).m`, so the digits are not followed by the
period — and reads back as the tree, for every value, kind of integer literal and member name. -/
theorem member_of_int_literal_roundtrips (kind : LitKind) (hk : kind = .IntUntyped ∨ kind = .IntUnsigned32 ∨
      kind = .IntUnsigned64 ∨ kind = .IntSigned64) (v : Nat) (hv : LitOk ⟨kind, false, v⟩ = true) (n : String) :
    toks (fmtExpr (.mem (.lit ⟨kind, false, v⟩) n)) =
      [.p .LeftParen, .lit ⟨kind, false, v⟩, .p .RightParen, .p .Period, .id n] ∧
    ReadsBack (.mem (.lit ⟨kind, false, v⟩) n) [] := by
  refine ⟨?_, roundtrip_expr_partial (.mem (.lit ⟨kind, false, v⟩) n) (by simpa [WF] using hv) [] (Or.inl rfl)⟩
  have hp : litPrec ⟨kind, false, v⟩ = 0 := by simp [litPrec, litNegative, precLiteral]
  have hm : memObjParen (.lit ⟨kind, false, v⟩) = true := by
    rcases hk with rfl | rfl | rfl | rfl <;> rfl
  have e1 : needParen precMember topPrec topSide = false := by decide
  have e2 : needParen 0 precMember memObjectSide = false := by decide
  simp only [fmtExpr, fmtSub, hm, hp, e1, e2, wrap_false]
  simp [wrap, lp, rp, pp, litOk_toks _ hv]

/-- digits of `n`, least significant first -/
def decDigits : Nat → Nat → List Nat
  | 0, _ => []
  | f + 1, n => if n < 10 then [n] else n % 10 :: decDigits f (n / 10)

def ofDigits : List Nat → Nat
  | [] => 0
  | d :: r => d + 10 * ofDigits r

/-- **decimal_roundtrip.** Reading back the decimal digits of a number gives the number (any fuel above the value). -/
theorem decimal_roundtrip : ∀ f n, n < f → ofDigits (decDigits f n) = n := by
  intro f
  induction f with
  | zero => intro n h; omega
  | succ f ih =>
    intro n h
    unfold decDigits
    split
    · simp [ofDigits]
    · simp only [ofDigits]
      rw [ih (n / 10) (by omega)]
      omega

/-- non-vacuity: a depth-6 tree (with literal leaves of four kinds: `LitOk` is decided by the kernel) mixing eight levels, both associativities, prefix/postfix signs, conditionals, member, subscript and call -/
def sample : Expr :=
  .bin .Assignment (.id "r")
    (.tern (.bin .LessThan (.bin .Add (.id "a") (.bin .Multiply (.id "b") (.un .Minus (.un .Minus (.id "c"))))) (.id "d"))
      (.bin .Subtract (.id "x") (.bin .Subtract (.sub (.mem (.id "y") "m") (.bin .Sequence (.id "i") (.id "j")))
        (.un .PostfixDecrement (.id "z"))))
      (.bin .Sequence (.bin .BitwiseOrAssignment (.id "p") (.id "q"))
        (.un .LogicalNot (.call (.mem (.id "w") "f") (.cons (.tern (.id "u") (.id "v") (.id "w")) (.cons (.bin .Multiply (.lit ⟨.Float32, false, 0x3fc00000⟩) (.lit ⟨.IntUnsigned64, false, 18446744073709551615⟩))
          (.cons (.bin .Add (.lit ⟨.IntUntyped, false, 3⟩) (.lit ⟨.Float64, false, 0x4000000000000000⟩)) .nil)))))))

theorem sample_wf : WF sample := by
  simp [sample, WF, WFA]
  decide
example : ReadsBack sample [] := roundtrip_expr_partial sample sample_wf [] (Or.inl rfl)

/-- the conditional shape that did not read back before f3b64c8 (`expr_p13` read the middle operand with `expr_p13`) -/
def ternaryMiddleAssignment : Expr :=
  .tern (.id "c") (.bin .Assignment (.id "b") (.id "x")) (.id "a")

/-- `c ? b = x : a` now round-trips: by the theorem, and by evaluating the parser model on the printed tokens -/
example : ReadsBack ternaryMiddleAssignment [] :=
  roundtrip_expr_partial ternaryMiddleAssignment (by simp [ternaryMiddleAssignment, WF]) [] (Or.inl rfl)
example : parseAll .Standard (toks (fmtExpr ternaryMiddleAssignment)) = some (ternaryMiddleAssignment, []) := rfl

/-! # Full expression language: casts, `sizeof`, template arguments, type ids (`Model/FormatFull`, `Model/ParseFull`) -/
section Full
open RsslVerif.Gen.SyntaxTables RsslVerif.Model.FormatFull RsslVerif.Model.ParseFull RsslVerif.Lemmas.RoundtripFull

/-- **source_fingerprints.** The formatter / parser functions whose control flow is hand-modelled for types,
declarators, casts, `sizeof`, template arguments, statements and declarations are, byte for byte (comments and white
space aside), the ones the model was written against.  A changed arm changes a fingerprint and breaks this obligation
until the model has been re-read against the source. -/
theorem source_fingerprints : fingerprints = [
  ("formatter.rs::format_type", "d83e86900d81642d"),
  ("formatter.rs::format_type_id", "896d1c9d5dea3027"),
  ("formatter.rs::format_type_layout", "0191290b4d467359"),
  ("formatter.rs::format_type_modifiers", "fb763be26ee47d64"),
  ("formatter.rs::format_scoped_identifier", "c7e98328ef2f1ab7"),
  ("formatter.rs::format_expression_or_type", "0b8647e423906d6b"),
  ("formatter.rs::format_template_type_args", "22882aaf047c9870"),
  ("formatter.rs::format_declarator", "72519b3dea763ee6"),
  ("formatter.rs::format_init_declarators", "a6aaf2ef67380f1e"),
  ("formatter.rs::format_init_declarator", "2004455c026fd649"),
  ("formatter.rs::format_initializer", "608341352974e4da"),
  ("formatter.rs::format_initializer_inner", "e5d93efad5993464"),
  ("formatter.rs::format_variable_definition", "eba838305e0123ff"),
  ("formatter.rs::format_for_init", "77387f99a2903821"),
  ("formatter.rs::format_statement", "851bce204a360d81"),
  ("formatter.rs::format_attributes", "6b395693600e5105"),
  ("formatter.rs::format_attribute", "7aca6d2c7598a77f"),
  ("formatter.rs::format_function", "43bae6a8d4666ee9"),
  ("formatter.rs::format_function_param", "02ce7de2dbefe139"),
  ("formatter.rs::format_struct", "7b7ccb0705c8f968"),
  ("formatter.rs::format_global_variable", "83c45667ed45906b"),
  ("formatter.rs::format_location_annotations", "73455d720677dbab"),
  ("formatter.rs::format_location_annotation", "34c33f08d32d97b6"),
  ("formatter.rs::format_semantic_annotation", "0400732ec536c60f"),
  ("errors.rs::get_most_relevant_result", "2505c52c638c5746"),
  ("errors.rs::get_result_significance", "e1441eecd0642dfa"),
  ("parser.rs::parse_list_base", "0f78701638d6db4e"),
  ("parser.rs::parse_optional", "b87cda134d4851f0"),
  ("parser.rs::parse_arraydim", "bf8e5b16fd4abc79"),
  ("expressions.rs::expr_leaf", "de7b23154bf0956b"),
  ("expressions.rs::expr_in_paren", "def8686136d1bc43"),
  ("expressions.rs::parse_expression_or_type_with_or_without_symbols", "74b162e773b9e5eb"),
  ("expressions.rs::parse_template_args_req", "44bb80d9de927364"),
  ("expressions.rs::parse_template_args", "1a0bf04454d4d0dc"),
  ("expressions.rs::expr_p1::expr_p1_call", "fa6d20aff622c8c8"),
  ("expressions.rs::expr_p1::expr_p1_member", "d94bc05f5ec4c8c3"),
  ("expressions.rs::expr_p1::expr_p1_right", "c0452b72ee345266"),
  ("expressions.rs::expr_p1::right_side_ops", "67ea0f8a68aeea7c"),
  ("expressions.rs::expr_p2", "c40df69052c6a6b4"),
  ("expressions.rs::parse_binary_operations_st", "ab202dc0478184f5"),
  ("expressions.rs::parse_expression_resolve_symbols", "d100fa08dca97ff6"),
  ("types.rs::parse_type_layout_internal", "b578d754752ce45d"),
  ("types.rs::parse_type_internal", "ca0f75a7106803cc"),
  ("types.rs::parse_type_modifiers_before", "803ee0b44f18e6bc"),
  ("types.rs::parse_type_modifiers_after", "6fe766d05c799df8"),
  ("types.rs::parse_type_id_internal", "2171f0334b7fe597"),
  ("declarations.rs::parse_init_declarators", "7a5389e036f53b50"),
  ("declarations.rs::parse_init_declarator", "e6d1a3233a196abd"),
  ("declarations.rs::parse_declarator_internal", "8315041ced7162f7"),
  ("declarations.rs::parse_location_annotation", "af7b00342f66cc7b"),
  ("declarations.rs::parse_semantic", "bb4dbea2741d1f02"),
  ("statements.rs::parse_initializer", "543427202b5482df"),
  ("statements.rs::parse_vardef", "181bca3d57af5d04"),
  ("statements.rs::parse_init_statement", "7f54757739ac3383"),
  ("statements.rs::parse_attribute_base", "be7cea9025ca37bc"),
  ("statements.rs::parse_statement", "98a553601f5e956c"),
  ("statements.rs::parse_statement_kind", "ed144f8b976aa774"),
  ("statements.rs::statement_block", "93f2fb5777e9a1a0"),
  ("functions.rs::parse_function_param", "664db391b2d86622"),
  ("functions.rs::parse_function_definition", "50a556c10f921203"),
  ("structs.rs::parse_struct_member", "470ca87ddd983dfb"),
  ("structs.rs::parse_struct_entry", "b768e80fbf094306"),
  ("structs.rs::parse_struct_definition", "986a743efdefb80e")] := by decide

/-- the three table checks of one modifier (see `modifier_tables_agree`) -/
def modTableOk (m : TypeMod) : Bool :=
  (match modBeforeStep (modTok m) with | .mod m' => m' == m | _ => false) &&
  (match keywords.find? (fun e => e.1 == modSpell m) with
   | some e => modTok m == .p e.2
   | none => modTok m == .id (modSpell m)) &&
  modAfterKw.all (fun e => e.2 != m || modTok m == .p e.1)

/-- **modifier_tables_agree.** For every type modifier: `parse_type_modifiers_before` reads the token of the printed
spelling (`Debug` of the modifier) as that modifier; the lexer's keyword table maps the spelling to that token (or the
spelling is no keyword and the token is the identifier); `parse_type_modifiers_after` knows the modifier under the
same token. -/
theorem modifier_tables_agree : ∀ m : TypeMod, modTableOk m = true := by
  intro m; cases m <;> decide

/-- what may follow a complete expression (full model): nothing, or `)`, `]`, `:`, `;` -/
def StopsX (rest : List Tok) : Prop :=
  rest = [] ∨ ∃ t r, rest = t :: r ∧
    (t = .p .RightParen ∨ t = .p .RightSquareBracket ∨ t = .p .Colon ∨ t = .p .Semicolon)

/-- **roundtrip_xexpr_partial.** For every tree of the full expression language — the kinds of
`roundtrip_expr_partial` plus casts `(T)e`, `sizeof(T)` / `sizeof(e)`, calls with template arguments, over type ids with
modifiers, template arguments (nested), pointer / reference / array abstract declarators — and every set `W` of type
names: the tokens of the printed text read back, at the top level of the parser model run with exactly the names in `W`
accepted as types in cast / `sizeof` position, as the tree.

Partial: `WF W e` is a decidable, syntactic carve-out.  It excludes, besides the literals of `LitOk`:
* an expression argument of `sizeof` / of a template argument list whose first printed token starts a type (a name — in a
  template argument any name, in `sizeof` a name of `W` — unless it is the whole argument, which is the `both` form the
  parser answers for a lone name).  Which operators the argument contains no longer matters: since e8e0be6 the position is
  printed with `format_subexpression(expr, 7, CommaList)`, so `>`, `>=`, `>>`, `,`, `<` and everything else that binds no
  tighter than the shift operators is in parentheses (read under `Standard`), and what is printed bare exposes none of them
  (`Lemmas.RoundtripFull.gtFree_of_prec`) — `eot_parenthesised_admissible`, `sizeof_shift_roundtrips`,
  `template_arg_shift_roundtrips`, `template_arg_comma_roundtrips` (formerly negation witnesses);
* a *type* in `sizeof` / template-argument position whose first token is not a keyword modifier (there the parser also
  tries to read the text as an expression and the longer reading wins; only a lone name — `both` — and types starting
  with a keyword modifier are proved); types in cast position are not restricted this way;
* parenthesised binary / conditional operands whose text starts like a type (`castDeadB`: first token a name of `W`
  followed by `<`, `*`, `&`, `[`, `const`, `volatile` or `)`, or a modifier word) — a sufficient condition for the cast
  alternative of `expr_p2` to fail, not a necessary one;
* declarators outside what `parse_declarator_internal` reads (`T (*)[n]`, `T*[n]`, qualifiers other than `const` /
  `volatile` after `*`, `&&`);
and the hypothesis `hsafe` excludes a `<` operator followed anywhere later in the stream by `>` directly before `(`
(`less_greater_paren_regroups`: the real code reads `a < a > (…)` as a call with template arguments — not repaired).  `hsafe`
is sufficient, not necessary: it also rules out a `<` operator *inside* a template argument of a call (the list's own `>`
`(` follows), which does read back since the argument is parenthesised (`template_arg_less_roundtrips`, by evaluation).
Also not covered: `BracedInit` (no production reads it) and attributes.  The model takes the cast alternative of
`expr_p2` whenever it succeeds (see `Model/ParseFull.lean`). -/
theorem roundtrip_xexpr_partial (W : List String) (e : XExpr) (hwf : RsslVerif.Lemmas.RoundtripFull.WF W e) (rest : List Tok) (hrest : StopsX rest)
    (hsafe : hasLt e = true → TmplFree (toks (fmtExprX e) ++ rest) = true) :
    ∃ fuel, xparseLvl W fuel 15 .Standard (toks (fmtExprX e) ++ rest) = some (e, rest) := by
  have hcl : rest = [] ∨ ∃ t r, rest = t :: r ∧ RsslVerif.Lemmas.RoundtripFull.Closes .Standard t r := by
    rcases hrest with h | ⟨t, r, h, ht⟩
    · exact Or.inl h
    · refine Or.inr ⟨t, r, h, ?_⟩
      rcases ht with h | h | h | h
      · exact Or.inl h
      · exact Or.inr (Or.inl h)
      · exact Or.inr (Or.inr (Or.inl h))
      · exact Or.inr (Or.inr (Or.inr (Or.inl h)))
  have hno : RsslVerif.Lemmas.RoundtripFull.NoLow W 15 .Standard rest := by
    rcases hcl with rfl | ⟨t, r, rfl, ht⟩
    · exact RsslVerif.Lemmas.RoundtripFull.noLow_nil W _ _
    · exact RsslVerif.Lemmas.RoundtripFull.noLow_closes W _ _ _ _ ht
  have hin : RsslVerif.Lemmas.RoundtripFull.Inert W 15 .Standard rest := by
    rcases hcl with rfl | ⟨t, r, rfl, ht⟩
    · exact RsslVerif.Lemmas.RoundtripFull.inert_nil W _ _
    · exact RsslVerif.Lemmas.RoundtripFull.inert_closes W _ _ _ _ ht
  obtain ⟨N, h⟩ := RsslVerif.Lemmas.RoundtripFull.rt W e hwf 15 .Standard rest (e, rest) (fun h => by cases h)
    (RsslVerif.Lemmas.RoundtripFull.lvl_le e) (Nat.le_refl _) (fun _ => rfl) hno hsafe
    (RsslVerif.Lemmas.RoundtripFull.fin_self W e e.lvl 15 .Standard rest (RsslVerif.Lemmas.RoundtripFull.lvl_le e) (fun _ => hin))
  exact ⟨N, h N (Nat.le_refl _)⟩

/-- **roundtrip_typeid_partial.** A type id with an abstract declarator, printed by `format_type_id` in front of `)`,
`,` or `>`, is read back by `parse_type_id` (with or without a symbol table) as the same type id: modifiers (all 27, in
order), scoped name, template arguments, pointers with `const` / `volatile` qualifiers, references, arrays with and
without size.  (`WFTy`: the name is not one of the identifiers `parse_type_modifiers_before` takes as modifiers; the
template arguments satisfy `WFArg`; the declarator is one the parser has a production for.) -/
theorem roundtrip_typeid_partial (W : List String) (mods : List TypeMod) (n : String) (targs : TArgs) (d : Decl)
    (hwf : WFTy W (.mk mods n targs d)) (habs : d.abstr = true) (sym fol : Bool) (rest : List Tok)
    (hsym : sym = true → W.contains n = true) (hrest : TyRest rest)
    (hsafe : hasLtTy (.mk mods n targs d) = true → TmplFree (toks (fmtTyId (.mk mods n targs d) fol) ++ rest) = true) :
    ∃ fuel, parseTyId W fuel sym (toks (fmtTyId (.mk mods n targs d) fol) ++ rest) = some (.mk mods n targs d, rest) := by
  obtain ⟨N, h⟩ := rtTyp W (.mk mods n targs d) hwf habs sym fol rest hsym hrest hsafe
  exact ⟨N, h N (Nat.le_refl _)⟩

/-! ## Expression-or-type positions after e8e0be6: the former negation witnesses read back -/

/-- **eot_parenthesised_admissible.** Every expression of `WF` that binds no tighter than the shift operators — any
operator among `<< >> < <= > >= == != & ^ | && || ?: = op= ,` at its top — is admissible as the operand of `sizeof` and
as a template argument: it is printed in parentheses, so its first token starts no type.  (Before e8e0be6 `WF` had to
exclude `>`, `>=`, `>>`, `,` and `<` there.) -/
theorem eot_parenthesised_admissible (W : List String) (sym : Bool) (x : XExpr)
    (hw : RsslVerif.Lemmas.RoundtripFull.WF W x) (hp : needParen x.prec eotExprPrec eotExprSide = true) :
    WFArg W sym (.e x) := by
  refine ⟨hw, ?_⟩
  rw [fmtSubX_eq, hp, RsslVerif.Lemmas.RoundtripFull.toks_wrap_true]
  simp [tyHeadDeadB, modBeforeStep, modBeforeKw, modBeforeSkips]

theorem eot_parenthesises_from_shift : eotExprPrec = binPrec .RightShift ∧ eotExprPrec = binPrec .LeftShift ∧
    ∀ op : BinOp, needParen (binPrec op) eotExprPrec eotExprSide = decide (binPrec .RightShift ≤ binPrec op) := by
  refine ⟨by decide, by decide, fun op => ?_⟩
  cases op <;> decide

/-! ## A printed template argument is closed (seeded mutant C09-6)

`Lemmas/TArgClosed.lean`: `scan a p ts` walks a token list with a bracket counter (`p` = open `(` `[` `{`, `a` = open `<`
outside those); it fails on a `>` outside all brackets that closes nothing, on a `,` outside all brackets and on
unbalanced parentheses.  Inside parentheses `<`, `>`, `,` are ordinary operators. -/
open RsslVerif.Lemmas.TArgClosed in
/-- **template_argument_closed.** For every expression-or-type tree (expression of any node kind at any depth — conditionals,
comma, assignments, relational and shift operators, casts, nested template calls, `sizeof` — or a type id with modifiers,
nested template arguments and declarators) the tokens `format_expression_or_type` prints are invisible to the bracket
scanner in **every** state and in front of every continuation: no `>`, `>=`, `>>`, `>>=` and no `,` stands outside
brackets, and every `<` outside parentheses (a nested template argument list) is closed inside the entry.  So the angle
brackets around a template argument list stay matched and the list has as many entries as the tree.  Induction over the
six mutually recursive tree types; the only fact about the code it rests on is the generated pair
`(eotExprPrec, eotExprSide)` through `eot_bare_prec` (what is printed bare there binds tighter than `<<` / `>>`) — a
formatter that prints a conditional or a relational operator bare in that position (seeded mutant C09-6) has no such pair:
the extractor refuses it and this theorem has nothing to stand on; `bare_conditional_not_closed` is the witness. -/
theorem template_argument_closed (a : TArg) (fol : Bool) (na np : Nat) (rest : List Tok) :
    scan na np (toks (fmtEOT a fol) ++ rest) = scan na np rest :=
  pArg a fol na np rest (by simp [Mode.ok])

open RsslVerif.Lemmas.TArgClosed in
/-- the same for a whole printed list `<a, b, c>` (`format_template_type_args` / `format_type_layout`): in every state
the scanner leaves the list as it entered it — the `<` that opens it is closed by the `>` that ends it, whatever the entries -/
theorem template_argument_list_closed (l : TArgs) (fol : Bool) (na np : Nat) (rest : List Tok) :
    scan na np (toks (fmtTArgs l fol) ++ rest) = scan na np rest :=
  pTArgs l fol na np rest (by simp [Mode.ok])

open RsslVerif.Lemmas.TArgClosed in
/-- on its own: the entry scans to "nothing open", and between its angle brackets the closing one matches the opening one -/
theorem template_argument_brackets_match (a : TArg) (fol : Bool) :
    scan 0 0 (toks (fmtEOT a true)) = some 0 ∧
    scan 0 0 (.lt true :: (toks (fmtEOT a true) ++ [.gt fol])) = some 0 := by
  constructor
  · have := template_argument_closed a true 0 0 []
    simpa [scan] using this
  · have := template_argument_closed a true 1 0 [.gt fol]
    simp only [scan, cls, if_true]
    rw [this]
    simp [scan, cls]

/-- **the threshold the code uses is low enough**: at `(eotExprPrec, eotExprSide)` the conditional, the comma, every
assignment, every relational and both shift operators are parenthesised (all the operators whose spelling contains `<`
or `>` or `,`, and all the nodes that print such an operand bare) -/
theorem eot_threshold_closes :
    needParen precTernaryConditional eotExprPrec eotExprSide = true ∧
    (∀ op : BinOp, (binToks op).any (fun t => t.isLt || t.isGt || t == .p .Comma) = true →
      needParen (binPrec op) eotExprPrec eotExprSide = true) ∧
    (∀ op : BinOp, precTernaryConditional ≤ binPrec op → needParen (binPrec op) eotExprPrec eotExprSide = true) := by
  refine ⟨by decide, fun op => ?_, fun op => ?_⟩ <;> cases op <;> decide

/-- `c > 0 ? a : b`, the argument of the seeded mutant's demonstration `g<(c > 0 ? a : b)>(x)` -/
def condGreater : XExpr := .tern (.bin .GreaterThan (.id "c") (.lit ⟨.IntUntyped, false, 0⟩)) (.id "a") (.id "b")

open RsslVerif.Lemmas.TArgClosed in
/-- **bare_conditional_not_closed** (why the threshold matters; what seeded mutant C09-6 prints): the conditional
`c > 0 ? a : b` printed *without* parentheses is not closed — the scanner stops at its `>` — whereas what the model of
the current code prints, `(c > 0 ? a : b)`, is (an instance of `template_argument_closed`, evaluated) -/
theorem bare_conditional_not_closed :
    scan 0 0 (toks (fmtExprX condGreater)) = none ∧
    scan 1 0 (toks (fmtExprX condGreater) ++ [.gt true]) ≠ scan 1 0 [.gt true] ∧
    scan 0 0 (toks (fmtEOT (.e condGreater) true)) = some 0 := by
  refine ⟨by decide, by decide, by decide⟩

/-- non-vacuity: `g<f<a>(x), (b > c ? a : b), vector<float, 4>>` — a nested template call printed bare (its `<` `>` are
brackets of the entry), a parenthesised conditional with `>`, a type with a list of its own -/
def sampleTArgs : TArgs :=
  .cons (.e (.call (.id "f") (.cons (.e (.id "a")) .nil) (.cons (.id "x") .nil)))
    (.cons (.e (.tern (.bin .GreaterThan (.id "b") (.id "c")) (.id "a") (.id "b")))
      (.cons (.t (.mk [] "vector" (.cons (.t (.mk [] "float" .nil .empty)) (.cons (.e (.lit ⟨.IntUntyped, false, 4⟩)) .nil)) .empty))
        .nil))
open RsslVerif.Lemmas.TArgClosed in
example : scan 0 0 (toks (fmtTArgs sampleTArgs true)) = some 0 := by decide
open RsslVerif.Lemmas.TArgClosed in
example : (toks (fmtTArgs sampleTArgs true)).length = 26 := by decide

/-- `sizeof((a >> a))` -/
def sizeofShift : XExpr := .sizeof (.e (.bin .RightShift (.id "a") (.id "a")))
/-- `a<(a >> a)>()` -/
def templateArgShift : XExpr := .call (.id "a") (.cons (.e (.bin .RightShift (.id "a") (.id "a"))) .nil) .nil
/-- `a<(a, b)>()` -/
def templateArgComma : XExpr := .call (.id "a") (.cons (.e (.bin .Sequence (.id "a") (.id "b"))) .nil) .nil
/-- `a<(a < b)>()` -/
def templateArgLess : XExpr := .call (.id "a") (.cons (.e (.bin .LessThan (.id "a") (.id "b"))) .nil) .nil

/-- `sizeof((a >> a))` (was `sizeof(a >> a)`: rejected, the operand is read under `Terminator::TypeList`): the printed
tokens and their reading by the parser model -/
theorem sizeof_shift_roundtrips :
    toks (fmtExprX sizeofShift) = [.p .SizeOf, .p .LeftParen, .p .LeftParen, .id "a", .gt true, .gt false, .id "a",
      .p .RightParen, .p .RightParen] ∧
    xparseAll [] .Standard (toks (fmtExprX sizeofShift)) = some (sizeofShift, []) := by
  refine ⟨by decide, by rfl⟩

/-- `a<(a >> a)>()` (was `a<a >> a>()`: the `>>` closed the list) -/
theorem template_arg_shift_roundtrips :
    xparseAll [] .Standard (toks (fmtExprX templateArgShift)) = some (templateArgShift, []) := by rfl

/-- `a<(a, b)>()` (was `a<a, b>()`: two template arguments) -/
theorem template_arg_comma_roundtrips :
    xparseAll [] .Standard (toks (fmtExprX templateArgComma)) = some (templateArgComma, []) := by rfl

/-- `a<(a < b)>()` (was `a<a < b>()`, read as `a < a<b>()`) — by evaluation only: `hsafe` of the general theorem does not
hold for it (see there) -/
theorem template_arg_less_roundtrips :
    xparseAll [] .Standard (toks (fmtExprX templateArgLess)) = some (templateArgLess, []) := by rfl

/-- the first three are instances of the general theorem (for any set of type names that does not make the parenthesised
text look like a cast: here none) -/
theorem former_witnesses_wf :
    RsslVerif.Lemmas.RoundtripFull.WF [] sizeofShift ∧ RsslVerif.Lemmas.RoundtripFull.WF [] templateArgShift ∧
    RsslVerif.Lemmas.RoundtripFull.WF [] templateArgComma := by
  refine ⟨?_, ?_, ?_⟩ <;>
    simp [sizeofShift, templateArgShift, templateArgComma, RsslVerif.Lemmas.RoundtripFull.WF,
      RsslVerif.Lemmas.RoundtripFull.WFA, WFArg, WFTArgs] <;> decide

example : ∃ fuel, xparseLvl [] fuel 15 .Standard (toks (fmtExprX sizeofShift) ++ []) = some (sizeofShift, []) :=
  roundtrip_xexpr_partial [] _ former_witnesses_wf.1 [] (Or.inl rfl) (fun h => by revert h; decide)
example : ∃ fuel, xparseLvl [] fuel 15 .Standard (toks (fmtExprX templateArgShift) ++ []) = some (templateArgShift, []) :=
  roundtrip_xexpr_partial [] _ former_witnesses_wf.2.1 [] (Or.inl rfl) (fun h => by revert h; decide)
example : ∃ fuel, xparseLvl [] fuel 15 .Standard (toks (fmtExprX templateArgComma) ++ []) = some (templateArgComma, []) :=
  roundtrip_xexpr_partial [] _ former_witnesses_wf.2.2 [] (Or.inl rfl) (fun h => by revert h; decide)

/-! ## Negation witness: the shape outside `hsafe` for which the real code still does not round-trip (known finding) -/

/-- `(a < a) > (a & a)` prints `a < a > (a & a)` and reads back as the call `a<a>(a & a)` -/
theorem less_greater_paren_regroups :
    xparseAll [] .Standard (toks (fmtExprX
      (.bin .GreaterThan (.bin .LessThan (.id "a") (.id "a")) (.bin .BitwiseAnd (.id "a") (.id "a"))))) =
    some (.call (.id "a") (.cons (.both (.id "a") (.mk [] "a" .nil .empty)) .nil)
      (.cons (.bin .BitwiseAnd (.id "a") (.id "a")) .nil), []) := by rfl

/-- non-vacuity: casts over types with modifiers, nested template arguments, pointers and arrays; `sizeof` of a type and
of an expression; a call with template arguments; a parenthesised cast operand; all under operators of several levels -/
def sampleX : XExpr :=
  .bin .Assignment (.id "r")
    (.bin .Add
      (.cast (.mk [.Const] "vector" (.cons (.both (.id "float") (.mk [] "float" .nil .empty))
          (.cons (.e (.lit ⟨.IntUntyped, false, 4⟩)) .nil)) (.ptr [.Const] .empty))
        (.bin .Multiply (.id "x") (.un .Minus (.id "y"))))
      (.bin .Multiply
        (.sizeof (.both (.id "S") (.mk [] "S" .nil .empty)))
        (.bin .Subtract
          (.call (.id "f") (.cons (.t (.mk [.RowMajor] "M" .nil .empty)) (.cons (.e (.lit ⟨.IntUnsigned32, false, 2⟩)) .nil))
            (.cons (.cast (.mk [] "S" .nil (.arr .empty (.id "n"))) (.mem (.id "p") "q")) (.cons (.id "z") .nil)))
          (.sizeof (.e (.sub (.id "v") (.lit ⟨.IntUntyped, false, 0⟩)))))))

theorem sampleX_wf : RsslVerif.Lemmas.RoundtripFull.WF ["vector", "S"] sampleX := by
  simp [sampleX, RsslVerif.Lemmas.RoundtripFull.WF, RsslVerif.Lemmas.RoundtripFull.WFA, WFArg, WFTArgs, WFTy, WFDecl,
    tyName, gtFree, gtFreeSub, hasLt, XExpr.lvl, kwModHead, tyMods, Decl.abstr, Decl.needsScope, Decl.startsBracket]
  decide +kernel

example : ∃ fuel, xparseLvl ["vector", "S"] fuel 15 .Standard (toks (fmtExprX sampleX) ++ []) = some (sampleX, []) :=
  roundtrip_xexpr_partial _ sampleX sampleX_wf [] (Or.inl rfl) (fun h => by revert h; decide)
example : xparseAll ["vector", "S"] .Standard (toks (fmtExprX sampleX)) = some (sampleX, []) := by rfl

end Full

/-! # Statements and local variable definitions (`Model/FormatStmt`, `Model/ParseStmt`) -/
section Statements
open RsslVerif.Gen.SyntaxTables RsslVerif.Model.FormatFull RsslVerif.Model.ParseFull RsslVerif.Model.FormatStmt
open RsslVerif.Model.ParseStmt RsslVerif.Lemmas.RoundtripFull RsslVerif.Lemmas.StmtRT

/-- **roundtrip_stmt_partial.** For every statement tree — empty, expression, local variable definition (shared type
with modifiers and template arguments; several init-declarators with pointer / reference / array declarators and
expression or (nested, possibly empty) aggregate initialisers), block, `if` / `if`-`else`, `for` with optional init
(expression or definition), condition and increment, `while`, `do`-`while`, `switch`, `case` / `default` labels,
`break` / `continue` / `discard` / `return` with and without value — each with attributes (`[a]`, `[[a::b(args)]]`),
nested to any depth, and every set `W` of type names: the printed tokens followed by a non-empty `rest` are read back by
the model of `parse_statement` as the tree (never `panic`, never `fail`), by mutual induction over statements,
statement kinds and statement lists, on top of `roundtrip_xexpr_partial` and the declaration lemmas.

Partial — `WFS` (decidable, syntactic) requires, besides `WF` of every expression:
* **dangling else**: the true-branch of an `if`-`else` does not end in an `if` without `else` (`openIf`), and the
  statement itself, when it ends that way, is not followed by `else` (`dangling_else_regroups`: such a tree prints
  without braces and the `else` re-attaches; neither the parser nor the exporters build one);
* **declaration or expression**: an expression statement (and a `for` init expression) does not read as a declaration
  (`declDeadB`: first token no modifier; a leading name is followed by a token that starts no declarator), a definition
  does not read as an expression statement (`varExprDeadB`: it starts with a keyword modifier or with two names in a
  row — `T x`, not `T* x` / `T<a> x`, which the real parser answers with `AmbiguousDeclarationOrExpression` and the
  type checker resolves; a pointer definition in `for` init reads back as an expression: `for_init_pointer_reads_as_expr`);
* (attribute arguments and initialiser expressions are no longer restricted: a comma expression there is printed in
  parentheses — initialisers since d76894a, attribute arguments since 2a6da39, `attribute_comma_roundtrips`);
* the declarators the parser has productions for (`WFDecl`), no location annotations, no `StaticSampler`.
`hsafe` is the `<` condition of `roundtrip_xexpr_partial` for the whole remaining stream. -/
theorem roundtrip_stmt_partial (W : List String) (s : Stmt) (hwf : WFS W s) (rest : List Tok) (hne : rest ≠ [])
    (hopen : openIf s = true → ∀ r, rest ≠ .p .Else :: r)
    (hsafe : hasLtS s = true → TmplFree (toks (fmtStmt s) ++ rest) = true) :
    ∃ fuel, parseStmt W fuel (toks (fmtStmt s) ++ rest) = .ok s rest := by
  obtain ⟨N, h⟩ := rs W s hwf rest hne hopen hsafe
  exact ⟨N, h N (Nat.le_refl _)⟩

/-- **roundtrip_block_partial.** The statements of a function body / block up to and including the closing brace. -/
theorem roundtrip_block_partial (W : List String) (b : Stmts) (hwf : WFSs W b) (rest : List Tok)
    (hsafe : hasLtSs b = true → TmplFree (toks (fmtStmts b) ++ .p .RightBrace :: rest) = true) :
    ∃ fuel, parseStmts W fuel (toks (fmtStmts b) ++ .p .RightBrace :: rest) = .ok b rest := by
  obtain ⟨N, h⟩ := rss W b hwf rest hsafe
  exact ⟨N, h N (Nat.le_refl _)⟩

/-- **roundtrip_decl_partial.** A variable definition — type (modifiers, name, template arguments) and a non-empty list
of init-declarators (named declarators with pointers + `const`/`volatile` qualifiers, references, arrays with and
without size; no, expression or aggregate initialiser) — printed by `format_variable_definition` in front of `;` is read
back by `parse_vardef` as the same definition. -/
theorem roundtrip_decl_partial (W : List String) (v : VarDef) (hwf : WFVarDef W v) (rest : List Tok)
    (hsafe : hasLtVarDef v = true → TmplFree (toks (fmtVarDef v) ++ .p .Semicolon :: rest) = true) :
    ∃ fuel, parseVarDef W fuel (toks (fmtVarDef v) ++ .p .Semicolon :: rest) = some (v, .p .Semicolon :: rest) := by
  obtain ⟨N, h⟩ := varDef_reads W v hwf (.p .Semicolon :: rest) ⟨rest, rfl⟩ hsafe
  exact ⟨N, h N (Nat.le_refl _)⟩

private def sx (n : String) : Stmt := .mk [] (.expr (.id n))

/-- `IfElse(c, If(d, x;), y;)` prints `if (c) if (d) x; else y;` and reads back as `If(c, IfElse(d, x;, y;))` -/
theorem dangling_else_regroups :
    parseStmtAll [] (toks (fmtStmt (.mk [] (.ifElse (.id "c") (.mk [] (.ifS (.id "d") (sx "x"))) (sx "y")))) ++ [.p .RightBrace]) =
    .ok (.mk [] (.ifS (.id "c") (.mk [] (.ifElse (.id "d") (sx "x") (sx "y"))))) [.p .RightBrace] := by rfl

/-- `[unroll((a, b))] ;` -/
def attrCommaStmt : Stmt := .mk [⟨"unroll", .cons (.bin .Sequence (.id "a") (.id "b")) .nil, false⟩] .empty

/-- `[unroll((a, b))] ;` (was printed `[unroll(a, b)] ;` and read back with two arguments; 2a6da39): the printed tokens
and their reading by the statement model -/
theorem attribute_comma_roundtrips :
    toks (fmtStmt attrCommaStmt) = [.p .LeftSquareBracket, .id "unroll", .p .LeftParen, .p .LeftParen, .id "a", .p .Comma,
      .id "b", .p .RightParen, .p .RightParen, .p .RightSquareBracket, .p .Semicolon] ∧
    parseStmtAll [] (toks (fmtStmt attrCommaStmt) ++ [.p .RightBrace]) = .ok attrCommaStmt [.p .RightBrace] := by
  refine ⟨by decide, by rfl⟩

/-- … and it is an instance of the general theorem -/
example : ∃ fuel, parseStmt [] fuel (toks (fmtStmt attrCommaStmt) ++ [.p .RightBrace]) = .ok attrCommaStmt [.p .RightBrace] :=
  roundtrip_stmt_partial [] attrCommaStmt
    (by simp [attrCommaStmt, WFS, WFK, WFAttrs, WFAttr, RsslVerif.Lemmas.RoundtripFull.WF, RsslVerif.Lemmas.RoundtripFull.WFA]
        decide)
    _ (by simp) (fun _ r h => by cases h) (fun h => by revert h; decide)

/-- `for (T* p;;) ;` reads back with the init as the expression `T * p` (the expression wins a tie in
`parse_init_statement`) -/
theorem for_init_pointer_reads_as_expr :
    parseStmtAll ["T"] (toks (fmtStmt (.mk [] (.forS (.decl ⟨[], "T", .nil, [⟨.ptr [] (.name "p"), none⟩]⟩) none none (.mk [] .empty)))) ++ [.p .RightBrace]) =
    .ok (.mk [] (.forS (.expr (.bin .Multiply (.id "T") (.id "p"))) none none (.mk [] .empty))) [.p .RightBrace] := by rfl

/-- non-vacuity: attributes, a definition with three declarators and nested aggregate initialiser, `for` with a
definition, `if`-`else` chains, `switch` with labels, `do`-`while`, `return` -/
def sampleStmt : Stmt :=
  .mk [⟨"loop", .nil, false⟩] (.forS
    (.decl ⟨[], "int", .nil, [⟨.name "i", some (.expr (.lit ⟨.IntUntyped, false, 0⟩))⟩, ⟨.name "j", none⟩]⟩)
    (some (.bin .LessThan (.id "i") (.id "n")))
    (some (.bin .Sequence (.un .PrefixIncrement (.id "i")) (.un .PostfixDecrement (.id "j"))))
    (.mk [] (.block (.cons
      (.mk [] (.var ⟨[.Const], "vector", .cons (.both (.id "float") (.mk [] "float" .nil .empty))
          (.cons (.e (.lit ⟨.IntUntyped, false, 4⟩)) .nil),
        [⟨.ptr [.Const] (.name "p"), some (.expr (.cast (.mk [] "S" .nil (.ptr [] .empty)) (.id "q")))⟩,
         ⟨.arr (.name "a") (.bin .Add (.id "n") (.lit ⟨.IntUntyped, false, 1⟩)),
           some (.agg (.cons (.expr (.lit ⟨.IntUntyped, false, 1⟩)) (.cons (.agg (.cons (.expr (.id "x")) .nil)) (.cons (.agg .nil) .nil))))⟩]⟩))
      (.cons (.mk [⟨"vk::x", .cons (.lit ⟨.IntUntyped, false, 3⟩) .nil, true⟩]
        (.ifElse (.id "c")
          (.mk [] (.block (.cons (.mk [] (.ifS (.id "d") (.mk [] (.expr (.bin .Assignment (.id "x") (.id "y")))))) .nil)))
          (.mk [] (.ifS (.id "e") (.mk [] .breakS)))))
      (.cons (.mk [] (.switchS (.id "k") (.mk [] (.block
        (.cons (.mk [] (.caseS (.lit ⟨.IntUntyped, false, 0⟩) (.mk [] (.caseS (.lit ⟨.IntUntyped, false, 1⟩) (.mk [] (.ret none))))))
        (.cons (.mk [] (.defaultS (.mk [] (.doWhile (.mk [] .continueS) (.id "w"))))) .nil))))))
      (.cons (.mk [] (.ret (some (.call (.id "f") .nil (.cons (.id "i") .nil))))) .nil)))))))

theorem sampleStmt_wf : WFS ["int", "vector", "S"] sampleStmt := by
  simp [sampleStmt, WFS, WFK, WFSs, WFAttrs, WFAttr, WFForInit, WFVarDef, WFInitDecl, WFInit, WFInits, WFOpt, WFDecl,
    RsslVerif.Lemmas.RoundtripFull.WF, RsslVerif.Lemmas.RoundtripFull.WFA, WFArg, WFTArgs, WFTy, tyName,
    gtFree, hasLt, XExpr.lvl, Decl.abstr, Decl.needsScope, Decl.startsBracket, openIf, openIfK]
  decide +kernel

example : ∃ fuel, parseStmt ["int", "vector", "S"] fuel (toks (fmtStmt sampleStmt) ++ [.p .RightBrace]) =
    .ok sampleStmt [.p .RightBrace] :=
  roundtrip_stmt_partial _ sampleStmt sampleStmt_wf _ (by simp) (fun _ r h => by cases h) (fun _ => by decide +kernel)
end Statements

/-! # Function and struct definitions (`Model/FormatDef`, `Model/ParseDef`) -/
section Definitions
open RsslVerif.Gen.SyntaxTables RsslVerif.Model.FormatFull RsslVerif.Model.ParseFull RsslVerif.Model.FormatStmt
open RsslVerif.Model.ParseStmt RsslVerif.Model.FormatDef RsslVerif.Model.ParseDef
open RsslVerif.Lemmas.RoundtripFull RsslVerif.Lemmas.StmtRT RsslVerif.Lemmas.DefRT

/-- **roundtrip_param_partial.** A function parameter — type with modifiers (`in` / `out` / `inout`, `const`, …) and
template arguments, named declarator (pointer, reference, array dimensions), optional semantic, optional default value —
printed by `format_function_param` in front of `,` or `)` is read back by the model of `parse_function_param` as the same
parameter.  Partial — `WFParam`: the declarator is named and one the parser has productions for, expressions are `WF`
(a default value that is a comma expression is printed in parentheses since 2a6da39 and covered:
`default_arg_comma_roundtrips`). -/
theorem roundtrip_param_partial (W : List String) (p : Param) (hwf : WFParam W p) (c : Tok)
    (hc : c = .p .Comma ∨ c = .p .RightParen) (rest : List Tok)
    (hsafe : hasLtParam p = true → TmplFree (toks (fmtParam p) ++ c :: rest) = true) :
    ∃ fuel, parseParam W fuel (toks (fmtParam p) ++ c :: rest) = some (p, c :: rest) := by
  rw [toks_fmtParam] at hsafe ⊢
  obtain ⟨N, h⟩ := param_reads W p hwf c hc rest hsafe
  exact ⟨N, h N (Nat.le_refl _)⟩

/-- **roundtrip_function_partial.** For every function definition tree — attributes, return type (modifiers, name,
template arguments), name, any number of parameters (`roundtrip_param_partial`), optional semantic on the return value,
and either no body (`;`) or a body of any statements (`roundtrip_block_partial`) — and every `rest`: the printed tokens
followed by `rest` are read back by the model of `parse_function_definition` as the same tree (`ok`, never `panic`).
Partial — `WFFn`: `WFAttrs`, `WFParam` of every parameter, `WFSs` of the body; not in the tree type: template parameter
lists, `const` / `volatile` methods, register / packoffset annotations, more than one annotation per position (driver:
`unsupported`).  `hsafe` is the `<` condition of `roundtrip_xexpr_partial` for the whole remaining stream. -/
theorem roundtrip_function_partial (W : List String) (fn : FnDef) (hwf : WFFn W fn) (rest : List Tok)
    (hsafe : hasLtFn fn = true → TmplFree (toks (fmtFn fn) ++ rest) = true) :
    ∃ fuel, parseFn W fuel (toks (fmtFn fn) ++ rest) = .ok fn rest := by
  rw [toks_fmtFn] at hsafe ⊢
  obtain ⟨N, h⟩ := fn_reads W fn hwf rest hsafe
  exact ⟨N, h N (Nat.le_refl _)⟩

/-- **roundtrip_struct_partial.** For every struct definition tree — name, any number of base types (modifiers, name,
template arguments; printed as ` : A, B<…>` since 2e907a1 — before that the formatter dropped them) and any number of
entries, each a member
variable definition with attributes (`roundtrip_decl_partial`) or a method (`roundtrip_function_partial`; the model of
`parse_struct_entry` tries the member reading first, which is shown to fail on a method: after the name comes `(`) — the
printed tokens followed by `rest` are read back by the model of `parse_struct_definition` as the same tree.
Partial — `WFStruct`: `WFBase` of the base types (name no modifier word, `WFTArgs`), `WFVarDef` / `WFFn` of the entries;
not in the tree type: template parameters, member semantics / packoffsets. -/
theorem roundtrip_struct_partial (W : List String) (s : StructDef) (hwf : WFStruct W s) (rest : List Tok)
    (hsafe : (hasLtBases s.bases || hasLtMembers s.members) = true → TmplFree (toks (fmtStruct s) ++ rest) = true) :
    ∃ fuel, parseStruct W fuel (toks (fmtStruct s) ++ rest) = .ok s rest := by
  rw [toks_fmtStruct] at hsafe ⊢
  obtain ⟨N, h⟩ := struct_reads W s hwf rest hsafe
  exact ⟨N, h N (Nat.le_refl _)⟩

/-- `struct P : S { };` with a base type reads back with it (was the known finding "base types are not printed") -/
theorem struct_base_types_roundtrip :
    toks (fmtStruct ⟨"P", [([], "S", .nil), ([], "T", .cons (.both (.id "U") (.mk [] "U" .nil .empty)) .nil)], []⟩) =
      [.p .Struct, .id "P", .p .Colon, .id "S", .p .Comma, .id "T", .lt true, .id "U", .gt false, .p .LeftBrace,
       .p .RightBrace, .p .Semicolon] ∧
    parseStruct [] 40 (toks (fmtStruct ⟨"P", [([], "S", .nil), ([], "T", .cons (.both (.id "U") (.mk [] "U" .nil .empty)) .nil)], []⟩) ++ [.p .Eof]) =
      .ok ⟨"P", [([], "S", .nil), ([], "T", .cons (.both (.id "U") (.mk [] "U" .nil .empty)) .nil)], []⟩ [.p .Eof] := by
  refine ⟨by decide, by rfl⟩

/-- **definition_header_tables_agree.** `format_function` prints the template parameter list and the attributes in the order
in which `parse_function_definition` reads them (df99070: the formatter used to print the attributes first and the text
`[numthreads(8,8,1)] template<typename T> void f()` was rejected), and `format_struct` prints the base types that
`parse_struct_definition` reads (2e907a1).  Template parameter lists themselves are outside the tree types. -/
theorem definition_header_tables_agree :
    templateParamsBeforeAttributes = parserReadsTemplateParamsFirst ∧ structPrintsBaseTypes = true := by decide

/-- `void f(int a = (x, y));` -/
def defaultCommaFn : FnDef :=
  ⟨[], [], "void", .nil, "f", [⟨[], "int", .nil, .name "a", none, some (.bin .Sequence (.id "x") (.id "y"))⟩], none, none⟩

/-- `void f(int a = (x, y));` (was printed `void f(int a = x, y);` and rejected; 2a6da39): the default value keeps its
parentheses and the function reads back -/
theorem default_arg_comma_roundtrips :
    toks (fmtFn defaultCommaFn) = [.id "void", .id "f", .p .LeftParen, .id "int", .id "a", .p .Equals, .p .LeftParen, .id "x",
      .p .Comma, .id "y", .p .RightParen, .p .RightParen, .p .Semicolon] ∧
    parseFn [] 40 (toks (fmtFn defaultCommaFn) ++ [.p .Eof]) = .ok defaultCommaFn [.p .Eof] := by
  refine ⟨by decide, by rfl⟩

/-- … and it is an instance of the general theorem -/
example : ∃ fuel, parseFn [] fuel (toks (fmtFn defaultCommaFn) ++ [.p .Eof]) = .ok defaultCommaFn [.p .Eof] :=
  roundtrip_function_partial [] defaultCommaFn
    (by simp [defaultCommaFn, WFFn, WFParam, WFBody, WFAttrs, WFTArgs, WFDecl, Decl.abstr,
          RsslVerif.Lemmas.RoundtripFull.WF]
        decide)
    _ (fun h => by revert h; decide)

/-- non-vacuity: attribute, template return type, `in`/`out`/`inout` parameters with array declarator, semantics and a
default value, a body with a definition and a `return` -/
def sampleFn : FnDef :=
  ⟨[⟨"numthreads", .cons (.lit ⟨.IntUntyped, false, 8⟩) (.cons (.lit ⟨.IntUntyped, false, 8⟩) (.cons (.lit ⟨.IntUntyped, false, 1⟩) .nil)), false⟩],
   [.Static], "vector", .cons (.both (.id "float") (.mk [] "float" .nil .empty)) (.cons (.e (.lit ⟨.IntUntyped, false, 4⟩)) .nil), "f",
   [⟨[.In], "float4", .nil, .name "a", some "COLOR", none⟩,
    ⟨[.Out], "S", .nil, .arr (.name "b") (.lit ⟨.IntUntyped, false, 3⟩), none, none⟩,
    ⟨[.InOut, .Const], "uint", .nil, .name "c", some "SV_VertexID", some (.bin .Add (.id "n") (.lit ⟨.IntUntyped, false, 1⟩))⟩],
   some "SV_Target",
   some (.cons (.mk [] (.var ⟨[], "float", .nil, [⟨.name "t", some (.expr (.id "a"))⟩]⟩))
     (.cons (.mk [] (.ret (some (.id "t")))) .nil))⟩

theorem sampleFn_wf : WFFn ["vector", "float4", "S", "uint", "float", "float4x4"] sampleFn := by
  simp [sampleFn, WFFn, WFParam, WFBody, WFS, WFK, WFSs, WFAttrs, WFAttr, WFVarDef, WFInitDecl, WFInit, WFOpt, WFDecl,
    RsslVerif.Lemmas.RoundtripFull.WF, RsslVerif.Lemmas.RoundtripFull.WFA, WFArg, WFTArgs, WFTy, tyName,
    gtFree, hasLt, XExpr.lvl, Decl.abstr, Decl.needsScope, Decl.startsBracket, openIf, openIfK]
  decide +kernel

example : ∃ fuel, parseFn ["vector", "float4", "S", "uint", "float", "float4x4"] fuel (toks (fmtFn sampleFn) ++ [.p .Eof]) = .ok sampleFn [.p .Eof] :=
  roundtrip_function_partial _ sampleFn sampleFn_wf _ (fun _ => by decide +kernel)

/-- non-vacuity: a struct with two base types (one with a template argument), two member definitions (one with attribute
and two declarators) and a method -/
def sampleStruct : StructDef :=
  ⟨"P", [([], "Base", .nil), ([], "Mixin", .cons (.e (.lit ⟨.IntUntyped, false, 4⟩)) .nil)],
        [.var [] ⟨[], "float4", .nil, [⟨.name "pos", none⟩]⟩,
         .var [⟨"a", .nil, true⟩] ⟨[.RowMajor], "float4x4", .nil, [⟨.name "m", none⟩, ⟨.arr (.name "k") (.lit ⟨.IntUntyped, false, 2⟩), none⟩]⟩,
         .method sampleFn]⟩

theorem sampleStruct_wf : WFStruct ["vector", "float4", "S", "uint", "float", "float4x4"] sampleStruct := by
  refine ⟨fun b hb => ?_, ?_⟩
  · simp only [sampleStruct, List.mem_cons, List.not_mem_nil, or_false] at hb
    rcases hb with rfl | rfl <;> simp [WFBase, WFTArgs, WFArg, RsslVerif.Lemmas.RoundtripFull.WF] <;> decide
  intro m hm
  simp only [sampleStruct, List.mem_cons, List.not_mem_nil, or_false] at hm
  rcases hm with rfl | rfl | rfl
  · simp [WFMember, WFAttrs, WFVarDef, WFInitDecl, WFDecl, WFTArgs, Decl.abstr]; decide +kernel
  · simp [WFMember, WFAttrs, WFAttr, RsslVerif.Lemmas.RoundtripFull.WFA, WFVarDef, WFInitDecl, WFDecl, WFTArgs,
      Decl.abstr, Decl.needsScope, RsslVerif.Lemmas.RoundtripFull.WF]
    decide +kernel
  · exact sampleFn_wf

example : ∃ fuel, parseStruct ["vector", "float4", "S", "uint", "float", "float4x4"] fuel (toks (fmtStruct sampleStruct) ++ [.p .Eof]) =
    .ok sampleStruct [.p .Eof] :=
  roundtrip_struct_partial _ sampleStruct sampleStruct_wf _ (fun _ => by decide +kernel)

end Definitions

/-! # The text of integer literals -/
section LiteralText
open RsslVerif.Lemmas.LiteralText RsslVerif.Model.Lexer RsslVerif.Gen.LexTables

/-- the lexer's integer type of a literal kind of the syntax tree -/
def intTypeOfKind : LitKind → Option (Option IntType)
  | .IntUntyped => some none
  | .IntUnsigned32 => some (some .Unsigned32)
  | .IntUnsigned64 => some (some .Unsigned64)
  | .IntSigned64 => some (some .Signed64)
  | _ => none

/-- the suffix characters `format_literal` appends -/
def sfxChars : Option IntType → List Char
  | none => []
  | some .Unsigned32 => ['u']
  | some .Unsigned64 => ['u', 'l']
  | some .Signed64 => ['l']

/-- **literal_roundtrip_int** (beyond `_partial`, for integer literals of every type suffix).  For every non-negative
integer literal of the four integer kinds whose value fits the kind (`mkIntToken?` = the lexer's range check: `< 2^32`
for `u`, `< 2^63` for `l`, `< 2^64` otherwise):
1. the piece the formatter model prints carries the text `digits ++ suffix`, where `digits` are the decimal digits of
   the value, most significant first without leading zeros (`decMS`; `repr_decMS`: this is what `toString` — standing
   for Rust's `Display`, which is trusted — produces), and
2. that text, as bytes, followed by anything that does not continue the literal (`IntFollow`), is accepted by
   `literal_int` — property C10's model of `preprocess/src/lexer.rs` — and yields exactly the literal token of the same
   kind and value (`ofDigits_decMS`: the digits denote the value; `int_value_exact` is the converse direction).
`token_numeric_dispatch` (C10, cited) says `literal_int` is what `token_intermediate` runs when `literal_float` declines. -/
theorem literal_roundtrip_int (kind : LitKind) (k : Option IntType) (hk : intTypeOfKind kind = some k)
    (v : Nat) (hv : v < 2 ^ 64) (tok : Token) (hfit : mkIntToken? v k = some tok) :
    litPieces ⟨kind, false, v⟩ =
      some [.t (.lit ⟨kind, false, v⟩) (String.ofList ((decMS v).map Nat.digitChar ++ sfxChars k))] ∧
    (∀ tail, IntFollow tail →
      literalInt ((((decMS v).map Nat.digitChar ++ sfxChars k).map fun c => UInt8.ofNat c.toNat) ++ tail) = .ok (tail, tok)) ∧
    (tok = match k with
      | none => .litInt v
      | some .Unsigned32 => .litIntU32 v
      | some .Unsigned64 => .litIntU64 v
      | some .Signed64 => .litIntS64 (v : Int)) := by
  have hbytes : ∀ tail, (((decMS v).map Nat.digitChar ++ sfxChars k).map fun c => UInt8.ofNat c.toNat) ++ tail =
      (decMS v).map digitByte ++ (sfxBytes k ++ tail) := by
    intro tail
    rw [List.map_append, digitChars_bytes, List.append_assoc]
    congr 1
    cases k with
    | none => rfl
    | some k => cases k <;> rfl
  refine ⟨?_, fun tail hf => ?_, ?_⟩
  · cases kind <;> simp [intTypeOfKind] at hk <;> subst hk <;>
      (simp [litPieces, sfxChars, String.ofList_append]; exact repr_decMS v)
  · rw [hbytes]
    exact int_text_reads v k tok hv hfit tail hf
  · cases k with
    | none => simpa [mkIntToken?] using hfit.symm
    | some k =>
      cases k <;> simp only [mkIntToken?] at hfit
      · split at hfit
        · simpa using hfit.symm
        · cases hfit
      · simpa using hfit.symm
      · split at hfit
        · simpa using hfit.symm
        · cases hfit

/-- non-vacuity: `4294967295u`, `18446744073709551615ul`, `9223372036854775807l`, `0` -/
example : ∃ tok, mkIntToken? 4294967295 (some .Unsigned32) = some tok ∧
    literalInt ((((decMS 4294967295).map Nat.digitChar ++ sfxChars (some .Unsigned32)).map fun c => UInt8.ofNat c.toNat) ++ [59]) =
      .ok ([59], tok) :=
  ⟨_, rfl, (literal_roundtrip_int .IntUnsigned32 _ rfl 4294967295 (by decide) _ rfl).2.1 [59] ⟨by decide, by decide, by decide, by decide, by decide, by decide⟩⟩
example : mkIntToken? 18446744073709551615 (some .Unsigned64) = some (.litIntU64 18446744073709551615) := rfl
example : mkIntToken? (2 ^ 63) (some .Signed64) = none := by decide

end LiteralText

end RsslVerif.Thm.C09

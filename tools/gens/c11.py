"""Gen.CondTables — tables of the conditional-compilation code, re-extracted from /repo on every run.

From preprocess/src/preprocess.rs:
  * `enum ConditionState`, `struct ConditionBlock`, `ConditionChain::new/push`, `ConditionChain::switch` (nothing
    follows the #else branch, 3-state transition table, error when the current file has no open block),
    `ConditionChain::pop` (same error rule), `ConditionChain::is_active` (which state counts as active),
  * `preprocess_command`: the name split (non-name directives are ignored while skipping), per command name how it
    is gated by `skip` (no effect / pushes a state / not gated), the state pushed for an evaluated condition, the
    error raised at the end of an unfinished chain; the per-file block count of `preprocess_included_file`.
From preprocess/src/condition_parser.rs:
  * `enum BinOp`, `BinOp::apply` (operator semantics on u64),
  * the chain parse_p12 -> parse_p11 -> ... -> parse_p2 and every `parse_op` match (token patterns -> BinOp),
  * `parse_p2` (the prefix operator and its semantics), `parse_leaf` (token -> value / parenthesis / failure),
  * the top level function called by `parse` and its truth test.
Everything is emitted as plain Lean definitions; anything that does not have the expected shape raises
ExtractError (= broken obligation).
"""
import re


def register(gen, T):
    from rustsrc import (ExtractError, fn_body, impl_fn_body, enum_variants, first_match, match_arms,
                         split_top, normws, matching)

    TOKEN_PAYLOAD = {"LiteralInt": "(v : UInt64)", "LiteralIntUnsigned32": "(v : UInt64)",
                     "Id": "(name : String)", "LeftAngleBracket": "(f : FollowedBy)",
                     "RightAngleBracket": "(f : FollowedBy)"}

    def tok_pattern(p):
        """`Token::X`, `Token::X(FollowedBy::Token)`, `Token::X(_)`, `Token::X(v)` -> (lean pattern, name, binder)"""
        m = re.fullmatch(r'Token::([A-Za-z0-9_]+)(?:\((.*)\))?', p.strip())
        if not m:
            raise ExtractError(f"token pattern {p!r} unsupported")
        name, arg = m.group(1), m.group(2)
        if arg is None:
            if name in TOKEN_PAYLOAD:
                raise ExtractError(f"token {name} used without payload")
            return f".{name}", name, None
        arg = arg.strip()
        if name not in TOKEN_PAYLOAD:
            raise ExtractError(f"token {name} has an unexpected payload")
        fm = re.fullmatch(r'FollowedBy::(Token|Whitespace)', arg)
        if fm:
            return f".{name} .{fm.group(1)}", name, None
        if arg == "_":
            return f".{name} _", name, None
        if re.fullmatch(r'[a-z_][a-z0-9_]*', arg):
            return f".{name} {arg}", name, arg
        raise ExtractError(f"token payload {arg!r} unsupported")

    def bool_expr(e):
        """Rust boolean expression over left/right/0 with comparison operators, && and || -> Lean Bool"""
        e = normws(e)
        ors = [x.strip() for x in e.split("||")]
        out_or = []
        for o in ors:
            ands = [x.strip() for x in o.split("&&")]
            out_and = []
            for a in ands:
                m = re.fullmatch(r'([a-z_]+|\d+)\s*(==|!=|<=|>=|<|>)\s*([a-z_]+|\d+)', a)
                if not m:
                    raise ExtractError(f"comparison {a!r} unsupported")
                op = {"==": "=", "!=": "≠", "<=": "≤", ">=": "≥", "<": "<", ">": ">"}[m.group(2)]
                out_and.append(f"decide ({m.group(1)} {op} {m.group(3)})")
            out_or.append("(" + " && ".join(out_and) + ")")
        return "(" + " || ".join(out_or) + ")"

    def u64_from(e, what):
        m = re.fullmatch(r'u64::from\((.*)\)', normws(e))
        if not m:
            raise ExtractError(f"{what}: expected u64::from(..), got {e!r}")
        return bool_expr(m.group(1))

    @gen("CondTables")
    def cond_tables():
        pre = T.src("preprocess/src/preprocess.rs")
        cp = T.src("preprocess/src/condition_parser.rs")
        out = [T.header("CondTables", ["preprocess/src/preprocess.rs", "preprocess/src/condition_parser.rs"])]

        # ---------------------------------------------------------------- ConditionState / ConditionChain
        states = [v for v, rest in enum_variants(pre, "ConditionState")]
        if len(states) != 3:
            raise ExtractError(f"ConditionState has variants {states}")
        out.append("/-- `enum ConditionState` -/\ninductive CS where\n" + "".join(f"  | {s}\n" for s in states) +
                   "  deriving DecidableEq, Repr, Inhabited\n\n")
        out.append("def CS.all : List CS := " + T.lean_list("." + s for s in states) + "\n\n")
        out.append("/-- the `PreprocessError` variants the conditional machinery can raise -/\n"
                   "inductive ChainErr where\n  | ElseNotMatched | EndIfNotMatched | ConditionChainNotFinished | ElseAfterElse | ElifAfterElse\n"
                   "  deriving DecidableEq, Repr, Inhabited\n\n")

        pe_variants = [v for v, _ in enum_variants(pre, "PreprocessError")]
        CHAIN_ERRS = ["ElseNotMatched", "EndIfNotMatched", "ConditionChainNotFinished", "ElseAfterElse", "ElifAfterElse"]
        for v in CHAIN_ERRS:
            if v not in pe_variants:
                raise ExtractError(f"PreprocessError::{v} not found")

        def chain_err(text, what):
            em = re.fullmatch(r'Err\(PreprocessError::(\w+)(?:\(location\))?\)', text)
            if not em or em.group(1) not in CHAIN_ERRS:
                raise ExtractError(f"{what}: {text!r}")
            return em.group(1)

        # struct ConditionChain(Vec<ConditionBlock>, usize); struct ConditionBlock { state, seen_else }
        if not re.search(r'struct\s+ConditionChain\s*\(\s*Vec<ConditionBlock>\s*,\s*usize\s*\)\s*;', pre):
            raise ExtractError("struct ConditionChain(Vec<ConditionBlock>, usize) not found")
        bm = re.search(r'struct\s+ConditionBlock\s*\{([^}]*)\}', pre)
        if not bm or normws(bm.group(1)).rstrip(",") != "state: ConditionState, seen_else: bool":
            raise ExtractError("struct ConditionBlock { state: ConditionState, seen_else: bool } not found")
        if normws(impl_fn_body(pre, r'ConditionChain', "new")) != "ConditionChain(vec![], 0)":
            raise ExtractError("ConditionChain::new is not ConditionChain(vec![], 0)")
        pu = normws(impl_fn_body(pre, r'ConditionChain', "push"))
        if pu != "self.0.push(ConditionBlock { state: gate, seen_else: false, });":
            raise ExtractError(f"ConditionChain::push body {pu!r}")
        out.append("/-- `struct ConditionBlock`: an `#if` block that has not reached its `#endif` -/\n"
                   "structure Block where\n  state : CS\n  seenElse : Bool\n  deriving DecidableEq, Repr, Inhabited\n\n"
                   "/-- `ConditionChain::push(gate)` -/\ndef newBlock (gate : CS) : Block := ⟨gate, false⟩\n\n")

        sw = impl_fn_body(pre, r'ConditionChain', "switch")
        if not normws(sw).startswith("let blocks_of_file = &mut self.0[self.1..]; match blocks_of_file.last_mut() {"):
            raise ExtractError("ConditionChain::switch: does not look at the blocks of the current file only")
        scrut, arms_text, _ = first_match(sw, r'blocks_of_file\.last_mut\(\)')
        outer = match_arms(arms_text)
        some_arm = [a for a in outer if a[0] == ["Some(block)"]]
        none_arm = [a for a in outer if a[0] == ["None"]]
        if len(some_arm) != 1 or len(none_arm) != 1 or len(outer) != 2:
            raise ExtractError("ConditionChain::switch: expected Some(block)/None arms")
        body = some_arm[0][2]
        sm = re.fullmatch(r'\{ if block\.seen_else \{ return Err\(if is_else \{ PreprocessError::(\w+)\(location\) \} else \{ '
                          r'PreprocessError::(\w+)\(location\) \}\); \} block\.seen_else = is_else; '
                          r'block\.state = match block\.state \{(.*)\}; Ok\(\(\)\) \}', body)
        if not sm or sm.group(1) not in CHAIN_ERRS or sm.group(2) not in CHAIN_ERRS:
            raise ExtractError("ConditionChain::switch: Some(block) arm not of the expected shape")
        after_else, after_elif, inner_text = sm.group(1), sm.group(2), sm.group(3)
        clauses = []
        for pats, guard, result in match_arms(inner_text):
            rm = re.fullmatch(r'ConditionState::(\w+)', result)
            if not rm or rm.group(1) not in states:
                raise ExtractError(f"switch arm result {result!r}")
            if guard not in (None, "active", "!active"):
                raise ExtractError(f"switch arm guard {guard!r}")
            for p in pats:
                pm = re.fullmatch(r'ConditionState::(\w+)', p)
                if p == "_":
                    cond = "true"
                elif pm and pm.group(1) in states:
                    cond = f"c == .{pm.group(1)}"
                else:
                    raise ExtractError(f"switch arm pattern {p!r}")
                g = {None: "true", "active": "active", "!active": "!active"}[guard]
                clauses.append((cond, g, rm.group(1)))
        out.append("/-- the inner `match block.state` of `ConditionChain::switch`, arm by arm in source order -/\n"
                   "def CS.switch (c : CS) (active : Bool) : CS :=\n")
        for cond, g, r in clauses:
            out.append(f"  if ({cond}) && {g} then .{r} else\n")
        out.append("  c -- not reached: the Rust match is exhaustive (theorem switch_table checks every cell)\n\n")
        out.append("/-- `switch` on a block whose `#else` branch has started: `if is_else {..} else {..}` -/\n"
                   f"def afterElseErr (isElse : Bool) : ChainErr := if isElse then .{after_else} else .{after_elif}\n\n")
        out.append("/-- the `Some(block)` arm of `ConditionChain::switch(active, is_else, location)`: no branch can follow\n"
                   "    the `#else` branch; otherwise `seen_else = is_else` and the state moves on -/\n"
                   "def Block.switch (b : Block) (active isElse : Bool) : Except ChainErr Block :=\n"
                   "  if b.seenElse then .error (afterElseErr isElse) else .ok ⟨b.state.switch active, isElse⟩\n\n")
        out.append(f"/-- `switch` when the current file has no open block -/\n"
                   f"def switchEmptyErr : ChainErr := .{chain_err(none_arm[0][2], 'switch None arm')}\n\n")

        pop = normws(impl_fn_body(pre, r'ConditionChain', "pop"))
        pm = re.fullmatch(r'if self\.0\.len\(\) > self\.1 \{ self\.0\.pop\(\); Ok\(\(\)\) \} else \{ (Err\(PreprocessError::\w+\)) \}', pop)
        if not pm:
            raise ExtractError("ConditionChain::pop: expected `if self.0.len() > self.1 { self.0.pop(); Ok(()) } else { Err(..) }`")
        out.append(f"/-- `pop` when the current file has no open block -/\n"
                   f"def popEmptyErr : ChainErr := .{chain_err(pm.group(1), 'pop else branch')}\n\n")
        out.append("/-- `switch` looks at `self.0[self.1..]` only and `pop` requires `self.0.len() > self.1`: the blocks that\n"
                   "    were open when the current file started cannot be switched or closed from inside the file -/\n"
                   "def fileBaseGuardsSwitchAndPop : Bool := true\n\n")

        ia = normws(impl_fn_body(pre, r'ConditionChain', "is_active"))
        m = re.fullmatch(r'self \.0 \.iter\(\) \.all\(\|block\| block\.state == ConditionState::(\w+)\)', ia) or \
            re.fullmatch(r'self\.0\.iter\(\)\.all\(\|block\| block\.state == ConditionState::(\w+)\)', ia.replace(" .", "."))
        if not m or m.group(1) not in states:
            raise ExtractError(f"is_active body {ia!r}")
        out.append(f"/-- `is_active`: every block (of every file) is in this state -/\ndef activeState : CS := .{m.group(1)}\n\n")

        # ---------------------------------------------------------------- preprocess_command gating
        pc = fn_body(pre, "preprocess_command")
        skm = re.search(r'let\s+skip\s*=\s*!condition_chain\.is_active\(\)\s*;', pc)
        if not skm:
            raise ExtractError("preprocess_command: `let skip = !condition_chain.is_active();` not found")
        # the name split: `skip` is known before it, a directive that does not start with a name is ignored while
        # skipping and is an UnknownCommand otherwise
        spm = re.search(r'let\s*\(command_name,\s*command\)\s*=\s*match\s+command\s*\{', pc)
        if not spm or spm.start() < skm.end():
            raise ExtractError("preprocess_command: the name split does not come after `let skip = ..`")
        _, split_text, _ = first_match(pc, r'^command$', spm.start())
        split_arms = match_arms(split_text)
        want_split = [(["[PreprocessToken(Token::Id(id), _), rest @ ..]"], None, "(id.0.as_str(), rest)"),
                      (["[PreprocessToken(Token::If, _), rest @ ..]"], None, '("if", rest)'),
                      (["[PreprocessToken(Token::Else, _), rest @ ..]"], None, '("else", rest)'),
                      (["_"], "skip", "return Ok(())"),
                      (["_"], None, "return Err(PreprocessError::UnknownCommand(command_location))")]
        if [(a[0], a[1], a[2]) for a in split_arms] != want_split:
            raise ExtractError(f"preprocess_command: name split has arms {split_arms!r}")
        _, arms_text, _ = first_match(pc, r'^command_name$')
        out.append("/-- how `preprocess_command` treats a command while `skip` (= some level is not active) holds -/\n"
                   "inductive Gate where\n  | skipNoEffect            -- `if skip { return Ok(()) }`\n"
                   "  | skipPushes (s : CS)     -- `if skip { condition_chain.push(s); return Ok(()) }`\n"
                   "  | notGated                -- handled the same way whether or not we are skipping\n"
                   "  deriving DecidableEq, Repr, Inhabited\n\n")
        gates = []
        unknown_skip = None
        push_active = None
        for pats, guard, result in match_arms(arms_text):
            r = normws(result)
            if pats == ["_"]:
                if guard == "skip" and r == "Ok(())":
                    unknown_skip = True
                continue
            names = []
            for p in pats:
                sm = re.fullmatch(r'"([a-z]+)"', p)
                if not sm:
                    raise ExtractError(f"preprocess_command arm pattern {p!r}")
                names.append(sm.group(1))
            if guard is not None:
                raise ExtractError(f"preprocess_command arm {names} has a guard")
            sm = re.match(r'\{\s*if skip \{(.*?)\}', r)
            if sm:
                inner = sm.group(1).strip()
                if inner == "return Ok(());":
                    g = ".skipNoEffect"
                else:
                    pm = re.fullmatch(r'condition_chain\.push\(ConditionState::(\w+)\); return Ok\(\(\)\);', inner)
                    if not pm or pm.group(1) not in states:
                        raise ExtractError(f"preprocess_command arm {names}: skip branch {inner!r}")
                    g = f"(.skipPushes .{pm.group(1)})"
            else:
                if re.search(r'\bskip\b', r):
                    raise ExtractError(f"preprocess_command arm {names}: unexpected use of skip")
                g = ".notGated"
            pushes = re.findall(r'condition_chain\.push\(\s*if active \{ ConditionState::(\w+) \} else \{ ConditionState::(\w+) \}\s*\)', r)
            for pa in pushes:
                if push_active not in (None, pa):
                    raise ExtractError("preprocess_command: #if/#ifdef push different states")
                push_active = pa
            for n in names:
                gates.append((n, g))
        if not unknown_skip:
            raise ExtractError("preprocess_command: `_ if skip => Ok(())` arm not found")
        if push_active is None or any(s not in states for s in push_active):
            raise ExtractError("preprocess_command: push(if active {..} else {..}) not found")
        out.append("/-- per command name: gating; unknown command names are skipped silently while skipping -/\n"
                   "def gate (cmd : String) : Gate :=\n")
        for n, g in gates:
            out.append(f"  if cmd == \"{n}\" then {g} else\n")
        out.append("  .skipNoEffect\n\n")
        out.append("def gatedCommands : List String := " + T.lean_list(f'"{n}"' for n, _ in gates) + "\n\n")
        out.append("/-- state pushed by an evaluated `#if/#ifdef/#ifndef` -/\n"
                   f"def pushState (active : Bool) : CS := if active then .{push_active[0]} else .{push_active[1]}\n\n")
        # elif / else feed switch
        def arm_of(name):
            for pats, guard, result in match_arms(arms_text):
                if f'"{name}"' in pats:
                    return normws(result)
            raise ExtractError(f"preprocess_command: no arm for {name}")
        if "condition_chain.switch(active, false, command_location)?" not in arm_of("elif"):
            raise ExtractError("#elif does not call switch(active, false, ..)")
        if "condition_chain.switch(true, true, command_location)?" not in arm_of("else"):
            raise ExtractError("#else does not call switch(true, true, ..)")
        if "condition_chain.pop()?" not in arm_of("endif"):
            raise ExtractError("#endif does not call pop()")
        out.append("/-- `#else` is `switch(true, true, ..)` -/\ndef elseSwitchArg : Bool := true\n\n"
                   "/-- the `is_else` argument of `switch`: `#else` passes `true`, `#elif` passes `false` -/\n"
                   "def elseIsElse : Bool := true\n\ndef elifIsElse : Bool := false\n\n")
        out.append("/-- the name split of `preprocess_command` (`[Id(id), ..]`, `[Token::If, ..]`, `[Token::Else, ..]`): a\n"
                   "    directive that does not start with one of these tokens is ignored while skipping (`_ if skip =>\n"
                   "    return Ok(())`, with `skip` computed in front of the split) and is an `UnknownCommand` otherwise -/\n"
                   "def nameTokens : List String := [\"Id\", \"If\", \"Else\"]\n\n"
                   "def nonNameGate : Gate := .skipNoEffect\n\n")
        pif = normws(fn_body(pre, "preprocess_initial_file"))
        m = re.search(r'if !condition_chain\.0\.is_empty\(\) \{ return Err\(PreprocessError::(\w+)\); \}', pif)
        if not m or m.group(1) not in ("ElseNotMatched", "EndIfNotMatched", "ConditionChainNotFinished"):
            raise ExtractError("preprocess_initial_file: unfinished-chain check not found")
        out.append(f"/-- error when the stack is not empty at the end of the initial file -/\n"
                   f"def unfinishedErr : ChainErr := .{m.group(1)}\n\n")

        # ---------------------------------------------------------------- the other entry point and the hand-over to the parser
        pf = normws(fn_body(pre, "preprocess_fragment"))
        fm = re.fullmatch(r'let mut files = \[\(file_name\.0\.as_ref\(\), input\)\]; preprocess\( ?&file_name\.0, source_manager, '
                          r'&mut files, &\[((?:\("[A-Za-z_0-9]*", "[^"\\\\]*"\),? ?)*)\],? ?\)', pf)
        if not fm:
            raise ExtractError("preprocess_fragment is not `preprocess(name, .., [(name, input)], &[<defines>])` any more: " + pf)
        frag_defs = re.findall(r'\("([A-Za-z_0-9]*)", "([^"]*)"\)', fm.group(1))
        out.append("/-- `preprocess_fragment(input, name, ..)` = `preprocess(name, .., handler [(name, input)], these defines)` -/\n"
                   "def fragmentDefines : List (String × String) := " +
                   T.lean_list(f'("{n}", "{v}")' for n, v in frag_defs) + "\n\n")
        pt = normws(fn_body(pre, "prepare_tokens"))
        want_pt = ("let mut source = source .iter() .cloned() .filter_map(|t| { assert!(!matches!(t.0, Token::MacroArg(_))); "
                   "if t.0.is_whitespace() { None } else { let loc = t.get_location(); Some(LexToken(t.0, loc)) } }) "
                   ".collect::<Vec<_>>(); source.push(LexToken(Token::Eof, SourceLocation::UNKNOWN)); source")
        if pt != want_pt:
            raise ExtractError("prepare_tokens is not `drop is_whitespace() tokens, keep every other token, push Eof` any more: " + pt)
        out.append("/-- `prepare_tokens`: every token that is not `is_whitespace()` is handed on unchanged, in order, then `Eof`\n"
                   "    (pinned token for token; `true` = the source has exactly this shape) -/\n"
                   "def prepareKeepsNonBlank : Bool := true\n\n")

        # ---------------------------------------------------------------- shapes the composed model (Model.CondFile) mirrors
        m = re.search(r'const MAX_INCLUDE_DEPTH: u32 = (\d+);', pre)
        inc_arm = normws(arm_of("include"))
        if not m or "file_loader.include_depth >= MAX_INCLUDE_DEPTH" not in inc_arm:
            raise ExtractError("#include: MAX_INCLUDE_DEPTH check not found")
        out.append(f"/-- `const MAX_INCLUDE_DEPTH`: `#include` is refused when `include_depth >=` this -/\n"
                   f"def maxIncludeDepth : Nat := {m.group(1)}\n\n")
        # one ConditionChain object for all files (the include arm hands `condition_chain` itself to
        # preprocess_included_file), but every file works above its own base: the number of blocks open at its
        # start is recorded in `.1`, restored at its end, and the file must end with exactly that many blocks
        pinc = normws(fn_body(pre, "preprocess_included_file"))
        shared = ("preprocess_included_file( buffer, file_loader, file, macros, condition_chain, )" in inc_arm
                  or "preprocess_included_file(buffer, file_loader, file, macros, condition_chain)" in inc_arm)
        if not shared:
            raise ExtractError("#include does not pass the includer's condition_chain to preprocess_included_file")
        k_enter = pinc.find("let outer_file_block_count = condition_chain.1; condition_chain.1 = condition_chain.0.len();")
        k_loop = pinc.find("while !token_stream.end_of_stream()")
        k_flush = pinc.rfind("flush_normal(")
        tail = "if condition_chain.0.len() != condition_chain.1 { return Err(PreprocessError::ConditionChainNotFinished); } " \
               "condition_chain.1 = outer_file_block_count; Ok(())"
        if k_enter < 0 or k_loop < 0 or not (k_enter < k_loop < k_flush) or not pinc.endswith(tail) \
                or pinc.count("condition_chain.1") != 4 or pinc.count("condition_chain.0") != 2:
            raise ExtractError("preprocess_included_file: per-file block count (enter / check / restore) not of the expected shape")
        out.append("/-- `preprocess_included_file` records the number of open blocks at its start in `condition_chain.1`\n"
                   "    (the previous value is restored at the end) and fails unless the file ends with exactly that many -/\n"
                   "def chainPerFile : Bool := true\n\n"
                   "/-- error when an included file (or the entry file) ends with blocks of its own still open -/\n"
                   "def fileUnfinishedErr : ChainErr := .ConditionChainNotFinished\n\n")
        # ---- an #include is processed every time it is met: the arm has three early returns (skipped group,
        # malformed operand, depth limit) and then load + preprocess_included_file, unconditionally; the only
        # per-file memory of FileLoader that decides what a file contributes is `pragma_once_files` (tested in
        # `load`: a marked file is delivered as the empty text)
        want_inc = ("if skip { return Ok(()); } let command = trim_whitespace(command); let file_name = match command { "
                    "[PreprocessToken(Token::LiteralString(s), _)] => s.clone(), "
                    "[PreprocessToken(Token::HeaderName(s), _)] => s.clone(), "
                    "_ => return Err(PreprocessError::InvalidInclude(command_location)), }; "
                    "if file_loader.include_depth >= MAX_INCLUDE_DEPTH { return Err(PreprocessError::IncludeDepthExceeded(command_location)); } "
                    "match file_loader.load(&file_name, Some(file_id)) { Ok(file) => { file_loader.include_depth += 1; "
                    "let result = preprocess_included_file( buffer, file_loader, file, macros, condition_chain, ); "
                    "file_loader.include_depth -= 1; result } "
                    "Err(err) => Err(PreprocessError::FailedToFindFile( command_location, file_name.to_string(), err, )), }")
        got_inc = inc_arm.strip()
        if got_inc.startswith("{") and got_inc.endswith("}"):
            got_inc = got_inc[1:-1].strip()
        if got_inc != want_inc:
            raise ExtractError("#include arm of preprocess_command: not `skip / operand / depth limit / load + "
                               "preprocess_included_file` (a new way to leave the arm without processing the file?)")
        fm = re.search(r"struct FileLoader<'a>\s*\{(.*?)\n\}", pre, re.S)
        fields = re.findall(r'^\s*([a-z_]+)\s*:', fm.group(1), re.M) if fm else []
        want_fields = ["file_name_remap", "real_name_remap", "pragma_once_files", "source_manager", "include_handler",
                       "include_depth"]
        if fields != want_fields:
            raise ExtractError(f"struct FileLoader has fields {fields}: per-file memory other than the pragma-once set?")
        ld = normws(impl_fn_body(pre, r'FileLoader<', "load"))
        ld_tail = ("if self.pragma_once_files.contains(&id) { Ok(InputFile { file_id: id, contents: String::new(), }) } else { "
                   "let contents = self.source_manager.get_contents(id); Ok(InputFile { file_id: id, contents: contents.to_string(), }) }")
        if not ld.endswith(ld_tail) or ld.count("pragma_once_files") != 1 or ld.count("String::new()") != 1:
            raise ExtractError("FileLoader::load: the contents are withheld for another reason than #pragma once")
        uses = sorted(set(re.findall(r'file_loader\s*\.\s*([a-z_]+)', pc + fn_body(pre, "preprocess_included_file"))))
        want_uses = ["get_source_location_from_file_offset", "include_depth", "load", "mark_as_pragma_once", "source_manager"]
        if uses != want_uses:
            raise ExtractError(f"preprocess_command / preprocess_included_file use file_loader.{uses}: expected {want_uses}")
        out.append("/-- the `\"include\"` arm of `preprocess_command` leaves early only for a skipped group, a malformed\n"
                   "    operand and the depth limit; otherwise it loads the file and runs `preprocess_included_file` on it,\n"
                   "    every time -/\n"
                   "def includeArmHasNoSkip : Bool := true\n\n"
                   "/-- early exits of the include arm, in order -/\n"
                   "def includeArmExits : List String := [\"skip\", \"InvalidInclude\", \"IncludeDepthExceeded\"]\n\n"
                   "/-- fields of `struct FileLoader` (everything the preprocessor remembers about files) -/\n"
                   "def fileLoaderFields : List String := " + T.lean_list(f'"{n}"' for n in fields) + "\n\n"
                   "/-- members of `file_loader` that `preprocess_command` / `preprocess_included_file` touch -/\n"
                   "def fileLoaderUses : List String := " + T.lean_list(f'"{n}"' for n in uses) + "\n\n"
                   "/-- `FileLoader::load` withholds the text of a file only when it is in `pragma_once_files` -/\n"
                   "def loadWithholdsOnlyOnce : Bool := true\n\n")
        if not re.search(r'if tokens\.iter\(\)\.any\(\|t\| t\.0 == Token::Endline\) \{ return Err\(PreprocessError::InvalidDefine\('
                         r'SourceLocation::UNKNOWN\)\); \} let macro_def = Macro::parse\(&tokens\)\?;', pif):
            raise ExtractError("preprocess_initial_file: the line-break test on API defines is not in front of Macro::parse")
        out.append("/-- an API-level define whose tokens contain a line end is an `InvalidDefine` -/\n"
                   "def apiDefineRejectsLineBreak : Bool := true\n\n")
        fsm = normws(fn_body(pre, "find_single_macro"))
        k_def = fsm.find('if i >= search_pos.next_pos && apply_defined && id.0 == "defined" { return Ok(FoundMacro::Defined(i)); }')
        k_loop = fsm.find("for macro_index in 0..macros.len()")
        if k_def < 0 or k_loop < 0 or k_def > k_loop:
            raise ExtractError("find_single_macro: the `defined` test is not in front of the macro loop")
        out.append("/-- `find_single_macro`: at positions `>= next_pos` (and only with `apply_defined`) the identifier\n"
                   "    `defined` is recognised before any macro is looked up -/\ndef definedTestFirst : Bool := true\n\n")
        asm = normws(fn_body(pre, "apply_single_macro"))
        calls = [c for c in re.findall(r'apply_macros_internal\(([^()]*(?:\([^()]*\)[^()]*)*)\)', asm)]
        if len(calls) != 2 or not all(re.search(r',\s*false,\s*source_manager,?\s*$', c) for c in calls):
            raise ExtractError("apply_single_macro: the recursive expansions do not pass apply_defined = false")
        out.append("/-- arguments and substituted bodies are expanded with `apply_defined = false` -/\n"
                   "def innerCallsWithoutDefined : Bool := true\n\n")
        fl = normws(fn_body(pre, "preprocess_included_file"))
        if "apply_macros(input_tokens, macros, false, file_loader.source_manager)" not in fl:
            raise ExtractError("flush_normal does not call apply_macros(.., false, ..)")
        cmd = normws(fn_body(pre, "preprocess_command"))
        if cmd.count("apply_macros(command, macros, true, file_loader.source_manager)") != 2:
            raise ExtractError("#if/#elif do not call apply_macros(.., true, ..)")
        out.append("/-- text goes through `apply_macros(.., false, ..)`, `#if/#elif` through `apply_macros(.., true, ..)` -/\n"
                   "def definedOnlyInConditions : Bool := true\n\n")

        # ---------------------------------------------------------------- condition_parser.rs
        ops = [v for v, _ in enum_variants(cp, "BinOp")]
        out.append("/-- `enum BinOp` of condition_parser.rs -/\ninductive BinOp where\n" +
                   "".join(f"  | {o}\n" for o in ops) + "  deriving DecidableEq, Repr, Inhabited\n\n")
        out.append("def BinOp.all : List BinOp := " + T.lean_list("." + o for o in ops) + "\n\n")
        ap = impl_fn_body(cp, r'BinOp', "apply")
        _, arms_text, _ = first_match(ap, r'^self$')
        out.append("/-- `BinOp::apply` -/\ndef BinOp.apply : BinOp → UInt64 → UInt64 → UInt64\n")
        seen = set()
        for pats, guard, result in match_arms(arms_text):
            if guard is not None:
                raise ExtractError("BinOp::apply: guard unsupported")
            for p in pats:
                pm = re.fullmatch(r'BinOp::(\w+)', p)
                if not pm or pm.group(1) not in ops:
                    raise ExtractError(f"BinOp::apply pattern {p!r}")
                seen.add(pm.group(1))
                out.append(f"  | .{pm.group(1)}, left, right => if {u64_from(result, 'BinOp::apply')} then 1 else 0\n")
        if seen != set(ops):
            raise ExtractError(f"BinOp::apply: arms for {sorted(seen)} only")
        out.append("\n")

        out.append("/-- `FollowedBy` of text/src/tokens.rs -/\ninductive FollowedBy where | Token | Whitespace\n"
                   "  deriving DecidableEq, Repr, Inhabited\n\n")
        # walk the chain of levels starting at the function `parse` calls
        top_m = re.search(r'match\s+(parse_p\d+)\(&tokens\)', fn_body(cp, "parse"))
        if not top_m:
            raise ExtractError("parse: top-level parse_pN call not found")
        pbody = normws(fn_body(cp, "parse"))
        if "Ok((&[], value)) => Ok(value != 0)" not in pbody:
            raise ExtractError("parse: `Ok((&[], value)) => Ok(value != 0)` not found")
        pbo = normws(fn_body(cp, "parse_binary_operations"))
        for needle in ["let (input, left) = expression_fn(input)?;", "while let Ok((rest, op)) = operator_fn(input)",
                       "let (rest, right) = expression_fn(rest)?;", "rights.push((op, right));", "input = rest;",
                       "combine_rights(left, rights)"]:
            if needle not in pbo:
                raise ExtractError(f"parse_binary_operations: expected `{needle}`")
        cr = normws(fn_body(cp, "combine_rights"))
        if "final_value = op.apply(final_value, *exp);" not in cr or "let mut final_value = left;" not in cr:
            raise ExtractError("combine_rights: left fold with op.apply(final_value, *exp) not found")
        level_fns = []          # [(name, opfn lean text)]
        used_tokens = {}
        cur = top_m.group(1)
        chain = [cur]
        guard_n = 0
        while True:
            guard_n += 1
            if guard_n > 20:
                raise ExtractError("level chain does not terminate")
            b = fn_body(cp, cur)
            cm = re.search(r'parse_binary_operations\(\s*parse_op\s*,\s*(\w+)\s*,\s*stream\s*\)', b)
            if not cm:
                break
            opb = fn_body(b, "parse_op")
            _, arms_text, _ = first_match(opb, r'^input$')
            lines = []
            for pats, guard, result in match_arms(arms_text):
                if guard is not None or len(pats) != 1:
                    raise ExtractError(f"{cur}::parse_op: arm shape unsupported")
                p = pats[0]
                if p == "_":
                    if result != "Err(ConditionParseError)":
                        raise ExtractError(f"{cur}::parse_op: default arm {result!r}")
                    lines.append("  | _ => none\n")
                    continue
                if not (p.startswith("[") and p.endswith("]")):
                    raise ExtractError(f"{cur}::parse_op: pattern {p!r}")
                elems = [e.strip() for e in split_top(p[1:-1], ',') if e.strip()]
                if elems[-1] != "rest @ ..":
                    raise ExtractError(f"{cur}::parse_op: pattern does not end with rest @ ..")
                lp = []
                for e in elems[:-1]:
                    pat, name, binder = tok_pattern(e)
                    used_tokens[name] = True
                    lp.append(pat)
                rm = re.fullmatch(r'Ok\(\(rest, BinOp::(\w+)\)\)', result)
                if not rm or rm.group(1) not in ops:
                    raise ExtractError(f"{cur}::parse_op: result {result!r}")
                lines.append(f"  | {' :: '.join(lp)} :: rest => some (.{rm.group(1)}, rest)\n")
            level_fns.append((cur, "".join(lines)))
            cur = cm.group(1)
            chain.append(cur)
        if len(level_fns) == 0:
            raise ExtractError("no binary levels found")
        prefix_fn = cur
        # prefix level
        b = normws(fn_body(cp, prefix_fn))
        pm = re.search(r'if let Some\(\(Token::(\w+), rest\)\) = stream\.split_first\(\) \{ let \(rest, right_value\) = '
                       + prefix_fn + r'\(rest\)\?; let value = (u64::from\([^;]*\)); return Ok\(\(rest, value\)\); \}'
                       r' (\w+)\(stream\)', b)
        if not pm:
            raise ExtractError(f"{prefix_fn}: prefix-operator shape not recognised")
        not_tok, not_expr, leaf_fn = pm.group(1), pm.group(2), pm.group(3)
        used_tokens[not_tok] = True
        # leaf
        lb = fn_body(cp, leaf_fn)
        if not re.search(r'if let Some\(\(tok, rest\)\) = stream\.split_first\(\)', normws(lb)):
            raise ExtractError(f"{leaf_fn}: split_first shape not recognised")
        if not normws(lb).endswith("Err(ConditionParseError)"):
            raise ExtractError(f"{leaf_fn}: does not end with Err(ConditionParseError)")
        _, arms_text, _ = first_match(lb, r'^tok$')
        leaf_lines = []
        close_tok = None
        for pats, guard, result in match_arms(arms_text):
            if guard is not None or len(pats) != 1:
                raise ExtractError(f"{leaf_fn}: arm shape unsupported")
            p, r = pats[0], normws(result)
            if p == "_":
                if r != "{}":
                    raise ExtractError(f"{leaf_fn}: default arm {r!r}")
                leaf_lines.append("  | _ => .fail\n")
                continue
            pat, name, binder = tok_pattern(p)
            used_tokens[name] = True
            vm = re.fullmatch(r'return Ok\(\(rest, (\*?\w+)\)\)', r)
            if vm:
                v = vm.group(1)
                if re.fullmatch(r'\d+', v):
                    leaf_lines.append(f"  | {pat} => .value {v}\n")
                elif binder and v == "*" + binder:
                    leaf_lines.append(f"  | {pat} => .value {binder}\n")
                else:
                    raise ExtractError(f"{leaf_fn}: value {v!r}")
                continue
            top = chain[0]
            xm = re.fullmatch(r'\{ let \(rest, inner\) = ' + top + r'\(rest\)\?; if let Some\(\(Token::(\w+), rest\)\) = '
                              r'rest\.split_first\(\) \{ return Ok\(\(rest, inner\)\); \} \}', r)
            if xm:
                close_tok = xm.group(1)
                used_tokens[close_tok] = True
                leaf_lines.append(f"  | {pat} => .paren\n")
                continue
            raise ExtractError(f"{leaf_fn}: arm {p!r} => {r!r} unsupported")
        if close_tok is None:
            raise ExtractError(f"{leaf_fn}: parenthesis arm not found")
        used_tokens["Equals"] = used_tokens.get("Equals", True)

        out.append("/-- the `Token`s the condition parser looks at; every other token is `Other` -/\n"
                   "inductive CTok where\n")
        for name in used_tokens:
            out.append(f"  | {name} {TOKEN_PAYLOAD.get(name, '')}\n".replace(" \n", "\n"))
        out.append("  | Other (text : String)\n  deriving DecidableEq, Repr, Inhabited\n\n")
        out.append("def tokenNames : List String := " + T.lean_list(f'"{n}"' for n in used_tokens) + "\n\n")
        for name, text in level_fns:
            n = name.replace("parse_p", "")
            out.append(f"/-- `{name}::parse_op` -/\ndef parseOp{n} : List CTok → Option (BinOp × List CTok)\n{text}\n")
        out.append("/-- the binary levels from the tightest-binding one up to the top level -/\n"
                   "def levelOps : List (List CTok → Option (BinOp × List CTok)) := " +
                   T.lean_list("parseOp" + n.replace("parse_p", "") for n, _ in reversed(level_fns)) + "\n\n")
        out.append("/-- function chain `parse` → top level → … → prefix level → leaf, as named in the source -/\n"
                   "def levelChain : List String := " + T.lean_list(f'"{c}"' for c in chain + [leaf_fn]) + "\n\n")
        out.append(f"/-- prefix operator of `{prefix_fn}` -/\ndef notTok : CTok := .{not_tok}\n\n")
        ne = u64_from(not_expr, prefix_fn)
        out.append(f"def notApply (right_value : UInt64) : UInt64 := if {ne} then 1 else 0\n\n")
        out.append("inductive LeafKind where\n  | value (v : UInt64)   -- `return Ok((rest, v))`\n"
                   "  | paren                -- parenthesised top-level expression\n"
                   "  | fail                 -- falls through to `Err(ConditionParseError)`\n"
                   "  deriving DecidableEq, Repr, Inhabited\n\n")
        out.append(f"/-- `{leaf_fn}` -/\ndef leafKind : CTok → LeafKind\n" + "".join(leaf_lines) + "\n")
        out.append(f"def closeTok : CTok := .{close_tok}\n\n")
        out.append("/-- `parse`: the condition holds iff the value is non-zero -/\n"
                   "def truthy (value : UInt64) : Bool := decide (value ≠ 0)\n")
        out.append(T.footer("CondTables"))
        return "".join(out)

import RsslVerif.Model.Parse
/-! Table-level facts tying `Gen.FmtTables` (formatter) to `Gen.ParseTables` (parser, lexer). -/
set_option linter.unusedSimpArgs false
namespace RsslVerif.Lemmas.FmtParseTables
open RsslVerif.Gen.FmtTables RsslVerif.Gen.ParseTables RsslVerif.Model.Format RsslVerif.Model.Parse

/-- parser level whose loop consumes a binary operator of formatter precedence `p` -/
def levelOfPrec (p : Nat) : Nat :=
  if p = 5 then 3 else if p = 6 then 4 else if p = 7 then 5 else if p = 9 then 6 else if p = 10 then 7
  else if p = 11 then 8 else if p = 12 then 9 else if p = 13 then 10 else if p = 14 then 11
  else if p = 15 then 12 else if p = 16 then 14 else if p = 17 then 15 else 0

def binLevel (op : BinOp) : Nat := levelOfPrec (binPrec op)

/-- the next token can start an operand: it is not `=`, `<`, `>` (which would extend the operator) -/
def OperandStart : List Tok → Prop
  | [] => True
  | t :: _ => t ≠ .p .Equals ∧ t.isLt = false ∧ t.isGt = false

/-- which terminators let the operator through -/
def TermOk (op : BinOp) (term : Terminator) : Prop :=
  (op = .Sequence → term = .Standard) ∧
  ((op = .RightShift ∨ op = .GreaterThan ∨ op = .GreaterEqual) → term ≠ .TypeList)

/-- the loop of the operator's own level takes exactly the printed tokens and yields the operator -/
theorem parseOpAt_own (op : BinOp) (term : Terminator) (rest : List Tok)
    (hr : OperandStart rest) (ht : TermOk op term) :
    parseOpAt (binLevel op) term (binToks op ++ rest) = some (op, rest) := by
  obtain ⟨ht1, ht2⟩ := ht
  cases rest with
  | nil => cases op <;> cases term <;> simp_all [binLevel, levelOfPrec, binPrec, binToks, parseOpAt, parseOp3, parseOp4, parseOp5,
      parseOp6, parseOp7, parseOp8, parseOp9, parseOp10, parseOp11, parseOp12, parseOp14, parseOp15, firstArm, matchPrefix,
      Tok.isLt, Tok.isGt]
  | cons t rest =>
    obtain ⟨h1, h2, h3⟩ := hr
    cases op <;> cases term <;> simp_all [binLevel, levelOfPrec, binPrec, binToks, parseOpAt, parseOp3, parseOp4, parseOp5,
      parseOp6, parseOp7, parseOp8, parseOp9, parseOp10, parseOp11, parseOp12, parseOp14, parseOp15, firstArm, matchPrefix,
      Tok.isLt, Tok.isGt]

theorem parseOp3_lower (op : BinOp) (term : Terminator) (rest : List Tok)
    (hr : OperandStart rest) (hk : 3 < binLevel op) : parseOp3 term (binToks op ++ rest) = none := by
  cases rest with
  | nil => cases op <;> simp [binLevel, levelOfPrec, binPrec] at hk <;> cases term <;>
      simp [binToks, parseOp3, firstArm, matchPrefix, Tok.isLt, Tok.isGt]
  | cons t rest =>
    obtain ⟨h1, h2, h3⟩ := hr
    cases op <;> simp [binLevel, levelOfPrec, binPrec] at hk <;> cases term <;>
      simp_all [binToks, parseOp3, firstArm, matchPrefix, Tok.isLt, Tok.isGt]

theorem parseOp4_lower (op : BinOp) (term : Terminator) (rest : List Tok)
    (hr : OperandStart rest) (hk : 4 < binLevel op) : parseOp4 term (binToks op ++ rest) = none := by
  cases rest with
  | nil => cases op <;> simp [binLevel, levelOfPrec, binPrec] at hk <;> cases term <;>
      simp [binToks, parseOp4, firstArm, matchPrefix, Tok.isLt, Tok.isGt]
  | cons t rest =>
    obtain ⟨h1, h2, h3⟩ := hr
    cases op <;> simp [binLevel, levelOfPrec, binPrec] at hk <;> cases term <;>
      simp_all [binToks, parseOp4, firstArm, matchPrefix, Tok.isLt, Tok.isGt]

theorem parseOp5_lower (op : BinOp) (term : Terminator) (rest : List Tok)
    (hr : OperandStart rest) (hk : 5 < binLevel op) : parseOp5 term (binToks op ++ rest) = none := by
  cases rest with
  | nil => cases op <;> simp [binLevel, levelOfPrec, binPrec] at hk <;> cases term <;>
      simp [binToks, parseOp5, firstArm, matchPrefix, Tok.isLt, Tok.isGt]
  | cons t rest =>
    obtain ⟨h1, h2, h3⟩ := hr
    cases op <;> simp [binLevel, levelOfPrec, binPrec] at hk <;> cases term <;>
      simp_all [binToks, parseOp5, firstArm, matchPrefix, Tok.isLt, Tok.isGt]

theorem parseOp6_lower (op : BinOp) (term : Terminator) (rest : List Tok)
    (hr : OperandStart rest) (hk : 6 < binLevel op) : parseOp6 term (binToks op ++ rest) = none := by
  cases rest with
  | nil => cases op <;> simp [binLevel, levelOfPrec, binPrec] at hk <;> cases term <;>
      simp [binToks, parseOp6, firstArm, matchPrefix, Tok.isLt, Tok.isGt]
  | cons t rest =>
    obtain ⟨h1, h2, h3⟩ := hr
    cases op <;> simp [binLevel, levelOfPrec, binPrec] at hk <;> cases term <;>
      simp_all [binToks, parseOp6, firstArm, matchPrefix, Tok.isLt, Tok.isGt]

theorem parseOp7_lower (op : BinOp) (term : Terminator) (rest : List Tok)
    (hr : OperandStart rest) (hk : 7 < binLevel op) : parseOp7 term (binToks op ++ rest) = none := by
  cases rest with
  | nil => cases op <;> simp [binLevel, levelOfPrec, binPrec] at hk <;> cases term <;>
      simp [binToks, parseOp7, firstArm, matchPrefix, Tok.isLt, Tok.isGt]
  | cons t rest =>
    obtain ⟨h1, h2, h3⟩ := hr
    cases op <;> simp [binLevel, levelOfPrec, binPrec] at hk <;> cases term <;>
      simp_all [binToks, parseOp7, firstArm, matchPrefix, Tok.isLt, Tok.isGt]

theorem parseOp8_lower (op : BinOp) (term : Terminator) (rest : List Tok)
    (hr : OperandStart rest) (hk : 8 < binLevel op) : parseOp8 term (binToks op ++ rest) = none := by
  cases rest with
  | nil => cases op <;> simp [binLevel, levelOfPrec, binPrec] at hk <;> cases term <;>
      simp [binToks, parseOp8, firstArm, matchPrefix, Tok.isLt, Tok.isGt]
  | cons t rest =>
    obtain ⟨h1, h2, h3⟩ := hr
    cases op <;> simp [binLevel, levelOfPrec, binPrec] at hk <;> cases term <;>
      simp_all [binToks, parseOp8, firstArm, matchPrefix, Tok.isLt, Tok.isGt]

theorem parseOp9_lower (op : BinOp) (term : Terminator) (rest : List Tok)
    (hr : OperandStart rest) (hk : 9 < binLevel op) : parseOp9 term (binToks op ++ rest) = none := by
  cases rest with
  | nil => cases op <;> simp [binLevel, levelOfPrec, binPrec] at hk <;> cases term <;>
      simp [binToks, parseOp9, firstArm, matchPrefix, Tok.isLt, Tok.isGt]
  | cons t rest =>
    obtain ⟨h1, h2, h3⟩ := hr
    cases op <;> simp [binLevel, levelOfPrec, binPrec] at hk <;> cases term <;>
      simp_all [binToks, parseOp9, firstArm, matchPrefix, Tok.isLt, Tok.isGt]

theorem parseOp10_lower (op : BinOp) (term : Terminator) (rest : List Tok)
    (hr : OperandStart rest) (hk : 10 < binLevel op) : parseOp10 term (binToks op ++ rest) = none := by
  cases rest with
  | nil => cases op <;> simp [binLevel, levelOfPrec, binPrec] at hk <;> cases term <;>
      simp [binToks, parseOp10, firstArm, matchPrefix, Tok.isLt, Tok.isGt]
  | cons t rest =>
    obtain ⟨h1, h2, h3⟩ := hr
    cases op <;> simp [binLevel, levelOfPrec, binPrec] at hk <;> cases term <;>
      simp_all [binToks, parseOp10, firstArm, matchPrefix, Tok.isLt, Tok.isGt]

theorem parseOp11_lower (op : BinOp) (term : Terminator) (rest : List Tok)
    (hr : OperandStart rest) (hk : 11 < binLevel op) : parseOp11 term (binToks op ++ rest) = none := by
  cases rest with
  | nil => cases op <;> simp [binLevel, levelOfPrec, binPrec] at hk <;> cases term <;>
      simp [binToks, parseOp11, firstArm, matchPrefix, Tok.isLt, Tok.isGt]
  | cons t rest =>
    obtain ⟨h1, h2, h3⟩ := hr
    cases op <;> simp [binLevel, levelOfPrec, binPrec] at hk <;> cases term <;>
      simp_all [binToks, parseOp11, firstArm, matchPrefix, Tok.isLt, Tok.isGt]

theorem parseOp12_lower (op : BinOp) (term : Terminator) (rest : List Tok)
    (hr : OperandStart rest) (hk : 12 < binLevel op) : parseOp12 term (binToks op ++ rest) = none := by
  cases rest with
  | nil => cases op <;> simp [binLevel, levelOfPrec, binPrec] at hk <;> cases term <;>
      simp [binToks, parseOp12, firstArm, matchPrefix, Tok.isLt, Tok.isGt]
  | cons t rest =>
    obtain ⟨h1, h2, h3⟩ := hr
    cases op <;> simp [binLevel, levelOfPrec, binPrec] at hk <;> cases term <;>
      simp_all [binToks, parseOp12, firstArm, matchPrefix, Tok.isLt, Tok.isGt]

theorem parseOp14_lower (op : BinOp) (term : Terminator) (rest : List Tok)
    (hr : OperandStart rest) (hk : 14 < binLevel op) : parseOp14 term (binToks op ++ rest) = none := by
  cases rest with
  | nil => cases op <;> simp [binLevel, levelOfPrec, binPrec] at hk <;> cases term <;>
      simp [binToks, parseOp14, firstArm, matchPrefix, Tok.isLt, Tok.isGt]
  | cons t rest =>
    obtain ⟨h1, h2, h3⟩ := hr
    cases op <;> simp [binLevel, levelOfPrec, binPrec] at hk <;> cases term <;>
      simp_all [binToks, parseOp14, firstArm, matchPrefix, Tok.isLt, Tok.isGt]

/-- no loop below the operator's own level takes the printed tokens -/
theorem parseOpAt_lower (op : BinOp) (term : Terminator) (rest : List Tok) (k : Nat)
    (hr : OperandStart rest) (hk : k < binLevel op) :
    parseOpAt k term (binToks op ++ rest) = none := by
  have hL : binLevel op ≤ 15 := by cases op <;> decide
  unfold parseOpAt
  split
  · exact parseOp3_lower op term rest hr hk
  · exact parseOp4_lower op term rest hr hk
  · exact parseOp5_lower op term rest hr hk
  · exact parseOp6_lower op term rest hr hk
  · exact parseOp7_lower op term rest hr hk
  · exact parseOp8_lower op term rest hr hk
  · exact parseOp9_lower op term rest hr hk
  · exact parseOp10_lower op term rest hr hk
  · exact parseOp11_lower op term rest hr hk
  · exact parseOp12_lower op term rest hr hk
  · exact parseOp14_lower op term rest hr hk
  · omega
  · rfl

/-- tokens no operator loop takes: closing brackets, `:`, `?`, and `,` under the `Sequence` terminator -/
def Closer (term : Terminator) : Tok → Prop
  | .p .RightParen => True
  | .p .RightSquareBracket => True
  | .p .Colon => True
  | .p .QuestionMark => True
  | .p .Semicolon => True
  | .p .Comma => term = .Sequence
  | _ => False

theorem parseOpAt_closer (term : Terminator) (t : Tok) (rest : List Tok) (k : Nat) (h : Closer term t) :
    parseOpAt k term (t :: rest) = none := by
  unfold parseOpAt
  split <;> (try rfl) <;>
  · cases t with
    | p p => cases p <;> simp_all [Closer, parseOp3, parseOp4, parseOp5, parseOp6, parseOp7, parseOp8, parseOp9, parseOp10,
        parseOp11, parseOp12, parseOp14, parseOp15, firstArm, matchPrefix, Tok.isLt, Tok.isGt]
    | _ => simp_all [Closer]

theorem parseOpAt_nil (term : Terminator) (k : Nat) : parseOpAt k term [] = none := by
  unfold parseOpAt
  split <;> simp [parseOp3, parseOp4, parseOp5, parseOp6, parseOp7, parseOp8, parseOp9, parseOp10,
        parseOp11, parseOp12, parseOp14, parseOp15, firstArm, matchPrefix]

/-! ## Literals: precedence (e7611e2) -/

theorem needParen_top_lit (l : Lit) : needParen (litPrec l) topPrec topSide = false := by
  unfold litPrec; split <;> decide

/-- a literal that prints as one token reading back as itself is not negative -/
theorem litOk_not_negative (l : Lit) (h : LitOk l = true) : litNegative l = false := by
  obtain ⟨kind, neg, mag⟩ := l
  cases neg with
  | false => simp [litNegative]
  | true =>
    cases kind <;> simp [LitOk, litPieces, floatPieces, litNegative, negLiteralKinds] at h ⊢ <;>
      (split at h <;> simp_all) <;>
      (rename_i heq; split at heq <;> simp [minusPiece] at heq)

theorem litPrec_of_ok (l : Lit) (h : LitOk l = true) : litPrec l = precLiteral := by
  simp [litPrec, litOk_not_negative l h]

end RsslVerif.Lemmas.FmtParseTables

import RsslVerif.Gen.MslGenTables
import RsslVerif.Model.GenHlsl
import RsslVerif.Model.MslAst
import RsslVerif.Model.MslDupIr
/-!
# `Model.GenMsl` — model of the expression / statement / function half of `msl/src/generator.rs` (scalar subset)

`genLiteral` ↔ `generate_literal` (arm table `mslLiteralArms`, re-extracted), `genExpr`/`genArgs`/`genSeq` ↔
`generate_expression` (+ `generate_intrinsic_op` through `mslOpForm`, `generate_user_call` with
`append_arguments_for_globals`, `generate_invoke_simple`), `genStmt`/`genStmtsAcc` ↔ `generate_statement` /
`generate_scope_block`, `genForInit`, `genVarDef`, `genFuncInner` ↔ `generate_function_inner`, `trampolineBody` ↔
`generate_function_out_trampoline_body`, `genFuncs` ↔ `generate_function_and_trampoline`.
Every Rust panic on these paths is an explicit `Except.error (.panic …)`, every `return Err(GenerateError::e)` an
`Except.error (.diag e)` (since fix batch 2: `IntLiteralOutOfRange` 6017bad, `UnsupportedDouble` 9824ce3 — no modelled constant
is a double —, `ComplexTypeBind` 922a181 in `generate_for_init`; fix batch 3: `ComplexRemainderAssignment` 92d66eb + 35faaaa for a
floating-point `%=` whose target is not a plain place or whose right operand may write).  What the exporter reads from its context
(names, types, `function_required_globals`, `called_functions`) is the parameter `Ctx`.
-/
namespace RsslVerif.Model.GenMsl
open RsslVerif.Gen.HlslGenTables RsslVerif.Gen.MslGenTables RsslVerif.Model
open RsslVerif.Model.Ir (Ty Var Const Dir)
open RsslVerif.Model.GenHlsl (GenErr guardHolds mkLit negMagnitude scalarKey)

/-- what the Metal exporter reads from the module registries, its `NameMap` and `analyse_globals` -/
structure Ctx where
  locName : Nat → String
  globName : Nat → String
  funcName : Nat → String
  vty : Var → Ty
  /-- `FunctionSignature::return_type` of a user function -/
  retTy : Nat → Option Ty
  /-- `function_required_globals.get(&id)`: the sorted globals passed as extra reference parameters (`none` = no entry) -/
  req : Nat → Option (List Nat)
  /-- `called_functions.contains(&id)` -/
  called : Nat → Bool

def Ctx.name (cx : Ctx) : Var → String
  | .loc n => cx.locName n
  | .glob n => cx.globName n

/-- `generate_scalar_type` through the re-extracted table: literal types panic, `double` is a diagnostic -/
def typeName (t : Ty) : Except GenErr String :=
  match scalarKey t with
  | none => .ok "void"
  | some k =>
    match mslScalarTypeName.find? (fun p => p.1 == k) with
    | some (_, some (some n)) => .ok n
    | some (_, some none) => .error (.panic "generate_scalar_type: literal type should not be required on output")
    | some (_, none) => .error (.unsupported "diagnostic: unsupported scalar type")
    | none => .error (.unsupported "scalar type")

/-- first arm of `match *literal` that applies -/
def findArm (k : ConstKind) (v : Int) : Option LitArm :=
  (mslLiteralArms.find? fun a => a.1 == k && guardHolds a.2.1 v).map (·.2.2)

/-- `generate_literal` -/
def genLiteral (c : Const) : Except GenErr HlslAst.Expr :=
  match findArm c.kind (GenHlsl.Const.intValue c) with
  | none => .error (.unsupported "no arm")
  | some .panics => .error (.panic "generate_literal: cannot represent")
  | some (.errs e) => .error (.diag e)
  | some .enumLookup => .error (.unsupported "enum")
  | some (.plain k) => (mkLit k c).map .lit
  | some (.widen k) => (mkLit k c).map .lit
  | some (.negMinus k) =>
    match k, negMagnitude true c with
    | .IntUntyped, .ok m => .ok (.un .Minus (.lit (.intUntyped m)))
    | _, .ok _ => .error (.unsupported "negMinus kind")
    | _, .error e => .error e
  | some (.negMinusAbs k) =>
    match k, negMagnitude false c with
    | .IntUntyped, .ok m => .ok (.un .Minus (.lit (.intUntyped m)))
    | _, .ok _ => .error (.unsupported "negMinus kind")
    | _, .error e => .error e

/-- result type of a typed operator given the type of its first operand (`IntrinsicOp::get_return_type`) -/
def opRetTy (o : IntrinsicOp) (t : Ty) : Ty :=
  match o with
  | .LogicalNot | .LessThan | .LessEqual | .GreaterThan | .GreaterEqual | .Equality | .Inequality => .bool
  | _ => t

mutual
/-- `Expression::get_type` (scalar part), as far as `generate_intrinsic_op` consults it -/
def exprTy (cx : Ctx) : Ir.Expr → Option Ty
  | .lit c => some c.ty
  | .var id => some (cx.vty (.loc id))
  | .global id => some (cx.vty (.glob id))
  | .cast ty _ => some ty
  | .tern _ t _ => exprTy cx t
  | .seq es => exprTyLast cx es
  | .call f _ => cx.retTy f
  | .intr _ _ ret _ => some ret
  | .op o args =>
    match args with
    | .nil => none
    | .cons a _ => (exprTy cx a).map (opRetTy o)
def exprTyLast (cx : Ctx) : Ir.Exprs → Option Ty
  | .nil => none
  | .cons e r =>
    match r with
    | .nil => exprTy cx e
    | .cons _ _ => exprTyLast cx r
end

/-- the scalar type of the first operand is one of those the arm routes to the library call -/
def scalarIn (scalars : List String) (t : Ty) : Bool :=
  match scalarKey t with
  | some k => scalars.contains k
  | none => false

/-- `is_plain_place` on the scalar subset (fix 92d66eb), through the re-extracted table: locals, parameters and globals are
plain places; the other constructors of the subset (operators, `?:`, sequences, casts, calls, literals) have no arm -/
def plainPlace (e : Ir.Expr) : Bool := MslDup.plainPlaceD (MslDup.toD e)

/-- `is_free_of_writes` on the scalar subset (fix 35faaaa), through the re-extracted table: no call, assignment, increment
or sequence anywhere in the operand -/
def freeOfWrites (e : Ir.Expr) : Bool := MslDup.freeOfWritesD (MslDup.toD e)

/-- `!is_plain_place(&exprs[0]) || !is_free_of_writes(&exprs[1])` does not refuse (`exprs[1]` on one operand: index out of
bounds; the type checker builds the operator with two) -/
def remOperandsOK : Ir.Exprs → Except GenErr Bool
  | .nil => .error (.panic "generate_intrinsic_op: index out of bounds")
  | .cons a .nil => if plainPlace a then .error (.panic "generate_intrinsic_op: index out of bounds") else .ok false
  | .cons a (.cons b _) => .ok (plainPlace a && freeOfWrites b)

/-- `exprs[0].get_type(context.module).unwrap()` -/
def exprTyHead (cx : Ctx) : Ir.Exprs → Except GenErr Ty
  | .nil => .error (.panic "generate_intrinsic_op: index out of bounds")
  | .cons a _ =>
    match exprTy cx a with
    | none => .error (.panic "generate_intrinsic_op: called `Result::unwrap()` on an `Err` value")
    | some t => .ok t

/-- `metal_lib_identifier(name)` printed as a scoped identifier -/
def metalLib (name : String) : String := metalLibPrefix ++ "::" ++ name

/-- the arguments `append_arguments_for_globals` pushes: the globals' names, in list order -/
def globalArgs (cx : Ctx) : List Nat → HlslAst.Exprs
  | [] => .nil
  | g :: r => .cons (.ident (cx.globName g)) (globalArgs cx r)

def appendArgs : HlslAst.Exprs → HlslAst.Exprs → HlslAst.Exprs
  | .nil, b => b
  | .cons e r, b => .cons e (appendArgs r b)

mutual
/-- `generate_expression` -/
def genExpr (cx : Ctx) : Ir.Expr → Except GenErr HlslAst.Expr
  | .lit c => genLiteral c
  | .var id => .ok (.ident (cx.locName id))
  | .global id => .ok (.ident (cx.globName id))
  | .tern c t f =>
    match genExpr cx c with
    | .error e => .error e
    | .ok c' =>
      match genExpr cx t with
      | .error e => .error e
      | .ok t' =>
        match genExpr cx f with
        | .error e => .error e
        | .ok f' => .ok (.tern c' t' f')
  | .seq es =>
    match es with
    | .nil => .error (.panic "generate_expression: assertion failed: exprs.len() >= 2")
    | .cons _ .nil => .error (.panic "generate_expression: assertion failed: exprs.len() >= 2")
    | .cons _ (.cons _ _) => genSeq cx es
  | .cast ty e =>
    match genExpr cx e with
    | .error err => .error err
    | .ok inner =>
      if ty = .lit ∨ ty = .flit then .ok inner
      else
        match typeName ty with
        | .error err => .error err
        | .ok n => .ok (.cast n inner)
  | .call f args =>
    -- generate_user_call: user arguments, then the callee's arguments for globals
    match genArgs cx args with
    | .error e => .error e
    | .ok as =>
      match cx.req f with
      | none => .error (.panic "generate_user_call: called `Option::unwrap()` on a `None` value")
      | some gs => .ok (.call (cx.funcName f) (appendArgs as (globalArgs cx gs)))
  | .intr _ _ _ _ => .error (.unsupported "intrinsic function")
  | .op o args =>
    match mslOpForm o with
    | .special => .error (.unsupported "MakeSigned helper")
    | .meshMethod => .error (.unsupported "mesh output")
    | .meshHelper => .error (.unsupported "mesh output")
    | .unary u =>
      match args with
      | .cons a .nil =>
        match genExpr cx a with
        | .error e => .error e
        | .ok a' => .ok (.un u a')
      | _ => .error (.panic "generate_intrinsic_op: assertion failed: exprs.len() == 1")
    | .binary b => genBinary cx b args
    | .floatCall name scalars b =>
      match args with
      | .nil => .error (.panic "generate_intrinsic_op: index out of bounds")
      | .cons a _ =>
        match exprTy cx a with
        | none => .error (.panic "generate_intrinsic_op: called `Result::unwrap()` on an `Err` value")
        | some t =>
          if scalarIn scalars t then
            match genArgs cx args with
            | .error e => .error e
            | .ok as => .ok (.call (metalLib name) as)
          else genBinary cx b args
    | .floatAssign scalars err outer inner b =>
      -- fixes 92d66eb + 35faaaa: on a floating-point first operand `a op= y` is generated as
      -- `IntrinsicOp(outer, [a, IntrinsicOp(inner, exprs)])` (`a = a % y`, whose `%` becomes `metal::fmod`), provided `a` is a plain
      -- place and `y` is free of writes; otherwise `Err(err)`
      match exprTyHead cx args with
      | .error e => .error e
      | .ok t =>
        if scalarIn scalars t then
          match remOperandsOK args with
          | .error e => .error e
          | .ok false => .error (.diag err)
          | .ok true =>
            match mslOpForm outer with
            | .binary bo =>
              match genHead cx args with
              | .error e => .error e
              | .ok a' =>
                match mslOpForm inner with
                | .floatCall name sc bi =>
                  if scalarIn sc t then
                    match genArgs cx args with
                    | .error e => .error e
                    | .ok as => .ok (.bin bo a' (.call (metalLib name) as))
                  else
                    match genBinary cx bi args with
                    | .error e => .error e
                    | .ok v => .ok (.bin bo a' v)
                | .binary bi =>
                  match genBinary cx bi args with
                  | .error e => .error e
                  | .ok v => .ok (.bin bo a' v)
                | _ => .error (.unsupported "float assign: form of the inner operator")
            | _ => .error (.unsupported "float assign: form of the outer operator")
        else genBinary cx b args
/-- `generate_expression(&exprs[0], …)` -/
def genHead (cx : Ctx) : Ir.Exprs → Except GenErr HlslAst.Expr
  | .nil => .error (.panic "generate_intrinsic_op: index out of bounds")
  | .cons a _ => genExpr cx a
/-- `Form::Binary(op)` -/
def genBinary (cx : Ctx) (b : BinOp) : Ir.Exprs → Except GenErr HlslAst.Expr
  | .cons x (.cons y .nil) =>
    match genExpr cx x with
    | .error e => .error e
    | .ok x' =>
      match genExpr cx y with
      | .error e => .error e
      | .ok y' => .ok (.bin b x' y')
  | _ => .error (.panic "generate_intrinsic_op: assertion failed: exprs.len() == 2")
/-- the `Sequence` arm: the last element first, then the front in reverse, right-nested -/
def genSeq (cx : Ctx) : Ir.Exprs → Except GenErr HlslAst.Expr
  | .nil => .error (.panic "generate_expression: called `Option::unwrap()` on a `None` value")
  | .cons e r =>
    match r with
    | .nil => genExpr cx e
    | .cons _ _ =>
      match genSeq cx r with
      | .error err => .error err
      | .ok tail =>
        match genExpr cx e with
        | .error err => .error err
        | .ok a => .ok (.bin .Sequence a tail)
/-- `generate_invocation_args` -/
def genArgs (cx : Ctx) : Ir.Exprs → Except GenErr HlslAst.Exprs
  | .nil => .ok .nil
  | .cons e r =>
    match genExpr cx e with
    | .error err => .error err
    | .ok a =>
      match genArgs cx r with
      | .error err => .error err
      | .ok as => .ok (.cons a as)
end

def genOptExpr (cx : Ctx) : Option Ir.Expr → Except GenErr (Option HlslAst.Expr)
  | none => .ok none
  | some e => (genExpr cx e).map some

/-- `generate_variable_definition` (type name, emitted name, initialiser) -/
def genVarDef (cx : Ctx) (id : Nat) (init : Option Ir.Expr) : Except GenErr (String × String × Option HlslAst.Expr) :=
  match typeName (cx.vty (.loc id)) with
  | .error e => .error e
  | .ok tn =>
    match genOptExpr cx init with
    | .error e => .error e
    | .ok i => .ok (tn, cx.locName id, i)

/-- the tail of `generate_for_init`'s `Definitions` arm: every further definition must have the same base type, otherwise
the export is refused with `Err(GenerateError::ComplexTypeBind)` (since fix 922a181; an `assert_eq!` before) -/
def genForDefs (cx : Ctx) (ty : String) : List (Nat × Option Ir.Expr) → Except GenErr (List (String × Option HlslAst.Expr))
  | [] => .ok []
  | (id, init) :: r =>
    match genVarDef cx id init with
    | .error e => .error e
    | .ok (tn, name, i) =>
      if tn ≠ ty then .error (.diag "ComplexTypeBind")
      else
        match genForDefs cx ty r with
        | .error e => .error e
        | .ok ds => .ok ((name, i) :: ds)

/-- `generate_for_init` -/
def genForInit (cx : Ctx) : Ir.ForInit → Except GenErr HlslAst.ForInit
  | .empty => .ok .empty
  | .expr e => (genExpr cx e).map .expr
  | .defs [] => .error (.panic "generate_for_init: called `Option::unwrap()` on a `None` value")
  | .defs ((id, init) :: r) =>
    match genVarDef cx id init with
    | .error e => .error e
    | .ok (tn, name, i) =>
      match genForDefs cx tn r with
      | .error e => .error e
      | .ok ds => .ok (.decl tn ((name, i) :: ds))

mutual
/-- `generate_statement` -/
def genStmt (cx : Ctx) : Ir.Stmt → Except GenErr HlslAst.Stmt
  | .expr e => (genExpr cx e).map .expr
  | .var id init =>
    match genVarDef cx id init with
    | .error e => .error e
    | .ok (tn, name, i) => .ok (.var tn name i)
  | .block b => (genStmtsAcc cx b .nil).map .block
  | .ifThen c b =>
    match genExpr cx c with
    | .error e => .error e
    | .ok c' =>
      match genStmtsAcc cx b .nil with
      | .error e => .error e
      | .ok b' => .ok (.ifThen c' (.block b'))
  | .ifElse c t f =>
    match genExpr cx c with
    | .error e => .error e
    | .ok c' =>
      match genStmtsAcc cx t .nil with
      | .error e => .error e
      | .ok t' =>
        match genStmtsAcc cx f .nil with
        | .error e => .error e
        | .ok f' => .ok (.ifElse c' (.block t') (.block f'))
  | .for init cond inc b =>
    match genForInit cx init with
    | .error e => .error e
    | .ok init' =>
      match genOptExpr cx cond with
      | .error e => .error e
      | .ok cond' =>
        match genOptExpr cx inc with
        | .error e => .error e
        | .ok inc' =>
          match genStmtsAcc cx b .nil with
          | .error e => .error e
          | .ok b' => .ok (.for init' cond' inc' (.block b'))
  | .while c b =>
    match genExpr cx c with
    | .error e => .error e
    | .ok c' =>
      match genStmtsAcc cx b .nil with
      | .error e => .error e
      | .ok b' => .ok (.while c' (.block b'))
  | .doWhile b c =>
    match genStmtsAcc cx b .nil with
    | .error e => .error e
    | .ok b' =>
      match genExpr cx c with
      | .error e => .error e
      | .ok c' => .ok (.doWhile (.block b') c')
  | .break => .ok .break
  | .continue => .ok .continue
  | .ret e => (genOptExpr cx e).map .ret
  | .switch _ c b =>
    match genExpr cx c with
    | .error e => .error e
    | .ok c' =>
      match genStmtsAcc cx b .nil with
      | .error e => .error e
      | .ok b' => .ok (.switch c' (.block b'))
  | .caseLabel c =>
    match genLiteral c with
    | .error e => .error e
    | .ok e => .ok (.caseLabel e .empty)
  | .defaultLabel => .ok (.defaultLabel .empty)
/-- the loop of `generate_scope_block`: `acc` = the statements pushed so far -/
def genStmtsAcc (cx : Ctx) : Ir.Stmts → HlslAst.Stmts → Except GenErr HlslAst.Stmts
  | .nil, acc => .ok acc
  | .cons s r, acc =>
    match genStmt cx s with
    | .error e => .error e
    | .ok s' => genStmtsAcc cx r (HlslAst.pushStmt acc s')
end

/-- `generate_scope_block` -/
def genStmts (cx : Ctx) (b : Ir.Stmts) : Except GenErr HlslAst.Stmts := genStmtsAcc cx b .nil

/-- the body loop of `generate_function_inner`: one `generate_statement` per statement, pushed as it is -/
def genBody (cx : Ctx) : Ir.Stmts → Except GenErr HlslAst.Stmts
  | .nil => .ok .nil
  | .cons s r =>
    match genStmt cx s with
    | .error e => .error e
    | .ok s' =>
      match genBody cx r with
      | .error e => .error e
      | .ok r' => .ok (.cons s' r')

/-! ## functions, parameters for globals, the out/inout trampoline -/

def tagType : String := metalLib "true_type"

/-- address space of the reference parameters of the subset (`AddressSpace::Thread`: out/inout parameters and static globals) -/
def threadSpace : String := "thread"

/-- `generate_function_param` (no semantic, no default in the subset) -/
def genParam (cx : Ctx) (p : Nat × Dir × Ty) : Except GenErr MslAst.Param :=
  match typeName p.2.2 with
  | .error e => .error e
  | .ok tn => if p.2.1 = .in_ then .ok (.val tn (cx.locName p.1)) else .ok (.ref threadSpace tn (cx.locName p.1))

def genParams (cx : Ctx) : List (Nat × Dir × Ty) → Except GenErr (List MslAst.Param)
  | [] => .ok []
  | p :: r =>
    match genParam cx p with
    | .error e => .error e
    | .ok a =>
      match genParams cx r with
      | .error e => .error e
      | .ok as => .ok (a :: as)

/-- the parameter `analyse_globals` prepared for a static global: `thread T& name` -/
def genGlobalParams (cx : Ctx) : List Nat → Except GenErr (List MslAst.Param)
  | [] => .ok []
  | g :: r =>
    match typeName (cx.vty (.glob g)) with
    | .error e => .error e
    | .ok tn =>
      match genGlobalParams cx r with
      | .error e => .error e
      | .ok as => .ok (.ref threadSpace tn (cx.globName g) :: as)

def trampLocal (cx : Ctx) (id : Nat) : String := trampolineLocalPrefix ++ cx.locName id

/-- the declarations of the trampoline: one local per out/inout parameter, copied in only for inout -/
def trampDecls (cx : Ctx) : List (Nat × Dir × Ty) → Except GenErr HlslAst.Stmts
  | [] => .ok .nil
  | (id, d, t) :: r =>
    match trampDecls cx r with
    | .error e => .error e
    | .ok rest =>
      if d = .in_ then .ok rest
      else
        match typeName t with
        | .error e => .error e
        | .ok tn => .ok (.cons (.var tn (trampLocal cx id) (if d = .inout then some (.ident (cx.locName id)) else none)) rest)

/-- the copies back, in parameter order -/
def trampCopyOut (cx : Ctx) : List (Nat × Dir × Ty) → HlslAst.Stmts
  | [] => .nil
  | (id, d, _) :: r =>
    if d = .in_ then trampCopyOut cx r
    else .cons (.expr (.bin .Assignment (.ident (cx.locName id)) (.ident (trampLocal cx id)))) (trampCopyOut cx r)

/-- the user arguments of the inner call: the parameter itself for `in`, the local otherwise -/
def trampArgs (cx : Ctx) : List (Nat × Dir × Ty) → HlslAst.Exprs
  | [] => .nil
  | (id, d, _) :: r => .cons (.ident (if d = .in_ then cx.locName id else trampLocal cx id)) (trampArgs cx r)

def appendStmts : HlslAst.Stmts → HlslAst.Stmts → HlslAst.Stmts
  | .nil, b => b
  | .cons s r, b => .cons s (appendStmts r b)

/-- `generate_function_out_trampoline_body` -/
def trampolineBody (cx : Ctx) (fn : Ir.Func) (rt : String) (gs : List Nat) : Except GenErr HlslAst.Stmts :=
  match trampDecls cx fn.params with
  | .error e => .error e
  | .ok decls =>
    let args := appendArgs (trampArgs cx fn.params) (.cons (.call tagType .nil) (globalArgs cx gs))
    let call : HlslAst.Expr := .call (cx.funcName fn.id) args
    let needsReturn := fn.ret ≠ .void
    let callStmt : HlslAst.Stmt := if needsReturn then .var rt trampolineResultName (some call) else .expr call
    let tail : HlslAst.Stmts := if needsReturn then .cons (.ret (some (.ident trampolineResultName))) .nil else .nil
    .ok (appendStmts decls (.cons callStmt (appendStmts (trampCopyOut cx fn.params) tail)))

/-- `generate_function_inner(id, false, trampoline_target, out_trampoline)` -/
def genFuncInner (cx : Ctx) (fn : Ir.Func) (target tramp : Bool) : Except GenErr MslAst.Func :=
  match typeName fn.ret with
  | .error e => .error e
  | .ok rt =>
    match cx.req fn.id with
    | none => .error (.panic "generate_function_inner: called `Option::unwrap()` on a `None` value")
    | some gs =>
      match genParams cx fn.params with
      | .error e => .error e
      | .ok ps =>
        match genGlobalParams cx gs with
        | .error e => .error e
        | .ok gps =>
          match (if tramp then trampolineBody cx fn rt gs else genBody cx fn.body) with
          | .error e => .error e
          | .ok body =>
            .ok { name := cx.funcName fn.id, ret := rt,
                  params := ps ++ (if target then [MslAst.Param.tag tagType] else []) ++ gps, body := body }

def hasOut (fn : Ir.Func) : Bool := fn.params.any fun p => decide (p.2.1 ≠ .in_)

def needsTrampoline (cx : Ctx) (fn : Ir.Func) : Bool := hasOut fn && cx.called fn.id

/-- `generate_function_and_trampoline` (definitions): the function itself (as trampoline target when one is needed),
then the trampoline -/
def genFuncs (cx : Ctx) (fn : Ir.Func) : Except GenErr (List MslAst.Func) :=
  match genFuncInner cx fn (needsTrampoline cx fn) false with
  | .error e => .error e
  | .ok f =>
    if needsTrampoline cx fn then
      match genFuncInner cx fn false true with
      | .error e => .error e
      | .ok t => .ok [f, t]
    else .ok [f]

/-- the function definitions of `generate_root_definitions`, in order -/
def genProg (cx : Ctx) : List Ir.Func → Except GenErr (List MslAst.Func)
  | [] => .ok []
  | fn :: r =>
    match genFuncs cx fn with
    | .error e => .error e
    | .ok a =>
      match genProg cx r with
      | .error e => .error e
      | .ok as => .ok (a ++ as)

/-! ## what `analyse_globals` hands to the generator, recomputed for the scalar subset

`function_required_globals` = the parameter-mode globals a function (transitively, through calls) mentions, sorted;
`called_functions` = the functions some function calls.  (The general analysis — every syntactic position, default
arguments, initialisers, the fixpoint loop and its termination — is `Model.Usage`, the logic half of C02; here the same
result is recomputed directly on `Model.Ir` so that the executable model of the exporter is complete.) -/

def insertSorted (n : Nat) : List Nat → List Nat
  | [] => [n]
  | m :: r => if n < m then n :: m :: r else if n = m then m :: r else m :: insertSorted n r

def sortDedup (l : List Nat) : List Nat := l.foldr insertSorted []

mutual
/-- (globals mentioned, user functions called) -/
def exprUses : Ir.Expr → List Nat × List Nat
  | .lit _ => ([], [])
  | .var _ => ([], [])
  | .global g => ([g], [])
  | .op _ args => exprsUses args
  | .tern c t f =>
    let (a, b) := exprUses c; let (c1, d) := exprUses t; let (e, f') := exprUses f
    (a ++ c1 ++ e, b ++ d ++ f')
  | .seq es => exprsUses es
  | .cast _ e => exprUses e
  | .call f args => let (a, b) := exprsUses args; (a, f :: b)
  | .intr _ _ _ args => exprsUses args
def exprsUses : Ir.Exprs → List Nat × List Nat
  | .nil => ([], [])
  | .cons e r => let (a, b) := exprUses e; let (c, d) := exprsUses r; (a ++ c, b ++ d)
end

def optUses : Option Ir.Expr → List Nat × List Nat
  | none => ([], [])
  | some e => exprUses e

def defsUses : List (Nat × Option Ir.Expr) → List Nat × List Nat
  | [] => ([], [])
  | d :: r => let (a, b) := optUses d.2; let (c, e) := defsUses r; (a ++ c, b ++ e)

def forInitUses : Ir.ForInit → List Nat × List Nat
  | .empty => ([], [])
  | .expr e => exprUses e
  | .defs ds => defsUses ds

def pairAppend (x y : List Nat × List Nat) : List Nat × List Nat := (x.1 ++ y.1, x.2 ++ y.2)

mutual
def stmtUses : Ir.Stmt → List Nat × List Nat
  | .expr e => exprUses e
  | .var _ i => optUses i
  | .block b => stmtsUses b
  | .ifThen c b => pairAppend (exprUses c) (stmtsUses b)
  | .ifElse c t f => pairAppend (exprUses c) (pairAppend (stmtsUses t) (stmtsUses f))
  | .for i c n b => pairAppend (forInitUses i) (pairAppend (optUses c) (pairAppend (optUses n) (stmtsUses b)))
  | .while c b => pairAppend (exprUses c) (stmtsUses b)
  | .doWhile b c => pairAppend (stmtsUses b) (exprUses c)
  | .break => ([], [])
  | .continue => ([], [])
  | .ret e => optUses e
  | .switch _ c b => pairAppend (exprUses c) (stmtsUses b)
  | .caseLabel _ => ([], [])
  | .defaultLabel => ([], [])
def stmtsUses : Ir.Stmts → List Nat × List Nat
  | .nil => ([], [])
  | .cons s r => pairAppend (stmtUses s) (stmtsUses r)
end

/-- one pass of the closure: a function needs what it mentions and what its callees need so far -/
def reqStep (prog : List Ir.Func) (paramMode : Nat → Bool) (cur : Nat → List Nat) (f : Nat) : List Nat :=
  match prog.find? (fun fn => fn.id == f) with
  | none => []
  | some fn =>
    let u := stmtsUses fn.body
    sortDedup (u.1.filter paramMode ++ u.2.flatMap cur)

def reqIter (prog : List Ir.Func) (paramMode : Nat → Bool) : Nat → Nat → List Nat
  | 0 => fun _ => []
  | n + 1 => reqStep prog paramMode (reqIter prog paramMode n)

/-- `function_required_globals` for the functions of `prog` (call depth is below the number of functions + 1) -/
def reqOf (prog : List Ir.Func) (paramMode : Nat → Bool) (f : Nat) : Option (List Nat) :=
  if prog.any (fun fn => fn.id == f) then some (reqIter prog paramMode (prog.length + 1) f) else none

/-- `called_functions` -/
def calledOf (prog : List Ir.Func) (f : Nat) : Bool :=
  prog.any fun fn => (stmtsUses fn.body).2.contains f

end RsslVerif.Model.GenMsl

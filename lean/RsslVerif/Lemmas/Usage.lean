import RsslVerif.Model.Usage
import RsslVerif.Spec.Usage
/-!
# Lemmas about the usage fixpoint loop (C02)

A pure shadow of the `Except` model (`unionP`, `stepP`, `sweepP`, `recP`), the loop invariant `Inv`, the measure
`total`, and the agreement of the `Except` model with its shadow on closed tables.
-/
namespace RsslVerif.Lemmas.Usage
open RsslVerif.Model.Usage RsslVerif.Spec.Usage

/-! ## sets -/

theorem mem_insertSym {s : SymSet} {x y : Sym} : y ∈ insertSym s x ↔ y ∈ s ∨ y = x := by
  unfold insertSym
  split
  · constructor
    · intro h; exact .inl h
    · rintro (h | h)
      · exact h
      · subst h; assumption
  · simp

theorem mem_extend {xs : List Sym} : ∀ {s : SymSet} {y : Sym}, y ∈ extend s xs ↔ y ∈ s ∨ y ∈ xs := by
  induction xs with
  | nil => intro s y; simp [extend]
  | cons x xs ih =>
    intro s y
    simp only [extend, ih, mem_insertSym, List.mem_cons]
    constructor
    · rintro ((h | h) | h)
      · exact .inl h
      · exact .inr (.inl h)
      · exact .inr (.inr h)
    · rintro (h | h | h)
      · exact .inl (.inl h)
      · exact .inl (.inr h)
      · exact .inr h

theorem insertSym_append (s : SymSet) (x : Sym) : ∃ r, insertSym s x = s ++ r := by
  unfold insertSym
  split
  · exact ⟨[], by simp⟩
  · exact ⟨[x], rfl⟩

theorem extend_append (xs : List Sym) : ∀ s : SymSet, ∃ r, extend s xs = s ++ r := by
  induction xs with
  | nil => intro s; exact ⟨[], by simp [extend]⟩
  | cons x xs ih =>
    intro s
    obtain ⟨r₁, h₁⟩ := insertSym_append s x
    obtain ⟨r₂, h₂⟩ := ih (insertSym s x)
    exact ⟨r₁ ++ r₂, by simp only [extend]; rw [h₂, h₁, List.append_assoc]⟩

theorem nodup_insertSym {s : SymSet} {x : Sym} (h : s.Nodup) : (insertSym s x).Nodup := by
  unfold insertSym
  split
  · exact h
  · rename_i hx
    rw [List.nodup_append]
    refine ⟨h, by simp, ?_⟩
    intro a ha b hb
    simp at hb
    subst hb
    intro e; subst e; exact hx ha

theorem nodup_extend {xs : List Sym} : ∀ {s : SymSet}, s.Nodup → (extend s xs).Nodup := by
  induction xs with
  | nil => intro s h; simpa [extend] using h
  | cons x xs ih => intro s h; exact ih (nodup_insertSym h)

/-- a duplicate-free list inside another list is no longer than it -/
theorem length_le_of_nodup_subset : ∀ {l k : List Sym}, l.Nodup → (∀ x ∈ l, x ∈ k) → l.length ≤ k.length := by
  intro l
  induction l with
  | nil => intro k _ _; simp
  | cons a l ih =>
    intro k hnd hsub
    have ha : a ∈ k := hsub a (by simp)
    have hnd' := List.nodup_cons.1 hnd
    have : l.length ≤ (k.erase a).length := by
      apply ih hnd'.2
      intro x hx
      have hxk : x ∈ k := hsub x (by simp [hx])
      have hne : x ≠ a := by intro e; subst e; exact hnd'.1 hx
      exact (List.mem_erase_of_ne hne).2 hxk
    have hl : (k.erase a).length = k.length - 1 := List.length_erase_of_mem ha
    have hpos : 0 < k.length := List.length_pos_of_mem ha
    simp only [List.length_cons]
    omega

/-! ## tables -/

theorem keysOf_setKey (t : Table) (key : Sym) (v : SymSet) : keysOf (setKey t key v) = keysOf t := by
  unfold keysOf setKey
  rw [List.map_map]
  apply List.map_congr_left
  intro e _
  simp only [Function.comp]
  split <;> rfl

theorem lookup_eq_none_of_not_mem {t : Table} {k : Sym} (h : k ∉ keysOf t) : t.lookup k = none := by
  induction t with
  | nil => rfl
  | cons e t ih =>
    obtain ⟨a, s⟩ := e
    simp only [keysOf, List.map_cons, List.mem_cons, not_or] at h
    simp only [List.lookup_cons]
    have : (k == a) = false := by simpa using h.1
    rw [this]
    exact ih (by simpa [keysOf] using h.2)

theorem lookup_isSome_of_mem {t : Table} {k : Sym} (h : k ∈ keysOf t) : ∃ s, t.lookup k = some s := by
  induction t with
  | nil => simp [keysOf] at h
  | cons e t ih =>
    obtain ⟨a, s⟩ := e
    simp only [List.lookup_cons]
    by_cases hk : k = a
    · subst hk; exact ⟨s, by simp⟩
    · have : (k == a) = false := by simpa using hk
      rw [this]
      apply ih
      simp only [keysOf, List.map_cons, List.mem_cons] at h
      rcases h with h | h
      · exact absurd h hk
      · exact h

theorem lookup_eq_val {t : Table} {k : Sym} (h : k ∈ keysOf t) : t.lookup k = some (val t k) := by
  obtain ⟨s, hs⟩ := lookup_isSome_of_mem h
  simp [val, hs]

theorem val_of_not_mem {t : Table} {k : Sym} (h : k ∉ keysOf t) : val t k = [] := by
  simp [val, lookup_eq_none_of_not_mem h]

theorem mem_keys_of_val_ne_nil {t : Table} {k x : Sym} (h : x ∈ val t k) : k ∈ keysOf t := by
  by_cases hk : k ∈ keysOf t
  · exact hk
  · rw [val_of_not_mem hk] at h; simp at h

theorem lookup_setKey (t : Table) (key : Sym) (v : SymSet) (k : Sym) :
    (setKey t key v).lookup k = if k = key then (t.lookup k).map (fun _ => v) else t.lookup k := by
  induction t with
  | nil => simp [setKey]
  | cons e t ih =>
    obtain ⟨a, s⟩ := e
    have ih' : List.lookup k (List.map (fun e => if e.1 = key then (e.1, v) else e) t) =
        if k = key then (t.lookup k).map (fun _ => v) else t.lookup k := ih
    by_cases hak : a = key
    · subst hak
      by_cases hk : k = a
      · subst hk; simp [setKey]
      · have : (k == a) = false := by simpa using hk
        simp [setKey, List.lookup_cons, this, hk, ih']
    · by_cases hk : k = a
      · subst hk
        have hne : ¬ k = key := hak
        simp [setKey, hak]
      · have : (k == a) = false := by simpa using hk
        simp only [setKey, List.map_cons, hak, if_false, List.lookup_cons, this]
        exact ih'

theorem val_setKey (t : Table) (key : Sym) (v : SymSet) (k : Sym) :
    val (setKey t key v) k = if k = key ∧ key ∈ keysOf t then v else val t k := by
  unfold val
  rw [lookup_setKey]
  by_cases hk : k = key
  · subst hk
    by_cases hm : k ∈ keysOf t
    · obtain ⟨s, hs⟩ := lookup_isSome_of_mem hm
      simp [hs, hm]
    · simp [lookup_eq_none_of_not_mem hm, hm]
  · simp [hk]

/-! ## the pure shadow of the loop -/

def unionP (t : Table) : List Sym → SymSet → SymSet
  | [], acc => acc
  | o :: os, acc => unionP t os (extend acc (val t o))

def newSet (t : Table) (k : Sym) : SymSet := unionP t (val t k) (val t k)

def stepP (t : Table) (key : Sym) : Table × Bool :=
  if (newSet t key).length > (val t key).length then (setKey t key (newSet t key), true) else (t, false)

def sweepP (t : Table) (modified : Bool) : List Sym → Table × Bool
  | [] => (t, modified)
  | k :: ks => sweepP (stepP t k).1 (modified || (stepP t k).2) ks

def recP : Nat → List Sym → Table → Option Table
  | 0, _, _ => none
  | n + 1, keys, t =>
    if (sweepP t false keys).2 then recP n keys (sweepP t false keys).1 else some (sweepP t false keys).1

theorem mem_unionP {t : Table} {os : List Sym} : ∀ {acc : SymSet} {x : Sym},
    x ∈ unionP t os acc ↔ x ∈ acc ∨ ∃ o ∈ os, x ∈ val t o := by
  induction os with
  | nil => intro acc x; simp [unionP]
  | cons o os ih =>
    intro acc x
    simp only [unionP, ih, mem_extend, List.mem_cons]
    constructor
    · rintro ((h | h) | ⟨o', ho', h⟩)
      · exact .inl h
      · exact .inr ⟨o, .inl rfl, h⟩
      · exact .inr ⟨o', .inr ho', h⟩
    · rintro (h | ⟨o', ho' | ho', h⟩)
      · exact .inl (.inl h)
      · subst ho'; exact .inl (.inr h)
      · exact .inr ⟨o', ho', h⟩

theorem unionP_append (t : Table) (os : List Sym) : ∀ acc : SymSet, ∃ r, unionP t os acc = acc ++ r := by
  induction os with
  | nil => intro acc; exact ⟨[], by simp [unionP]⟩
  | cons o os ih =>
    intro acc
    obtain ⟨r₁, h₁⟩ := extend_append (val t o) acc
    obtain ⟨r₂, h₂⟩ := ih (extend acc (val t o))
    exact ⟨r₁ ++ r₂, by simp only [unionP]; rw [h₂, h₁, List.append_assoc]⟩

theorem nodup_unionP {t : Table} {os : List Sym} : ∀ {acc : SymSet}, acc.Nodup → (unionP t os acc).Nodup := by
  induction os with
  | nil => intro acc h; simpa [unionP] using h
  | cons o os ih => intro acc h; exact ih (nodup_extend h)

theorem length_newSet_ge (t : Table) (k : Sym) : (val t k).length ≤ (newSet t k).length := by
  obtain ⟨r, h⟩ := unionP_append t (val t k) (val t k)
  simp [newSet, h]

/-- `new_set.len() > current.len()` is false exactly when nothing was added -/
theorem newSet_eq_of_not_grown {t : Table} {k : Sym} (h : ¬ (newSet t k).length > (val t k).length) :
    newSet t k = val t k := by
  obtain ⟨r, hr⟩ := unionP_append t (val t k) (val t k)
  unfold newSet at h ⊢
  rw [hr] at h ⊢
  have : r = [] := by
    cases r with
    | nil => rfl
    | cons a r => simp at h
  simp [this]

/-- a key is *stable* when its set already contains the sets of all its members -/
def Stable (t : Table) (k : Sym) : Prop := ∀ o ∈ val t k, ∀ x ∈ val t o, x ∈ val t k

theorem stable_of_not_grown {t : Table} {k : Sym} (h : ¬ (newSet t k).length > (val t k).length) :
    Stable t k := by
  intro o ho x hx
  have e := newSet_eq_of_not_grown h
  have : x ∈ newSet t k := mem_unionP.2 (.inr ⟨o, ho, hx⟩)
  rwa [e] at this

theorem sweepP_unmodified {keys : List Sym} : ∀ {t : Table} {m : Bool},
    (sweepP t m keys).2 = false → m = false ∧ (sweepP t m keys).1 = t ∧ ∀ k ∈ keys, Stable t k := by
  induction keys with
  | nil => intro t m h; simpa [sweepP] using h
  | cons k ks ih =>
    intro t m h
    simp only [sweepP] at h ⊢
    obtain ⟨hm, ht, hs⟩ := ih h
    have hm' : m = false ∧ (stepP t k).2 = false := by simpa using hm
    have hstep : ¬ (newSet t k).length > (val t k).length := by
      intro hg
      have : (stepP t k).2 = true := by simp [stepP, hg]
      rw [hm'.2] at this
      exact Bool.noConfusion this
    have e : (stepP t k).1 = t := by simp [stepP, hstep]
    rw [e] at hs
    refine ⟨hm'.1, ht.trans e, ?_⟩
    intro k' hk'
    rcases List.mem_cons.1 hk' with rfl | hk'
    · exact stable_of_not_grown hstep
    · exact hs k' hk'

/-! ## the loop invariant -/

/-- the "mentions" relation of a table -/
def Mentions (t : Table) (a b : Sym) : Prop := b ∈ val t a

/-- tables the analysis starts from: every mentioned symbol has an entry, sets are duplicate-free -/
structure WF (t : Table) : Prop where
  closed : ∀ k x, x ∈ val t k → x ∈ keysOf t
  nodup : ∀ k, (val t k).Nodup

/-- invariant of the loop, relative to the initial table `t₀` -/
structure Inv (t₀ t : Table) : Prop where
  keys : keysOf t = keysOf t₀
  infl : ∀ k x, x ∈ val t₀ k → x ∈ val t k
  sound : ∀ k x, x ∈ val t k → Needs (Mentions t₀) k x
  closed : ∀ k x, x ∈ val t k → x ∈ keysOf t₀
  nodup : ∀ k, (val t k).Nodup

theorem Inv.init {t₀ : Table} (h : WF t₀) : Inv t₀ t₀ :=
  ⟨rfl, fun _ _ hx => hx, fun _ _ hx => Needs.of_mentions hx, h.closed, h.nodup⟩

theorem mem_newSet {t : Table} {k x : Sym} :
    x ∈ newSet t k ↔ x ∈ val t k ∨ ∃ o ∈ val t k, x ∈ val t o := mem_unionP

theorem Inv.step {t₀ t : Table} (h : Inv t₀ t) (key : Sym) : Inv t₀ (stepP t key).1 := by
  unfold stepP
  split
  · -- the key's set is replaced by `newSet t key`
    have hv : ∀ k, val (setKey t key (newSet t key)) k =
        if k = key ∧ key ∈ keysOf t then newSet t key else val t k := val_setKey t key _
    refine ⟨by rw [keysOf_setKey]; exact h.keys, ?_, ?_, ?_, ?_⟩
    · intro k x hx
      rw [hv]
      split
      · rename_i hk
        rw [hk.1] at hx
        exact mem_newSet.2 (.inl (h.infl key x hx))
      · exact h.infl k x hx
    · intro k x hx
      rw [hv] at hx
      split at hx
      · rename_i hk
        rw [hk.1]
        rcases mem_newSet.1 hx with hx | ⟨o, ho, hx⟩
        · exact h.sound key x hx
        · exact (h.sound key o ho).trans (h.sound o x hx)
      · exact h.sound k x hx
    · intro k x hx
      rw [hv] at hx
      split at hx
      · rcases mem_newSet.1 hx with hx | ⟨o, _, hx⟩
        · exact h.closed key x hx
        · exact h.closed o x hx
      · exact h.closed k x hx
    · intro k
      rw [hv]
      split
      · exact nodup_unionP (h.nodup key)
      · exact h.nodup k
  · exact h

theorem Inv.sweep {t₀ : Table} {keys : List Sym} : ∀ {t : Table} {m : Bool},
    Inv t₀ t → Inv t₀ (sweepP t m keys).1 := by
  induction keys with
  | nil => intro t m h; simpa [sweepP] using h
  | cons k ks ih => intro t m h; simp only [sweepP]; exact ih (h.step k)

/-! ## the measure -/

def total (t : Table) : Nat := ((keysOf t).map fun k => (val t k).length).sum

theorem sum_map_le {l : List Sym} {f g : Sym → Nat} (h : ∀ x ∈ l, f x ≤ g x) :
    (l.map f).sum ≤ (l.map g).sum := by
  induction l with
  | nil => simp
  | cons a l ih =>
    simp only [List.map_cons, List.sum_cons]
    have h1 := h a (by simp)
    have h2 := ih (fun x hx => h x (by simp [hx]))
    omega

theorem sum_map_lt {l : List Sym} {f g : Sym → Nat} (h : ∀ x ∈ l, f x ≤ g x) {a : Sym} (ha : a ∈ l)
    (hlt : f a < g a) : (l.map f).sum < (l.map g).sum := by
  induction l with
  | nil => simp at ha
  | cons b l ih =>
    simp only [List.map_cons, List.sum_cons]
    have hb := h b (by simp)
    have hrest : (l.map f).sum ≤ (l.map g).sum := sum_map_le (fun x hx => h x (by simp [hx]))
    rcases List.mem_cons.1 ha with rfl | ha'
    · omega
    · have := ih (fun x hx => h x (by simp [hx])) ha'
      omega

theorem sum_map_le_mul {l : List Sym} {f : Sym → Nat} {b : Nat} (h : ∀ x ∈ l, f x ≤ b) :
    (l.map f).sum ≤ l.length * b := by
  induction l with
  | nil => simp
  | cons a l ih =>
    simp only [List.map_cons, List.sum_cons, List.length_cons]
    have h1 := h a (by simp)
    have h2 := ih (fun x hx => h x (by simp [hx]))
    rw [Nat.add_mul]
    omega

theorem total_step (t : Table) (key : Sym) :
    total t ≤ total (stepP t key).1 ∧ ((stepP t key).2 = true → total t < total (stepP t key).1) := by
  unfold stepP
  split
  · rename_i hg
    have hkey : key ∈ keysOf t := by
      by_cases hk : key ∈ keysOf t
      · exact hk
      · have e : val t key = [] := val_of_not_mem hk
        simp [newSet, e, unionP] at hg
    have hpt : ∀ k ∈ keysOf t, (val t k).length ≤ (val (setKey t key (newSet t key)) k).length := by
      intro k _
      rw [val_setKey]
      split
      · rename_i hk; rw [hk.1]; exact length_newSet_ge t key
      · exact Nat.le_refl _
    have hlt : (val t key).length < (val (setKey t key (newSet t key)) key).length := by
      rw [val_setKey]; simp [hkey]; exact hg
    have : total t < total (setKey t key (newSet t key)) := by
      unfold total
      rw [keysOf_setKey]
      exact sum_map_lt hpt hkey hlt
    exact ⟨Nat.le_of_lt this, fun _ => this⟩
  · exact ⟨Nat.le_refl _, fun h => Bool.noConfusion h⟩

theorem total_sweep {keys : List Sym} : ∀ (t : Table) (m : Bool),
    total t ≤ total (sweepP t m keys).1 ∧
    ((sweepP t m keys).2 = true → m = false → total t < total (sweepP t m keys).1) := by
  induction keys with
  | nil => intro t m; simp only [sweepP]; exact ⟨Nat.le_refl _, fun h1 h2 => by rw [h2] at h1; exact Bool.noConfusion h1⟩
  | cons k ks ih =>
    intro t m
    simp only [sweepP]
    have hs := total_step t k
    have hr := ih (stepP t k).1 (m || (stepP t k).2)
    refine ⟨Nat.le_trans hs.1 hr.1, ?_⟩
    intro h1 h2
    subst h2
    by_cases hstep : (stepP t k).2 = true
    · exact Nat.lt_of_lt_of_le (hs.2 hstep) hr.1
    · have hf : (stepP t k).2 = false := by simpa using hstep
      have := hr.2 h1 (by simp [hf])
      exact Nat.lt_of_le_of_lt hs.1 this

theorem total_le_of_inv {t₀ t : Table} (h : Inv t₀ t) : total t ≤ t₀.length * t₀.length := by
  unfold total
  rw [h.keys]
  have hb : ∀ k ∈ keysOf t₀, (val t k).length ≤ t₀.length := by
    intro k _
    have := length_le_of_nodup_subset (h.nodup k) (h.closed k)
    simpa [keysOf] using this
  have := sum_map_le_mul hb
  have hl : (keysOf t₀).length = t₀.length := by simp [keysOf]
  rw [hl] at this
  exact this

/-- enough fuel: the loop returns a table -/
theorem recP_some {t₀ : Table} {keys : List Sym} : ∀ (fuel : Nat) (t : Table), Inv t₀ t →
    t₀.length * t₀.length - total t < fuel → ∃ t', recP fuel keys t = some t' := by
  intro fuel
  induction fuel with
  | zero => intro t _ h; omega
  | succ n ih =>
    intro t hinv hf
    simp only [recP]
    split
    · rename_i hm
      have hinv' : Inv t₀ (sweepP t false keys).1 := hinv.sweep
      have hlt := (total_sweep (keys := keys) t false).2 hm rfl
      have hb := total_le_of_inv hinv'
      exact ih _ hinv' (by omega)
    · exact ⟨_, rfl⟩

/-- what the loop returns satisfies the invariant and is stable at every key it iterates -/
theorem recP_spec {t₀ : Table} {keys : List Sym} : ∀ (fuel : Nat) (t t' : Table), Inv t₀ t →
    recP fuel keys t = some t' → Inv t₀ t' ∧ ∀ k ∈ keys, Stable t' k := by
  intro fuel
  induction fuel with
  | zero => intro t t' _ h; simp [recP] at h
  | succ n ih =>
    intro t t' hinv h
    simp only [recP] at h
    split at h
    · exact ih _ _ hinv.sweep h
    · rename_i hm
      have hm' : (sweepP t false keys).2 = false := by simpa using hm
      obtain ⟨_, ht, hs⟩ := sweepP_unmodified hm'
      have e : t' = t := by
        have := Option.some.inj h
        rw [← this, ht]
      subst e
      exact ⟨hinv, hs⟩

/-- in a stable table the set of everything reachable from `k` is contained in `k`'s set -/
theorem reach_subset {t₀ t : Table} (hinv : Inv t₀ t) (hs : ∀ k ∈ keysOf t₀, Stable t k) {k h : Sym}
    (hreach : Reach (Mentions t₀) k h) : ∀ y, y ∈ val t h → y ∈ val t k := by
  induction hreach with
  | refl => intro y hy; exact hy
  | tail _ r ih =>
    rename_i b c _
    intro y hy
    have hb : b ∈ keysOf t₀ := mem_keys_of_val_ne_nil (show c ∈ val t₀ b from r)
    have hc : c ∈ val t b := hinv.infl b c r
    exact ih y (hs b hb c hc y hy)

/-- a table that satisfies the invariant and is stable at all its keys is the reachability closure -/
theorem closure_of_stable {t₀ t : Table} (hinv : Inv t₀ t) (hs : ∀ k ∈ keysOf t₀, Stable t k) (k x : Sym) :
    x ∈ val t k ↔ Needs (Mentions t₀) k x := by
  constructor
  · exact hinv.sound k x
  · rintro ⟨h, hreach, hm⟩
    exact reach_subset hinv hs hreach x (hinv.infl h x hm)

/-! ## the `Except` model agrees with its shadow on closed tables -/

theorem unionOthers_eq {t : Table} {os : List Sym} : ∀ {acc : SymSet}, (∀ o ∈ os, o ∈ keysOf t) →
    unionOthers t os acc = .ok (unionP t os acc) := by
  induction os with
  | nil => intro acc _; rfl
  | cons o os ih =>
    intro acc h
    have ho : o ∈ keysOf t := h o (by simp)
    simp only [unionOthers, lookup_eq_val ho, unionP]
    exact ih (fun o' ho' => h o' (by simp [ho']))

theorem stepKey_eq {t₀ t : Table} (hinv : Inv t₀ t) {key : Sym} (hk : key ∈ keysOf t₀) :
    stepKey t key = .ok (stepP t key) := by
  have hk' : key ∈ keysOf t := by rw [hinv.keys]; exact hk
  have hcl : ∀ o ∈ val t key, o ∈ keysOf t := by
    intro o ho; rw [hinv.keys]; exact hinv.closed key o ho
  unfold stepKey
  simp only [lookup_eq_val hk', unionOthers_eq hcl]
  by_cases hg : (newSet t key).length > (val t key).length
  · have hg' : (unionP t (val t key) (val t key)).length > (val t key).length := hg
    rw [if_pos hg']; unfold stepP; rw [if_pos hg]; rfl
  · have hg' : ¬ (unionP t (val t key) (val t key)).length > (val t key).length := hg
    rw [if_neg hg']; unfold stepP; rw [if_neg hg]

theorem sweep_eq {t₀ : Table} {keys : List Sym} : ∀ {t : Table} {m : Bool}, Inv t₀ t →
    (∀ k ∈ keys, k ∈ keysOf t₀) → sweep t m keys = .ok (sweepP t m keys) := by
  induction keys with
  | nil => intro t m _ _; rfl
  | cons k ks ih =>
    intro t m hinv hk
    simp only [sweep, stepKey_eq hinv (hk k (by simp)), sweepP]
    exact ih (hinv.step k) (fun k' hk' => hk k' (by simp [hk']))

theorem recurseFuel_eq {t₀ : Table} {keys : List Sym} (hk : ∀ k ∈ keys, k ∈ keysOf t₀) :
    ∀ (fuel : Nat) (t : Table), Inv t₀ t → recurseFuel fuel keys t = .ok (recP fuel keys t) := by
  intro fuel
  induction fuel with
  | zero => intro t _; rfl
  | succ n ih =>
    intro t hinv
    simp only [recurseFuel, sweep_eq hinv hk, recP]
    by_cases hm : (sweepP t false keys).2 = true
    · have e : sweepP t false keys = ((sweepP t false keys).1, true) := Prod.ext rfl hm
      rw [e]
      simp only [if_true]
      exact ih _ hinv.sweep
    · have hf : (sweepP t false keys).2 = false := by simpa using hm
      have e : sweepP t false keys = ((sweepP t false keys).1, false) := Prod.ext rfl hf
      rw [e]
      simp

/-! ## a checkable sufficient condition for `WF` -/

theorem mem_of_lookup {t : Table} {k : Sym} {s : SymSet} (h : t.lookup k = some s) : (k, s) ∈ t := by
  induction t with
  | nil => simp at h
  | cons e t ih =>
    obtain ⟨a, b⟩ := e
    simp only [List.lookup_cons] at h
    split at h
    · rename_i hk
      have : k = a := by simpa using hk
      injection h with h
      simp [this, h]
    · exact List.mem_cons_of_mem _ (ih h)

def wfCheck (t : Table) : Bool :=
  t.all fun e => e.2.all (fun x => (keysOf t).contains x) && decide e.2.Nodup

theorem wf_of_check {t : Table} (h : wfCheck t = true) : WF t := by
  unfold wfCheck at h
  rw [List.all_eq_true] at h
  constructor
  · intro k x hx
    cases hl : t.lookup k with
    | none => simp [val, hl] at hx
    | some s =>
      have hs : val t k = s := by simp [val, hl]
      rw [hs] at hx
      have := h _ (mem_of_lookup hl)
      simp only [Bool.and_eq_true, List.all_eq_true, decide_eq_true_eq] at this
      simpa using this.1 x hx
  · intro k
    cases hl : t.lookup k with
    | none => simp [val, hl]
    | some s =>
      have hs : val t k = s := by simp [val, hl]
      rw [hs]
      have := h _ (mem_of_lookup hl)
      simp only [Bool.and_eq_true, decide_eq_true_eq] at this
      exact this.2

end RsslVerif.Lemmas.Usage

import RsslVerif.Lemmas.GenMslCopy
/-! Metal exporter, programs: the emitted definitions, looked up the way a C++ front end resolves the exporter's
overloads, and their signatures. -/
namespace RsslVerif.Lemmas.GenMsl
open RsslVerif.Gen.HlslGenTables RsslVerif.Gen.MslGenTables RsslVerif.Model RsslVerif.Model.GenMsl RsslVerif.Spec.Sem
open RsslVerif.Model.Ir (Ty Var Const Dir)
open RsslVerif.Model.GenHlsl (GenErr)
set_option linter.unusedSimpArgs false

theorem genParams_noTag {cx : Ctx} : ∀ (ps : Params) (mps : List MslAst.Param),
    GenMsl.genParams cx ps = .ok mps → mps.any MslAst.Param.isTag = false
  | [], mps, h => by simp [GenMsl.genParams] at h; subst h; rfl
  | (pid, d, T) :: ps, mps, h => by
    simp only [GenMsl.genParams, GenMsl.genParam] at h
    cases htn : GenMsl.typeName T with
    | error e => simp [htn] at h
    | ok tn =>
      cases hr : GenMsl.genParams cx ps with
      | error e => simp only [htn] at h; split at h <;> simp [hr] at h
      | ok mps' =>
        have ih := genParams_noTag ps mps' hr
        by_cases hd : d = .in_
        · simp [htn, hr, hd] at h; subst h; simp [MslAst.Param.isTag, ih]
        · simp [htn, hr, hd] at h; subst h; simp [MslAst.Param.isTag, ih]

theorem genGlobalParams_noTag {cx : Ctx} : ∀ (gs : List Nat) (gps : List MslAst.Param),
    GenMsl.genGlobalParams cx gs = .ok gps → gps.any MslAst.Param.isTag = false
  | [], gps, h => by simp [GenMsl.genGlobalParams] at h; subst h; rfl
  | g :: gs, gps, h => by
    simp only [GenMsl.genGlobalParams] at h
    cases htn : GenMsl.typeName (cx.vty (.glob g)) with
    | error e => simp [htn] at h
    | ok tn =>
      cases hr : GenMsl.genGlobalParams cx gs with
      | error e => simp [htn, hr] at h
      | ok gps' => simp [htn, hr] at h; subst h; simp [MslAst.Param.isTag, genGlobalParams_noTag gs gps' hr]

theorem paramSig_user {cx : Ctx} : ∀ (ps : Params) (mps : List MslAst.Param) (rest : List MslAst.Param) (restSig : List (Msl.PK × Ty)),
    GenMsl.genParams cx ps = .ok mps → Msl.paramSig rest = some restSig →
    Msl.paramSig (mps ++ rest) = some (mParamsOf ps ++ restSig)
  | [], mps, rest, restSig, h, hr => by simp [GenMsl.genParams] at h; subst h; simpa [mParamsOf] using hr
  | (pid, d, T) :: ps, mps, rest, restSig, h, hr => by
    simp only [GenMsl.genParams, GenMsl.genParam] at h
    cases htn : GenMsl.typeName T with
    | error e => simp [htn] at h
    | ok tn =>
      cases hrp : GenMsl.genParams cx ps with
      | error e => simp only [htn] at h; split at h <;> simp [hrp] at h
      | ok mps' =>
        have ih := paramSig_user ps mps' rest restSig hrp hr
        have htn' := typeName_tyOfName htn
        have hmp : mParamsOf ((pid, d, T) :: ps) = (pkOf d, T) :: mParamsOf ps := rfl
        by_cases hd : d = .in_
        · simp [htn, hrp, hd] at h; subst h; subst hd
          simp [Msl.paramSig, htn', ih, hmp, pkOf]
        · simp [htn, hrp, hd] at h; subst h
          have hpk : pkOf d = Msl.PK.ref := by cases d <;> simp_all [pkOf]
          simp [Msl.paramSig, htn', ih, hmp, hpk]

theorem paramSig_globals {cx : Ctx} : ∀ (gs : List Nat) (gps : List MslAst.Param),
    GenMsl.genGlobalParams cx gs = .ok gps → Msl.paramSig gps = some (globParams cx gs)
  | [], gps, h => by simp [GenMsl.genGlobalParams] at h; subst h; rfl
  | g :: gs, gps, h => by
    simp only [GenMsl.genGlobalParams] at h
    cases htn : GenMsl.typeName (cx.vty (.glob g)) with
    | error e => simp [htn] at h
    | ok tn =>
      cases hr : GenMsl.genGlobalParams cx gs with
      | error e => simp [htn, hr] at h
      | ok gps' =>
        simp [htn, hr] at h; subst h
        simp [Msl.paramSig, typeName_tyOfName htn, paramSig_globals gs gps' hr, globParams]

/-- name, kind of overload, return type and signature of what `generate_function_inner` emits -/
theorem genFuncInner_facts {cx : Ctx} {fn : Ir.Func} {gs : List Nat} {target tramp : Bool} {m : MslAst.Func}
    (hreq : cx.req fn.id = some gs) (h : genFuncInner cx fn target tramp = .ok m) :
    m.name = cx.funcName fn.id ∧ m.isTarget = target ∧ Ast.tyOfName m.ret = some fn.ret ∧
    Msl.paramSig m.params = some (mParamsOf fn.params ++ ((if target then [(Msl.PK.tag, Ty.void)] else []) ++ globParams cx gs)) := by
  simp only [genFuncInner, hreq] at h
  cases hrt : GenMsl.typeName fn.ret with
  | error e => simp [hrt] at h
  | ok rt =>
    cases hps : GenMsl.genParams cx fn.params with
    | error e => simp [hrt, hps] at h
    | ok ps' =>
      cases hgp : GenMsl.genGlobalParams cx gs with
      | error e => simp [hrt, hps, hgp] at h
      | ok gps =>
        cases hb : (if tramp = true then trampolineBody cx fn rt gs else genBody cx fn.body) with
        | error e => simp [hrt, hps, hgp, hb] at h
        | ok body =>
          simp [hrt, hps, hgp, hb] at h; subst h
          have h1 := genParams_noTag fn.params ps' hps
          have h2 := genGlobalParams_noTag gs gps hgp
          have h3 := paramSig_globals gs gps hgp
          refine ⟨rfl, ?_, typeName_tyOfName hrt, ?_⟩
          · cases target <;> simp [MslAst.Func.isTarget, List.any_append, h1, h2, MslAst.Param.isTag]
          · cases target
            · simpa using paramSig_user fn.params ps' gps _ hps h3
            · have : Msl.paramSig (MslAst.Param.tag tagType :: gps) = some ((Msl.PK.tag, Ty.void) :: globParams cx gs) := by
                simp [Msl.paramSig, h3]
              simpa using paramSig_user fn.params ps' (MslAst.Param.tag tagType :: gps) _ hps this

/-- every definition `generate_function_and_trampoline` emits for a function carries that function's name -/
theorem genFuncs_names {cx : Ctx} {fn : Ir.Func} {ms : List MslAst.Func} (hf : genFuncs cx fn = .ok ms) :
    ∀ m ∈ ms, m.name = cx.funcName fn.id := by
  intro m hm
  simp only [genFuncs] at hf
  cases hreqf : cx.req fn.id with
  | none =>
    have : ∀ a b, genFuncInner cx fn a b = .error (GenErr.panic "generate_function_inner: called `Option::unwrap()` on a `None` value") ∨
        ∃ e, genFuncInner cx fn a b = .error e := by
      intro a b
      simp only [genFuncInner, hreqf]
      cases GenMsl.typeName fn.ret with
      | error e => exact Or.inr ⟨e, rfl⟩
      | ok rt => exact Or.inl rfl
    rcases this (needsTrampoline cx fn) false with h | ⟨e, h⟩ <;> simp [h] at hf
  | some gs =>
    cases h1 : genFuncInner cx fn (needsTrampoline cx fn) false with
    | error e => simp [h1] at hf
    | ok m1 =>
      simp only [h1] at hf
      have n1 := (genFuncInner_facts hreqf h1).1
      by_cases hn : needsTrampoline cx fn = true
      · simp only [hn, if_true] at hf
        cases h2 : genFuncInner cx fn false true with
        | error e => simp [h2] at hf
        | ok m2 =>
          simp [h2] at hf; subst hf
          have n2 := (genFuncInner_facts hreqf h2).1
          simp only [List.mem_cons, List.not_mem_nil, or_false] at hm
          cases hm with
          | inl h => subst h; exact n1
          | inr h => subst h; exact n2
      · simp only [hn, Bool.false_eq_true, if_false] at hf
        simp at hf; subst hf
        simp only [List.mem_singleton] at hm
        subst hm; exact n1

theorem genProg_names {cx : Ctx} : ∀ (prog : List Ir.Func) (mprog : List MslAst.Func), genProg cx prog = .ok mprog →
    ∀ m ∈ mprog, ∃ fn ∈ prog, m.name = cx.funcName fn.id
  | [], mprog, hg, m, hm => by simp [genProg] at hg; subst hg; simp at hm
  | fn :: r, mprog, hg, m, hm => by
    simp only [genProg] at hg
    cases hf : genFuncs cx fn with
    | error e => simp [hf] at hg
    | ok ms =>
      cases hr : genProg cx r with
      | error e => simp [hf, hr] at hg
      | ok mr =>
        simp [hf, hr] at hg; subst hg
        simp only [List.mem_append] at hm
        cases hm with
        | inl h => exact ⟨fn, by simp, genFuncs_names hf m h⟩
        | inr h =>
          obtain ⟨fn', h1, h2⟩ := genProg_names r mr hr m h
          exact ⟨fn', List.mem_cons_of_mem _ h1, h2⟩

/-- overload resolution on the emitted program finds, for the function of the typed program with a given id, the
definitions `generate_function_and_trampoline` produced for it (function ids are distinct) -/
theorem lookup_corr {cx : Ctx} {L : Msl.Layout} (hfres : ∀ f, L.fres (cx.funcName f) = some f) :
    ∀ (prog : List Ir.Func) (mprog : List MslAst.Func), genProg cx prog = .ok mprog → (prog.map (·.id)).Nodup →
      ∀ (f : Nat) (tgt : Bool),
        match prog.find? (fun fn => fn.id == f) with
        | none => Msl.lookup L mprog f tgt = none
        | some fn => ∃ ms, genFuncs cx fn = .ok ms ∧ Msl.lookup L mprog f tgt = ms.find? (fun m => m.isTarget == tgt)
  | [], mprog, hg, _, f, tgt => by simp [genProg] at hg; subst hg; simp [Msl.lookup]
  | fn :: r, mprog, hg, hnd, f, tgt => by
    simp only [genProg] at hg
    cases hf : genFuncs cx fn with
    | error e => simp [hf] at hg
    | ok ms =>
      cases hr : genProg cx r with
      | error e => simp [hf, hr] at hg
      | ok mr =>
        simp [hf, hr] at hg; subst hg
        have hnd2 : (fn.id :: r.map (·.id)).Nodup := hnd
        have ih := lookup_corr hfres r mr hr (List.nodup_cons.mp hnd2).2 f tgt
        have hms : ∀ m ∈ ms, L.fres m.name = some fn.id := fun m hm => by rw [genFuncs_names hf m hm]; exact hfres _
        simp only [Msl.lookup, List.find?_append]
        by_cases hid : fn.id = f
        · subst hid
          simp only [List.find?, beq_self_eq_true]
          refine ⟨ms, hf, ?_⟩
          have heq : ∀ (l : List MslAst.Func), (∀ m ∈ l, L.fres m.name = some fn.id) →
              l.find? (fun m => L.fres m.name == some fn.id && m.isTarget == tgt) = l.find? (fun m => m.isTarget == tgt) := by
            intro l
            induction l with
            | nil => intro _; rfl
            | cons a t ih =>
              intro h
              simp only [List.find?, h a (by simp), beq_self_eq_true, Bool.true_and]
              rw [ih (fun m hm => h m (List.mem_cons_of_mem _ hm))]
          have heq := heq ms hms
          have hnone : mr.find? (fun m => L.fres m.name == some fn.id && m.isTarget == tgt) = none := by
            rw [List.find?_eq_none]
            intro m hm
            obtain ⟨fn', h1, h2⟩ := genProg_names r mr hr m hm
            have hne : fn'.id ≠ fn.id := by
              intro hc
              exact (List.nodup_cons.mp hnd2).1 (by rw [← hc]; exact List.mem_map_of_mem h1)
            simp [h2, hfres, hne]
          rw [heq, hnone]; simp
        · have h1 : (fn.id == f) = false := by simpa using hid
          have hnone : ms.find? (fun m => L.fres m.name == some f && m.isTarget == tgt) = none := by
            rw [List.find?_eq_none]
            intro m hm
            simp [hms m hm, hid]
          simp only [List.find?, h1, hnone, Option.none_or]
          exact ih

end RsslVerif.Lemmas.GenMsl

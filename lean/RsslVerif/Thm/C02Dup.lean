import RsslVerif.Lemmas.MslDup
import RsslVerif.Model.MslDupIr
import RsslVerif.Spec.Sem
import RsslVerif.Lemmas.GenMslRem
/-!
# C02 — no operand is evaluated more often, or in another order, in the emitted Metal than in the source

The Metal exporter builds a syntax tree; `ast::Expression` / `ir::Expression` are not `Copy`, so an operand can reach the
output twice only through an explicit copy, through running a generator twice on it, or through text building.
`Gen.MslDupSites` lists every such place of the back end on every run; `dup_sites_guarded` checks the list against the
reviewed classification below.  Since fix batch 3 THREE copies repeat an operand of the program, in two arms:

* the struct half of the `Cast` arm, `(S)value ↦ S { c₁, c₂, … }`: `inner.clone()` (the generated operand, for an element of
  the operand's type or a literal operand) and `expr.clone()` (the IR operand below `Cast(element type, …)`, generated again:
  fix 5d2f434) — behind the side-effect test `structCastGuard`;
* the floating-point `RemainderAssignment` arm of `generate_intrinsic_op`, `a %= b ↦ a = metal::fmod(a, b)`:
  `exprs[0].clone()` (fix 92d66eb) — behind `is_plain_place` on the target and, because the emitted form reads the target
  BEFORE `b` runs while `%=` reads it after, `is_free_of_writes` on `b` (fix 35faaaa).

All tests are re-extracted as tables and proved *sound*: every constructor they accept is without effect of its own and
they look into EVERY expression-typed field of it.

`repeatable_operand_is_pure` / `rem_assign_operands_are_pure` are the reason that is enough: for every meaning of calls,
assignments, increments and sequences (`Spec.MslDup.Interp`) an operand accepted by a sound test leaves the store unchanged,
so writing it `n` times yields `n` copies of the one value and the store of one evaluation, and evaluating it before or
after another such operand makes no difference (`struct_cast_meaning_kept`: the clauses of the braced list, converted or
not; also for the "one element: anything" branch).  `repeatable_operand_is_pure_ir` / `rem_assign_operands_are_pure_ir` state
the same on C01's typed scalar IR (`Ir.eval`, every `World` = every `Prim`).  `index_blind_test_repeats_effect` is the other
direction: the test of seeded mutant C02-3 (array subscript accepted by looking at the array only) is not sound and repeats
an effect.
-/
namespace RsslVerif.Thm.C02Dup
open RsslVerif.Gen.MslDupSites RsslVerif.Gen.MslGenTables RsslVerif.Gen.HlslGenTables RsslVerif.Model.MslDup RsslVerif.Spec.MslDup
open RsslVerif.Lemmas.MslDup

/-- what an explicit copy in the back end copies -/
inductive CopyClass where
  /-- types, declarators, names, parameter lists, layouts, configuration, whole modules (a pass works on its own copy) -/
  | notExpr
  /-- an expression the back end made itself (identifier of a threaded global, member path of a constant-buffer member,
  argument of a generated helper): no operand of the program inside -/
  | synth
  /-- an IR operand copied into the node that REPLACES the one it was taken from (`*expr = …`), or into a reordered
  argument list that is generated instead of the original: still written once -/
  | moveOnce
  /-- the initialiser of a static / groupshared global, once per entry-point wrapper (each kernel initialises its own) -/
  | perEntry
  /-- a generated operand written several times -/
  | repeated
  deriving DecidableEq, Repr

/-- reviewed list (file, function, copied expression, occurrences) — an unreviewed copy, or another number of
occurrences of a reviewed one, makes `dup_sites_guarded` stop checking -/
def reviewed : List (CopySite × CopyClass) := [
  (⟨"ir/src/simplify_cbuffers.rs", "replace_cbuffer_in_expression", "replacements.member_to_expression[&id].clone()", 1⟩, .synth),
  (⟨"ir/src/simplify_cbuffers.rs", "simplify_cbuffers", "member.name.node.clone()", 1⟩, .notExpr),
  (⟨"msl/src/generator.rs", "analyse_globals", "declarator.clone()", 1⟩, .notExpr),
  (⟨"msl/src/generator.rs", "analyse_globals", "param_type.clone()", 1⟩, .notExpr),
  (⟨"msl/src/generator.rs", "append_arguments_for_globals", "argument.clone()", 1⟩, .synth),
  (⟨"msl/src/generator.rs", "build_mesh_output_type", "context.mesh_layout.clone()", 1⟩, .notExpr),
  (⟨"msl/src/generator.rs", "generate_byte_buffer_store", "packed.clone()", 1⟩, .notExpr),
  (⟨"msl/src/generator.rs", "generate_expression", "def.constexpr_value.clone()", 1⟩, .notExpr),
  (⟨"msl/src/generator.rs", "generate_expression", "expr.clone()", 1⟩, .repeated),
  (⟨"msl/src/generator.rs", "generate_expression", "inner.clone()", 1⟩, .repeated),
  (⟨"msl/src/generator.rs", "generate_expression", "ty.layout.1.to_vec()", 1⟩, .notExpr),
  (⟨"msl/src/generator.rs", "generate_function_inner", "context.function_required_globals.get(&id).unwrap().clone()", 1⟩, .notExpr),
  (⟨"msl/src/generator.rs", "generate_function_inner", "param.clone()", 1⟩, .notExpr),
  (⟨"msl/src/generator.rs", "generate_function_inner", "ty.clone()", 1⟩, .notExpr),
  (⟨"msl/src/generator.rs", "generate_function_out_trampoline_body", "return_type.clone()", 1⟩, .notExpr),
  (⟨"msl/src/generator.rs", "generate_intrinsic_op", "exprs.to_vec()", 1⟩, .moveOnce),
  (⟨"msl/src/generator.rs", "generate_intrinsic_op", "exprs[0].clone()", 1⟩, .repeated),
  (⟨"msl/src/generator.rs", "generate_intrinsic_function", "exprs[0].clone()", 1⟩, .moveOnce),
  (⟨"msl/src/generator.rs", "generate_intrinsic_function", "exprs[1].clone()", 1⟩, .moveOnce),
  (⟨"msl/src/generator.rs", "generate_intrinsic_function", "exprs[2].clone()", 1⟩, .moveOnce),
  (⟨"msl/src/generator.rs", "generate_intrinsic_function", "intrinsic.clone()", 1⟩, .notExpr),
  (⟨"msl/src/generator.rs", "generate_type_or_constant", "&c.clone()", 1⟩, .notExpr),
  (⟨"msl/src/generator/intrinsic_helpers.rs", "build_get_dimensions", "mip_args.clone()", 2⟩, .synth),
  (⟨"msl/src/generator/intrinsic_helpers.rs", "build_intersection_params", "params_ty.clone()", 1⟩, .notExpr),
  (⟨"msl/src/generator/pipeline.rs", "generate_pipeline", "all_used_globals.extend_from_slice(", 1⟩, .notExpr),
  (⟨"msl/src/generator/pipeline.rs", "generate_pipeline", "base_declarator.clone()", 2⟩, .notExpr),
  (⟨"msl/src/generator/pipeline.rs", "generate_pipeline", "base_type.clone()", 2⟩, .notExpr),
  (⟨"msl/src/generator/pipeline.rs", "generate_pipeline", "context.function_required_globals.get(&stage.entry_point).unwrap().clone()", 1⟩, .notExpr),
  (⟨"msl/src/generator/pipeline.rs", "generate_pipeline", "declarator.clone()", 1⟩, .notExpr),
  (⟨"msl/src/generator/pipeline.rs", "generate_pipeline", "def.stages.clone()", 1⟩, .notExpr),
  (⟨"msl/src/generator/pipeline.rs", "generate_pipeline", "entry_params.clone()", 1⟩, .notExpr),
  (⟨"msl/src/generator/pipeline.rs", "generate_pipeline", "entry_params.extend_from_slice(", 1⟩, .notExpr),
  (⟨"msl/src/generator/pipeline.rs", "generate_pipeline", "init.clone()", 2⟩, .perEntry),
  (⟨"msl/src/generator/pipeline.rs", "generate_pipeline", "name.clone()", 1⟩, .notExpr),
  (⟨"msl/src/generator/pipeline.rs", "generate_pipeline", "param.clone()", 1⟩, .notExpr),
  (⟨"msl/src/generator/pipeline.rs", "generate_pipeline", "ty.clone()", 2⟩, .notExpr),
  (⟨"msl/src/generator/pipeline.rs", "record_interpolator_location", "member.name.clone()", 1⟩, .notExpr),
  (⟨"msl/src/generator/pipeline.rs", "record_interpolator_location", "semantic.clone()", 2⟩, .notExpr),
  (⟨"msl/src/lib.rs", "export_to_msl", "module.clone()", 1⟩, .notExpr),
  (⟨"msl/src/lib.rs", "verif_generate_ast", "module.clone()", 1⟩, .notExpr),
  (⟨"msl/src/rewrite_mesh_output.rs", "process_expression", "(**index).clone()", 3⟩, .moveOnce),
  (⟨"msl/src/rewrite_mesh_output.rs", "process_expression", "value.clone()", 3⟩, .moveOnce),
  (⟨"msl/src/rewrite_mesh_output.rs", "process_mesh_entry", "impl_mut.params.iter().cloned()", 1⟩, .notExpr),
  (⟨"msl/src/rewrite_mesh_output.rs", "process_mesh_entry", "impl_ref.scope_block.clone()", 1⟩, .moveOnce),
  (⟨"msl/src/rewrite_mesh_output.rs", "process_mesh_entry", "module.function_registry.get_function_implementation(entry_point).as_ref().unwrap().clone()", 1⟩, .notExpr),
  (⟨"msl/src/rewrite_mesh_output.rs", "process_mesh_entry", "sig_mut.param_types.iter().cloned()", 1⟩, .notExpr),
  (⟨"msl/src/simplify_resource_subscript.rs", "find_function_for_intrinsic", "object_functions.iter().cloned()", 1⟩, .notExpr),
  (⟨"msl/src/simplify_resource_subscript.rs", "process_expression", "*index.clone()", 1⟩, .moveOnce),
  (⟨"msl/src/simplify_resource_subscript.rs", "process_expression", "*object.clone()", 1⟩, .moveOnce),
  (⟨"msl/src/simplify_resource_subscript.rs", "process_expression", "args[1].clone()", 1⟩, .moveOnce),
  (⟨"msl/src/simplify_resource_subscript.rs", "process_expression", "lhs_index.clone()", 1⟩, .moveOnce),
  (⟨"msl/src/simplify_resource_subscript.rs", "process_expression", "lhs_object.clone()", 1⟩, .moveOnce),
  (⟨"msl/src/simplify_resource_subscript.rs", "simplify_resource_subscript", "module.clone()", 1⟩, .notExpr)
]

def reviewOf (s : CopySite) : Option CopyClass := (reviewed.find? (fun p => p.1 == s)).map (·.2)

/-- the struct-cast sites: the generated operand copied, the IR operand copied below a cast to the element's type -/
def structCastSite : CopySite := ⟨"msl/src/generator.rs", "generate_expression", "inner.clone()", 1⟩
def structCastConvertSite : CopySite := ⟨"msl/src/generator.rs", "generate_expression", "expr.clone()", 1⟩
/-- the target of a floating-point `%=`, copied into `a = a % b` -/
def remAssignTargetSite : CopySite := ⟨"msl/src/generator.rs", "generate_intrinsic_op", "exprs[0].clone()", 1⟩

/-- **Every place where the Metal back end can write an operand twice is guarded.**  (1) every explicit copy in the back
end's files is reviewed; (2) the only copies that repeat an operand are the two of the struct cast and the target of the
floating-point `%=`; (3) no arm runs one generator call twice and `generate_expression` builds no text; (4) the struct cast
writes one clause per element type (`get_member_types`: an array repeats, a struct concatenates, anything else is one
element) — the operand itself, or the operand converted to the element's type —, or refuses with a diagnostic; (5) the
side-effect test in front of it is sound (`Spec.MslDup.Sound`: accepted constructors are strict and without effect and ALL
their expression-typed fields are tested) and everything else is accepted only for one element; (6) the `%=` arm is the only
one of the operator table with the assignment form, it rewrites to `Assignment(a, Modulus(a, b))` or refuses with
`ComplexRemainderAssignment`, and its tests — `is_plain_place` with `is_plain_index` on the target, `is_free_of_writes` on the
right operand — are sound (`Spec.MslDup.SoundTabs`).  The test of seeded mutant C02-3 fails (5): `ArraySubscript` has
expression fields `[0, 1]`, the test recursed into `[0]`. -/
theorem dup_sites_guarded :
    copySites.all (fun s => (reviewOf s).isSome) = true ∧
    copySites.all (fun s => reviewOf s != some .repeated || s == structCastSite || s == structCastConvertSite ||
      s == remAssignTargetSite) = true ∧
    repeatedGeneratorCalls = [] ∧ textBuildingInGenerateExpression = 0 ∧
    structCastClausePerElement = true ∧ structCastRefusalIsDiagnostic = true ∧ memberTypesAsModelled = true ∧
    Sound structCastGuard = true ∧
    (∀ o, (∃ s e a b c, mslOpForm o = .floatAssign s e a b c) ↔ o = .RemainderAssignment) ∧
    mslOpForm .RemainderAssignment =
      .floatAssign ["Float16", "Float32", "Float64"] "ComplexRemainderAssignment" .Assignment .Modulus .RemainderAssignment ∧
    SoundTabs [remAssignPlaceGuard, remAssignIndexGuard] = true ∧ SoundTabs [remAssignWritesGuard] = true := by
  refine ⟨by decide +kernel, by decide +kernel, by decide +kernel, by decide +kernel, by decide +kernel, by decide +kernel,
    by decide +kernel, by decide +kernel, ?_, rfl, by decide +kernel, by decide +kernel⟩
  intro o
  constructor
  · rintro ⟨s, e, a, b, c, h⟩; cases o <;> simp [mslOpForm] at h ⊢
  · rintro rfl; exact ⟨_, _, _, _, _, rfl⟩

/-- the side-effect tests never accept a constructor that is not one of `ir::Expression`'s, and the shapes they match
have the constructor's number of fields -/
theorem guard_rows_are_ir_constructors :
    structCastGuard.all (fun r => irExpressionCtors.any (fun k => k.name == r.ctor && k.arity == r.arity)) = true ∧
    (remAssignPlaceGuard ++ remAssignIndexGuard ++ remAssignWritesGuard).all
      (fun r => irExpressionCtors.any (fun k => k.name == r.ctor && k.arity == r.arity)) = true := by
  decide +kernel

theorem structCastGuard_sound : Sound structCastGuard = true := dup_sites_guarded.2.2.2.2.2.2.2.1

section generic
variable {Val Store : Type}

/-- **An operand the test accepts can be repeated.**  For every sound table `rows`, every meaning of the effectful
constructors `I`, every well-formed operand `e`: if the test accepts `e` and `e` evaluates to `v` with store `σ'` then
`σ' = σ` (no effect), evaluating it again gives the same result, and `n` evaluations in a row give `n` copies of `v` and
the same store. -/
theorem repeatable_operand_is_pure_of_sound (I : Interp Val Store) {rows : List GuardRow} (hs : Sound rows = true)
    (e : DExpr) (hw : wf e = true) (hg : testExpr rows e = true) (σ : Store) (v : Val) (σ' : Store)
    (he : eval I e σ = some (v, σ')) :
    σ' = σ ∧ eval I e σ' = some (v, σ') ∧ ∀ n, evalRepeat I e n σ = some (List.replicate n v, σ') := by
  have hp := guard_keeps_store I hs e hw hg
  have h := hp σ v σ' he
  subst h
  exact ⟨rfl, he, fun n => repeat_of_keeps_store I e hp n σ' v σ' he⟩

/-- … in particular for the test of the current source -/
theorem repeatable_operand_is_pure (I : Interp Val Store) (e : DExpr) (hw : wf e = true)
    (hg : testExpr structCastGuard e = true) (σ : Store) (v : Val) (σ' : Store) (he : eval I e σ = some (v, σ')) :
    σ' = σ ∧ eval I e σ' = some (v, σ') ∧ ∀ n, evalRepeat I e n σ = some (List.replicate n v, σ') :=
  repeatable_operand_is_pure_of_sound I structCastGuard_sound e hw hg σ v σ' he

/-- **The struct cast keeps the meaning of its operand.**  Whenever the modelled arm emits `S { c₁, …, cₙ }` for an operand
that evaluates to `v` with final store `σ'`, the `n` clauses evaluate, left to right, to the ONE value `v` — converted to the
element's type by the cast's own step where the clause converts (fix 5d2f434), as it is where the clause copies — with the
same final store `σ'`, and are undefined exactly when one of the conversions is; through the side-effect test (any `n`, also
`n = 0`: the operand is not evaluated at all and had no effect) or because `n = 1`. -/
theorem struct_cast_meaning_kept (I : Interp Val Store) (ty : CTy) (inTy : Nat) (e : DExpr) (hw : wf e = true) (cs : List Clause)
    (hc : structCastNow ty inTy e = .clauses cs) (σ : Store) (v : Val) (σ' : Store) (he : eval I e σ = some (v, σ')) :
    evalClauses I e cs σ = (mapOptL (clauseVal I v σ') cs).map (fun vs => (vs, σ')) := by
  unfold structCastNow structCast at hc
  cases hm : memberTypes ty with
  | error m => rw [hm] at hc; simp at hc
  | ok ts =>
    rw [hm] at hc
    simp only at hc
    split at hc
    · rename_i hcond
      have hk : ts.map (clauseFor inTy (isLiteral e)) = cs := by simpa using hc
      rw [Bool.or_eq_true] at hcond
      cases hcond with
      | inl hg =>
        have := (repeatable_operand_is_pure I e hw hg σ v σ' he).1
        subst this
        exact clauses_of_keeps_store I e σ' v he cs
      | inr h1 =>
        rw [Bool.and_eq_true] at h1
        have h1' : ts.length = 1 := by simpa using h1.2
        match ts, h1' with
        | [t], _ =>
          subst hk
          simp only [List.map, evalClauses, mapOptL]
          rw [eval_clause I e _ σ v σ' he]
          cases clauseVal I v σ' (clauseFor inTy (isLiteral e) t) <;> rfl
    · simp at hc

/-- which clauses copy and which convert: a clause is the operand itself exactly for an element of the operand's type, and
for every element when the operand is a literal; there is one clause per element type, in order -/
theorem struct_cast_clauses (ty : CTy) (inTy : Nat) (e : DExpr) (cs : List Clause) (hc : structCastNow ty inTy e = .clauses cs) :
    ∃ ts, memberTypes ty = .ok ts ∧ cs = ts.map (fun t => if t = inTy ∨ isLiteral e = true then .copy else .convert t) := by
  unfold structCastNow structCast at hc
  cases hm : memberTypes ty with
  | error m => rw [hm] at hc; simp at hc
  | ok ts =>
    rw [hm] at hc
    simp only at hc
    split at hc
    · refine ⟨ts, rfl, ?_⟩
      have hk : ts.map (clauseFor inTy (isLiteral e)) = cs := by simpa using hc
      rw [← hk]
      apply List.map_congr_left
      intro t _
      simp [clauseFor]
    · simp at hc

/-- the arm never repeats an operand it would have to refuse: `unsupportedCast` exactly when the test rejects and the
struct has another number of elements than one -/
theorem struct_cast_refuses_iff (ty : CTy) (inTy : Nat) (e : DExpr) (ts : List Nat) (hm : memberTypes ty = .ok ts) :
    structCastNow ty inTy e = .unsupportedCast ↔ (testExpr structCastGuard e = false ∧ ts.length ≠ 1) := by
  have hflag : structCastAcceptsAnythingForOneElement = true := by decide
  unfold structCastNow structCast
  rw [hm, hflag]
  cases hg : testExpr structCastGuard e <;> by_cases h1 : ts.length = 1 <;> simp [h1]

/-- **The operands of a rewritten floating-point `%=` can be written twice / evaluated in the other order.**  For every
sound chain of tables, every meaning of the effectful constructors `I`, every well-formed operand `e`: if the chain's test
accepts `e` and `e` evaluates to `v` with store `σ'` then `σ' = σ`, and evaluating it again gives the same result. -/
theorem tested_operand_is_pure_of_sound (I : Interp Val Store) {tabs : List (List PlaceRow)} (hs : SoundTabs tabs = true)
    (e : DExpr) (hw : wf e = true) (hg : testD tabs e = true) (σ : Store) (v : Val) (σ' : Store)
    (he : eval I e σ = some (v, σ')) : σ' = σ ∧ eval I e σ' = some (v, σ') := by
  have h := testD_keeps_store I e tabs hs hw hg σ v σ' he
  subst h
  exact ⟨rfl, he⟩

/-- … for the tests of the current source: whenever the modelled arm rewrites `a %= b` to `a = fmod(a, b)`, the target `a`
evaluates without an effect (so naming it twice is harmless) and so does `b` (so it does not matter that the emitted form
reads `a` before `b` is evaluated, the source after) -/
theorem rem_assign_operands_are_pure (I : Interp Val Store) (a b : DExpr) (hwa : wf a = true) (hwb : wf b = true)
    (hr : remAssignNow a b = .targetTwice) :
    (∀ σ v σ', eval I a σ = some (v, σ') → σ' = σ ∧ eval I a σ' = some (v, σ')) ∧
    (∀ σ v σ', eval I b σ = some (v, σ') → σ' = σ ∧ eval I b σ' = some (v, σ')) := by
  unfold remAssignNow at hr
  split at hr
  · rename_i h
    rw [Bool.and_eq_true] at h
    exact ⟨fun σ v σ' he => tested_operand_is_pure_of_sound I dup_sites_guarded.2.2.2.2.2.2.2.2.2.2.1 a hwa h.1 σ v σ' he,
      fun σ v σ' he => tested_operand_is_pure_of_sound I dup_sites_guarded.2.2.2.2.2.2.2.2.2.2.2 b hwb h.2 σ v σ' he⟩
  · simp at hr

end generic

-- ---------------------------------------------------------------------------------------------- on C01's typed IR
open RsslVerif.Model RsslVerif.Spec.Sem

mutual
/-- the embedding lands in well-formed trees -/
theorem wf_toD : ∀ e : Ir.Expr, wf (toD e) = true
  | .lit _ => by simp [toD, wf, wfFields, ctorOf, irExpressionCtors, DFields.length]
  | .var _ => by simp [toD, wf, wfFields, ctorOf, irExpressionCtors, DFields.length]
  | .global _ => by simp [toD, wf, wfFields, ctorOf, irExpressionCtors, DFields.length]
  | .op _ args => by simp [toD, wf, wfFields, ctorOf, irExpressionCtors, DFields.length, wfs_toDs args]
  | .tern c t f => by simp [toD, wf, wfFields, ctorOf, irExpressionCtors, DFields.length, wf_toD c, wf_toD t, wf_toD f]
  | .seq es => by simp [toD, wf, wfFields, ctorOf, irExpressionCtors, DFields.length, wfs_toDs es]
  | .cast _ e => by simp [toD, wf, wfFields, ctorOf, irExpressionCtors, DFields.length, wf_toD e]
  | .call _ args => by simp [toD, wf, wfFields, ctorOf, irExpressionCtors, DFields.length, wfs_toDs args]
  | .intr _ _ _ args => by simp [toD, wf, wfFields, ctorOf, irExpressionCtors, DFields.length, wfs_toDs args]
theorem wfs_toDs : ∀ es : Ir.Exprs, wfList (toDs es) = true
  | .nil => by simp [toDs, wfList]
  | .cons e r => by simp [toDs, wfList, wf_toD e, wfs_toDs r]
end

/-- a sound test rejects a constructor that is not strict and pure -/
theorem sound_rejects {rows : List GuardRow} (hs : Sound rows = true) (c : String) (fs : DFields)
    (hc : strictPure.contains c = false) : testExpr rows (.node c fs) = false := by
  unfold testExpr
  cases hf : findRow rows c with
  | none => rfl
  | some r =>
    have := (sound_row hs hf).1
    rw [hc] at this
    exact absurd this (by simp)

/-- **`repeatable_operand_is_pure` on the typed IR of C01** (`Spec.Sem.Ir.eval`): for every world `W` — every
interpretation `Prim` of the float / conversion / division primitives, every meaning of the callable functions — and every
sound test: an accepted operand evaluates without changing the store. -/
theorem repeatable_operand_is_pure_ir_of_sound (W : World) {rows : List GuardRow} (hs : Sound rows = true) :
    ∀ (e : Ir.Expr), testExpr rows (toD e) = true → ∀ σ v σ', Ir.eval W e σ = some (v, σ') → σ' = σ
  | .lit c, _, σ, v, σ', he => by
    unfold Ir.eval at he
    simp only [Option.some.injEq, Prod.mk.injEq] at he
    exact he.2.symm
  | .var id, _, σ, v, σ', he => by
    unfold Ir.eval at he
    simp only [Option.some.injEq, Prod.mk.injEq] at he
    exact he.2.symm
  | .global id, _, σ, v, σ', he => by
    unfold Ir.eval at he
    simp only [Option.some.injEq, Prod.mk.injEq] at he
    exact he.2.symm
  | .cast ty e, hg, σ, v, σ', he => by
    unfold toD testExpr at hg
    cases hf : findRow rows "Cast" with
    | none => rw [hf] at hg; exact absurd hg (by simp)
    | some r =>
      rw [hf] at hg
      obtain ⟨_, k, hk, _, hrec⟩ := sound_row hs hf
      have hk' : k = ⟨"Cast", 2, [1]⟩ := by
        have : ctorOf "Cast" = some ⟨"Cast", 2, [1]⟩ := by decide
        rw [this] at hk
        exact (Option.some.inj hk).symm
      have h1 : r.recursed.contains 1 = true := hrec 1 (by rw [hk']; decide)
      have hm : 1 ∈ r.recursed := by simpa using h1
      have hge : testExpr rows (toD e) = true := by
        have h2 := hg
        simp [testFields, hm] at h2
        exact h2.2
      unfold Ir.eval castR at he
      cases h : Ir.eval W e σ with
      | none => rw [h] at he; exact absurd he (by simp)
      | some p =>
        obtain ⟨w, σ1⟩ := p
        have ih := repeatable_operand_is_pure_ir_of_sound W hs e hge σ w σ1 h
        rw [h] at he
        simp only at he
        cases hcv : castVal W.P ty w with
        | none => rw [hcv] at he; exact absurd he (by simp)
        | some w' =>
          rw [hcv] at he
          simp only [Option.some.injEq, Prod.mk.injEq] at he
          rw [← he.2, ih]
  | .op o args, hg, _, _, _, _ => by
    rw [toD, sound_rejects hs "IntrinsicOp" _ (by decide)] at hg
    exact absurd hg (by simp)
  | .tern c t f, hg, _, _, _, _ => by
    rw [toD, sound_rejects hs "TernaryConditional" _ (by decide)] at hg
    exact absurd hg (by simp)
  | .seq es, hg, _, _, _, _ => by
    rw [toD, sound_rejects hs "Sequence" _ (by decide)] at hg
    exact absurd hg (by simp)
  | .call f args, hg, _, _, _, _ => by
    rw [toD, sound_rejects hs "Call" _ (by decide)] at hg
    exact absurd hg (by simp)
  | .intr i a b args, hg, _, _, _, _ => by
    rw [toD, sound_rejects hs "Call" _ (by decide)] at hg
    exact absurd hg (by simp)

/-- … for the test of the current source: a repeated operand of a struct cast evaluates twice as it evaluates once — same
value, same store — for every `Prim` -/
theorem repeatable_operand_is_pure_ir (W : World) (e : Ir.Expr) (hg : testExpr structCastGuard (toD e) = true)
    (σ : Store) (v : Val) (σ' : Store) (he : Ir.eval W e σ = some (v, σ')) :
    σ' = σ ∧ Ir.eval W e σ' = some (v, σ') := by
  have h := repeatable_operand_is_pure_ir_of_sound W structCastGuard_sound e hg σ v σ' he
  subst h
  exact ⟨rfl, he⟩

/-- an accepted operand of the typed IR is accepted as a well-formed constructor tree -/
theorem tested_ir_is_pure (W : World) (I : Interp Val Store) {tabs : List (List PlaceRow)} (hs : SoundTabs tabs = true)
    (e : Ir.Expr) (hg : testD tabs (toD e) = true) (σ : Store) (v : Val) (σ' : Store) (he : eval I (toD e) σ = some (v, σ')) :
    σ' = σ := testD_keeps_store I (toD e) tabs hs (wf_toD e) hg σ v σ' he

/-- **`rem_assign_operands_are_pure` on the typed IR of C01** (`Spec.Sem.Ir.eval`): when the modelled `%=` arm rewrites
`a %= b` to `a = fmod(a, b)` on the scalar subset, the target is a local, a parameter or a global and the right operand is
pure in the sense of `Ir.pureExpr`: for every world `W` — every interpretation `Prim`, every meaning of the callable
functions — evaluating it leaves the store unchanged, so reading the target before or after it is the same
(`Lemmas.GenMsl.sim_remAssignM` builds the meaning-preservation of the emitted form on exactly this). -/
theorem rem_assign_operands_are_pure_ir (W : World) (a b : Ir.Expr) (hr : remAssignNow (toD a) (toD b) = .targetTwice) :
    ((∃ id, a = .var id) ∨ (∃ id, a = .global id)) ∧
    (∀ σ v σ', Ir.eval W b σ = some (v, σ') → σ' = σ) := by
  unfold remAssignNow at hr
  split at hr
  · rename_i h
    rw [Bool.and_eq_true] at h
    exact ⟨Lemmas.GenMsl.plainPlace_cases h.1,
      fun σ v σ' he => Lemmas.GenMsl.pure_eval W b σ v σ' (Lemmas.GenMsl.freeOfWrites_pure b h.2) he⟩
  · simp at hr

-- ---------------------------------------------------------------------------------------------- non-vacuity, witnesses
/-- the hypotheses are satisfiable: a static, a literal and a parameter are accepted and well formed; an array element
(even with a constant index), an arithmetic expression, `i++` are not -/
example : testExpr structCastGuard (toD (.global 3)) = true ∧ wf (toD (.global 3)) = true ∧
    testExpr structCastGuard (.node "Literal" (.payload 0 .nil)) = true ∧
    testExpr structCastGuard (.node "MemberVariable" (.payload 1 (.payload 0 .nil))) = true ∧
    testExpr structCastGuard (.node "ArraySubscript" (.one (.node "Variable" (.payload 1 .nil))
      (.one (.node "Literal" (.payload 2 .nil)) .nil))) = false ∧
    testExpr structCastGuard (toD (.op .PostfixIncrement (.cons (.var 0) .nil))) = false := by
  decide

/-- `struct S { int a; int b; int c[2]; }` (int = type 7) has four elements, `struct { I a; I b[2]; float c; }` with
`I = { p; q }` seven; `(S)x` with `x : int` is four copies, with `x : float` (type 9) four conversions, `(S)1.5` four copies
(a literal is written as it is); `struct { float a; int b; uint c[2]; }` from an `int`: convert, copy, convert, convert;
`(S)(i++)` is refused for four elements and written once for one -/
example :
    memberTypes (.struct [.leaf 7, .leaf 7, .arr (.leaf 7) (some 2)]) = .ok [7, 7, 7, 7] ∧
    memberTypes (.struct [.struct [.leaf 7, .leaf 7], .arr (.struct [.leaf 7, .leaf 7]) (some 2), .leaf 9]) = .ok [7, 7, 7, 7, 7, 7, 9] ∧
    structCastNow (.struct [.leaf 7, .leaf 7, .arr (.leaf 7) (some 2)]) 7 (toD (.var 0)) = .clauses [.copy, .copy, .copy, .copy] ∧
    structCastNow (.struct [.leaf 7, .leaf 7, .arr (.leaf 7) (some 2)]) 9 (toD (.var 0)) =
      .clauses [.convert 7, .convert 7, .convert 7, .convert 7] ∧
    structCastNow (.struct [.leaf 7, .leaf 7, .arr (.leaf 7) (some 2)]) 9 (.node "Literal" (.payload 0 .nil)) =
      .clauses [.copy, .copy, .copy, .copy] ∧
    structCastNow (.struct [.leaf 9, .leaf 7, .arr (.leaf 8) (some 2)]) 7 (toD (.var 0)) =
      .clauses [.convert 9, .copy, .convert 8, .convert 8] ∧
    structCastNow (.struct [.leaf 7, .leaf 7, .arr (.leaf 7) (some 2)]) 7 (toD (.op .PostfixIncrement (.cons (.var 0) .nil))) = .unsupportedCast ∧
    structCastNow (.struct [.leaf 7]) 7 (toD (.op .PostfixIncrement (.cons (.var 0) .nil))) = .clauses [.copy] := by
  refine ⟨rfl, rfl, ?_, ?_, ?_, ?_, ?_, ?_⟩ <;> decide +kernel

/-- the `%=` tests on examples: `arr[(j + 1) & 3]`, `s.m.xy`, a member variable are plain places, `arr[i++]`, `arr[f(i)]`,
`arr[b ? 1 : 2]`, `(a, b)` are not; `x + y * 2`, `b ? x : arr[j]`, `float3(x, y, x).y` are free of writes, `x++`, `f(y)`,
`(x = y)`, `(x, y)` are not; `v %= w` is rewritten, `v %= f(w)` and `arr[i++] %= w` are refused -/
example :
    plainPlaceD (.node "ArraySubscript" (.one (.node "Variable" (.payload 1 .nil))
      (.one (.node "IntrinsicOp" (.payload 15 (.many (.cons (.node "IntrinsicOp" (.payload 8 (.many (.cons (.node "Variable" (.payload 2 .nil))
        (.cons (.node "Literal" (.payload 0 .nil)) .nil)) .nil))) (.cons (.node "Literal" (.payload 0 .nil)) .nil)) .nil))) .nil))) = true ∧
    plainPlaceD (.node "Swizzle" (.one (.node "StructMember" (.one (.node "Variable" (.payload 1 .nil)) (.payload 0 (.payload 0 .nil)))) (.payload 0 .nil))) = true ∧
    plainPlaceD (.node "MemberVariable" (.payload 1 (.payload 0 .nil))) = true ∧
    plainPlaceD (.node "ArraySubscript" (.one (.node "Variable" (.payload 1 .nil))
      (.one (toD (.op .PostfixIncrement (.cons (.var 0) .nil))) .nil))) = false ∧
    plainPlaceD (.node "ArraySubscript" (.one (.node "Variable" (.payload 1 .nil)) (.one (toD (.call 3 (.cons (.var 0) .nil))) .nil))) = false ∧
    plainPlaceD (.node "ArraySubscript" (.one (.node "Variable" (.payload 1 .nil))
      (.one (toD (.tern (.var 0) (.lit (.int32 1)) (.lit (.int32 2)))) .nil))) = false ∧
    plainPlaceD (toD (.seq (.cons (.var 0) (.cons (.var 1) .nil)))) = false ∧
    freeOfWritesD (toD (.op .Add (.cons (.var 0) (.cons (.op .Multiply (.cons (.var 1) (.cons (.lit (.int32 2)) .nil))) .nil)))) = true ∧
    freeOfWritesD (toD (.tern (.var 2) (.var 0) (.var 1))) = true ∧
    freeOfWritesD (.node "Swizzle" (.one (.node "Constructor" (.payload 0 (.many (.cons (.node "Variable" (.payload 0 .nil))
      (.cons (.node "Variable" (.payload 1 .nil)) .nil)) .nil))) (.payload 0 .nil))) = true ∧
    freeOfWritesD (toD (.op .PostfixIncrement (.cons (.var 0) .nil))) = false ∧
    freeOfWritesD (toD (.call 3 (.cons (.var 0) .nil))) = false ∧
    freeOfWritesD (toD (.op .Assignment (.cons (.var 0) (.cons (.var 1) .nil)))) = false ∧
    freeOfWritesD (toD (.seq (.cons (.var 0) (.cons (.var 1) .nil)))) = false ∧
    remAssignNow (toD (.var 0)) (toD (.var 1)) = .targetTwice ∧
    remAssignNow (toD (.var 0)) (toD (.call 3 (.cons (.var 1) .nil))) = .refused ∧
    remAssignNow (.node "ArraySubscript" (.one (.node "Variable" (.payload 1 .nil))
      (.one (toD (.op .PostfixIncrement (.cons (.var 0) .nil))) .nil))) (toD (.var 1)) = .refused := by
  decide +kernel

/-- the side-effect test of seeded mutant C02-3 (`is_repeatable`: member, swizzle and subscript of a repeatable object —
the INDEX of the subscript is not looked at) -/
def indexBlindTest : List GuardRow :=
  [⟨"Literal", 1, []⟩, ⟨"Variable", 1, []⟩, ⟨"MemberVariable", 2, []⟩, ⟨"Global", 1, []⟩, ⟨"ConstantVariable", 1, []⟩,
   ⟨"EnumValue", 1, []⟩, ⟨"StructMember", 3, [0]⟩, ⟨"Swizzle", 2, [0]⟩, ⟨"ArraySubscript", 2, [0]⟩]

/-- a store = one counter; `IntrinsicOp` = `i++` (value: the counter, then the counter grows); a subscript returns its index -/
def counterInterp : Interp Nat Nat where
  step := fun c _ vs σ => match c, vs with
    | "ArraySubscript", [_, i] => some i
    | "Variable", _ => some σ
    | _, _ => some 0
  early := fun _ _ _ => none
  choose := fun v => some (v != 0)
  other := fun _ _ σ => some (σ, σ + 1)

/-- `arr[i++]` -/
def arrAtIncrement : DExpr :=
  .node "ArraySubscript" (.one (.node "Variable" (.payload 1 .nil)) (.one (.node "IntrinsicOp" (.payload 0 (.many (.cons (.node "Variable" (.payload 2 .nil)) .nil) .nil))) .nil))

/-- the current test refuses `arr[i++]` -/
example : testExpr structCastGuard arrAtIncrement = false := by decide

/-- **What the mutant falsifies**: its test is not sound, it accepts the well-formed operand `arr[i++]`, and the two
clauses `S { arr[i++], arr[i++] }` give the values 0, 1 and leave the counter at 2, while the operand evaluated once
gives 0 and leaves 1.  (So `Sound` cannot be dropped from `repeatable_operand_is_pure_of_sound`.) -/
theorem index_blind_test_repeats_effect :
    Sound indexBlindTest = false ∧ wf arrAtIncrement = true ∧ testExpr indexBlindTest arrAtIncrement = true ∧
    eval counterInterp arrAtIncrement 0 = some (0, 1) ∧
    evalRepeat counterInterp arrAtIncrement 2 0 = some ([0, 1], 2) := by
  decide +kernel

end RsslVerif.Thm.C02Dup

//! C06.compile: the end-to-end leg. Whole generated shader files go through the real `rssl::compile`
//! and the slots are read from the returned reflection metadata (what the property's "observe at" names).
//!
//! request : C06.compile \t <dx|vk|vkba|msl> \t <all|name=X|nopipeline> \t <pipes> \t <decls>
//!   pipes : `-` or `;`-joined `<name>:<default group|->:<c|g>[=<k>]:<used declaration indices, '.'-joined>`
//!           (`c` = compute pipeline, `g` = vertex + pixel pipeline; `=<k>`: built from the entry points of the k-th
//!           pipeline, which has the same kind; in source order)
//!   decls : `;`-joined `<name>=<decl>~<flags>` in source order; <decl> as in C06.assign
//!           (`o` | `c:<set|->` | `g:<set|->:<ss>:<Kind|->:<len|->`); flags ('.'-joined, only `s` and `z`
//!           change what the allocator sees, the others only change how the source spells the same thing):
//!             a r v  explicit group written as [[rssl::bind_group(G)]] / register(.., spaceG) / [[vk::binding(N, G)]]
//!             i<N>   explicit language-level slot index (register(tN) / vk::binding(N)): API slots ignore it
//!             b      [[rssl::bindless]]          n  declared inside `namespace NS { }`
//!             j      written as a further declarator of the previous declaration (`T a, b[2];`). The attributes
//!                    (a / v / the attribute half of o / w / b), the namespace, the type and `static` belong to the
//!                    DECLARATION and are those of its first declarator; everything else is per declarator: for a `j`
//!                    entry `<set>` is the space of its OWN `register(.., space<set>)` (flag `r` implied), `i<N>` its
//!                    own register index, `<ss>` its own `= StaticSampler {..}` initialiser, `<len>`/z/m its own array
//!                    shape. The explicit group of a declarator = the declaration's attribute group, else its own
//!                    register space, else none (-> the pipeline's default group).
//!             R<i|->_<g|->  one more `: register(<class><i>, space<g>)` annotation on this declarator, after the
//!                    first one (repeated annotations are accepted when they all say the same, rejected otherwise)
//!             Y      one more annotation that is a semantic (`: TEXCOORD`): rejected on a global
//!             k      the register index is written with the register class of another kind (`register(u3)` on a
//!                    texture): rejected
//!             w<G>   a further `[[rssl::bind_group(G)]]` written BEFORE the other attributes of the declaration
//!                    (the later attribute wins)
//!             E      the first storage keyword of the declaration is written twice (`extern extern`): accepted
//!             A<n>   an ill-formed attribute in front of all others (n = 0..11: no / too many arguments, unknown leaf,
//!                    unknown namespace, a single name, an argument that is no u32 constant; `BAD_ATTRS`): rejected
//!             e      the keyword `extern` is written (the default storage class; after `static`/`groupshared`: rejected)
//!             G      (with s) the static storage is spelled `groupshared`
//!             q      (with s) this declarator has a `= StaticSampler {..}` initialiser: rejected
//!             b on a cbuffer: rejected (a block cannot be bindless)
//!             s      `static` storage (lives in the shader: no slot)
//!             z      unsized array `name[]` (the allocator ignores unsized arrays; the property excludes them)
//!             m      two-dimensional array `name[len][2]` (the allocator peels one array layer and ignores it;
//!                    outside the property's quantifier, which lists one-dimensional lengths)
//!             o      [[rssl::bind_group(G)]] written together with register(space(G+1)): the attribute wins
//! observe : `ok:` + per returned pipeline `{group / group / ...}` joined by ` ## `; group = bindings `;`-joined
//!           then `|` and the inline block `location,size` or `-`; binding = `name,(i<index>|n<offset>),(count|*)`
//!           | `err:none` | `err:unknown:<name>` | `err:bind-group:<n>` | `err:other:<text>` | `panic:<site>`
//!           | `err:decl:<class>:<name>` the type checker rejects the binding annotation of declarator <name>
//!             (class = register | register-type-<used>-<expected> | static-sampler-index | register-here | semantic
//!             | static-sampler-storage | attribute-count | attribute-unknown | attribute-not-constant |
//!             modifier-conflict; <name> = the identifier the reported location points at)
//! oracle  : the property's own words on the real metadata of every returned pipeline (independent of the model):
//!           in each group exactly the bound declarations of the group are reported, their index ranges tile from 0 in
//!           declaration order (entries are matched by name, not by position in the metadata vector) with the
//!           length the kind and array length need on the target, buffer addresses take 8 bytes each at
//!           consecutive offsets of one inline block whose slot follows all index slots and whose size is their
//!           sum, ungrouped resources are in the default group of THIS pipeline (0 in no-pipeline mode).
//!           All of it is evaluated PER DECLARATOR: the explicit groups a declarator can be in are the ones written
//!           in the attributes of its declaration and in its own register annotations; a declarator with neither
//!           must be in the default group whatever its neighbours in the same declaration say. A program whose
//!           every declarator carries at most one distinct register annotation of the right class (and no index on
//!           a static sampler) must not be rejected because of its binding annotations.
use super::{is_resource, parse_decl, show_decl, spelling, Decl, DOUBLED, KINDS};
use crate::compile_util::{Mode, Tgt, ALL_TARGETS};
use crate::util::*;

#[derive(Clone, Copy, Debug, PartialEq)]
pub enum How {
    Attr,
    Space,
    VkBinding,
    /// `[[rssl::bind_group(G)]]` together with `register(space(G+1))`: the attribute overrides the register space
    Override,
}

#[derive(Clone, Debug, PartialEq)]
pub struct Res {
    pub name: String,
    pub decl: Decl,
    pub how: How,
    pub lang_index: Option<u32>,
    pub bindless: bool,
    pub ns: bool,
    pub unsized_arr: bool,
    /// two-dimensional array `name[len][2]`: the allocator peels one array layer only and then sees no object
    pub dim2: bool,
    pub joined: bool,
    /// further annotations on this declarator, after the first register annotation
    pub extra: Vec<Ann>,
    /// a further `[[rssl::bind_group(G)]]` before the other attributes of the declaration
    pub pre_group: Option<u32>,
    /// the register index is spelled with the register class of another kind
    pub wrong_class: bool,
    /// an ill-formed attribute (code 0-9, see `BAD_ATTRS`) in front of the other attributes of the declaration
    pub bad_attr: Option<u32>,
    /// the keyword `extern` is written (after `static` / `groupshared` if the declaration has one: a conflict)
    pub extern_kw: bool,
    /// a static-storage declaration written with `groupshared` instead of `static`
    pub groupshared: bool,
    /// a declarator of a static-storage declaration with a `= StaticSampler {..}` initialiser: rejected
    pub static_ss: bool,
    /// the (first) storage keyword is written twice (`static static`, `extern extern`): accepted
    pub dup_kw: bool,
    /// spelling only (wave 5): how the same declaration can be written without changing what is bound
    pub sp: Spell,
}

/// Spellings that must not change a single slot (flags `C T U x<n> F<n> N l L`)
#[derive(Clone, Copy, Debug, PartialEq, Default)]
pub struct Spell {
    /// `C` the keyword `const` is written on the declaration (an extern global is const anyway)
    pub const_kw: bool,
    /// `T` the object type is written through `typedef <type> T_<name>;`
    pub typedefd: bool,
    /// `U` the array is part of a typedef: `typedef <type> TA_<name>[len]; TA_<name> name;` (one declarator only).
    /// The type checker looks the register class up on the declaration's BASE type, which is an array here:
    /// every `register(..)` on such a declarator is rejected (`InvalidRegisterAnnotation`).
    pub typedef_arr: bool,
    /// `x<n>` the array length is a constant expression: 0 `[len + 0]`, 1 `[len * 1u]`, 2 a named constant
    /// `static const uint N_<name> = len;` declared just before
    pub len_expr: Option<u32>,
    /// `F<n>` what an `o` entry (a root definition that is never bound) is: 0 struct, 1 enum, 2 function prototype
    /// followed by its definition, 3 function definition, 4 typedef (no root definition at all)
    pub other_form: u32,
    /// `N` (with n) the namespace is nested: `namespace NS { namespace IN { .. } }`
    pub nested_ns: bool,
    /// `l` written after the entry point functions, `L` after the Pipeline blocks (2). Every later entry is at least
    /// as late (request order = source order); such a declaration is not mentioned in any function.
    pub late: u32,
    /// `M<n>` (not a mere spelling; cbuffer only) the first member carries an annotation: 0 `: register(b0)`,
    /// 1 `: TEXCOORD` -- both rejected (`register() is not allowed here` / `semantic is not allowed here`)
    pub member_ann: Option<u32>,
}

/// the compile() options next to the target: `<target>[+<B|L|S|D>...]`
#[derive(Clone, Copy, Debug, PartialEq)]
pub struct Cfg {
    pub tgt: Tgt,
    /// `B` `support_buffer_address(true)` whatever the target is (DirectX / Metal: compile must refuse)
    pub ba: bool,
    /// `L` validate_layout_consistency(true), `S` source_info(true), `D` two user defines: none of them may move a slot
    pub layout: bool,
    pub srcinfo: bool,
    pub defines: bool,
    /// `Q` in no-pipeline mode a pipeline name is given as well (`pipeline_name(Some("Q_none"))`, a name no pipeline
    /// has): no-pipeline mode builds the one unselected module whatever the name says
    pub np_name: bool,
}

impl Cfg {
    pub fn plain(tgt: Tgt) -> Cfg {
        Cfg { tgt, ba: false, layout: false, srcinfo: false, defines: false, np_name: false }
    }
    /// the parameter set the property speaks of, `None` = buffer addresses requested on a target without them
    pub fn eff(&self) -> Option<Tgt> {
        match (self.ba, self.tgt) {
            (false, t) => Some(t),
            (true, Tgt::Vk) | (true, Tgt::VkBa) => Some(Tgt::VkBa),
            (true, _) => None,
        }
    }
    pub fn show(&self) -> String {
        let mut s = self.tgt.name().to_string();
        for (on, c) in [(self.ba, 'B'), (self.layout, 'L'), (self.srcinfo, 'S'), (self.defines, 'D'), (self.np_name, 'Q')] {
            if on {
                s.push('+');
                s.push(c);
            }
        }
        s
    }
    pub fn parse(s: &str) -> Option<Cfg> {
        let mut it = s.split('+');
        let mut c = Cfg::plain(Tgt::parse(it.next()?)?);
        for o in it {
            match o {
                "B" => c.ba = true,
                "L" => c.layout = true,
                "S" => c.srcinfo = true,
                "D" => c.defines = true,
                "Q" => c.np_name = true,
                _ => return None,
            }
        }
        Some(c)
    }
}

/// ill-formed attributes: (source text, what the type checker names in its message)
pub const BAD_ATTRS: &[(&str, &str)] = &[
    ("rssl::bind_group", "bind_group"),
    ("rssl::bind_group(1, 2)", "bind_group"),
    ("rssl::bindless(1)", "bindless"),
    ("rssl::nope", "nope"),
    ("vk::binding", "binding"),
    ("vk::binding(1, 2, 3)", "binding"),
    ("vk::nope", "nope"),
    ("other::thing", "other"),
    ("single", "single"),
    ("rssl::bind_group(-1)", ""),
    ("rssl::bind_group(WaveGetLaneCount())", "WaveGetLaneCount"),
    ("vk::binding(0, 4294967296)", "4294967296"),
];

#[derive(Clone, Copy, Debug, PartialEq)]
pub enum Ann {
    /// `: register(<class><index>, space<space>)` (at least one of the two)
    Reg(Option<u32>, Option<u32>),
    /// `: TEXCOORD`
    Semantic,
}

#[derive(Clone, Debug, PartialEq)]
pub struct Pipe {
    pub name: String,
    pub dflt: Option<u32>,
    pub graphics: bool,
    pub uses: Vec<usize>,
    /// the pipeline is built from the entry points of this earlier pipeline of the same kind
    pub share: Option<usize>,
    /// how `DefaultBindGroup = d` is written (letters after the kind): `f` as the first property of the block,
    /// `x` as `d + 0`, `h` in hexadecimal, `k` through a named constant `static const uint K_<name> = d;`
    pub dspell: String,
    /// kind `m`: a mesh shader + pixel shader pipeline (`graphics` is set as well; the uses are split between the two
    /// stages as for `g`)
    pub mesh: bool,
    /// kind `v` / `p`: a graphics pipeline with a vertex shader only / a pixel shader only (`graphics` is set as well)
    pub single: Option<char>,
}

#[derive(Clone, Debug, PartialEq)]
pub struct Prog {
    pub res: Vec<Res>,
    pub pipes: Vec<Pipe>,
}

// ---------------------------------------------------------------------------------------------- request text

fn res_set(r: &Res) -> Option<u32> {
    match &r.decl {
        Decl::Other => None,
        Decl::CBuffer(s) => *s,
        Decl::Global { set, .. } | Decl::StaticObject { set, .. } => *set,
    }
}

fn show_ann(a: &Ann) -> String {
    let on = |o: &Option<u32>| o.map(|v| v.to_string()).unwrap_or_else(|| "-".into());
    match a {
        Ann::Reg(i, g) => format!("R{}_{}", on(i), on(g)),
        Ann::Semantic => "Y".into(),
    }
}

fn show_res(r: &Res) -> String {
    let mut flags: Vec<String> = Vec::new();
    let (decl_text, is_static) = match &r.decl {
        Decl::StaticObject { set, kind, len } => (
            show_decl(&Decl::Global { set: *set, ss: false, kind: Some(kind), len: *len }),
            true,
        ),
        d => (show_decl(d), false),
    };
    if res_set(r).is_some() || r.lang_index.is_some() {
        let how = if r.joined { How::Space } else { r.how };
        flags.push(match how { How::Attr => "a", How::Space => "r", How::VkBinding => "v", How::Override => "o" }.to_string());
    }
    if let Some(i) = r.lang_index {
        flags.push(format!("i{}", i));
    }
    if r.wrong_class { flags.push("k".into()); }
    for a in &r.extra {
        flags.push(show_ann(a));
    }
    if !r.joined {
        // declaration-level: a further declarator has what the first one has
        if let Some(g) = r.pre_group { flags.push(format!("w{}", g)); }
        if let Some(n) = r.bad_attr { flags.push(format!("A{}", n)); }
        if r.bindless { flags.push("b".into()); }
        if r.ns { flags.push("n".into()); }
        if r.extern_kw { flags.push("e".into()); }
        if r.dup_kw { flags.push("E".into()); }
    }
    if r.joined { flags.push("j".into()); }
    if is_static { flags.push("s".into()); }
    if is_static && r.groupshared { flags.push("G".into()); }
    if is_static && r.static_ss { flags.push("q".into()); }
    if r.unsized_arr { flags.push("z".into()); }
    if r.dim2 { flags.push("m".into()); }
    if !r.joined {
        if r.sp.const_kw { flags.push("C".into()); }
        if r.sp.typedefd { flags.push("T".into()); }
        if r.sp.typedef_arr { flags.push("U".into()); }
        if r.sp.nested_ns { flags.push("N".into()); }
        if r.sp.other_form > 0 { flags.push(format!("F{}", r.sp.other_form)); }
    }
    if let Some(n) = r.sp.len_expr { flags.push(format!("x{}", n)); }
    if let Some(n) = r.sp.member_ann { flags.push(format!("M{}", n)); }
    match r.sp.late { 0 => {} 1 => flags.push("l".into()), _ => flags.push("L".into()) }
    format!("{}={}~{}", r.name, decl_text, flags.join("."))
}

fn parse_res(s: &str) -> Option<Res> {
    let (name, rest) = s.split_once('=')?;
    let (decl_text, flags) = rest.split_once('~')?;
    let mut decl = parse_decl(decl_text)?;
    let mut r = Res {
        name: name.to_string(),
        decl: Decl::Other,
        how: How::Attr,
        lang_index: None,
        bindless: false,
        ns: false,
        unsized_arr: false,
        dim2: false,
        joined: false,
        extra: Vec::new(),
        pre_group: None,
        wrong_class: false,
        bad_attr: None,
        extern_kw: false,
        groupshared: false,
        static_ss: false,
        dup_kw: false,
        sp: Spell::default(),
    };
    let on = |t: &str| -> Option<Option<u32>> { if t == "-" { Some(None) } else { t.parse().ok().map(Some) } };
    for f in flags.split('.').filter(|f| !f.is_empty()) {
        match f {
            "a" => r.how = How::Attr,
            "r" => r.how = How::Space,
            "v" => r.how = How::VkBinding,
            "o" => r.how = How::Override,
            "m" => r.dim2 = true,
            "b" => r.bindless = true,
            "n" => r.ns = true,
            "j" => r.joined = true,
            "z" => r.unsized_arr = true,
            "k" => r.wrong_class = true,
            "e" => r.extern_kw = true,
            "E" => r.dup_kw = true,
            "G" => r.groupshared = true,
            "q" => r.static_ss = true,
            "Y" => r.extra.push(Ann::Semantic),
            "C" => r.sp.const_kw = true,
            "T" => r.sp.typedefd = true,
            "U" => r.sp.typedef_arr = true,
            "N" => r.sp.nested_ns = true,
            "M0" => r.sp.member_ann = Some(0),
            "M1" => r.sp.member_ann = Some(1),
            "l" => r.sp.late = 1,
            "L" => r.sp.late = 2,
            f if f.starts_with('x') => r.sp.len_expr = Some(f[1..].parse().ok().filter(|n| *n < 3)?),
            f if f.starts_with('F') => r.sp.other_form = f[1..].parse().ok().filter(|n| *n >= 1 && *n <= 4)?,
            "s" => {
                decl = match decl {
                    Decl::Global { set, ss: false, kind: Some(kind), len } => Decl::StaticObject { set, kind, len },
                    _ => return None,
                }
            }
            f if f.starts_with('i') => r.lang_index = Some(f[1..].parse().ok()?),
            f if f.starts_with('w') => r.pre_group = Some(f[1..].parse().ok()?),
            f if f.starts_with('A') => r.bad_attr = Some(f[1..].parse().ok().filter(|n| (*n as usize) < BAD_ATTRS.len())?),
            f if f.starts_with('R') => {
                let (i, g) = f[1..].split_once('_')?;
                let (i, g) = (on(i)?, on(g)?);
                if i.is_none() && g.is_none() {
                    return None;
                }
                r.extra.push(Ann::Reg(i, g));
            }
            _ => return None,
        }
    }
    r.decl = decl;
    Some(r)
}

/// (object kind, static storage) of a declaration that can have several declarators
fn base_of(r: &Res) -> Option<(&'static str, bool)> {
    match &r.decl {
        Decl::Global { kind: Some(k), .. } => Some((*k, false)),
        Decl::StaticObject { kind, .. } => Some((*kind, true)),
        _ => None,
    }
}

impl Res {
    fn decl_len(&self) -> Option<u32> {
        entry_len(self)
    }
}

/// index of the first declarator of the declaration that entry `i` is written in
pub fn head_of(res: &[Res], i: usize) -> usize {
    let mut h = i;
    while h > 0 && res[h].joined {
        h -= 1;
    }
    h
}

/// Make the entries say what the rendered source says: a `j` entry that cannot be a further declarator (different
/// type or storage, nothing before it) starts its own declaration; a further declarator has the declaration-level
/// facts of the first one and spells a group of its own only as a register space.
pub fn normalise(res: &mut [Res]) {
    // a typedef'd array type stands for the whole declaration: only on a declaration with one declarator (judged on
    // the raw `j` flag of the next entry), whose own shape is one sized array layer
    for i in 0..res.len() {
        let arr = match &res[i].decl {
            Decl::Global { kind: Some(_), len: Some(_), ss: false, .. } | Decl::StaticObject { len: Some(_), .. } => true,
            _ => false,
        };
        if res[i].joined || !arr || res[i].unsized_arr || res[i].dim2 || (i + 1 < res.len() && res[i + 1].joined) {
            res[i].sp.typedef_arr = false;
        }
    }
    for i in 0..res.len() {
        if !res[i].joined {
            continue;
        }
        if i == 0 || base_of(&res[i]).is_none() || base_of(&res[i]) != base_of(&res[head_of(res, i - 1)]) {
            res[i].joined = false;
            continue;
        }
        let h = head_of(res, i - 1);
        res[i].how = How::Space;
        res[i].pre_group = None;
        res[i].bad_attr = None;
        res[i].ns = res[h].ns;
        res[i].bindless = res[h].bindless;
        res[i].extern_kw = res[h].extern_kw;
        res[i].groupshared = res[h].groupshared;
        res[i].dup_kw = res[h].dup_kw;
        res[i].sp.const_kw = res[h].sp.const_kw;
        res[i].sp.typedefd = res[h].sp.typedefd;
        res[i].sp.nested_ns = res[h].sp.nested_ns;
        res[i].sp.typedef_arr = false;
    }
    // later and later: request order = source order
    let mut cur = 0;
    for i in 0..res.len() {
        if res[i].joined {
            res[i].sp.late = res[head_of(res, i)].sp.late;
        } else {
            cur = std::cmp::max(cur, res[i].sp.late);
            res[i].sp.late = cur;
        }
    }
    for r in res.iter_mut() {
        if base_of(r).is_none() {
            r.sp.const_kw = false;
            r.sp.typedefd = false;
        }
        if matches!(&r.decl, Decl::StaticObject { .. }) {
            // `static const T x;` has no initialiser: the Metal exporter refuses it (UninitializedConstant)
            r.sp.const_kw = false;
        }
        if !matches!(&r.decl, Decl::Other) {
            r.sp.other_form = 0;
        }
        if !matches!(&r.decl, Decl::CBuffer(_)) {
            r.sp.member_ann = None;
        }
        if !r.ns {
            r.sp.nested_ns = false;
        }
        let has_len = matches!(&r.decl, Decl::Global { kind: Some(_), len: Some(_), .. } | Decl::StaticObject { len: Some(_), .. });
        if !has_len || r.unsized_arr {
            r.sp.len_expr = None;
        }
        if !matches!(&r.decl, Decl::StaticObject { .. }) {
            r.groupshared = false;
            r.static_ss = false;
        }
        if base_of(r).is_none() {
            r.extern_kw = false;
        }
        if !r.extern_kw && !matches!(&r.decl, Decl::StaticObject { .. }) {
            r.dup_kw = false;
        }
    }
}

fn show_pipe(p: &Pipe) -> String {
    let uses: Vec<String> = p.uses.iter().map(|u| u.to_string()).collect();
    format!(
        "{}:{}:{}{}{}:{}",
        p.name,
        p.dflt.map(|d| d.to_string()).unwrap_or_else(|| "-".into()),
        if let Some(c) = p.single { if c == 'v' { "v" } else { "p" } } else if p.mesh { "m" } else if p.graphics { "g" } else { "c" },
        p.dspell,
        p.share.map(|k| format!("={}", k)).unwrap_or_default(),
        uses.join(".")
    )
}

fn parse_pipe(s: &str) -> Option<Pipe> {
    let f: Vec<&str> = s.split(':').collect();
    if f.len() != 4 {
        return None;
    }
    let (kind, share) = match f[2].split_once('=') {
        Some((k, j)) => (k, Some(j.parse::<usize>().ok()?)),
        None => (f[2], None),
    };
    if !kind[kind.len().min(1)..].chars().all(|c| "fxhk".contains(c)) {
        return None;
    }
    Some(Pipe {
        name: f[0].to_string(),
        dflt: if f[1] == "-" { None } else { Some(f[1].parse().ok()?) },
        graphics: match kind.chars().next() { Some('c') => false, Some('g') | Some('m') | Some('v') | Some('p') => true, _ => return None },
        mesh: kind.starts_with('m'),
        single: kind.chars().next().filter(|c| *c == 'v' || *c == 'p'),
        dspell: kind[1..].to_string(),
        share,
        uses: f[3].split('.').filter(|u| !u.is_empty()).map(|u| u.parse().ok()).collect::<Option<Vec<usize>>>()?,
    })
}

pub fn request(tgt: Cfg, mode: &Mode, p: &Prog) -> String {
    let pipes: Vec<String> = p.pipes.iter().map(show_pipe).collect();
    let res: Vec<String> = p.res.iter().map(show_res).collect();
    format!(
        "C06.compile\t{}\t{}\t{}\t{}",
        tgt.show(),
        mode.show(),
        if pipes.is_empty() { "-".to_string() } else { pipes.join(";") },
        res.join(";")
    )
}

pub fn parse_request(f: &[&str]) -> Option<(Cfg, Mode, Prog)> {
    if f.len() != 5 || f[0] != "C06.compile" {
        return None;
    }
    let tgt = Cfg::parse(f[1])?;
    let mode = if f[2] == "all" {
        Mode::All
    } else if f[2] == "nopipeline" {
        Mode::NoPipeline
    } else {
        Mode::Named(f[2].strip_prefix("name=")?.to_string())
    };
    let pipes = if f[3] == "-" {
        Vec::new()
    } else {
        f[3].split(';').map(parse_pipe).collect::<Option<Vec<_>>>()?
    };
    let mut res = if f[4].is_empty() {
        Vec::new()
    } else {
        f[4].split(';').map(parse_res).collect::<Option<Vec<_>>>()?
    };
    normalise(&mut res);
    Some((tgt, mode, Prog { res, pipes }))
}

// ---------------------------------------------------------------------------------------------- source text

fn reg_class(kind: &str) -> char {
    if kind.starts_with("RW") {
        'u'
    } else if kind.starts_with("Sampler") {
        's'
    } else if kind == "ConstantBuffer" {
        'b'
    } else {
        't'
    }
}

#[derive(Clone, Copy, Debug, PartialEq)]
pub enum AttrText {
    BindGroup(u32),
    VkBinding(u32, Option<u32>),
    Bindless,
}

/// the attributes written in front of the declaration whose first declarator is `h`, in source order
pub fn decl_attrs(h: &Res) -> Vec<AttrText> {
    let mut v = Vec::new();
    if h.bindless {
        v.push(AttrText::Bindless);
    }
    if let Some(g) = h.pre_group {
        v.push(AttrText::BindGroup(g));
    }
    let set = res_set(h);
    let object = !matches!(&h.decl, Decl::Global { kind: None, .. } | Decl::Other);
    match h.how {
        How::VkBinding if object && (set.is_some() || h.lang_index.is_some()) => {
            v.push(AttrText::VkBinding(h.lang_index.unwrap_or(0), set))
        }
        How::Space if object => {}
        _ => {
            if let Some(g) = set {
                v.push(AttrText::BindGroup(g));
            }
        }
    }
    v
}

/// the annotations written after declarator `r` in source order, each with "spelled with a wrong register class"
pub fn own_anns(r: &Res) -> Vec<(Ann, bool)> {
    let mut v = Vec::new();
    let set = res_set(r);
    let object = !matches!(&r.decl, Decl::Global { kind: None, .. } | Decl::Other);
    let how = if r.joined { How::Space } else { r.how };
    if object {
        match how {
            How::Space => {
                if set.is_some() || r.lang_index.is_some() {
                    v.push((Ann::Reg(r.lang_index, set), r.wrong_class && r.lang_index.is_some()));
                }
            }
            How::Override if set.is_some() => {
                v.push((Ann::Reg(r.lang_index, Some(set.unwrap() + 1)), r.wrong_class && r.lang_index.is_some()))
            }
            How::VkBinding if set.is_some() || r.lang_index.is_some() => {}
            _ => {
                if r.lang_index.is_some() {
                    v.push((Ann::Reg(r.lang_index, None), r.wrong_class));
                }
            }
        }
    }
    for a in &r.extra {
        v.push((*a, false));
    }
    v
}

fn attrs_text(h: &Res) -> String {
    let mut s = String::new();
    if let Some(n) = h.bad_attr {
        s.push_str(&format!("[[{}]] ", BAD_ATTRS[n as usize].0));
    }
    for a in decl_attrs(h) {
        match a {
            AttrText::Bindless => s.push_str("[[rssl::bindless]] "),
            AttrText::BindGroup(g) => s.push_str(&format!("[[rssl::bind_group({})]] ", g)),
            AttrText::VkBinding(i, Some(g)) => s.push_str(&format!("[[vk::binding({}, {})]] ", i, g)),
            AttrText::VkBinding(i, None) => s.push_str(&format!("[[vk::binding({})]] ", i)),
        }
    }
    s
}

fn anns_text(r: &Res, class: char) -> String {
    let mut s = String::new();
    for (a, wrong) in own_anns(r) {
        let c = if wrong { if class == 't' { 'u' } else { 't' } } else { class };
        match a {
            Ann::Reg(Some(i), Some(g)) => s.push_str(&format!(" : register({}{}, space{})", c, i, g)),
            Ann::Reg(Some(i), None) => s.push_str(&format!(" : register({}{})", c, i)),
            Ann::Reg(None, Some(g)) => s.push_str(&format!(" : register(space{})", g)),
            Ann::Reg(None, None) => {}
            Ann::Semantic => s.push_str(" : TEXCOORD"),
        }
    }
    s
}

fn len_text(r: &Res, n: u32) -> String {
    match r.sp.len_expr {
        Some(0) => format!("{} + 0", n),
        Some(1) => format!("{} * 1u", n),
        Some(_) => format!("N_{}", r.name),
        None => n.to_string(),
    }
}

fn entry_len(r: &Res) -> Option<u32> {
    match &r.decl {
        Decl::Global { len, .. } | Decl::StaticObject { len, .. } => *len,
        _ => None,
    }
}

fn declarator(r: &Res, len: Option<u32>) -> String {
    let mut s = r.name.clone();
    if r.unsized_arr {
        s.push_str("[]");
    } else if let Some(n) = len {
        if !r.sp.typedef_arr {
            s.push_str(&format!("[{}]", len_text(r, n)));
        }
        if r.dim2 {
            s.push_str("[2]");
        }
    }
    s
}

/// `name[dims] : annotations = initialiser` of one declarator of an object-typed declaration
fn init_declarator(r: &Res) -> String {
    let (kind, len, ss) = match &r.decl {
        Decl::Global { kind: Some(k), len, ss, .. } => (*k, *len, *ss),
        Decl::StaticObject { kind, len, .. } => (*kind, *len, false),
        _ => return r.name.clone(),
    };
    let mut s = format!("{}{}", declarator(r, len), anns_text(r, reg_class(kind)));
    if ss || r.static_ss {
        s.push_str(" = StaticSampler { Filter = MIN_MAG_MIP_LINEAR; }");
    }
    s
}

pub fn source(p: &Prog) -> String {
    let mut s = String::from("struct CbS { float4 v; };\n");
    if p.pipes.iter().any(|x| x.mesh) {
        s.push_str("struct MeshV { float4 position : SV_Position; };\n");
    }
    let (mut late1, mut late2) = (String::new(), String::new());
    let mut i = 0;
    while i < p.res.len() {
        let r = &p.res[i];
        let mut line = String::new();
        let mut consumed = 1;
        match &r.decl {
            Decl::Other => line.push_str(&match r.sp.other_form {
                1 => format!("enum {} {{ {}_A }};", r.name, r.name),
                // (a prototype alone is refused by the exporters: FunctionNotDefined)
                2 => format!("void {}(int x); void {}(int x) {{}}", r.name, r.name),
                3 => format!("void {}(int x) {{}}", r.name),
                4 => format!("typedef int {};", r.name),
                _ => format!("struct {} {{ int x; }};", r.name),
            }),
            Decl::CBuffer(_) => {
                // one to three members: members are not root definitions and take nothing
                let extra = ["", " float2 pad_a[2];", " float2 pad_a[2]; uint pad_b;"][(r.name.bytes().last().unwrap_or(0) % 3) as usize];
                let member = match r.sp.member_ann { Some(0) => " : register(b0)", Some(_) => " : TEXCOORD", None => "" };
                line.push_str(
                    &format!("{}cbuffer {}{} {{ float4 {}_v{};{} }}", attrs_text(r), r.name, anns_text(r, 'b'), r.name, member, extra)
                        .replace("pad_", &format!("{}_pad_", r.name)),
                );
            }
            Decl::Global { kind: None, len, .. } => {
                // a global that is not an object: only the attribute form of a group is accepted on it
                line.push_str(&attrs_text(r));
                line.push_str(&format!("static const int {}", r.name));
                match len {
                    Some(n) => {
                        let items: Vec<String> = (0..*n).map(|x| x.to_string()).collect();
                        line.push_str(&format!("[{}]{} = {{ {} }};", n, anns_text(r, 't'), items.join(", ")));
                    }
                    None => line.push_str(&format!("{} = 1;", anns_text(r, 't'))),
                }
            }
            Decl::Global { kind: Some(k), .. } | Decl::StaticObject { kind: k, .. } => {
                let is_static = matches!(&r.decl, Decl::StaticObject { .. });
                let first = if !is_static { "" } else if r.groupshared { "groupshared " } else { "static " };
                let second = if r.extern_kw { "extern " } else { "" };
                let mut storage = format!("{}{}{}", if r.dup_kw { if is_static { first } else { second } } else { "" }, first, second);
                if r.sp.const_kw {
                    storage = if r.name.bytes().last().unwrap_or(0) % 2 == 0 { format!("const {}", storage) } else { format!("{}const ", storage) };
                }
                while i + consumed < p.res.len() && p.res[i + consumed].joined {
                    consumed += 1;
                }
                // what has to be declared before: named array lengths, the typedefs
                for d in &p.res[i..i + consumed] {
                    if let (Some(2), Some(n)) = (d.sp.len_expr, entry_len(d)) {
                        line.push_str(&format!("static const uint N_{} = {}; ", d.name, n));
                    }
                }
                let mut ty = spelling(k).to_string();
                if r.sp.typedefd {
                    line.push_str(&format!("typedef {} T_{}; ", ty, r.name));
                    ty = format!("T_{}", r.name);
                }
                if let (true, Some(n)) = (r.sp.typedef_arr, entry_len(r)) {
                    line.push_str(&format!("typedef {} TA_{}[{}]; ", ty, r.name, len_text(r, n)));
                    ty = format!("TA_{}", r.name);
                }
                line.push_str(&format!("{}{}{} {}", attrs_text(r), storage, ty, init_declarator(r)));
                for d in &p.res[i + 1..i + consumed] {
                    line.push_str(&format!(", {}", init_declarator(d)));
                }
                line.push(';');
            }
        }
        let line = if !r.ns {
            format!("{}\n", line)
        } else if r.sp.nested_ns {
            format!("namespace NS {{ namespace IN {{ {} }} }}\n", line)
        } else {
            format!("namespace NS {{ {} }}\n", line)
        };
        match r.sp.late {
            0 => s.push_str(&line),
            1 => late1.push_str(&line),
            _ => late2.push_str(&line),
        }
        i += consumed;
    }
    let use_stmt = |idx: usize| -> String {
        let Some(r) = p.res.get(idx) else { return String::new() };
        if r.sp.late > 0 {
            // declared after the functions
            return String::new();
        }
        let q = if !r.ns { "" } else if r.sp.nested_ns { "NS::IN::" } else { "NS::" };
        match &r.decl {
            Decl::CBuffer(_) => format!("    {}{}_v;\n", q, r.name),
            Decl::Global { kind: Some(_), len, .. } => {
                if r.dim2 {
                    // never mentioned in a function: a global without a slot that a Metal entry point reaches makes the
                    // Metal exporter return `UnboundGlobal` (a clean error since fix 2ba03a4, a panic before it) and
                    // there would be no metadata left to judge
                    String::new()
                } else if len.is_some() || r.unsized_arr {
                    format!("    {}{}[0u];\n", q, r.name)
                } else {
                    format!("    {}{};\n", q, r.name)
                }
            }
            _ => String::new(),
        }
    };
    // a pipeline shares the entry points of an earlier pipeline of the same kind that has its own
    let owner = |k: usize| -> usize {
        match p.pipes[k].share {
            Some(j) if j < k && p.pipes[j].share.is_none() && p.pipes[j].graphics == p.pipes[k].graphics && p.pipes[j].mesh == p.pipes[k].mesh && p.pipes[j].single == p.pipes[k].single => j,
            _ => k,
        }
    };
    for (k, pipe) in p.pipes.iter().enumerate() {
        if owner(k) != k {
            continue;
        }
        if pipe.graphics && pipe.mesh {
            let ms: String = pipe.uses.iter().step_by(2).map(|u| use_stmt(*u)).collect();
            let ps: String = pipe.uses.iter().skip(1).step_by(2).map(|u| use_stmt(*u)).collect();
            s.push_str(&format!(
                "[numthreads(4, 1, 1)]\n[outputtopology(\"triangle\")]\nvoid ms{}(uint3 dtid : SV_DispatchThreadID, out vertices MeshV o_v[4], out indices uint3 o_t[4]) {{\n{}    SetMeshOutputCounts(4, 4);\n    MeshV v;\n    v.position = float4(0, 0, 0, 1);\n    o_v[dtid.x] = v;\n    o_t[dtid.x] = uint3(0, 1, 2);\n}}\n",
                k, ms
            ));
            s.push_str(&format!(
                "float4 ps{}(float4 i_pos : SV_Position) : SV_Target0 {{\n{}    return float4(0, 0, 0, 0);\n}}\n",
                k, ps
            ));
        } else if pipe.graphics {
            let all: String = pipe.uses.iter().map(|u| use_stmt(*u)).collect();
            let vs: String = if pipe.single.is_some() { all.clone() } else { pipe.uses.iter().step_by(2).map(|u| use_stmt(*u)).collect() };
            let ps: String = if pipe.single.is_some() { all } else { pipe.uses.iter().skip(1).step_by(2).map(|u| use_stmt(*u)).collect() };
            if pipe.single != Some('p') {
                s.push_str(&format!(
                    "void vs{}(uint vid : SV_VertexID, out float4 o_pos : SV_Position) {{\n{}    o_pos = float4(0, 0, 0, 1);\n}}\n",
                    k, vs
                ));
            }
            if pipe.single != Some('v') {
                s.push_str(&format!(
                    "float4 ps{}(float4 i_pos : SV_Position) : SV_Target0 {{\n{}    return float4(0, 0, 0, 0);\n}}\n",
                    k, ps
                ));
            }
        } else {
            let cs: String = pipe.uses.iter().map(|u| use_stmt(*u)).collect();
            s.push_str(&format!(
                "[numthreads(8, 8, 1)]\nvoid cs{}(uint3 dtid : SV_DispatchThreadID) {{\n{}}}\n",
                k, cs
            ));
        }
    }
    s.push_str(&late1);
    for (k, pipe) in p.pipes.iter().enumerate() {
        let dflt_line = match pipe.dflt {
            None => String::new(),
            Some(d) => {
                let text = if pipe.dspell.contains('k') {
                    s.push_str(&format!("static const uint K_{} = {};\n", pipe.name, d));
                    format!("K_{}", pipe.name)
                } else if pipe.dspell.contains('h') {
                    format!("0x{:x}", d)
                } else {
                    d.to_string()
                };
                format!("    DefaultBindGroup = {}{};\n", text, if pipe.dspell.contains('x') { " + 0" } else { "" })
            }
        };
        s.push_str(&format!("Pipeline {}\n{{\n", pipe.name));
        if pipe.dspell.contains('f') {
            s.push_str(&dflt_line);
        }
        let k = owner(k);
        if pipe.graphics && pipe.mesh {
            s.push_str(&format!("    MeshShader = ms{};\n    PixelShader = ps{};\n", k, k));
        } else if pipe.single == Some('v') {
            s.push_str(&format!("    VertexShader = vs{};\n", k));
        } else if pipe.single == Some('p') {
            s.push_str(&format!("    PixelShader = ps{};\n", k));
        } else if pipe.graphics {
            s.push_str(&format!("    VertexShader = vs{};\n    PixelShader = ps{};\n", k, k));
        } else {
            s.push_str(&format!("    ComputeShader = cs{};\n", k));
        }
        if !pipe.dspell.contains('f') {
            s.push_str(&dflt_line);
        }
        s.push_str("}\n");
    }
    s.push_str(&late2);
    s
}

// ---------------------------------------------------------------------------------------------- real compile

#[derive(Clone, Debug, PartialEq)]
pub struct MetaBinding {
    pub name: String,
    pub inline: bool,
    pub at: u32,
    pub count: Option<u32>,
}

#[derive(Clone, Debug, PartialEq, Default)]
pub struct MetaGroup {
    pub bindings: Vec<MetaBinding>,
    pub inline_block: Option<(u32, u32)>,
}

pub enum Outcome {
    Ok(Vec<Vec<MetaGroup>>),
    Err(String),
    Panic(String),
}

pub fn compile(src: &str, cfg: Cfg, mode: &Mode) -> Outcome {
    let tgt = cfg.tgt;
    let defines: &[(&str, &str)] = if cfg.defines { &[("C06_EXTRA", "1"), ("g_unused", "g_other")] } else { &[] };
    let r = guard(|| {
        let mut inc = MemFiles(vec![("main.rssl".to_string(), src.to_string())]);
        let mut args = rssl::CompileArgs::new("main.rssl", &mut inc, tgt.target())
            .support_buffer_address(tgt.buffer_address() || cfg.ba)
            .validate_layout_consistency(cfg.layout)
            .source_info(cfg.srcinfo)
            .defines(defines);
        match mode {
            Mode::All => {}
            Mode::Named(n) => args = args.pipeline_name(Some(n.as_str())),
            Mode::NoPipeline => {
                args = args.no_pipeline_mode();
                if cfg.np_name {
                    args = args.pipeline_name(Some("Q_none"));
                }
            }
        }
        match rssl::compile(args) {
            Ok(ps) => Ok(ps
                .iter()
                .map(|p| {
                    p.metadata
                        .bind_groups
                        .iter()
                        .map(|g| MetaGroup {
                            bindings: g
                                .bindings
                                .iter()
                                .map(|b| {
                                    let (inline, at) = match b.api_binding {
                                        rssl::ir::ApiLocation::Index(i) => (false, i),
                                        rssl::ir::ApiLocation::InlineConstant(o) => (true, o),
                                    };
                                    MetaBinding { name: b.name.clone(), inline, at, count: b.descriptor_count }
                                })
                                .collect(),
                            inline_block: g.inline_constants.as_ref().map(|c| (c.api_location, c.size_in_bytes)),
                        })
                        .collect::<Vec<_>>()
                })
                .collect::<Vec<_>>()),
            Err(e) => Err(format!("{}", e)),
        }
    });
    match r {
        Ok(Ok(v)) => Outcome::Ok(v),
        Ok(Err(e)) => Outcome::Err(e),
        Err(p) => Outcome::Panic(p),
    }
}

fn show_group(g: &MetaGroup) -> String {
    let b: Vec<String> = g
        .bindings
        .iter()
        .map(|b| {
            format!(
                "{},{}{},{}",
                b.name,
                if b.inline { 'n' } else { 'i' },
                b.at,
                b.count.map(|c| c.to_string()).unwrap_or_else(|| "*".into())
            )
        })
        .collect();
    format!(
        "{}|{}",
        b.join(";"),
        g.inline_block.map(|(l, s)| format!("{},{}", l, s)).unwrap_or_else(|| "-".into())
    )
}

/// `main.rssl:<line>:<col>: error: <message>\n<source line>\n<caret>` of a rejected binding annotation ->
/// `err:decl:<class>:<name of the declarator the location points at>`
fn decl_error(e: &str) -> Option<String> {
    let mut lines = e.lines();
    let first = lines.next()?;
    let src = lines.next()?;
    let mut it = first.strip_prefix("main.rssl:")?.splitn(3, ':');
    let _line = it.next()?;
    let col: usize = it.next()?.parse().ok()?;
    let msg = it.next()?.trim().strip_prefix("error: ")?;
    let class = if msg.starts_with("register() is not allowed on ") {
        "register".to_string()
    } else if let Some(x) = msg.strip_prefix("invalid register type '") {
        let used = x.chars().next()?;
        let expected = x.strip_suffix('\'')?.chars().last()?;
        format!("register-type-{}-{}", used, expected)
    } else if msg == "static sampler has unexpected binding index" {
        "static-sampler-index".to_string()
    } else if msg == "register() is not allowed here" {
        "register-here".to_string()
    } else if msg == "semantic is not allowed here" {
        "semantic".to_string()
    } else if msg == "static sampler has unexpected storage class" {
        "static-sampler-storage".to_string()
    } else if msg.starts_with("unexpected number of arguments to global variable attribute '") {
        "attribute-count".to_string()
    } else if msg.starts_with("unknown global variable attribute '") {
        "attribute-unknown".to_string()
    } else if msg == "expression could not be evaluated as a constant expression" {
        "attribute-not-constant".to_string()
    } else if msg.starts_with("modifier '") && msg.contains("' may not be used with '") {
        "modifier-conflict".to_string()
    } else {
        return None;
    };
    let name: String = src.chars().skip(col.checked_sub(1)?).take_while(|c| c.is_ascii_alphanumeric() || *c == '_').collect();
    Some(format!("err:decl:{}:{}", class, name))
}

pub fn show_outcome(o: &Outcome) -> String {
    match o {
        Outcome::Ok(ps) => {
            let v: Vec<String> = ps
                .iter()
                .map(|gs| format!("{{{}}}", gs.iter().map(show_group).collect::<Vec<_>>().join(" / ")))
                .collect();
            format!("ok:{}", v.join(" ## "))
        }
        Outcome::Err(e) => {
            if e == "InvalidArgs" {
                "err:invalid-args".into()
            } else if e == "Shader does not contain a single pipeline" {
                "err:none".into()
            } else if let Some(n) = e.strip_prefix("Shader does not contain the pipeline: ") {
                format!("err:unknown:{}", n)
            } else if e.contains("UnimplementedUnboundedArray") {
                "err:unbounded-array".into()
            } else if let Some(k) = e.find("UnsupportedBindGroupIndex(") {
                let rest = &e[k + "UnsupportedBindGroupIndex(".len()..];
                format!("err:bind-group:{}", rest.split(')').next().unwrap_or("?"))
            } else if let Some(d) = decl_error(e) {
                d
            } else {
                format!("err:other:{}", one_line(&e.chars().take(160).collect::<String>()))
            }
        }
        Outcome::Panic(p) => format!("panic:{}", p.splitn(2, ": ").nth(1).unwrap_or(p)),
    }
}

// ---------------------------------------------------------------------------------------------- the oracle

/// What the property demands of one declarator on one target: `None` = takes nothing;
/// `Some((inline, amount, reported count))`. The group is a separate question (`explicit_groups`).
fn demand(r: &Res, tgt: Tgt) -> Option<(bool, u32, u32)> {
    let metal = tgt == Tgt::Msl;
    match &r.decl {
        Decl::Other | Decl::StaticObject { .. } => None,
        Decl::CBuffer(_) => Some((false, 1, 1)),
        Decl::Global { kind: None, .. } => None,
        Decl::Global { ss: true, .. } if metal => None,
        // not a resource (RayDesc, RayQuery, TriangleStream): takes nothing (only reachable through hand-written request
        // lines: the generator does not emit them because the HLSL exporter rejects such a global)
        Decl::Global { kind: Some(k), .. } if !is_resource(k) => None,
        Decl::Global { kind: Some(k), len, .. } => {
            let is_ba = *k == "BufferAddress" || *k == "RWBufferAddress";
            if tgt == Tgt::VkBa && is_ba && len.is_none() {
                Some((true, 8, 1))
            } else {
                let per = if metal && DOUBLED.contains(k) { 2 } else { 1 };
                Some((false, len.unwrap_or(1) * per, len.unwrap_or(1)))
            }
        }
    }
}

/// Every explicit group the source spells for declarator `i`: the groups in the attributes of ITS declaration and
/// the spaces of ITS OWN register annotations -- nothing of the other declarators of the same declaration.
pub fn explicit_groups(res: &[Res], i: usize) -> Vec<u32> {
    let mut v = Vec::new();
    for a in decl_attrs(&res[head_of(res, i)]) {
        match a {
            AttrText::BindGroup(g) | AttrText::VkBinding(_, Some(g)) => v.push(g),
            _ => {}
        }
    }
    for (a, _) in own_anns(&res[i]) {
        if let Ann::Reg(_, Some(g)) = a {
            v.push(g);
        }
    }
    v
}

/// Does some declarator carry a binding annotation the language rejects? (a semantic; a register on something that
/// is not a resource; a register class of another kind; two register annotations that differ; a binding index --
/// its own or the declaration's `vk::binding` -- on a static sampler; an ill-formed attribute; `bindless` on a
/// cbuffer; `extern` together with `static`/`groupshared`; a static sampler with static storage)
pub fn invalid_annotation(res: &[Res]) -> bool {
    (0..res.len()).any(|i| {
        let r = &res[i];
        let anns = own_anns(r);
        let regs: Vec<(Option<u32>, Option<u32>)> =
            anns.iter().filter_map(|(a, _)| if let Ann::Reg(x, g) = a { Some((*x, *g)) } else { None }).collect();
        let resource = match &r.decl {
            Decl::CBuffer(_) | Decl::StaticObject { .. } => true,
            Decl::Global { kind: Some(k), .. } => is_resource(k),
            _ => false,
        };
        let attr_index = decl_attrs(&res[head_of(res, i)]).iter().any(|a| matches!(a, AttrText::VkBinding(..)));
        // the register class is looked up on the declaration's base type: an array typedef has none
        (r.sp.typedef_arr && !anns.is_empty())
            || r.sp.member_ann.is_some()
            || (!r.joined && r.bad_attr.is_some() && !matches!(&r.decl, Decl::Other))
            || (matches!(&r.decl, Decl::CBuffer(_)) && r.bindless)
            || (matches!(&r.decl, Decl::StaticObject { .. }) && (r.extern_kw || r.static_ss))
            || anns.iter().any(|(a, wrong)| *a == Ann::Semantic || *wrong)
            || (!regs.is_empty() && !resource)
            || regs.windows(2).any(|w| w[0] != w[1])
            || (matches!(&r.decl, Decl::Global { ss: true, .. }) && (attr_index || regs.iter().any(|x| x.0.is_some())))
    })
}

fn oracle_pipeline(p: &Prog, tgt: Tgt, dflt: u32, groups: &[MetaGroup]) -> Result<(), String> {
    use std::collections::BTreeMap;
    // unsized arrays are outside the property (its quantifier excludes them): a group that reports one is not judged
    let unsized_names: Vec<&str> = p.res.iter().filter(|r| r.unsized_arr || r.dim2).map(|r| r.name.as_str()).collect();
    let mut want: BTreeMap<u32, Vec<(String, bool, u32, u32)>> = BTreeMap::new();
    let mut next_index: BTreeMap<u32, u32> = BTreeMap::new();
    let mut next_inline: BTreeMap<u32, u32> = BTreeMap::new();
    for (i, r) in p.res.iter().enumerate() {
        if r.unsized_arr || r.dim2 {
            continue;
        }
        if let Some((inline, amount, count)) = demand(r, tgt) {
            // no explicit group on THIS declarator: the default group of this pipeline. Several explicit groups on
            // one declarator (say an attribute and a register space): the property does not say which explicit
            // group wins, so the one it is reported in is accepted (the model pins what the code does)
            let explicit = explicit_groups(&p.res, i);
            let g = match explicit.first() {
                None => dflt,
                Some(first) => explicit
                    .iter()
                    .copied()
                    .find(|c| groups.get(*c as usize).is_some_and(|x| x.bindings.iter().any(|b| b.name == r.name)))
                    .unwrap_or(*first),
            };
            let ctr = if inline { next_inline.entry(g).or_insert(0) } else { next_index.entry(g).or_insert(0) };
            want.entry(g).or_default().push((r.name.clone(), inline, *ctr, count));
            *ctr += amount;
        }
    }
    let ngroups = std::cmp::max(groups.len() as u32, want.keys().next_back().map(|g| g + 1).unwrap_or(0));
    for g in 0..ngroups {
        let empty = MetaGroup::default();
        let got = groups.get(g as usize).unwrap_or(&empty);
        if got.bindings.iter().any(|b| unsized_names.contains(&b.name.as_str())) {
            continue;
        }
        let w = want.get(&g).cloned().unwrap_or_default();
        // entries are matched by name: the property speaks of the slots, not of the order of the metadata vector
        for wb in w.iter() {
            let found: Vec<&MetaBinding> = got.bindings.iter().filter(|b| b.name == wb.0).collect();
            if found.len() > 1 {
                return Err(format!("{} is reported {} times in group {}", wb.0, found.len(), g));
            }
            let Some(gb) = found.first() else {
                // where did it go?
                let elsewhere = groups.iter().position(|x| x.bindings.iter().any(|b| b.name == wb.0));
                return Err(match elsewhere {
                    Some(e) => format!("{} belongs to group {} of this pipeline but is reported in group {}", wb.0, g, e),
                    None => format!("{} must be bound in group {} but has no metadata entry", wb.0, g),
                });
            };
            if gb.inline != wb.1 {
                return Err(format!(
                    "{} expected {} but is {}",
                    wb.0,
                    if wb.1 { "an inline constant" } else { "an index slot" },
                    if gb.inline { "an inline constant" } else { "an index slot" }
                ));
            }
            if gb.at != wb.2 {
                return Err(format!(
                    "{} starts at {} {} of group {}, expected {} (gap/overlap/order)",
                    wb.0,
                    if wb.1 { "inline offset" } else { "slot" },
                    gb.at,
                    g,
                    wb.2
                ));
            }
            if gb.count != Some(wb.3) {
                return Err(format!("{} reports {:?} descriptors, expected {}", wb.0, gb.count, wb.3));
            }
        }
        if let Some(extra) = got.bindings.iter().find(|b| !w.iter().any(|wb| wb.0 == b.name)) {
            return Err(match want.iter().find(|(_, v)| v.iter().any(|wb| wb.0 == extra.name)) {
                Some((home, _)) => format!("{} belongs to group {} of this pipeline but is reported in group {}", extra.name, home, g),
                None => format!("group {} reports {} which takes no slot there", g, extra.name),
            });
        }
        let want_block = next_inline.get(&g).map(|size| (*next_index.get(&g).unwrap_or(&0), *size));
        if got.inline_block != want_block {
            return Err(format!(
                "group {} inline block {:?}, expected {:?} (slot after all index slots, size = sum)",
                g, got.inline_block, want_block
            ));
        }
    }
    Ok(())
}

/// which pipelines a compile call must return, as their default groups (the property: "the pipeline's default group")
fn expected_pipelines(p: &Prog, mode: &Mode) -> Result<Vec<u32>, &'static str> {
    match mode {
        Mode::NoPipeline => Ok(vec![0]),
        Mode::All => {
            if p.pipes.is_empty() {
                Err("none")
            } else {
                Ok(p.pipes.iter().map(|x| x.dflt.unwrap_or(0)).collect())
            }
        }
        Mode::Named(n) => {
            let v: Vec<u32> = p.pipes.iter().filter(|x| &x.name == n).map(|x| x.dflt.unwrap_or(0)).collect();
            if v.is_empty() { Err("unknown") } else { Ok(v) }
        }
    }
}

fn oracle(p: &Prog, cfg: Cfg, mode: &Mode, o: &Outcome) -> String {
    let want = expected_pipelines(p, mode);
    // buffer addresses exist on the Vulkan flavour only: the property knows four parameter sets, a fifth one
    // (say DirectX register classes together with inline buffer addresses) must not come into being
    let refused = matches!(o, Outcome::Err(e) if e == "InvalidArgs");
    let Some(tgt) = cfg.eff() else {
        return if refused { "ok".into() } else { "FAIL:buffer addresses requested on a target without them but compile did not refuse the arguments".into() };
    };
    if refused {
        return "FAIL:compile refused arguments that name one of the four parameter sets".into();
    }
    match o {
        Outcome::Panic(m) => format!("FAIL:panic {}", m),
        Outcome::Err(e) => {
            let shown = show_outcome(o);
            match want {
                Err("none") if shown == "err:none" => "ok".into(),
                Err("unknown") if shown.starts_with("err:unknown:") => "ok".into(),
                // Metal has four argument buffers: a group above 3 that a bound declaration of a requested pipeline
                // lands in is a clean error, not a slot question
                Ok(dflts)
                    if tgt == Tgt::Msl
                        && shown.strip_prefix("err:bind-group:").and_then(|n| n.parse::<u32>().ok()).is_some_and(|n| {
                            n >= 4
                                && dflts.iter().any(|d| {
                                    p.res.iter().enumerate().any(|(i, r)| {
                                        let explicit = explicit_groups(&p.res, i);
                                        !r.unsized_arr
                                            && !r.dim2
                                            && demand(r, tgt).is_some()
                                            && (explicit.contains(&n) || (explicit.is_empty() && *d == n))
                                    })
                                })
                        }) =>
                {
                    "ok".into()
                }
                // a binding annotation is rejected: fine when one of them is not well formed, a failure when every
                // declarator's annotations are (what one declarator says must not make another one's invalid)
                _ if shown.starts_with("err:decl:") => {
                    if invalid_annotation(&p.res) {
                        "ok".into()
                    } else {
                        format!("FAIL:every binding annotation is well formed but the program is rejected: {}", shown)
                    }
                }
                // unsized resource arrays are outside the property and not implemented for Metal: a clean error
                _ if tgt == Tgt::Msl && shown == "err:unbounded-array" && p.res.iter().any(|r| r.unsized_arr) => "ok".into(),
                _ => format!("FAIL:compile error on a valid program: {}", one_line(&e.chars().take(120).collect::<String>())),
            }
        }
        Outcome::Ok(ps) => {
            let dflts = match want {
                Ok(d) => d,
                Err(w) => return format!("FAIL:compile returned {} pipelines where an error ({}) was due", ps.len(), w),
            };
            if ps.len() != dflts.len() {
                return format!("FAIL:{} pipelines returned, expected {}", ps.len(), dflts.len());
            }
            for (k, (groups, dflt)) in ps.iter().zip(&dflts).enumerate() {
                if let Err(e) = oracle_pipeline(p, tgt, *dflt, groups) {
                    return format!("FAIL:returned pipeline {} (default group {}): {}", k, dflt, e);
                }
            }
            "ok".into()
        }
    }
}

pub fn run_case(tgt: Cfg, mode: &Mode, p: &Prog, out: &mut Out, hist: &mut Hist) {
    let src = source(p);
    let o = compile(&src, tgt, mode);
    let obs = show_outcome(&o);
    let verdict = oracle(p, tgt, mode, &o);
    if verdict.starts_with("FAIL:compile error") {
        // a generated program the compiler rejects is a generator defect: loud, but not a property failure
        hist.add("rejected-generated-source");
        out.case(&request(tgt, mode, p), &obs, &format!("SKIP:{}", &verdict[5..]));
        return;
    }
    hist.add(&format!("e2e:mode={}", match mode { Mode::All => "all", Mode::Named(_) => "named", Mode::NoPipeline => "nopipeline" }));
    hist.add(&format!("e2e:outcome={}", obs.split(':').take(2).collect::<Vec<_>>().join(":").split('{').next().unwrap_or("")));
    out.case(&request(tgt, mode, p), &obs, &verdict);
}

// ---------------------------------------------------------------------------------------------- generator

fn small_group(rng: &mut Rng) -> Option<u32> {
    match rng.below(8) {
        0..=3 => None,
        4 => Some(0),
        5 => Some(1),
        6 => Some(rng.range(2, 3) as u32),
        // (a group above 3 is refused by the Metal exporter, cleanly)
        _ => Some(if rng.chance(1, 8) { rng.range(6, 9) as u32 } else { rng.range(0, 5) as u32 }),
    }
}

const SAMPLERS: &[&str] = &["SamplerState", "SamplerComparisonState"];
const UNSIZED_OK: &[&str] = &["Texture2D", "StructuredBuffer", "RWTexture2D"];

/// now and then something the type checker must reject (or, for an agreeing repetition, accept)
fn gen_extra(rng: &mut Rng, r: &mut Res) {
    let object = !matches!(&r.decl, Decl::Global { kind: None, .. } | Decl::Other);
    let first = own_anns(r).first().map(|x| x.0);
    match rng.below(90) {
        // the same register annotation once more: accepted
        0..=3 => {
            if let Some(Ann::Reg(i, g)) = first {
                r.extra.push(Ann::Reg(i, g));
                if rng.chance(1, 4) {
                    r.extra.push(Ann::Reg(i, g));
                }
            } else if object {
                let g = rng.below(4) as u32;
                r.extra.push(Ann::Reg(None, Some(g)));
                r.extra.push(Ann::Reg(None, Some(g)));
            }
        }
        // a different one: rejected
        4 => {
            let other = match first {
                Some(Ann::Reg(i, Some(g))) => Ann::Reg(i, Some(g + 1)),
                Some(Ann::Reg(Some(i), None)) => *rng.pick(&[Ann::Reg(Some(i + 1), None), Ann::Reg(Some(i), Some(0))]),
                _ => Ann::Reg(None, Some(rng.below(4) as u32)),
            };
            if first.is_none() {
                r.extra.push(Ann::Reg(None, Some(5)));
            }
            r.extra.push(other);
        }
        5 => r.extra.push(Ann::Semantic),
        6 => {
            if own_anns(r).first().is_some_and(|x| matches!(x.0, Ann::Reg(Some(_), _))) {
                r.wrong_class = true;
            }
        }
        // a register on something that is not an object
        7 => {
            if !object && !matches!(&r.decl, Decl::Other) {
                r.extra.push(Ann::Reg(None, Some(rng.below(3) as u32)));
            }
        }
        _ => {}
    }
}

/// a further declarator of the declaration whose first declarator is `h`: its own array shape, its own register
/// annotation (none / space only / index only / both), its own initialiser
fn gen_joined(rng: &mut Rng, i: usize, h: &Res) -> Option<Res> {
    let (kind, is_static) = base_of(h)?;
    let own_space = match rng.below(8) {
        0..=3 => None,
        4 => res_set(h),
        5 => Some(rng.below(3) as u32),
        _ => Some(rng.range(0, 5) as u32),
    };
    let sampler = SAMPLERS.contains(&kind);
    let mut len = if rng.chance(1, 3) || h.bindless { Some(rng.range(1, 4) as u32) } else { None };
    let ss = sampler && !is_static && !h.bindless && rng.chance(1, 3);
    if ss {
        len = None;
    }
    let mut r = Res {
        name: format!("g_r{}", i),
        decl: if is_static {
            Decl::StaticObject { set: own_space, kind, len }
        } else {
            Decl::Global { set: own_space, ss, kind: Some(kind), len }
        },
        how: How::Space,
        lang_index: if rng.chance(1, 4) { Some(rng.below(12) as u32) } else { None },
        bindless: h.bindless,
        ns: h.ns,
        unsized_arr: false,
        dim2: false,
        joined: true,
        extra: Vec::new(),
        pre_group: None,
        wrong_class: false,
        bad_attr: None,
        extern_kw: false,
        groupshared: false,
        static_ss: false,
        dup_kw: false,
        sp: Spell::default(),
    };
    r.extern_kw = h.extern_kw;
    r.groupshared = h.groupshared;
    r.dup_kw = h.dup_kw;
    if is_static && sampler && rng.chance(1, 20) {
        r.static_ss = true;
    }
    if !ss && !is_static && UNSIZED_OK.contains(&kind) && rng.chance(1, 15) {
        r.decl = Decl::Global { set: own_space, ss: false, kind: Some(kind), len: None };
        r.unsized_arr = true;
    } else if len.is_some() && !kind.contains("Address") && kind != "ConstantBuffer" && rng.chance(1, 12) {
        r.dim2 = true;
    }
    // a static sampler must not carry a binding index (its own or the declaration's vk::binding): now and then it does
    if ss && !rng.chance(1, 25) {
        r.lang_index = None;
        if decl_attrs(h).iter().any(|a| matches!(a, AttrText::VkBinding(..))) {
            r.decl = Decl::Global { set: own_space, ss: false, kind: Some(kind), len };
        }
    }
    gen_extra(rng, &mut r);
    if r.decl_len().is_some() && rng.chance(1, 4) {
        r.sp.len_expr = Some(rng.below(3) as u32);
    }
    Some(r)
}

/// other ways to write the same thing (normalise keeps only what the declaration can carry)
fn gen_spell(rng: &mut Rng, r: &mut Res) {
    r.sp.const_kw = rng.chance(1, 6);
    r.sp.typedefd = rng.chance(1, 6);
    // a register annotation on an array typedef is rejected: mostly keep the two apart
    r.sp.typedef_arr = rng.chance(1, 4) && (own_anns(r).is_empty() || rng.chance(1, 8));
    if rng.chance(1, 4) {
        r.sp.len_expr = Some(rng.below(3) as u32);
    }
    if rng.chance(1, 2) {
        r.sp.other_form = rng.below(5) as u32;
    }
    r.sp.nested_ns = rng.chance(1, 3);
    if rng.chance(1, 12) {
        r.sp.late = 1 + rng.below(2) as u32;
    }
}

fn gen_res(rng: &mut Rng, i: usize, sofar: &[Res]) -> Res {
    let set = small_group(rng);
    // now and then a long array: the next resource of the group must start right after it
    let len = if rng.chance(1, 3) { Some(if rng.chance(1, 10) { *rng.pick(&[16u32, 255, 1000]) } else { rng.range(1, 4) as u32 }) } else { None };
    let mut r = Res {
        name: format!("g_r{}", i),
        decl: Decl::Other,
        how: *rng.pick(&[How::Attr, How::Attr, How::Attr, How::Space, How::Space, How::Space, How::VkBinding, How::VkBinding, How::Override]),
        lang_index: if rng.chance(1, 5) { Some(rng.below(12) as u32) } else { None },
        bindless: false,
        ns: rng.chance(1, 10),
        unsized_arr: false,
        dim2: false,
        joined: false,
        extra: Vec::new(),
        pre_group: None,
        wrong_class: false,
        bad_attr: None,
        extern_kw: false,
        groupshared: false,
        static_ss: false,
        dup_kw: false,
        sp: Spell::default(),
    };
    // a further declarator of the previous declaration
    if !sofar.is_empty() && rng.chance(1, 4) {
        let h = &sofar[head_of(sofar, sofar.len() - 1)];
        if let Some(j) = gen_joined(rng, i, h) {
            return j;
        }
    }
    match rng.below(24) {
        0 => {
            r.decl = Decl::Other;
            r.name = format!("S{}", i);
            r.lang_index = None;
            r.ns = false;
        }
        1..=3 => r.decl = Decl::CBuffer(set),
        4 => {
            r.decl = Decl::Global { set, ss: false, kind: None, len: if rng.chance(1, 3) { Some(2) } else { None } };
            r.how = How::Attr;
            r.lang_index = None;
        }
        5 | 6 => {
            r.decl = Decl::Global { set, ss: true, kind: Some(*rng.pick(SAMPLERS)), len: None };
            // a static sampler must not carry a language slot index (now and then it does: rejected)
            if !rng.chance(1, 25) {
                r.lang_index = None;
                if r.how == How::VkBinding {
                    r.how = How::Attr;
                }
            }
        }
        7 | 8 => {
            r.decl = Decl::StaticObject {
                set,
                kind: *rng.pick(&["Texture2D", "RWStructuredBuffer", "ByteAddressBuffer", "SamplerState"]),
                len,
            };
        }
        9..=13 => r.decl = Decl::Global { set, ss: false, kind: Some(*rng.pick(DOUBLED)), len },
        14 => {
            // unsized array: ignored by the allocator, excluded by the property
            r.decl = Decl::Global { set, ss: false, kind: Some(*rng.pick(UNSIZED_OK)), len: None };
            r.unsized_arr = true;
            r.bindless = rng.chance(1, 2);
        }
        15 => r.decl = Decl::Global { set, ss: false, kind: Some(*rng.pick(SAMPLERS)), len },
        _ => r.decl = Decl::Global { set, ss: false, kind: Some(rng.pick(KINDS).0), len },
    }
    if let Decl::Global { kind: Some(k), len: Some(_), ss: false, .. } = &r.decl {
        r.bindless = !k.contains("Address") && rng.chance(1, 4);
        r.dim2 = !k.contains("Address") && *k != "ConstantBuffer" && rng.chance(1, 12);
    }
    if r.how == How::Override {
        // the override form needs an object type (register) and an explicit group
        let ok = match &r.decl {
            Decl::CBuffer(s) => s.is_some(),
            Decl::Global { set, kind: Some(_), .. } | Decl::StaticObject { set, .. } => set.is_some(),
            _ => false,
        };
        if !ok {
            r.how = How::Attr;
        }
    }
    if r.how == How::VkBinding && r.lang_index.is_none() {
        let has_set = match &r.decl {
            Decl::CBuffer(s) => s.is_some(),
            Decl::Global { set, kind: Some(_), .. } | Decl::StaticObject { set, .. } => set.is_some(),
            _ => false,
        };
        if has_set {
            r.lang_index = Some(rng.below(12) as u32);
        }
    }
    if !matches!(&r.decl, Decl::Other) && rng.chance(1, 12) {
        r.pre_group = Some(rng.below(5) as u32);
    }
    // storage class spellings; now and then something the type checker must reject
    match &r.decl {
        Decl::Global { kind: Some(_), .. } => {
            r.extern_kw = rng.chance(1, 8);
            r.dup_kw = r.extern_kw && rng.chance(1, 4);
        }
        Decl::StaticObject { kind, .. } => {
            r.groupshared = rng.chance(1, 3);
            r.dup_kw = rng.chance(1, 6);
            r.extern_kw = rng.chance(1, 60);
            r.static_ss = *kind == "SamplerState" && rng.chance(1, 20);
        }
        Decl::CBuffer(_) => {
            r.bindless = rng.chance(1, 60);
            if rng.chance(1, 40) {
                r.sp.member_ann = Some(rng.below(2) as u32);
            }
        }
        _ => {}
    }
    if !matches!(&r.decl, Decl::Other) && rng.chance(1, 90) {
        r.bad_attr = Some(rng.below(BAD_ATTRS.len() as u64) as u32);
    }
    gen_extra(rng, &mut r);
    gen_spell(rng, &mut r);
    r
}

fn gen_pipes(rng: &mut Rng, nres: usize, min_pipes: usize) -> Vec<Pipe> {
    let np = std::cmp::max(min_pipes, rng.below(5) as usize);
    let mut pipes = Vec::new();
    // default groups: mostly pairwise different, so that a layout leaking from one pipeline to the next shows
    let first = rng.below(4) as u32;
    let all_mesh = rng.chance(1, 8);
    for k in 0..np {
        let dflt = match rng.below(6) {
            0 => None,
            1 => Some(rng.below(6) as u32),
            _ => Some((first + k as u32) % 4),
        };
        let uses: Vec<usize> = (0..nres).filter(|_| rng.chance(1, 2)).collect();
        // names that are prefixes / extensions / other-case spellings of each other: a lookup by name must compare whole names
        let mut name = match rng.below(8) {
            0 => "P".to_string(),
            1 => format!("P{}0", k),
            2 => format!("p{}", k),
            3 => format!("P0{}", k),
            4 => format!("P{}_x", k),
            _ => format!("P{}", k),
        };
        if pipes.iter().any(|q: &Pipe| q.name == name) {
            name = format!("P{}", k);
        }
        if pipes.iter().any(|q: &Pipe| q.name == name) {
            name = format!("Q{}", k);
        }
        let mut dspell = String::new();
        for c in ['f', 'x', 'h', 'k'] {
            if rng.chance(1, 6) {
                dspell.push(c);
            }
        }
        // a file with a mesh entry point: every pipeline is mesh + pixel (the Metal exporter refuses to build another
        // kind of pipeline from a file that calls SetMeshOutputCounts: InvalidPipelineForMeshIntrinsic)
        let graphics = all_mesh || rng.chance(1, 3);
        let single = if graphics && !all_mesh && rng.chance(1, 4) { Some(*rng.pick(&['v', 'p'])) } else { None };
        let mut pipe = Pipe { name, dflt, graphics, uses, share: None, dspell, mesh: all_mesh, single };
        // now and then the same entry points as an earlier pipeline (with, mostly, another default group)
        if k > 0 && rng.chance(1, 4) {
            let j = rng.below(k as u64) as usize;
            let earlier: &Pipe = &pipes[j];
            if earlier.share.is_none() {
                pipe.graphics = earlier.graphics;
                pipe.mesh = earlier.mesh;
                pipe.single = earlier.single;
                pipe.uses = Vec::new();
                pipe.share = Some(j);
            }
        }
        pipes.push(pipe);
    }
    pipes
}

pub fn gen_prog(rng: &mut Rng, min_pipes: usize) -> Prog {
    let nres = rng.range(0, 9) as usize;
    let mut res: Vec<Res> = Vec::new();
    for i in 0..nres {
        let r = gen_res(rng, i, &res);
        res.push(r);
    }
    normalise(&mut res);
    let pipes = gen_pipes(rng, nres, min_pipes);
    Prog { res, pipes }
}

/// The declarator matrix: one declaration with two or three declarators, every way the FIRST declarator / the
/// declaration can spell a group x every way a LATER declarator can (nothing, a register space, a register index,
/// both), the groups equal to / different from the default groups of the pipelines; a single resource before and
/// after it so that the ranges of the groups involved are shared with other declarations.
pub fn matrix_progs(rng: &mut Rng) -> Vec<Prog> {
    let mut v = Vec::new();
    let plain: Vec<&'static str> = KINDS.iter().map(|k| k.0).filter(|k| *k != "ConstantBuffer").collect();
    for head_form in 0..8 {
        for later_form in 0..4 {
            let kind = if rng.chance(1, 4) { *rng.pick(SAMPLERS) } else { *rng.pick(&plain) };
            let d0 = rng.below(3) as u32;
            let d1 = (d0 + 1 + rng.below(2) as u32) % 4;
            let g = *rng.pick(&[d0, d1, (d0 + 2) % 4, 3]);
            let k = *rng.pick(&[d0, d1, g, (g + 1) % 4]);
            let blank = |name: &str, decl: Decl| Res {
                name: name.to_string(),
                decl,
                how: How::Attr,
                lang_index: None,
                bindless: false,
                ns: false,
                unsized_arr: false,
                dim2: false,
                joined: false,
                extra: Vec::new(),
                pre_group: None,
                wrong_class: false,
                bad_attr: None,
                extern_kw: false,
                groupshared: false,
                static_ss: false,
                dup_kw: false,
                sp: Spell::default(),
            };
            let alen = |rng: &mut Rng| if rng.chance(1, 3) { Some(rng.range(1, 3) as u32) } else { None };
            let mut head = blank("g_a", Decl::Global { set: None, ss: false, kind: Some(kind), len: alen(rng) });
            let idx = rng.below(8) as u32;
            let (set, how, li) = match head_form {
                0 => (None, How::Attr, None),
                1 => (Some(g), How::Attr, None),
                2 => (Some(g), How::Space, None),
                3 => (None, How::Space, Some(idx)),
                4 => (Some(g), How::Space, Some(idx)),
                5 => (None, How::VkBinding, Some(idx)),
                6 => (Some(g), How::VkBinding, Some(idx)),
                _ => (Some(g), How::Override, None),
            };
            if let Decl::Global { set: s, .. } = &mut head.decl {
                *s = set;
            }
            head.how = how;
            head.lang_index = li;
            let later = |rng: &mut Rng, name: &str, form: u64| {
                let (set, li) = match form {
                    0 => (None, None),
                    1 => (Some(k), None),
                    2 => (None, Some(rng.below(8) as u32)),
                    _ => (Some(k), Some(rng.below(8) as u32)),
                };
                let mut r = blank(name, Decl::Global { set, ss: false, kind: Some(kind), len: alen(rng) });
                r.how = How::Space;
                r.lang_index = li;
                r.joined = true;
                r
            };
            let before = blank("g_p", Decl::Global { set: *rng.pick(&[None, Some(g), Some(k)]), ss: false, kind: Some(*rng.pick(&plain)), len: alen(rng) });
            let after = blank("g_q", Decl::Global { set: *rng.pick(&[None, Some(g), Some(k)]), ss: false, kind: Some(*rng.pick(&plain)), len: alen(rng) });
            let mut res = vec![before, head, later(rng, "g_b", later_form)];
            if rng.chance(1, 2) {
                let form = rng.below(4);
                res.push(later(rng, "g_c", form));
            }
            res.push(after);
            normalise(&mut res);
            let n = res.len();
            let pipes = vec![
                Pipe { name: "P0".into(), dflt: Some(d0), graphics: false, uses: (0..n).collect(), share: None, dspell: String::new(), mesh: false, single: None },
                Pipe { name: "P1".into(), dflt: if d1 == 0 && rng.chance(1, 2) { None } else { Some(d1) }, graphics: rng.chance(1, 3), uses: (0..n).filter(|_| rng.chance(1, 2)).collect(), share: None, dspell: String::new(), mesh: false, single: None },
            ];
            v.push(Prog { res, pipes });
        }
    }
    v
}

/// The spelling matrix: kind x way of writing the same declaration (const, typedef, array typedef, the array length as
/// a constant expression / a named constant, nested namespace, declared after the functions / after the pipelines,
/// everything together, other kinds of root definitions in between), one plain resource of the same group before and
/// after it: the slots must be what the plain spelling gives.
pub fn spelling_progs(rng: &mut Rng, all_kinds: bool) -> Vec<Prog> {
    let mut v = Vec::new();
    let blank = |name: &str, decl: Decl| Res {
        name: name.to_string(),
        decl,
        how: How::Attr,
        lang_index: None,
        bindless: false,
        ns: false,
        unsized_arr: false,
        dim2: false,
        joined: false,
        extra: Vec::new(),
        pre_group: None,
        wrong_class: false,
        bad_attr: None,
        extern_kw: false,
        groupshared: false,
        static_ss: false,
        dup_kw: false,
        sp: Spell::default(),
    };
    let kinds: Vec<&'static str> = if all_kinds {
        KINDS.iter().map(|k| k.0).collect()
    } else {
        (0..5).map(|_| rng.pick(KINDS).0).collect()
    };
    for kind in kinds {
        for form in 0..11 {
            let set = *rng.pick(&[None, None, Some(1), Some(2)]);
            let plain = *rng.pick(&["Texture2D", "RWStructuredBuffer", "ByteAddressBuffer", "SamplerState", "BufferAddress"]);
            let before = blank("g_p", Decl::Global { set, ss: false, kind: Some(plain), len: if rng.chance(1, 2) { Some(2) } else { None } });
            let mut after = blank("g_q", Decl::Global { set, ss: false, kind: Some(plain), len: None });
            let needs_len = matches!(form, 2..=5 | 9);
            let len = if needs_len || rng.chance(1, 3) { Some(rng.range(1, 3) as u32) } else { None };
            let mut mid = blank("g_m", Decl::Global { set, ss: false, kind: Some(kind), len });
            mid.how = *rng.pick(&[How::Attr, How::VkBinding]);
            if mid.how == How::VkBinding && set.is_some() {
                mid.lang_index = Some(rng.below(8) as u32);
            }
            let mut res = Vec::new();
            match form {
                0 => mid.sp.const_kw = true,
                1 => mid.sp.typedefd = true,
                2 => mid.sp.typedef_arr = true,
                3 | 4 | 5 => mid.sp.len_expr = Some(form - 3),
                6 => {
                    mid.ns = true;
                    mid.sp.nested_ns = true;
                }
                7 | 8 => {
                    mid.sp.late = form - 6;
                    after.sp.late = form - 6;
                }
                9 => {
                    mid.sp = Spell { const_kw: true, typedefd: true, typedef_arr: true, len_expr: Some(2), other_form: 0, nested_ns: true, late: 0, member_ann: None };
                    mid.ns = true;
                    mid.extern_kw = true;
                }
                _ => {}
            }
            res.push(before);
            if form == 10 {
                for (n, f) in [("S1", 1), ("S2", 2)] {
                    let mut o = blank(n, Decl::Other);
                    o.sp.other_form = f;
                    res.push(o);
                }
            }
            res.push(mid);
            if form == 10 {
                for (n, f) in [("S3", 3), ("S4", 4)] {
                    let mut o = blank(n, Decl::Other);
                    o.sp.other_form = f;
                    res.push(o);
                }
            }
            res.push(after);
            normalise(&mut res);
            let n = res.len();
            let d0 = rng.below(3) as u32;
            let pipes = vec![
                Pipe { name: "P0".into(), dflt: Some(d0), graphics: false, uses: (0..n).collect(), share: None, dspell: String::new(), mesh: false, single: None },
                Pipe { name: "P1".into(), dflt: Some((d0 + 1) % 3), graphics: rng.chance(1, 3), uses: (0..n).filter(|_| rng.chance(1, 2)).collect(), share: None, dspell: String::new(), mesh: false, single: None },
            ];
            v.push(Prog { res, pipes });
        }
    }
    v
}

/// all targets x {whole file, each pipeline by name, an unknown name now and then, no-pipeline mode}
pub fn run_prog(p: &Prog, rng: &mut Rng, out: &mut Out, hist: &mut Hist) {
    hist.add(&format!("e2e:pipes={}", p.pipes.len()));
    if p.pipes.iter().any(|x| x.share.is_some()) {
        hist.add("e2e:shared-entry-points");
    }
    for x in &p.pipes {
        hist.add(if x.single.is_some() { "e2e:pipe:single-graphics-stage" } else if x.mesh { "e2e:pipe:mesh+pixel" } else if x.graphics { "e2e:pipe:vertex+pixel" } else { "e2e:pipe:compute" });
        if !x.dspell.is_empty() && x.dflt.is_some() {
            hist.add("e2e:pipe:default-group-spelled-otherwise");
        }
        if x.name != format!("P{}", p.pipes.iter().position(|y| y.name == x.name).unwrap_or(0)) {
            hist.add("e2e:pipe:unusual-name");
        }
    }
    let distinct: std::collections::BTreeSet<u32> = p.pipes.iter().map(|x| x.dflt.unwrap_or(0)).collect();
    hist.add(&format!("e2e:distinct-default-groups={}", distinct.len()));
    for r in &p.res {
        hist.add(match &r.decl {
            Decl::Other => "e2e:decl:other",
            Decl::StaticObject { .. } => "e2e:decl:static-object",
            Decl::CBuffer(_) => "e2e:decl:cbuffer",
            Decl::Global { kind: None, .. } => "e2e:decl:non-object",
            Decl::Global { ss: true, .. } => "e2e:decl:static-sampler",
            Decl::Global { .. } if r.unsized_arr => "e2e:decl:unsized-array",
            Decl::Global { .. } if r.dim2 => "e2e:decl:two-dimensional-array",
            Decl::Global { len: Some(_), .. } => "e2e:decl:object-array",
            Decl::Global { .. } => "e2e:decl:object",
        });
        if r.joined { hist.add("e2e:flag:joined-declarator"); }
        if r.pre_group.is_some() { hist.add("e2e:flag:two-group-attributes"); }
        if r.bad_attr.is_some() { hist.add("e2e:flag:ill-formed-attribute"); }
        if r.extern_kw && !r.joined { hist.add("e2e:flag:extern-keyword"); }
        if r.groupshared && !r.joined { hist.add("e2e:flag:groupshared"); }
        if r.extra.len() > 0 { hist.add("e2e:flag:repeated-annotation"); }
        if r.ns { hist.add("e2e:flag:namespace"); }
        if r.bindless { hist.add("e2e:flag:bindless"); }
        if r.lang_index.is_some() { hist.add("e2e:flag:explicit-register-index"); }
        match r.how {
            How::Space => hist.add("e2e:how:register-space"),
            How::VkBinding => hist.add("e2e:how:vk-binding"),
            How::Override => hist.add("e2e:how:attribute-overrides-register-space"),
            How::Attr => {}
        }
    }
    for i in 0..p.res.len() {
        if !p.res[i].joined {
            continue;
        }
        // what each declarator of a declaration with several declarators says about its group
        let h = head_of(&p.res, i);
        let attr = decl_attrs(&p.res[h]).iter().any(|a| matches!(a, AttrText::BindGroup(_) | AttrText::VkBinding(_, Some(_))));
        let space = |k: usize| own_anns(&p.res[k]).iter().any(|a| matches!(a.0, Ann::Reg(_, Some(_))));
        let any = |k: usize| !own_anns(&p.res[k]).is_empty();
        hist.add(&format!(
            "e2e:declarators:{}earlier-{}/later-{}",
            if attr { "attribute-group+" } else { "" },
            if (h..i).any(space) { "register-space" } else if (h..i).any(any) { "register-index" } else { "plain" },
            if space(i) { "register-space" } else if any(i) { "register-index" } else { "plain" }
        ));
    }
    if invalid_annotation(&p.res) {
        hist.add("e2e:program-with-an-ill-formed-annotation");
    }
    for r in &p.res {
        if r.sp.const_kw && !r.joined { hist.add("e2e:spell:const"); }
        if r.sp.typedefd && !r.joined { hist.add("e2e:spell:typedef"); }
        if r.sp.typedef_arr { hist.add("e2e:spell:typedef-array"); }
        if let Some(n) = r.sp.len_expr { hist.add(&format!("e2e:spell:length-expression-{}", n)); }
        if r.sp.other_form > 0 { hist.add(&format!("e2e:spell:other-form-{}", r.sp.other_form)); }
        if r.sp.nested_ns { hist.add("e2e:spell:nested-namespace"); }
        if r.sp.late > 0 && !r.joined { hist.add(&format!("e2e:spell:declared-late-{}", r.sp.late)); }
    }
    let unknown = rng.chance(1, 6);
    for t in ALL_TARGETS {
        // now and then other compile() options: none of them may move a slot; buffer addresses on every target
        let mut tgt = Cfg::plain(t);
        if rng.chance(1, 3) {
            tgt.ba = rng.chance(1, 3);
            tgt.layout = rng.chance(1, 3);
            tgt.srcinfo = rng.chance(1, 3);
            tgt.defines = rng.chance(1, 3);
            tgt.np_name = rng.chance(1, 3);
        }
        hist.add(&format!("e2e:cfg:{}", t.name()));
        for (on, name) in [(tgt.ba, "buffer-address-forced"), (tgt.layout, "validate-layout"), (tgt.srcinfo, "source-info"), (tgt.defines, "defines"), (tgt.np_name, "name-in-no-pipeline-mode")] {
            if on {
                hist.add(&format!("e2e:opt:{}", name));
            }
        }
        if tgt.eff().is_none() {
            hist.add("e2e:cfg:buffer-address-on-a-target-without");
        }
        run_case(tgt, &Mode::All, p, out, hist);
        for pipe in &p.pipes {
            run_case(tgt, &Mode::Named(pipe.name.clone()), p, out, hist);
        }
        if unknown {
            // an unknown name; now and then a proper prefix / an extension of an existing name
            let mut n = "Nope".to_string();
            if let Some(first) = p.pipes.first() {
                let c = match rng.below(3) {
                    0 => format!("{}0", first.name),
                    1 => first.name[..first.name.len() - 1].to_string(),
                    _ => n.clone(),
                };
                if !c.is_empty() && !p.pipes.iter().any(|q| q.name == c) {
                    n = c;
                }
            }
            run_case(tgt, &Mode::Named(n), p, out, hist);
        }
        // (no-pipeline mode of a file with a mesh entry point is refused by the Metal exporter)
        if !(t == Tgt::Msl && p.pipes.iter().any(|x| x.mesh)) {
            run_case(tgt, &Mode::NoPipeline, p, out, hist);
        }
    }
}

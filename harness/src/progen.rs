//! Generator of whole shader files: resources, helper functions, entry points and pipelines.
//! Shared by the whole-compiler properties (C05 C07 C17 C18).
#![allow(dead_code)]

use crate::util::*;

#[derive(Clone, Debug, PartialEq)]
pub struct Resource {
    pub name: String,
    /// source spelling of the type, e.g. `Texture2D<float4>`; `cbuffer` for a cbuffer block
    pub ty: String,
    pub kind: String,
    pub group: Option<u32>,
    pub len: Option<u32>,
    pub static_sampler: bool,
    pub bindless: bool,
}

#[derive(Clone, Debug, PartialEq)]
pub struct Func {
    pub name: String,
    /// indices of resources mentioned directly
    pub uses: Vec<usize>,
    /// indices of helper functions called (only lower indices: no recursion)
    pub calls: Vec<usize>,
    /// indices of the static globals `s_value<k>` the function reads and writes
    pub statics: Vec<usize>,
}

#[derive(Clone, Copy, Debug, PartialEq, Eq)]
pub enum PipeKind {
    Compute,
    VertexPixel,
    MeshPixel,
    TaskMesh,
}

#[derive(Clone, Debug, PartialEq)]
pub struct Entry {
    pub stage: &'static str,
    pub func: Func,
    pub threads: Option<(u32, u32, u32)>,
}

#[derive(Clone, Debug, PartialEq)]
pub struct Pipe {
    pub name: String,
    pub kind: PipeKind,
    /// indices into Program::entries, in property order
    pub stages: Vec<usize>,
    pub default_group: Option<u32>,
}

#[derive(Clone, Debug, PartialEq)]
pub struct Program {
    /// number of `static int s_value<k>` globals (threaded through functions as parameters on Metal)
    pub nstatics: usize,
    pub resources: Vec<Resource>,
    pub helpers: Vec<Func>,
    pub entries: Vec<Entry>,
    pub pipes: Vec<Pipe>,
}

pub const RES_KINDS: &[(&str, &str)] = &[
    ("Buffer", "Buffer<float4>"),
    ("RWBuffer", "RWBuffer<float4>"),
    ("ByteAddressBuffer", "ByteAddressBuffer"),
    ("RWByteAddressBuffer", "RWByteAddressBuffer"),
    ("BufferAddress", "BufferAddress"),
    ("RWBufferAddress", "RWBufferAddress"),
    ("StructuredBuffer", "StructuredBuffer<float4>"),
    ("RWStructuredBuffer", "RWStructuredBuffer<float4>"),
    ("Texture2D", "Texture2D<float4>"),
    ("Texture2DArray", "Texture2DArray<float4>"),
    ("RWTexture2D", "RWTexture2D<float4>"),
    ("TextureCube", "TextureCube<float4>"),
    ("Texture3D", "Texture3D<float4>"),
    ("RWTexture3D", "RWTexture3D<float4>"),
    ("ConstantBuffer", "ConstantBuffer<CbS>"),
    ("SamplerState", "SamplerState"),
    ("SamplerComparisonState", "SamplerComparisonState"),
    ("cbuffer", "cbuffer"),
];

pub struct GenOpts {
    pub max_resources: u64,
    pub max_helpers: u64,
    pub max_pipes: u64,
    pub allow_mesh: bool,
    pub share_entries: bool,
}

impl Default for GenOpts {
    fn default() -> Self {
        GenOpts { max_resources: 7, max_helpers: 4, max_pipes: 4, allow_mesh: true, share_entries: true }
    }
}

pub fn gen_program(rng: &mut Rng, opts: &GenOpts) -> Program {
    let nres = rng.below(opts.max_resources + 1) as usize;
    let mut resources = Vec::new();
    for i in 0..nres {
        let (kind, ty) = *rng.pick(RES_KINDS);
        let is_sampler = kind.starts_with("Sampler");
        let static_sampler = is_sampler && rng.chance(1, 2);
        let can_array = kind != "cbuffer" && !static_sampler && kind != "ConstantBuffer";
        let len = if can_array && rng.chance(1, 4) { Some(rng.range(1, 3) as u32) } else { None };
        let bindless = len.is_some() && rng.chance(1, 3) && !kind.contains("Address");
        resources.push(Resource {
            name: format!("g_r{}", i),
            ty: ty.to_string(),
            kind: kind.to_string(),
            group: if rng.chance(1, 3) { Some(rng.below(3) as u32) } else { None },
            len,
            static_sampler,
            bindless,
        });
    }
    let nstatics = rng.below(5) as usize;
    let nh = rng.below(opts.max_helpers + 1) as usize;
    let mut helpers: Vec<Func> = Vec::new();
    for i in 0..nh {
        let f = gen_func(rng, format!("helper{}", i), nres, i, nstatics);
        helpers.push(f);
    }
    let np = rng.below(opts.max_pipes + 1) as usize;
    let mut entries: Vec<Entry> = Vec::new();
    let mut pipes = Vec::new();
    for i in 0..np {
        let kind = match rng.below(if opts.allow_mesh { 6 } else { 4 }) {
            0 | 1 => PipeKind::Compute,
            2 | 3 => PipeKind::VertexPixel,
            4 => PipeKind::MeshPixel,
            _ => PipeKind::TaskMesh,
        };
        let stage_names: &[&'static str] = match kind {
            PipeKind::Compute => &["Compute"],
            PipeKind::VertexPixel => &["Vertex", "Pixel"],
            PipeKind::MeshPixel => &["Mesh", "Pixel"],
            PipeKind::TaskMesh => &["Task", "Mesh"],
        };
        let mut stages = Vec::new();
        for st in stage_names {
            // optionally share an existing entry point of the same stage (not mesh: payload signatures differ)
            let reuse: Vec<usize> = entries
                .iter()
                .enumerate()
                .filter(|(_, e)| e.stage == *st && *st != "Mesh" && *st != "Task")
                .map(|(k, _)| k)
                .collect();
            if opts.share_entries && !reuse.is_empty() && rng.chance(1, 4) {
                stages.push(*rng.pick(&reuse));
                continue;
            }
            let k = entries.len();
            let prefix = match *st {
                "Compute" => "cs",
                "Vertex" => "vs",
                "Pixel" => "ps",
                "Mesh" => if kind == PipeKind::TaskMesh { "mst" } else { "ms" },
                _ => "ts",
            };
            let func = gen_func(rng, format!("{}_{}", prefix, k), nres, nh, nstatics);
            let threads = match *st {
                "Compute" => Some((1 << rng.below(4) as u32, 1 << rng.below(3) as u32, 1)),
                "Mesh" | "Task" => Some((64, 1, 1)),
                _ => None,
            };
            entries.push(Entry { stage: st, func, threads });
            stages.push(k);
        }
        pipes.push(Pipe {
            name: format!("P{}", i),
            kind,
            stages,
            default_group: if rng.chance(1, 3) { Some(rng.below(3) as u32) } else { None },
        });
    }
    Program { nstatics, resources, helpers, entries, pipes }
}

fn gen_func(rng: &mut Rng, name: String, nres: usize, nhelpers_before: usize, nstatics: usize) -> Func {
    let mut uses = Vec::new();
    for r in 0..nres {
        if rng.chance(1, 3) {
            uses.push(r);
        }
    }
    let mut calls = Vec::new();
    for h in 0..nhelpers_before {
        if rng.chance(1, 3) {
            calls.push(h);
        }
    }
    let mut statics = Vec::new();
    for k in 0..nstatics {
        if rng.chance(1, 2) {
            statics.push(k);
        }
    }
    Func { name, uses, calls, statics }
}

fn body(p: &Program, f: &Func) -> String {
    let mut s = String::new();
    for r in &f.uses {
        let res = &p.resources[*r];
        if res.kind == "cbuffer" {
            s.push_str(&format!("    {}_v;\n", res.name));
        } else if res.len.is_some() {
            s.push_str(&format!("    {}[0u];\n", res.name));
        } else {
            s.push_str(&format!("    {};\n", res.name));
        }
    }
    for h in &f.calls {
        s.push_str(&format!("    {}();\n", p.helpers[*h].name));
    }
    for k in &f.statics {
        s.push_str(&format!("    s_value{} = s_value{} + 1;\n", k, k));
    }
    s
}

/// Render the program; `keep` selects which pipeline *definitions* are written (all functions stay)
pub fn render(p: &Program, keep: &dyn Fn(usize) -> bool) -> String {
    let mut s = String::new();
    s.push_str("struct CbS { float4 v; };\n");
    for k in 0..p.nstatics {
        s.push_str(&format!("static int s_value{} = 0;\n", k));
    }
    s.push_str("struct MeshVertex { float4 position : SV_Position; };\nstruct TaskPayload { uint start_location; };\ngroupshared TaskPayload lds_payload;\n");
    for r in &p.resources {
        if r.bindless {
            s.push_str("[[rssl::bindless]] ");
        }
        if let Some(g) = r.group {
            s.push_str(&format!("[[rssl::bind_group({})]] ", g));
        }
        if r.kind == "cbuffer" {
            s.push_str(&format!("cbuffer {} {{ float4 {}_v; }}\n", r.name, r.name));
            continue;
        }
        s.push_str(&format!("{} {}", r.ty, r.name));
        if let Some(n) = r.len {
            s.push_str(&format!("[{}]", n));
        }
        if r.static_sampler {
            s.push_str(" = StaticSampler { Filter = MIN_MAG_MIP_LINEAR; }");
        }
        s.push_str(";\n");
    }
    for h in &p.helpers {
        s.push_str(&format!("void {}() {{\n{}}}\n", h.name, body(p, h)));
    }
    for e in &p.entries {
        let b = body(p, &e.func);
        let n = &e.func.name;
        match e.stage {
            "Compute" => {
                let t = e.threads.unwrap();
                s.push_str(&format!(
                    "[numthreads({}, {}, {})]\nvoid {}(uint3 dtid : SV_DispatchThreadID) {{\n{}}}\n",
                    t.0, t.1, t.2, n, b
                ));
            }
            "Vertex" => s.push_str(&format!(
                "void {}(uint vid : SV_VertexID, out float4 o_pos : SV_Position) {{\n{}    o_pos = float4(0, 0, 0, 1);\n}}\n",
                n, b
            )),
            "Pixel" => s.push_str(&format!(
                "float4 {}(float4 i_pos : SV_Position) : SV_Target0 {{\n{}    return float4(0, 0, 0, 0);\n}}\n",
                n, b
            )),
            "Task" => s.push_str(&format!(
                "[numthreads(64, 1, 1)]\nvoid {}(uint3 dtid : SV_DispatchThreadID) {{\n{}    lds_payload.start_location = dtid.x;\n    DispatchMesh(4u, 1u, 1u, lds_payload);\n}}\n",
                n, b
            )),
            _ => {
                let payload = if n.starts_with("mst") { "    in payload TaskPayload data,\n" } else { "" };
                s.push_str(&format!(
                    "[numthreads(64, 1, 1)]\n[outputtopology(\"triangle\")]\nvoid {}(\n    uint3 dtid : SV_DispatchThreadID,\n{}    out vertices MeshVertex o_vertices[64],\n    out indices uint3 o_triangles[64]\n) {{\n{}    SetMeshOutputCounts(64, 64);\n    MeshVertex vertex;\n    vertex.position = float4(0, 0, 0, 1);\n    o_vertices[dtid.x] = vertex;\n    o_triangles[dtid.x] = uint3(0, 1, 2);\n}}\n",
                    n, payload, b
                ));
            }
        }
    }
    for (i, pipe) in p.pipes.iter().enumerate() {
        if !keep(i) {
            continue;
        }
        s.push_str(&format!("Pipeline {}\n{{\n", pipe.name));
        for k in &pipe.stages {
            let e = &p.entries[*k];
            s.push_str(&format!("    {}Shader = {};\n", e.stage, e.func.name));
        }
        if let Some(g) = pipe.default_group {
            s.push_str(&format!("    DefaultBindGroup = {};\n", g));
        }
        s.push_str("}\n");
    }
    s
}

/// `P0:Compute=cs_0;P1:Vertex=vs_1,Pixel=ps_2` for the kept pipelines
pub fn describe_pipes(p: &Program, keep: &dyn Fn(usize) -> bool) -> String {
    let mut parts = Vec::new();
    for (i, pipe) in p.pipes.iter().enumerate() {
        if !keep(i) {
            continue;
        }
        let st: Vec<String> = pipe
            .stages
            .iter()
            .map(|k| format!("{}={}", p.entries[*k].stage, p.entries[*k].func.name))
            .collect();
        parts.push(format!("{}:{}", pipe.name, st.join(",")));
    }
    parts.join(";")
}
